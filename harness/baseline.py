#!/venv/bin/python
"""Run /repo's pinned test suite (command from /root/.vp/BASELINE.json when present) and
compare with the stable-pass list.  Exit 0 iff every stable-pass test passes."""
import json, os, subprocess, sys, tempfile, xml.etree.ElementTree as ET

HERE = os.path.dirname(os.path.abspath(__file__))
BASE = "/root/.vp/BASELINE.json"
FALLBACK = os.path.join(HERE, "baseline_stable.json")

def main():
    src = BASE if os.path.exists(BASE) else FALLBACK
    stable = json.load(open(src))["stable_pass"]
    with tempfile.TemporaryDirectory() as td:
        jx = os.path.join(td, "j.xml")
        env = dict(os.environ)
        env.pop("BROADBEAN_VERIF", None)
        subprocess.run(["/venv/bin/python", "-m", "pytest", "-ra", "-q", "-p", "no:cacheprovider",
                        "--timeout=900", "--continue-on-collection-errors", f"--junitxml={jx}"],
                       cwd="/repo", env=env, stdout=subprocess.DEVNULL, stderr=subprocess.DEVNULL)
        passed = set()
        for tc in ET.parse(jx).getroot().iter("testcase"):
            if not any(ch.tag in ("failure", "error", "skipped") for ch in tc):
                passed.add(f"{tc.get('classname')}::{tc.get('name')}")
    missing = [t for t in stable if t not in passed]
    print(f"stable_pass={len(stable)} passed_of_those={len(stable)-len(missing)}")
    for m in missing:
        print("MISSING", m)
    sys.exit(1 if missing else 0)

main()
