"""Walk the real Python objects behind user-held BluePrint / Element / Sequence instances.

`cells(obj)`  : {id: kind} of every mutable container reachable from obj ('mut', 'filter' for a nested
                dict inside Sequence._awgspecs, 'ndarray'); strings, numbers, tuples, None and callables are
                values, not cells (tuples are looked through).
`snapshot(obj)`: a canonical structural value of everything reachable except the validation caches
                (`_meta`), used to decide whether a call changed an object.
Used for the correspondence with the reference-level model BB.Model.Heap."""
import hashlib

import numpy as np

ATOMS = (str, bytes, int, float, complex, bool, type(None), np.generic)

# the state attributes of the three classes (what BB.Model.Heap models); further attributes a
# rewrite may add (memo tables, ...) are not part of the observation
STATE_ATTRS = {"BluePrint": ("_funlist", "_argslist", "_namelist", "marker1", "marker2", "_segmark1", "_segmark2", "_durslist", "_SR"),
               "Element": ("_data", "_meta"),
               "Sequence": ("_data", "_sequencing", "_awgspecs", "_meta", "_name")}


def state_items(o):
    names = STATE_ATTRS.get(type(o).__name__)
    d = vars(o)
    if names is None:
        return list(d.items())
    return [(n, d[n]) for n in names if n in d]


def cells(obj):
    seen = {}

    def visit(o, role):
        if isinstance(o, ATOMS) or callable(o):
            return
        if isinstance(o, (tuple, frozenset)):
            # a dict inside an argument tuple (the keyword arguments of an arb_func segment) is handed on by
            # copy() / + as it is; no method writes into it (changeArg replaces the tuple): frozen, like a filter dict
            for x in o:
                visit(x, "filter" if isinstance(x, dict) else None)
            return
        if id(o) in seen:
            return
        if isinstance(o, np.ndarray):
            seen[id(o)] = "ndarray"
            return
        if isinstance(o, dict):
            seen[id(o)] = "filter" if role == "filter" else "mut"
            for k, v in o.items():
                visit(v, "filter" if role == "awgspecs" else None)
            return
        if isinstance(o, (list, set)):
            seen[id(o)] = "filter" if role == "filter" else "mut"
            for x in o:
                # a marker pair handed over as a list [t, dur] instead of a tuple: copy() hands it on as it is and no
                # library method writes into it (the setters replace the pair): frozen, recorded but not judged
                pair = isinstance(x, list) and len(x) == 2 and all(isinstance(y, ATOMS) for y in x)
                visit(x, "filter" if pair else None)
            return
        if hasattr(o, "__dict__"):
            seen[id(o)] = "mut"
            for name, v in state_items(o):
                visit(v, "awgspecs" if name == "_awgspecs" else None)
            return
        seen[id(o)] = "mut"

    visit(obj, None)
    return seen


def snapshot(o):
    if isinstance(o, np.ndarray):
        return ("nd", o.shape, str(o.dtype), hashlib.sha1(np.ascontiguousarray(o).tobytes()).hexdigest())
    if isinstance(o, np.generic):
        return ("np", type(o).__name__, repr(o.item()))       # type-aware: np.int64(2) turning into 2 is a change
    if isinstance(o, ATOMS):
        return repr(o)
    if callable(o):
        return ("f", getattr(o, "__qualname__", repr(o)))
    if isinstance(o, dict):
        return ("d", tuple((repr(k), snapshot(v)) for k, v in o.items()))
    if isinstance(o, (list, tuple)):
        return ("l", tuple(snapshot(x) for x in o))
    if hasattr(o, "__dict__"):
        return ("o", type(o).__name__, tuple((n, snapshot(v)) for n, v in state_items(o) if n != "_meta"))
    return repr(o)


def summary(pool, names, prev):
    """(result for the protocol, new `prev`)"""
    live = [(n, pool[n]) for n in names if n in pool]
    reach = [(n, cells(o)) for n, o in live]
    shared = []
    for i, (a, ca) in enumerate(reach):
        for b, cb in reach[i + 1:]:
            sh = set(ca) & set(cb)
            if sh:
                x, y = (a, b) if a < b else (b, a)
                shared.append([x, y, sum(1 for c in sh if ca[c] == "mut"), sum(1 for c in sh if ca[c] == "filter"),
                               sum(1 for c in sh if ca[c] == "ndarray")])
    now = {n: snapshot(o) for n, o in live}
    changed = [n for n in now if n in prev and prev[n] != now[n]]
    return {"shared": sorted(shared), "changed": sorted(changed), "fault": False}, now
