#!/venv/bin/python
"""Tier A: regenerate the Lean kernels from /repo/src/broadbean (parsed with `ast`, never
imported).  Emits
   lean/BB/Gen/K.lean      executable, core `Rat`/`Int` (used by the model and by theorems over Q)
   lean/BB/Gen/KReal.lean  noncomputable, Mathlib R / C   (closed forms, RC transfer functions)
   lean/BB/Gen/KFloat.lean executable, `Float`            (numeric validation of the translation)
Files are rewritten only when their text changes.  See DESIGN.md section 4.1."""
import ast
import re
import os
import sys
from fractions import Fraction

SRC = os.environ.get("BB_SRC", os.path.join(os.environ.get("BB_REPO", "/repo"), "src", "broadbean"))
HERE = os.path.dirname(os.path.abspath(__file__))
GEN = os.path.join(os.path.dirname(HERE), "lean", "BB", "Gen")


class Unsupported(Exception):
    pass


# ---------------------------------------------------------------------------
# expression printer


class P:
    """prints a Python expression AST as a Lean term in a numeric mode"""

    def __init__(self, mode, intvars=(), elementwise=None):
        self.mode = mode  # 'rat' | 'real' | 'float' | 'complex' | 'int'
        self.intvars = set(intvars)
        self.elementwise = elementwise or {}

    def ty(self):
        return {"rat": "Rat", "real": "ℝ", "float": "Float", "complex": "ℂ", "int": "Int"}[self.mode]

    def num(self, v):
        if isinstance(v, bool):
            raise Unsupported("bool literal")
        if isinstance(v, complex):
            if self.mode != "complex" or v.real != 0:
                raise Unsupported("complex literal")
            return f"({self.num_real(v.imag)} * Complex.I)"
        return self.num_real(v)

    def num_real(self, v):
        if isinstance(v, int):
            if self.mode == "float":
                return f"({v}.0 : Float)" if v >= 0 else f"(-{-v}.0 : Float)"
            return f"({v} : {self.ty()})"
        f = Fraction(*float(v).as_integer_ratio())
        if self.mode == "float":
            return f"({float(v)!r} : Float)"
        if self.mode == "int":
            raise Unsupported("float literal in an integer expression")
        if f.denominator == 1:
            return f"({f.numerator} : {self.ty()})"
        return f"(({f.numerator} : {self.ty()}) / {f.denominator})"

    def name(self, n):
        return n

    def e(self, x):
        if isinstance(x, ast.Constant):
            return self.num(x.value)
        if isinstance(x, ast.Name):
            return self.name(x.id)
        if isinstance(x, ast.Attribute):
            if isinstance(x.value, ast.Name) and x.value.id == "np" and x.attr == "pi":
                if self.mode in ("real", "complex"):
                    return "(Real.pi : " + self.ty() + ")"
                if self.mode == "float":
                    return "(3.141592653589793 : Float)"
                raise Unsupported("pi over Q")
            if isinstance(x.value, ast.Name) and x.value.id == "self":
                return x.attr  # self.SR -> SR
            raise Unsupported(ast.dump(x))
        if isinstance(x, ast.UnaryOp) and isinstance(x.op, ast.USub):
            return f"(-{self.e(x.operand)})"
        if isinstance(x, ast.BinOp):
            a, b = x.left, x.right
            if isinstance(x.op, ast.Pow):
                if isinstance(b, ast.Constant) and isinstance(b.value, int) and b.value >= 0:
                    if self.mode == "float":
                        return "(" + " * ".join([self.e(a)] * b.value) + ")" if b.value > 0 else "(1.0 : Float)"
                    return f"({self.e(a)} ^ {b.value})"
                if isinstance(b, ast.Name) and b.id in self.intvars:
                    return f"({self.e(a)} ^ {b.id})"
                raise Unsupported("power")
            op = {ast.Add: "+", ast.Sub: "-", ast.Mult: "*", ast.Div: "/"}.get(type(x.op))
            if op is None:
                raise Unsupported(ast.dump(x.op))
            return f"({self.e(a)} {op} {self.e(b)})"
        if isinstance(x, ast.Call):
            f = x.func
            if isinstance(f, ast.Attribute) and isinstance(f.value, ast.Name) and f.value.id == "np":
                if f.attr in ("exp", "sin") and len(x.args) == 1:
                    if self.mode == "real":
                        return f"(Real.{f.attr} {self.e(x.args[0])})"
                    if self.mode == "float":
                        return f"(Float.{f.attr} {self.e(x.args[0])})"
                    raise Unsupported(f.attr + " over Q")
            if isinstance(f, ast.Attribute) and f.attr in ("max", "min") and not x.args and isinstance(f.value, ast.Name):
                return f"{f.value.id}_{f.attr}"  # wfm.max() -> wfm_max
            if isinstance(f, ast.Name) and f.id == "len" and len(x.args) == 1 and isinstance(x.args[0], ast.Name):
                return f"len_{x.args[0].id}"
            if isinstance(f, ast.Name) and f.id == "abs" and len(x.args) == 1 and self.mode == "rat":
                return f"(BB.absR {self.e(x.args[0])})"
            if isinstance(f, ast.Name) and f.id == "int" and len(x.args) == 1:
                return self.e(x.args[0])
            raise Unsupported("call " + ast.dump(f))
        raise Unsupported(ast.dump(x))


def free_vars(x):
    """free variable names of an expression as the printer names them, in order of appearance"""
    out = []

    def add(n):
        if n not in out:
            out.append(n)

    def walk(n):
        if isinstance(n, ast.Name):
            add(n.id)
        elif isinstance(n, ast.Attribute):
            if isinstance(n.value, ast.Name) and n.value.id == "self":
                add(n.attr)
            elif isinstance(n.value, ast.Name) and n.value.id == "np":
                pass
            else:
                raise Unsupported(ast.dump(n))
        elif isinstance(n, ast.Call):
            f = n.func
            if isinstance(f, ast.Attribute) and f.attr in ("max", "min") and isinstance(f.value, ast.Name) and not n.args:
                add(f"{f.value.id}_{f.attr}")
            elif isinstance(f, ast.Name) and f.id == "len" and isinstance(n.args[0], ast.Name):
                add(f"len_{n.args[0].id}")
            elif isinstance(f, ast.Name) and f.id == "range":
                for a in n.args:
                    walk(a)
            else:
                for a in n.args:
                    walk(a)
        else:
            for c in ast.iter_child_nodes(n):
                walk(c)

    walk(x)
    return out


RAT_VARS = {"wfm_max", "wfm_min", "ampl", "off", "dur", "SR", "DCgain", "val"}


def var_type(v):
    return "Rat" if v in RAT_VARS else "Int"


def bool_test(t):
    """a guard test as a Lean Bool term.  Supported: comparison chains of arithmetic terms,
    `x not in [consts]`, `x in [consts]`, `x not in range(a, b)`, `not <test>`, and/or."""
    if isinstance(t, ast.BoolOp):
        op = " && " if isinstance(t.op, ast.And) else " || "
        return "(" + op.join(bool_test(v) for v in t.values) + ")"
    if isinstance(t, ast.UnaryOp) and isinstance(t.op, ast.Not):
        return f"(!{bool_test(t.operand)})"
    if isinstance(t, ast.Compare) and len(t.ops) == 1:
        a, op, b = t.left, t.ops[0], t.comparators[0]
        vs = free_vars(t)
        mode = "rat" if any(var_type(v) == "Rat" for v in vs) else "int"
        p = P(mode)
        if isinstance(op, (ast.NotIn, ast.In)):
            neg = isinstance(op, ast.NotIn)
            if isinstance(b, ast.List):
                if not all(isinstance(c, ast.Constant) and isinstance(c.value, int) and not isinstance(c.value, bool) for c in b.elts):
                    raise Unsupported("non-integer membership list")
                inner = "(" + " || ".join(f"decide ({p.e(a)} = {p.num(c.value)})" for c in b.elts) + ")" if b.elts else "false"
            elif isinstance(b, ast.Call) and isinstance(b.func, ast.Name) and b.func.id == "range" and len(b.args) == 2:
                lo, hi = b.args
                inner = f"(decide ({p.e(lo)} ≤ {p.e(a)}) && decide ({p.e(a)} < {p.e(hi)}))"
            else:
                raise Unsupported("membership in " + ast.dump(b))
            return f"(!{inner})" if neg else inner
        sym = {ast.Lt: "<", ast.LtE: "≤", ast.Gt: ">", ast.GtE: "≥", ast.Eq: "=", ast.NotEq: "≠"}.get(type(op))
        if sym is None:
            raise Unsupported(ast.dump(op))
        return f"decide ({p.e(a)} {sym} {p.e(b)})"
    raise Unsupported(ast.dump(t))


# ---------------------------------------------------------------------------
# source access


def parse(fn):
    with open(os.path.join(SRC, fn)) as f:
        return ast.parse(f.read())


def find_func(tree, name, cls=None):
    for n in ast.walk(tree):
        if isinstance(n, ast.ClassDef) and (cls is None or n.name == cls):
            for m in n.body:
                if isinstance(m, (ast.FunctionDef,)) and m.name == name:
                    return m
    if cls is None:
        for n in ast.walk(tree):
            if isinstance(n, ast.FunctionDef) and n.name == name:
                return n
    return None


def guards_of(fdef):
    """all `if <test>: raise X` in a function, in source order, with the tests of enclosing ifs"""
    out = []

    def visit(stmts, ctx):
        for s in stmts:
            if isinstance(s, ast.If):
                if len(s.body) == 1 and isinstance(s.body[0], ast.Raise):
                    exc = s.body[0].exc
                    cls = exc.func.id if isinstance(exc, ast.Call) and isinstance(exc.func, ast.Name) else "?"
                    out.append((s.test, ctx, cls))
                    visit(s.orelse, ctx)
                else:
                    visit(s.body, ctx + [s.test])
                    visit(s.orelse, ctx)
            elif isinstance(s, (ast.For, ast.While, ast.With, ast.Try)):
                visit(s.body, ctx)
                if hasattr(s, "orelse"):
                    visit(s.orelse, ctx)
            elif isinstance(s, ast.FunctionDef):
                pass

    visit(fdef.body, [])
    return out


SUFFIX = {"wfm_max": "Max", "wfm_min": "Min", "twait": "Twait", "nrep": "Nrep", "jump_to": "Jump",
          "goto": "Goto", "jump_state": "JumpState", "len_wfm": "Len"}

# kernel name -> (parameter list) ; emitted as `false` when the source has no such guard
EXPECTED_GUARDS = {
    "awgMaxBad": ["wfm_max", "ampl", "off"], "awgMinBad": ["wfm_min", "ampl", "off"],
    "awgTwaitBad": ["twait"], "awgNrepBad": ["nrep"], "awgJumpBad": ["jump_to", "seqlen"], "awgGotoBad": ["goto", "seqlen"],
    "seqxLenBad": ["len_wfm"], "seqxMaxBad": ["wfm_max", "ampl"], "seqxMinBad": ["wfm_min", "ampl"],
    "seqxTwaitBad": ["twait"], "seqxJumpStateBad": ["jump_state"], "seqxNrepBad": ["nrep"],
    "seqxJumpBad": ["jump_to", "seqlen"], "seqxGotoBad": ["goto", "seqlen"],
    "segTooShort": ["int_dur"], "durNonPositive": ["dur"], "durSubSample": ["dur", "SR"],
    "insertPosBad": ["pos"], "flagsLenBad": ["len_flags"], "dcGainBad": ["DCgain"],
}


GOLDEN_DEFS_USED = []


def golden_def(fn, name):
    """the last known good one-line definition of `name` (lean/golden/<fn>), or None"""
    path = os.path.join(os.path.dirname(HERE), "lean", "golden", fn)
    if not os.path.exists(path):
        return None
    for line in open(path).read().splitlines():
        if re.match(rf"(noncomputable )?def {re.escape(name)}\b", line):
            return line
    return None


def keep_golden(fn, name, report, why):
    """a kernel that cannot be located in the (possibly rewritten) source keeps its last known good
    definition; the tie for it then rests on the correspondence check alone (DESIGN.md 4.1)"""
    g = golden_def(fn, name)
    if g is None:
        raise Unsupported(f"{name}: {why} and no golden definition")
    report.append(f"{name}: {why} -> last known good definition kept (tie for it: correspondence check only)")
    GOLDEN_DEFS_USED.append(name)
    return g


def emit_guard(name, params, test, note=""):
    sig = " ".join(f"({v} : {var_type(v)})" for v in params)
    return f"def {name} {sig} : Bool := {test}{note}"


def collect_guards(report):
    seq = parse("sequence.py")
    bp = parse("blueprint.py")
    el = parse("element.py")
    rp = parse("ripasso.py")
    found = {}

    def take(fdef, prefix, namer):
        if fdef is None:
            report.append(f"function for {prefix} guards not found")
            return
        for test, ctx, cls in guards_of(fdef):
            try:
                vs = free_vars(test)
                nm = namer(vs, test)
                if nm is None or nm not in EXPECTED_GUARDS:
                    continue
                term = bool_test(test)
                # free variables must be among the kernel's parameters
                if not set(vs) <= set(EXPECTED_GUARDS[nm]):
                    report.append(f"{nm}: unexpected variables {vs}")
                    continue
                found.setdefault(nm, term)
            except Unsupported as e:
                report.append(f"{prefix}: unsupported guard skipped ({e})"[:160])

    def seq_namer(prefix):
        def f(vs, test):
            return prefix + SUFFIX[vs[0]] + "Bad" if vs and vs[0] in SUFFIX else None
        return f

    take(find_func(seq, "outputForAWGFile", "Sequence"), "awg", seq_namer("awg"))
    take(find_func(seq, "outputForSEQXFile", "Sequence"), "seqx", seq_namer("seqx"))
    take(find_func(bp, "_subelementBuilder"), "forge", lambda vs, t: "segTooShort" if vs == ["int_dur"] else None)
    take(find_func(bp, "changeDuration", "BluePrint"), "changeDuration",
         lambda vs, t: "durNonPositive" if vs == ["dur"] else ("durSubSample" if set(vs) == {"dur", "SR"} else None))
    take(find_func(bp, "insertSegment", "BluePrint"), "insertSegment", lambda vs, t: "insertPosBad" if vs == ["pos"] else None)
    take(find_func(el, "addFlags", "Element"), "addFlags", lambda vs, t: "flagsLenBad" if vs == ["len_flags"] else None)
    take(find_func(rp, "applyInverseRCFilter"), "applyInverseRCFilter", lambda vs, t: "dcGainBad" if vs == ["DCgain"] else None)
    lines = []
    for nm, params in EXPECTED_GUARDS.items():
        if nm in found:
            lines.append(emit_guard(nm, params, found[nm]))
        else:
            lines.append(keep_golden("K.lean", nm, report, "guard not located in the source"))
    return lines


# ---------------------------------------------------------------------------
# straight-line pulse functions


def pulse_body(fdef, mode, report):
    """translate a PulseAtoms static method into `let` bindings; returns (params, body lines)"""
    params = [a.arg for a in fdef.args.args]
    p = P(mode)
    lines = []
    arrays = set()
    for s in fdef.body:
        if isinstance(s, ast.Expr) and isinstance(s.value, ast.Constant):
            continue  # docstring
        if isinstance(s, ast.Assign) and len(s.targets) == 1 and isinstance(s.targets[0], ast.Name):
            tgt = s.targets[0].id
            v = s.value
            if (isinstance(v, ast.Call) and isinstance(v.func, ast.Attribute) and v.func.attr == "linspace"):
                a0, a1, a2 = v.args[:3]
                kw = {k.arg: k.value for k in v.keywords}
                if not (isinstance(kw.get("endpoint"), ast.Constant) and kw["endpoint"].value is False):
                    # endpoint included: step is (stop-start)/(n-1)
                    step = f"(({p.e(a1)} - {p.e(a0)}) / ({p.e(a2)} - {p.num(1)}))"
                else:
                    step = f"(({p.e(a1)} - {p.e(a0)}) / {p.e(a2)})"
                kk = {"rat": "((k : Int) : Rat)", "real": "(k : ℝ)", "float": "k.toFloat"}[mode]
                lines.append(f"  let {tgt} := {p.e(a0)} + {kk} * {step}")
                arrays.add(tgt)
                continue
            if (isinstance(v, ast.Call) and isinstance(v.func, ast.Attribute) and v.func.attr == "zeros"):
                lines.append(f"  let {tgt} := {p.num(0)}")
                continue
            lines.append(f"  let {tgt} := {p.e(v)}")
            continue
        if isinstance(s, ast.AugAssign) and isinstance(s.target, ast.Name):
            op = {ast.Add: "+", ast.Sub: "-", ast.Mult: "*", ast.Div: "/"}[type(s.op)]
            lines.append(f"  let {s.target.id} := {s.target.id} {op} {p.e(s.value)}")
            continue
        if isinstance(s, ast.Return):
            v = s.value
            if (isinstance(v, ast.Call) and isinstance(v.func, ast.Attribute) and v.func.attr == "zeros"):
                lines.append(f"  {p.num(0)}")
            else:
                lines.append(f"  {p.e(v)}")
            continue
        raise Unsupported("statement " + ast.dump(s)[:80])
    return params, lines


def emit_pulse(name, fdef, mode, report):
    ty = {"rat": "Rat", "real": "ℝ", "float": "Float"}[mode]
    params, lines = pulse_body(fdef, mode, report)
    sig = " ".join(params)
    nc = "noncomputable " if mode == "real" else ""
    return f"/-- PulseAtoms.{name}({', '.join(params)})[k] -/\n{nc}def {name} ({sig} : {ty}) (k : Nat) : {ty} :=\n" + "\n".join(lines)


def emit_arb_func(fdef, report):
    """PulseAtoms.arb_func(func, kwargs, SR, npts): `time = np.linspace(0, X, int(npts), endpoint=False)` and
    `return func(time, **kwargs)` -- the user function applied to the time axis and the keyword arguments as they are"""
    params = [a.arg for a in fdef.args.args]
    if len(params) != 4:
        raise Unsupported("arb_func: four parameters expected")
    fpar, kwpar = params[0], params[1]
    p = P("real")
    body = [st for st in fdef.body if not (isinstance(st, ast.Expr) and isinstance(st.value, ast.Constant))]
    if len(body) != 2 or not isinstance(body[0], ast.Assign) or not isinstance(body[1], ast.Return):
        raise Unsupported("arb_func: body is not `time = linspace(...); return func(time, **kwargs)`")
    tgt = body[0].targets[0].id if isinstance(body[0].targets[0], ast.Name) else None
    v = body[0].value
    if not (tgt and isinstance(v, ast.Call) and isinstance(v.func, ast.Attribute) and v.func.attr == "linspace" and len(v.args) >= 3):
        raise Unsupported("arb_func: time axis is not a linspace")
    kw = {k.arg: k.value for k in v.keywords}
    a0, a1, a2 = v.args[:3]
    if isinstance(kw.get("endpoint"), ast.Constant) and kw["endpoint"].value is False:
        step = f"(({p.e(a1)} - {p.e(a0)}) / {p.e(a2)})"
    else:
        step = f"(({p.e(a1)} - {p.e(a0)}) / ({p.e(a2)} - {p.num(1)}))"
    r = body[1].value
    ok = (isinstance(r, ast.Call) and isinstance(r.func, ast.Name) and r.func.id == fpar and len(r.args) == 1
          and isinstance(r.args[0], ast.Name) and r.args[0].id == tgt and len(r.keywords) == 1 and r.keywords[0].arg is None
          and isinstance(r.keywords[0].value, ast.Name) and r.keywords[0].value.id == kwpar)
    if not ok:
        raise Unsupported("arb_func: the return value is not func(time, **kwargs)")
    return (f"/-- PulseAtoms.arb_func({', '.join(params)})[k]: the user function, given the time axis and the keyword arguments -/\n"
            f"noncomputable def arb_func {{κ : Type}} ({fpar} : (Nat → ℝ) → κ → Nat → ℝ) ({kwpar} : κ) ({params[2]} {params[3]} : ℝ) (k : Nat) : ℝ :=\n"
            f"  let {tgt} := fun (k : Nat) => {p.e(a0)} + (k : ℝ) * {step}\n"
            f"  {fpar} {tgt} {kwpar} k")


PULSES_RAT = ["ramp", "waituntil"]
PULSES_REAL = ["ramp", "sine", "gaussian", "gaussian_smooth_cutoff", "waituntil"]


def const_fallback(name, params, ty, note):
    return f"/-- PulseAtoms.{name}: {note} -/\ndef {name} ({' '.join(params)} : {ty}) (k : Nat) : {ty} := 0"


# ---------------------------------------------------------------------------
# individual kernels


def rescaler(mode, report):
    seq = parse("sequence.py")
    f = find_func(seq, "outputForAWGFile", "Sequence")
    for n in ast.walk(f):
        if isinstance(n, ast.FunctionDef) and n.name == "rescaler":
            ret = [s for s in n.body if isinstance(s, ast.Return)][0]
            params = [a.arg for a in n.args.args]
            ty = {"rat": "Rat", "real": "ℝ", "float": "Float"}[mode]
            return f"/-- nested `rescaler` in Sequence.outputForAWGFile -/\ndef rescaler ({' '.join(params)} : {ty}) : {ty} := {P(mode).e(ret.value)}"
    raise Unsupported("rescaler not found")


def retarget(report):
    seq = parse("sequence.py")
    f = find_func(seq, "__add__", "Sequence")
    out = {}
    for n in ast.walk(f):
        if isinstance(n, ast.If) and isinstance(n.test, ast.Compare) and isinstance(n.test.left, ast.Subscript):
            sub = n.test.left
            if isinstance(sub.slice, ast.Constant) and sub.slice.value in ("goto", "jump_target"):
                key = sub.slice.value
                if (len(n.body) == 1 and isinstance(n.body[0], ast.AugAssign) and isinstance(n.body[0].op, ast.Add)
                        and isinstance(n.body[0].target, ast.Subscript) and n.body[0].target.slice.value == key
                        and not n.orelse):
                    cmpop = {ast.Gt: ">", ast.GtE: "≥", ast.Lt: "<", ast.LtE: "≤", ast.NotEq: "≠", ast.Eq: "="}[type(n.test.ops[0])]
                    # the increment may mention one local name (the length of the left operand, whatever it
                    # is called) and the comparison only literals; anything else is left to the golden text
                    inc_node = n.body[0].value
                    names = sorted({m.id for m in ast.walk(inc_node) if isinstance(m, ast.Name)})
                    if len(names) != 1 or any(isinstance(m, ast.Name) for m in ast.walk(n.test.comparators[0])):
                        continue

                    class _Ren(ast.NodeTransformer):
                        def visit_Name(self, node):
                            return ast.copy_location(ast.Name(id="N", ctx=node.ctx), node)
                    import copy as _copy
                    inc = P("int").e(_Ren().visit(_copy.deepcopy(inc_node)))
                    rhs = P("int").e(n.test.comparators[0])
                    out[key] = f"if v {cmpop} {rhs} then v + {inc} else v"
    lines = []
    for key, nm in (("goto", "retargetGoto"), ("jump_target", "retargetJump")):
        if key in out:
            lines.append(f"def {nm} (v N : Int) : Int := {out[key]}")
        else:
            lines.append(keep_golden("K.lean", nm, report, "retargeting `if` not located in Sequence.__add__"))
    return lines


def dict_literal_after(fdef, target_pred):
    for n in ast.walk(fdef):
        if isinstance(n, ast.Assign) and isinstance(n.value, ast.Dict) and target_pred(n.targets[0]):
            return n.value
    return None


def all_literals(tree, kinds):
    """every literal of the given ast kinds anywhere in the module, also when wrapped in a call
    (`MappingProxyType({...})`, `frozenset([...])`, `dict({...})`)"""
    return [n for n in ast.walk(tree) if isinstance(n, kinds)]


SEQ_KEYS = {"twait", "nrep", "jump_input", "jump_target", "goto"}


def default_sequencing(report):
    seq = parse("sequence.py")
    lines = []
    for meth, nm in (("addElement", "defaultSequencingElement"), ("addSubSequence", "defaultSequencingSubSequence")):
        f = find_func(seq, meth, "Sequence")
        d = dict_literal_after(f, lambda t: isinstance(t, ast.Subscript) and isinstance(t.value, ast.Attribute) and t.value.attr == "_sequencing") if f else None
        if d is None:
            # a rewrite may build the default entry from a template defined elsewhere in the module: the one dict
            # literal with exactly the five sequencing keys and integer values
            cands = [n for n in all_literals(seq, ast.Dict)
                     if all(isinstance(k, ast.Constant) for k in n.keys) and {k.value for k in n.keys} == SEQ_KEYS
                     and all(isinstance(v, ast.Constant) and isinstance(v.value, int) for v in n.values)]
            texts = {ast.dump(c) for c in cands}
            if len(texts) == 1:
                d = cands[0]
                report.append(f"{nm}: default sequencing taken from the module's only template literal")
        if d is None:
            lines.append(keep_golden("K.lean", nm, report, "default sequencing dict not found"))
            continue
        items = ", ".join(f'("{k.value}", {v.value})' for k, v in zip(d.keys, d.values))
        lines.append(f"def {nm} : List (String × Int) := [{items}]")
    return lines


def flag_tables(report):
    el = parse("element.py")
    f = find_func(el, "addFlags", "Element")
    allowed_int, allowed_str = [], []
    alias_int, alias_str = [], []
    for n in (ast.walk(f) if f else []):
        if isinstance(n, ast.Compare) and isinstance(n.ops[0], ast.NotIn) and isinstance(n.comparators[0], ast.List) and isinstance(n.left, ast.Name) and n.left.id == "i":
            for c in n.comparators[0].elts:
                (allowed_str if isinstance(c.value, str) else allowed_int).append(c.value)
        if isinstance(n, ast.Assign) and isinstance(n.targets[0], ast.Name) and n.targets[0].id == "flag_aliases" and isinstance(n.value, ast.Dict):
            for k, v in zip(n.value.keys, n.value.values):
                (alias_str if isinstance(k.value, str) else alias_int).append((k.value, v.value))
    if not (alias_int and alias_str):
        # the alias table may have been hoisted out of the method: the one dict literal in the module whose keys
        # include the five string aliases
        cands = [n for n in all_literals(el, ast.Dict)
                 if all(isinstance(k, ast.Constant) for k in n.keys) and {"", "H", "L", "T", "P"} <= {k.value for k in n.keys}
                 and all(isinstance(v, ast.Constant) and isinstance(v.value, int) for v in n.values)]
        if len({ast.dump(c) for c in cands}) == 1:
            alias_int, alias_str = [], []
            for k, v in zip(cands[0].keys, cands[0].values):
                (alias_str if isinstance(k.value, str) else alias_int).append((k.value, v.value))
            report.append("flag aliases taken from the module's only alias literal")
    if not (allowed_int and allowed_str):
        cands = [n for n in all_literals(el, (ast.List, ast.Tuple, ast.Set))
                 if n.elts and all(isinstance(c, ast.Constant) for c in n.elts) and {"", "H", "L", "T", "P"} <= {c.value for c in n.elts}]
        if len({ast.dump(c) for c in cands}) == 1:
            allowed_int, allowed_str = [], []
            for c in cands[0].elts:
                (allowed_str if isinstance(c.value, str) else allowed_int).append(c.value)
            report.append("allowed flags taken from the module's only flag list literal")
    out = []
    for name, ok, text in (
            ("flagAliasStr", alias_str, "def flagAliasStr : List (String × Int) := [" + ", ".join(f'("{k}", {v})' for k, v in alias_str) + "]"),
            ("flagAliasInt", alias_int, "def flagAliasInt : List (Int × Int) := [" + ", ".join(f"({k}, {v})" for k, v in alias_int) + "]"),
            ("flagAllowedInt", allowed_int, "def flagAllowedInt : List Int := [" + ", ".join(str(x) for x in allowed_int) + "]"),
            ("flagAllowedStr", allowed_str, "def flagAllowedStr : List String := [" + ", ".join(f'"{x}"' for x in allowed_str) + "]")):
        out.append(text if ok else keep_golden("K.lean", name, report, "flag table not found in element.py"))
    return out


def filter_kinds(report):
    seq = parse("sequence.py")
    f = find_func(seq, "setChannelFilterCompensation", "Sequence")
    for n in ast.walk(f):
        if isinstance(n, ast.Compare) and isinstance(n.ops[0], ast.NotIn) and isinstance(n.left, ast.Name) and n.left.id == "kind":
            return ["def filterKinds : List String := [" + ", ".join(f'"{c.value}"' for c in n.comparators[0].elts) + "]"]
    return [keep_golden("K.lean", "filterKinds", report, "kind check not found in setChannelFilterCompensation")]


def filter_call_sites(report):
    """every call of (ripasso.)applyInverseRCFilter in sequence.py: the function it sits in, the DC gain handed over, the
    expression given as sample rate and the names given as kind / cut-off / order"""
    seq = parse("sequence.py")
    cls = next(n for n in seq.body if isinstance(n, ast.ClassDef) and n.name == "Sequence")
    sites = []
    for fn in [n for n in cls.body if isinstance(n, ast.FunctionDef) and n.name in ("forge", "_prepareForOutputting")]:
        before = len(sites)
        for n in ast.walk(fn):
            if isinstance(n, ast.Call) and ((isinstance(n.func, ast.Name) and n.func.id == "applyInverseRCFilter") or
                                            (isinstance(n.func, ast.Attribute) and n.func.attr == "applyInverseRCFilter")):
                pos = list(n.args)
                kw = {k.arg: k.value for k in n.keywords}
                names = ["signal", "SR", "kind", "f_cut", "order", "DCgain"]
                bound = dict(zip(names, pos))
                bound.update(kw)
                dc = bound.get("DCgain")
                if dc is None:
                    dcv = "1"          # the function's own default for the compensation
                elif isinstance(dc, ast.Constant) and isinstance(dc.value, (int, float)):
                    from fractions import Fraction
                    f = Fraction(dc.value).limit_denominator(10**12) if isinstance(dc.value, float) else Fraction(dc.value)
                    dcv = f"({f.numerator} : Rat) / {f.denominator}" if f.denominator != 1 else f"({f.numerator} : Rat)"
                else:
                    raise Unsupported("DC gain of a compensation call is not a constant")
                sr = ast.unparse(bound["SR"]) if "SR" in bound else "?"
                args = [ast.unparse(bound[k]) if k in bound else "?" for k in ("kind", "f_cut", "order")]
                sites.append(f'("{fn.name}", {dcv}, "{sr}", [' + ", ".join(f'"{a}"' for a in args) + "])")
        if len(sites) == before:
            # the call was moved elsewhere (a helper, say): this kernel cannot be located, the last known good text is kept
            # and the correspondence check alone ties the compensation to the code
            raise Unsupported(f"no applyInverseRCFilter call directly inside Sequence.{fn.name}")
    if not sites:
        raise Unsupported("no applyInverseRCFilter call found in Sequence")
    return ["/-- every call of ripasso.applyInverseRCFilter in class Sequence: (method, DC gain handed over, sample-rate expression,\n"
            "    the expressions handed over as kind / cut-off / order) -/\n"
            "def filterCallSites : List (String × Rat × String × List String) := [" + ", ".join(sites) + "]"]


def lin_count(report):
    tl = parse("tools.py")
    f = find_func(tl, "makeLinearlyVaryingSequence")
    for n in ast.walk(f):
        if isinstance(n, ast.Call) and isinstance(n.func, ast.Attribute) and n.func.attr == "linspace" and len(n.args) == 3:
            cnt = n.args[2]
            # round(X) + c
            p = P("rat")

            def tr(x):
                if isinstance(x, ast.BinOp) and isinstance(x.op, (ast.Add, ast.Sub)):
                    op = "+" if isinstance(x.op, ast.Add) else "-"
                    return f"({tr(x.left)} {op} {tr(x.right)})"
                if isinstance(x, ast.Call) and isinstance(x.func, ast.Name) and x.func.id == "round" and len(x.args) == 1:
                    return f"(BB.rhe {p.e(x.args[0])})"
                if isinstance(x, ast.Constant) and isinstance(x.value, int):
                    return f"({x.value} : Int)"
                raise Unsupported("count expression")
            return [f"/-- tools.makeLinearlyVaryingSequence: number of points handed to linspace -/\ndef linCount (start stop step : Rat) : Int := {tr(cnt)}"]
    raise Unsupported("linspace call not found")


def validate_consts(report):
    el = parse("element.py")
    f = find_func(el, "validateDurations", "Element")
    val = None
    for n in ast.walk(f):
        if isinstance(n, ast.Assign) and isinstance(n.targets[0], ast.Name) and n.targets[0].id == "atol" and isinstance(n.value, ast.Constant):
            val = n.value.value
    if val is None:
        report.append("atolNoSR: constant not found -> 1e-9 assumed")
        val = 1e-9
    fr = Fraction(str(val)) if isinstance(val, float) else Fraction(val)
    return [f"/-- Element.validateDurations: atol used when a sample rate is None -/\ndef atolNoSR : Rat := ({fr.numerator} : Rat) / {fr.denominator}",
            "/-- numpy.allclose default rtol (numpy, not broadbean source) -/\ndef allcloseRtol : Rat := (1 : Rat) / 100000"]


def pulse_signatures(report):
    bbt = parse("broadbean.py")
    rows = []
    for n in ast.walk(bbt):
        if isinstance(n, ast.ClassDef) and n.name == "PulseAtoms":
            for m in n.body:
                if isinstance(m, ast.FunctionDef) and "__" not in m.name:
                    ps = ", ".join(f'"{a.arg}"' for a in m.args.args)
                    rows.append(f'("{m.name}", [{ps}])')
    return ["/-- the PulseAtoms static methods and their parameter names -/\ndef pulseSignatures : List (String × List String) := [" + ", ".join(rows) + "]"]


def rc_filter(report):
    """_rcFilter over C, element-wise in the frequency"""
    rp = parse("ripasso.py")
    f = find_func(rp, "_rcFilter")
    p = P("complex", intvars={"order"})
    env = {}
    out = {}
    patch = None
    ret = None

    def bind(stmts, tag):
        nonlocal patch, ret
        for s in stmts:
            if isinstance(s, ast.Expr):
                continue
            if isinstance(s, ast.Assign) and isinstance(s.targets[0], ast.Name):
                tgt = s.targets[0].id
                v = s.value
                if isinstance(v, ast.Call) and isinstance(v.func, ast.Name) and v.func.id == "fftfreq":
                    continue  # freqs: the parameter `freqs`
                if tag is None:
                    env[tgt] = p.e(v)
                else:
                    out[tag] = p.e(v)
            elif isinstance(s, ast.Assign) and isinstance(s.targets[0], ast.Subscript):
                # tf[tf == 0] = DCgain
                sub = s.targets[0]
                if (isinstance(sub.slice, ast.Compare) and isinstance(sub.slice.ops[0], ast.Eq)
                        and isinstance(sub.slice.comparators[0], ast.Constant) and sub.slice.comparators[0].value == 0):
                    patch = (tag, P("complex").e(s.value))
            elif isinstance(s, ast.If):
                t = s.test
                if isinstance(t, ast.Compare) and isinstance(t.left, ast.Name) and t.left.id == "kind":
                    bind(s.body, t.comparators[0].value)
                    bind(s.orelse, None if not s.orelse or not isinstance(s.orelse[0], ast.If) else None)
            elif isinstance(s, ast.Return):
                ret = s.value

    bind(f.body, None)
    lets = "\n".join(f"  let {k} : ℂ := {v}" for k, v in env.items())
    lines = []
    for kind in ("HP", "LP"):
        if kind not in out:
            report.append(f"rc{kind}: branch not found")
            continue
        lines.append(f"/-- ripasso._rcFilter, kind {kind}: the transfer function at one frequency (before the DC patch and the power) -/\n"
                     f"noncomputable def rc{kind} (SR f_cut freqs : ℂ) : ℂ :=\n{lets}\n  {out[kind]}")
    if patch:
        lines.append(f"/-- `tf[tf == 0] = DCgain` (kind {patch[0]} only) -/\nnoncomputable def rcPatch (tf DCgain : ℂ) : ℂ := if tf = 0 then {patch[1]} else tf")
        lines.append(f'def rcPatchKind : String := "{patch[0]}"')
    else:
        lines.append(keep_golden("KReal.lean", "rcPatch", report, "DC patch not located in _rcFilter"))
        lines.append(keep_golden("KReal.lean", "rcPatchKind", report, "DC patch not located in _rcFilter"))
    if ret is not None:
        lines.append(f"/-- `return tf**order` -/\nnoncomputable def rcPow (tf : ℂ) (order : ℤ) : ℂ := {p.e(ret)}")
    # order sign used by the two public functions
    for fname, nm in (("applyRCFilter", "rcOrderForward"), ("applyInverseRCFilter", "rcOrderInverse")):
        g = find_func(rp, fname)
        expr = None
        params = [a.arg for a in f.args.args] if f is not None else []
        for n in ast.walk(g) if g is not None else []:
            if isinstance(n, ast.Call) and isinstance(n.func, ast.Name) and n.func.id == "_rcFilter":
                for k in n.keywords:
                    if k.arg == "order":
                        expr = P("int").e(k.value)
                if expr is None and "order" in params and params.index("order") < len(n.args):
                    expr = P("int").e(n.args[params.index("order")])       # handed over positionally
        if expr is None:
            # never guess: the last known good definition is kept and the correspondence check alone ties it to the code
            lines.append(keep_golden("KReal.lean", nm, report, f"the order handed to _rcFilter by {fname} was not located"))
        else:
            lines.append(f"def {nm} (order : ℤ) : ℤ := {expr}")
    return lines


# ---------------------------------------------------------------------------


HEADER = "/- GENERATED by harness/py2lean.py from {src} — DO NOT EDIT.\n   (last known good copy: lean/golden/{fn}) -/\n"


def generate():
    report = []
    del GOLDEN_DEFS_USED[:]
    bbt = parse("broadbean.py")

    def pulse(name, mode):
        f = find_func(bbt, name, "PulseAtoms")
        if f is None:
            raise Unsupported(f"PulseAtoms.{name} not found")
        return emit_pulse(name, f, mode, report)

    def section(lines, fn, what):
        try:
            return fn()
        except Unsupported as e:
            report.append(f"{what}: outside the translator's subset ({e}) -> golden text kept")
            return None
        except Exception as e:  # noqa: BLE001 -- a construct the translator was not written for
            report.append(f"{what}: not translatable ({type(e).__name__}: {e}) -> golden text kept")
            return None

    # ---- K.lean (Rat)
    k = [HEADER.format(src=SRC, fn="K.lean"), "import BB.Model.Num", "set_option linter.unusedVariables false", "namespace BB.Gen", ""]
    parts = {}
    for nm in PULSES_RAT:
        parts["pulse_" + nm] = section(k, lambda nm=nm: [pulse(nm, "rat")], "pulse " + nm)
    parts["rescaler"] = section(k, lambda: [rescaler("rat", report)], "rescaler")
    parts["guards"] = section(k, lambda: collect_guards(report), "guards")
    parts["retarget"] = section(k, lambda: retarget(report), "retarget")
    parts["defaults"] = section(k, lambda: default_sequencing(report), "default sequencing")
    parts["flags"] = section(k, lambda: flag_tables(report), "flag tables")
    parts["kinds"] = section(k, lambda: filter_kinds(report), "filter kinds")
    parts["filtercalls"] = section(k, lambda: filter_call_sites(report), "compensation call sites")
    parts["lincount"] = section(k, lambda: lin_count(report), "linCount")
    parts["validate"] = section(k, lambda: validate_consts(report), "validate constants")
    parts["sigs"] = section(k, lambda: pulse_signatures(report), "pulse signatures")
    # ---- KReal.lean
    r = {}
    for nm in PULSES_REAL:
        r["pulse_" + nm] = section(None, lambda nm=nm: [pulse(nm, "real")], "real pulse " + nm)
    r["pulse_arb_func"] = section(None, lambda: [emit_arb_func(find_func(bbt, "arb_func", "PulseAtoms"), report)], "real pulse arb_func")
    r["rescaler"] = section(None, lambda: [rescaler("real", report).replace("def rescaler", "noncomputable def rescaler")], "real rescaler")
    r["rc"] = section(None, lambda: rc_filter(report), "rc filter")
    # ---- KFloat.lean
    fl = {}
    for nm in PULSES_REAL:
        fl["pulse_" + nm] = section(None, lambda nm=nm: [pulse(nm, "float")], "float pulse " + nm)
    fl["rescaler"] = section(None, lambda: [rescaler("float", report)], "float rescaler")
    return parts, r, fl, report


def assemble(parts, golden_sections, header_lines, footer="end BB.Gen\n"):
    """sections that could not be translated fall back to the golden text of that section"""
    out = list(header_lines)
    used_golden = []
    for key, lines in parts.items():
        out.append(f"-- SECTION {key}")
        if lines is None:
            g = golden_sections.get(key)
            if g is None:
                raise Unsupported(f"no golden text for section {key}")
            out.append(g)
            used_golden.append(key)
        else:
            out.append("\n".join(lines))
        out.append(f"-- END {key}")
        out.append("")
    out.append(footer)
    return "\n".join(out), used_golden


def sections_of(text):
    secs = {}
    cur = None
    buf = []
    for line in text.splitlines():
        if line.startswith("-- SECTION "):
            cur = line[len("-- SECTION "):].strip()
            buf = []
        elif line.startswith("-- END ") and cur:
            secs[cur] = "\n".join(buf)
            cur = None
        elif cur is not None:
            buf.append(line)
    return secs


def write_if_changed(path, text):
    old = open(path).read() if os.path.exists(path) else None
    if old != text:
        with open(path, "w") as f:
            f.write(text)
        return True
    return False


def main(outdir=GEN, goldendir=None):
    goldendir = goldendir or os.path.join(os.path.dirname(HERE), "lean", "golden")
    parts, r, fl, report = generate()

    def gold(fn):
        p = os.path.join(goldendir, fn)
        return sections_of(open(p).read()) if os.path.exists(p) else {}

    changed = {}
    used = {}
    ktext, used["K.lean"] = assemble(parts, gold("K.lean"),
                                     [HEADER.format(src="/repo/src/broadbean", fn="K.lean"), "import BB.Model.Num", "set_option linter.unusedVariables false", "namespace BB.Gen", ""])
    rtext, used["KReal.lean"] = assemble(r, gold("KReal.lean"),
                                         [HEADER.format(src="/repo/src/broadbean", fn="KReal.lean"),
                                          "import Mathlib.Analysis.SpecialFunctions.Trigonometric.Basic", "import Mathlib.Analysis.SpecialFunctions.Exp",
                                          "import Mathlib.Data.Complex.Basic",
                                          "set_option linter.unusedVariables false", "namespace BB.Gen.Real", "open Complex", ""], footer="end BB.Gen.Real\n")
    ftext, used["KFloat.lean"] = assemble(fl, gold("KFloat.lean"),
                                          [HEADER.format(src="/repo/src/broadbean", fn="KFloat.lean"), "set_option linter.unusedVariables false", "namespace BB.Gen.Flt", ""], footer="end BB.Gen.Flt\n")
    for fn, text in (("K.lean", ktext), ("KReal.lean", rtext), ("KFloat.lean", ftext)):
        changed[fn] = write_if_changed(os.path.join(outdir, fn), text)
    return {"changed": changed, "golden_sections_used": used, "golden_definitions_used": sorted(set(GOLDEN_DEFS_USED)), "report": report}


if __name__ == "__main__":
    import json
    print(json.dumps(main(), indent=1))
