#!/venv/bin/python
"""write lean/BB.lean importing every module of the library (so `lake build` builds all)"""
import glob, os
LEAN = os.path.join(os.path.dirname(os.path.dirname(os.path.abspath(__file__))), "lean")
mods = sorted(p[len(LEAN) + 1:-5].replace("/", ".") for p in glob.glob(os.path.join(LEAN, "BB", "**", "*.lean"), recursive=True))
text = "-- root of the BB library (written by harness/mkroot.py)\n" + "\n".join("import " + m for m in mods) + "\n"
p = os.path.join(LEAN, "BB.lean")
if not os.path.exists(p) or open(p).read() != text:
    open(p, "w").write(text)
