#!/venv/bin/python
"""Development tool: run checks against a patch WITHOUT touching /repo.

    trypatch.py <patch.diff> [--demo demo.py] [--tier quick] C05 [C01 ...]

Scratch worktree of /repo HEAD outside /repo and /verif, patch applied there, checks run with
BB_REPO pointing at it, worktree removed.  Prints one line per property."""
import argparse, os, shutil, subprocess, sys, tempfile

VERIF = os.path.dirname(os.path.dirname(os.path.abspath(__file__)))


def main():
    ap = argparse.ArgumentParser()
    ap.add_argument("patch")
    ap.add_argument("props", nargs="*")
    ap.add_argument("--tier", default="quick")
    ap.add_argument("--demo")
    a = ap.parse_args()
    base = tempfile.mkdtemp(prefix="bbtry")
    wt = os.path.join(base, "wt")
    subprocess.run(["git", "-C", "/repo", "worktree", "add", "-q", "--detach", wt, "HEAD"], check=True)
    results = {}
    try:
        r = subprocess.run(["git", "-C", wt, "apply", os.path.abspath(a.patch)], capture_output=True, text=True)
        if r.returncode != 0:
            print("patch does not apply: " + r.stderr[:300])
            return 2
        if a.demo:
            r = subprocess.run(["/venv/bin/python", a.demo], env={**os.environ, "PYTHONPATH": os.path.join(wt, "src")}, capture_output=True, text=True)
            tail = (r.stdout + r.stderr).strip().splitlines()
            print(f"demo with the patch: exit {r.returncode}  {tail[-1][:160] if tail else ''}")
        for pid in a.props:
            rr = subprocess.run(["/venv/bin/python", "harness/check.py", "--property", pid, "--tier", a.tier], cwd=VERIF,
                                capture_output=True, text=True, env={**os.environ, "BB_REPO": wt})
            v = [ln for ln in rr.stdout.splitlines() if ln.startswith("VIOLATION")]
            results[pid] = rr.returncode
            print(f"{pid}: exit {rr.returncode} {v[0] if v else ''}")
            if rr.returncode == 2:
                print(rr.stdout[-600:])
    finally:
        subprocess.run(["git", "-C", "/repo", "worktree", "remove", "--force", wt])
        shutil.rmtree(base, ignore_errors=True)
        subprocess.run(["/venv/bin/python", "harness/py2lean.py"], cwd=VERIF, capture_output=True)
    caught = [p for p, rc in results.items() if rc == 1]
    print("ALARM from " + ",".join(caught) if caught else "no alarm")
    return 0


sys.exit(main())
