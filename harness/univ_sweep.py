#!/venv/bin/python
"""Development tool (not registered in MANIFEST.json): how many seeded changes does the feature-rich random program
(props/universal.py) catch on its own?   univ_sweep.py [--n 100] [seed-id ...]   Writes seeded/RESULTS_universal.json.
Each change is applied in a scratch worktree of /repo (BB_REPO), never to /repo itself."""
import argparse, glob, json, os, subprocess, sys, tempfile, shutil

VERIF = os.path.dirname(os.path.dirname(os.path.abspath(__file__)))
RUN = r'''
import sys, importlib
sys.path.insert(0, %r)
from gen import G
from core import Impl, Model, compare_op
U = importlib.import_module("props.universal")
m = Model(); m.run([])
for ci in range(%d):
    ops = U.program(G(4242 * 1000003 + ci), ci)
    ri = Impl().run(ops); rm = m.run(ops)
    for o, a, b in zip(ops, ri, rm):
        if o.get("_nocmp"):
            continue
        d = compare_op(o, a, b, errclass=bool(o.get("_errclass")))
        if d:
            print("CAUGHT case", ci, o["op"], d[:200]); m.close(); sys.exit(1)
print("not caught"); m.close()
'''


def main():
    ap = argparse.ArgumentParser()
    ap.add_argument("ids", nargs="*")
    ap.add_argument("--n", type=int, default=100)
    a = ap.parse_args()
    ids = a.ids or sorted(os.path.basename(p) for p in glob.glob(os.path.join(VERIF, "seeded", "C*")))
    base = tempfile.mkdtemp(prefix="bbuniv")
    res = {}
    try:
        for sid in ids:
            wt = os.path.join(base, sid)
            subprocess.run(["git", "-C", "/repo", "worktree", "add", "-q", "--detach", wt, "HEAD"], check=True)
            try:
                ap_ = subprocess.run(["git", "-C", wt, "apply", os.path.join(VERIF, "seeded", sid, "patch.diff")], capture_output=True, text=True)
                if ap_.returncode != 0:
                    res[sid] = "patch does not apply"
                else:
                    r = subprocess.run(["/venv/bin/python", "-c", RUN % (os.path.join(VERIF, "harness"), a.n)], capture_output=True, text=True,
                                       env={**os.environ, "BB_REPO": wt}, cwd=VERIF)
                    res[sid] = (r.stdout.strip().splitlines() or [r.stderr.strip()[-200:]])[-1]
                print(sid, res[sid][:160], flush=True)
            finally:
                subprocess.run(["git", "-C", "/repo", "worktree", "remove", "--force", wt])
    finally:
        shutil.rmtree(base, ignore_errors=True)
        subprocess.run(["git", "-C", "/repo", "worktree", "prune"])
    json.dump(res, open(os.path.join(VERIF, "seeded", "RESULTS_universal.json"), "w"), indent=1)
    print("caught", sum(1 for v in res.values() if v.startswith("CAUGHT")), "of", len(res))


main()
