"""Correspondence machinery: the op-program interpreter for the real broadbean
(public API only), the pipe to the Lean model driver, canonicalisation and
comparison.  See DESIGN.md section 4.2."""
import copy
import inspect
import json
import os
import subprocess
import sys
import tempfile
import warnings
from fractions import Fraction

# the registered checks always run against /repo; BB_REPO lets the development sweep (harness/sweep.py)
# point the very same machinery at a scratch copy that has a seeded change applied
REPO = os.environ.get("BB_REPO", "/repo")
sys.path.insert(0, os.path.join(REPO, "src"))
import numpy as np  # noqa: E402

HERE = os.path.dirname(os.path.abspath(__file__))
VERIF = os.path.dirname(HERE)
LEAN_DIR = os.path.join(VERIF, "lean")
sys.path.insert(0, HERE)

import userfns  # noqa: E402

warnings.simplefilter("ignore")
import logging  # noqa: E402
logging.disable(logging.CRITICAL)

# --------------------------------------------------------------------------
# value encoding (Python -> protocol)


def q(x):
    """exact rational string of a Python/numpy number"""
    if isinstance(x, (bool, np.bool_)):
        x = int(x)
    if isinstance(x, (int, np.integer)):
        return str(int(x))
    if isinstance(x, Fraction):
        f = x
    else:
        f = Fraction(*float(x).as_integer_ratio())
    return str(f.numerator) if f.denominator == 1 else f"{f.numerator}/{f.denominator}"


def enc(v):
    """Python value -> protocol value"""
    if v is None:
        return None
    if isinstance(v, (bool, np.bool_)):
        return int(v)
    if isinstance(v, (int, np.integer)):
        return int(v)
    if isinstance(v, (float, np.floating)):
        return {"q": q(v)}
    if isinstance(v, Fraction):
        return {"q": q(v)}
    if isinstance(v, str):
        return {"s": v}
    return {"o": userfns.py_to_opq(v)}


def frac(s):
    return Fraction(s)


def dec_val(j):
    """protocol value (as the model prints it) -> Python value (Fraction for numbers)"""
    if j is None:
        return None
    if isinstance(j, int):
        return Fraction(j)
    if isinstance(j, dict):
        if "q" in j:
            return Fraction(j["q"])
        if "s" in j:
            return j["s"]
        return ("opaque", j.get("o"))
    return j


# --------------------------------------------------------------------------
# function registry


def _load_bb():
    import broadbean as bb
    from broadbean import ripasso, tools
    from broadbean.blueprint import BluePrint, SegmentDurationError
    from broadbean.element import Element, ElementDurationError
    from broadbean.sequence import Sequence, fs_schema

    return bb, ripasso, tools, BluePrint, Element, Sequence, fs_schema


bb, ripasso, tools, BluePrint, Element, Sequence, fs_schema = _load_bb()
PA = bb.PulseAtoms

BUILTIN_KEYS = {
    "ramp": PA.ramp,
    "sine": PA.sine,
    "gaussian": PA.gaussian,
    "gsc": PA.gaussian_smooth_cutoff,
    "waitfn": PA.waituntil,
    "arb": PA.arb_func,
}


def fn_to_py(fnspec):
    if isinstance(fnspec, str):
        if fnspec == "waituntil":
            return "waituntil"
        return BUILTIN_KEYS[fnspec]
    if fnspec.get("special"):
        return fnspec["name"]
    return user_by_sig(fnspec["name"], fnspec.get("params"))


def user_by_sig(name, params):
    """the registered user function called `name` whose parameter list is `params` (two different
    functions may carry the same __name__)"""
    cands = [f for f in userfns.USER.values() if f.__name__ == name]
    for f in cands:
        if params is None or list(inspect.signature(f).parameters) == list(params):
            return f
    return cands[0]


def user_fn_spec(key):
    f = userfns.USER[key]
    return {"name": f.__name__, "qual": "function " + f.__name__, "params": list(inspect.signature(f).parameters)}


def fn_from_model(fnj):
    """callable for a model block {"special","name","qual"}"""
    if fnj["special"]:
        raise ValueError("special function in a block")
    qual = fnj["qual"]
    if qual.startswith("function PulseAtoms."):
        return getattr(PA, qual[len("function PulseAtoms."):])
    return user_by_sig(fnj["name"], fnj.get("params"))


# --------------------------------------------------------------------------
# canonical J (ordered JSON value) of a Python description


def to_J(v):
    if v is None:
        return None
    if isinstance(v, (bool, np.bool_, int, np.integer, float, np.floating)):
        return {"q": q(v)}
    if isinstance(v, str):
        return {"s": v}
    if isinstance(v, (list, tuple, np.ndarray)):
        return {"a": [to_J(x) for x in v]}
    if isinstance(v, dict):
        if userfns.py_to_opq(v):
            return {"o": userfns.py_to_opq(v)}       # keyword arguments of an arb_func segment (registered contents)
        return {"d": [[str(k), to_J(x)] for k, x in v.items()]}
    return {"o": userfns.py_to_opq(v)}


def json_ok(d):
    """json.dumps succeeds.  A registered keyword dict of an arb_func segment counts as an opaque object here, as it does in
    the model (whose values are numbers, strings, None or opaque objects); such descriptions are outside C19's domain."""
    def has_opaque_dict(x):
        if isinstance(x, dict):
            return bool(userfns.py_to_opq(x)) or any(has_opaque_dict(v) for v in x.values())
        if isinstance(x, (list, tuple)):
            return any(has_opaque_dict(v) for v in x)
        return False
    try:
        # (numpy scalars given by a caller are numbers for this purpose; the model has no such distinction)
        json.dumps(d, default=lambda o: o.item() if isinstance(o, np.generic) else (_ for _ in ()).throw(TypeError("not serialisable")))
    except TypeError:
        return False
    return not has_opaque_dict(d)


def J_equal(a, b, path="", sort_keys=("awgspecs",), tol=0):
    """structural equality of two canonical J values; returns None or a diff string.
    Numbers are compared exactly (as rationals).  The entries of dicts named in sort_keys
    are compared as sets (Python dict equality ignores order)."""
    if a is None or b is None:
        return None if a is None and b is None else f"{path}: {a!r} != {b!r}"
    ka = next(iter(a)) if isinstance(a, dict) and a else None
    kb = next(iter(b)) if isinstance(b, dict) and b else None
    if ka != kb:
        return f"{path}: kind {a!r} != {b!r}"
    if ka == "q":
        fa, fb = Fraction(a["q"]), Fraction(b["q"])
        if fa == fb or (tol and abs(fa - fb) <= tol * max(1, abs(fb))):
            return None
        return f"{path}: {a['q']} != {b['q']}"
    if ka == "s":
        return None if a["s"] == b["s"] else f"{path}: {a['s']!r} != {b['s']!r}"
    if ka == "o":
        if a.get("o") and b.get("o") and a["o"] != b["o"]:
            return f"{path}: object #{a['o']} != object #{b['o']}"
        return None
    if ka == "a":
        if len(a["a"]) != len(b["a"]):
            return f"{path}: list lengths {len(a['a'])} != {len(b['a'])}"
        for i, (x, y) in enumerate(zip(a["a"], b["a"])):
            d = J_equal(x, y, f"{path}[{i}]", sort_keys, tol)
            if d:
                return d
        return None
    if ka == "d":
        la, lb = a["d"], b["d"]
        if path.split(".")[-1] in sort_keys:
            la = sorted(la, key=lambda kv: kv[0])
            lb = sorted(lb, key=lambda kv: kv[0])
        if [k for k, _ in la] != [k for k, _ in lb]:
            return f"{path}: keys {[k for k, _ in la]} != {[k for k, _ in lb]}"
        for (k, x), (_, y) in zip(la, lb):
            d = J_equal(x, y, f"{path}.{k}", sort_keys, tol)
            if d:
                return d
        return None
    return f"{path}: unknown {a!r}"


# --------------------------------------------------------------------------
# evaluation of model arrays


def eval_block(blk):
    if "raw" in blk:
        return np.array([float(Fraction(x)) for x in blk["raw"]], dtype=float)
    c = blk["call"]
    f = fn_from_model(c["fn"])
    args = []
    for a in c["args"]:
        v = dec_val(a)
        if isinstance(v, tuple) and v and v[0] == "opaque":
            v = userfns.opq_to_py(v[1])
        args.append(float(v) if isinstance(v, Fraction) else v)
    SR = Fraction(c["SR"])
    SRf = int(SR) if SR.denominator == 1 and abs(SR) < 2**53 else float(SR)
    out = np.asarray(f(*args, SRf, c["n"]), dtype=float)
    return out


def eval_blocks(blocks):
    if not blocks:
        return np.array([], dtype=float)
    return np.concatenate([eval_block(b) for b in blocks])


def eval_filter(w, filt):
    if filt is None:
        return w
    SR = dec_val(filt["SR"])
    SRf = int(SR) if isinstance(SR, Fraction) and SR.denominator == 1 else float(SR)
    y = ripasso.applyInverseRCFilter(w, SRf, filt["kind"], float(Fraction(filt["fcut"])), filt["order"], DCgain=1)
    if np.shape(y) != np.shape(w) or np.iscomplexobj(y):
        # the filter of the tree under test does not even return a real signal of the input's length: evaluate the model's
        # filter call with the documented formula instead (H^-order on the fft grid, H(0) = 1)
        x = np.asarray(w, dtype=float)
        f = np.fft.fftfreq(len(x), 1 / SRf)
        jw = 2j * np.pi * f / float(Fraction(filt["fcut"]))
        h = jw / (1 + jw) if filt["kind"] == "HP" else 1 / (1 + jw)
        if filt["kind"] == "HP":
            h[0] = 1.0
        with np.errstate(all="ignore"):
            y = np.fft.ifft(np.fft.fft(x) * h ** (-filt["order"])).real
    return y


def eval_wave(wave):
    w = eval_filter(eval_blocks(wave["blocks"]), wave.get("filt"))
    if wave.get("resc") is not None:
        a, o = (float(Fraction(x)) for x in wave["resc"])
        w = (w - o) / (a / 2)
    return w


def bits(s):
    return np.array([1.0 if c == "1" else 0.0 for c in s], dtype=float)


def eval_chout(c):
    """model channel output -> dict name -> np.array (same keys as the implementation delivers)"""
    out = {}
    if c["kind"] == "bp":
        out["wfm"] = eval_filter(eval_blocks(c["blocks"]), c.get("filt"))
        out["m1"] = bits(c["m1"])
        out["m2"] = bits(c["m2"])
        if c["time"]:
            SR = Fraction(c["SR"])
            out["time"] = np.array([float(Fraction(k) / SR) for k in range(c["N"])], dtype=float)
            out["newdurations"] = np.array([float(Fraction(x)) for x in c["newdurations"]], dtype=float)
        if c["flags"] is not None:
            out["flags"] = np.array(c["flags"], dtype=float)
    else:
        for name, xs in c["arrays"]:
            out[name] = np.array([float(Fraction(x)) for x in xs], dtype=float)
        if c.get("filt") is not None:
            out["wfm"] = eval_filter(out["wfm"], c["filt"])
        if c["flags"] is not None:
            out["flags"] = np.array(c["flags"], dtype=float)
        if c["time"] is not None:
            N, SR = c["time"][0], Fraction(c["time"][1])
            out["time"] = np.linspace(0, N / float(SR), N)
    return out


def arr_close(a, b, tol=1e-9):
    a = np.asarray(a, dtype=float)
    b = np.asarray(b, dtype=float)
    if a.shape != b.shape:
        return f"shape {a.shape} != {b.shape}"
    if a.size == 0:
        return None
    scale = max(1.0, float(np.max(np.abs(b))))
    err = float(np.max(np.abs(a - b)))
    if not err <= tol * scale:
        i = int(np.argmax(np.abs(a - b)))
        return f"max |diff| {err:.3e} at index {i}: impl {a.flat[i]!r} vs model {b.flat[i]!r}"
    return None


def arrays_diff(impl, model, path, tol=1e-9):
    """impl: dict name->array from the implementation; model: dict from eval_chout"""
    ki, km = sorted(impl.keys()), sorted(model.keys())
    if ki != km:
        return f"{path}: array names impl {ki} != model {km}"
    for k in ki:
        d = arr_close(impl[k], model[k], tol)
        if d:
            return f"{path}.{k}: {d}"
    return None


# --------------------------------------------------------------------------
# the implementation interpreter (public API only)


class Impl:
    def __init__(self):
        self.pool = {}

    def run(self, ops):
        import signal

        def _too_long(signum, frame):
            raise TimeoutError("one call of the code under test took longer than 180 s")
        out = []
        for op in ops:
            try:
                old = signal.signal(signal.SIGALRM, _too_long)
                signal.alarm(180)
            except Exception:  # noqa: BLE001 -- not in the main thread
                old = None
            try:
                r = self._run_one(op)
            finally:
                if old is not None:
                    signal.alarm(0)
                    signal.signal(signal.SIGALRM, old)
            out.append(r)
        return out

    def _run_one(self, op):
        out = []
        for op in [op]:
            try:
                r = self.step(op)
                # observe now: a returned structure may alias internal state that later ops change
                out.append({"ok": copy.deepcopy(r)})
                try:
                    self._scribble(op, r)
                except Exception:  # noqa: BLE001 -- e.g. a read-only array: nothing to spoil then
                    pass
            except Exception as e:  # noqa: BLE001
                out.append({"err": type(e).__name__, "msg": str(e)[:200]})
        return out[0]

    # what a call returns belongs to the caller: after the result has been recorded, the interpreter writes into it the way user
    # code does (rescales forged arrays in place, pops keys, edits a description it is about to re-use).  Later results must not
    # change.  Spared: what the unchanged library documents or is known to hand out by reference (DESIGN 11.1 -- the stored raw
    # arrays of an array channel, the sequencing dicts inside a forged structure, 'awgspecs' inside a sequence description).
    def _scribble(self, op, r):
        o = op["op"]
        if op.get("_noscribble"):
            return
        if o == "el.getArrays" and isinstance(r, dict):
            raw = self._raw_channels.get(op["id"], set()) if hasattr(self, "_raw_channels") else set()
            unknown = op["id"] not in getattr(self, "_known_elements", set())
            for ch, d in list(r.items()):
                if isinstance(d, dict):
                    if not unknown and ch not in raw:
                        for a in d.values():
                            if isinstance(a, np.ndarray) and a.dtype.kind == "f" and a.flags.writeable:
                                a *= 3.0
                                a += 0.125
                    d.pop("m1", None)
                    d["scribble"] = 1
            r.pop(next(iter(r)), None) if len(r) > 1 else None
        elif o == "sq.forge" and isinstance(r, dict) and isinstance(r.get("forged"), dict):
            for pos, entry in r["forged"].items():
                for p2, c in entry.get("content", {}).items():
                    for ch, d in c.get("data", {}).items():
                        for a in d.values():
                            if isinstance(a, np.ndarray) and a.dtype.kind == "f" and a.flags.writeable:
                                a *= 3.0
                                a += 0.125
                        d.pop("m2", None)
        elif o == "sq.seqx" and op.get("flags") and isinstance(r, (list, tuple)) and r and isinstance(r[-1], list):
            for per_channel in r[-1]:
                for fl in per_channel:
                    if isinstance(fl, list):
                        fl[:] = [4, 4, 4, 4, 4]
        elif o in ("bp.desc", "el.desc", "sq.desc"):
            pass        # (descriptions are turned into protocol values before they reach this point; see the _raw variants)

    def _scribble_description(self, d, depth=0):
        """edit every nested dict / list of a description in place (not 'awgspecs', which a sequence hands out by reference)"""
        if isinstance(d, dict):
            for k in list(d.keys()):
                if k == "awgspecs":
                    continue        # (also a subsequence's, nested in its parent's description)
                v = d[k]
                if isinstance(v, dict):
                    if depth >= 1 and "func" in d and k == "kwargs":
                        continue    # (the keyword dict of an arb_func segment is the stored argument itself)
                    self._scribble_description(v, depth + 1)
                elif isinstance(v, (int, float)) and not isinstance(v, bool):
                    d[k] = v + 12345
            if depth >= 1 and d:
                d["scribble"] = 1
        # (lists are left alone: a blueprint's description holds its marker lists themselves, a flags entry the stored list)

    # helpers
    def g(self, k):
        return self.pool[k]

    def step(self, op):
        o = op["op"]
        self._np = bool(op.get("_np"))
        return getattr(self, "op_" + o.replace(".", "_"))(op)

    def v(self, j):
        """protocol value -> Python value as the generator meant it (ints stay ints, floats floats; with the op flag
        `_np` floats arrive as numpy scalars, as they do when a caller computes them with numpy)"""
        if j is None:
            return None
        if isinstance(j, int):
            return j
        if isinstance(j, dict):
            if "q" in j:
                f = Fraction(j["q"])
                return np.float64(float(f)) if getattr(self, "_np", False) else float(f)
            if "s" in j:
                return j["s"]
            return userfns.opq_to_py(j.get("o"))
        if isinstance(j, str):
            try:
                return float(Fraction(j))
            except Exception:  # noqa: BLE001
                return j
        return j

    @staticmethod
    def num(j):
        """a number given as int or "p/q" string"""
        if isinstance(j, int):
            return j
        return float(Fraction(j))

    # ---- blueprints
    def op_bp_new(self, op):
        self.pool[op["id"]] = BluePrint()

    def op_bp_insert(self, op):
        b = self.g(op["id"])
        kw = {}
        if op.get("name") is not None:
            kw["name"] = self.v(op["name"])
        args = tuple(self.v(a) for a in op["args"])
        if op.get("_bare") and len(args) == 1:
            args = args[0]          # insertSegment(pos, func, 0.5, ...): a single argument need not be wrapped in a tuple
        b.insertSegment(op["pos"], fn_to_py(op["fn"]), args, dur=self.v(op.get("dur")), **kw)

    def op_bp_remove(self, op):
        self.g(op["id"]).removeSegment(op["name"])

    def op_bp_changeArg(self, op):
        self.g(op["id"]).changeArg(op["name"], self.v(op["arg"]), self.v(op["value"]), op.get("all", False))

    def op_bp_changeDur(self, op):
        self.g(op["id"]).changeDuration(op["name"], self.v(op["dur"]), op.get("all", False))

    def op_bp_setSegMarker(self, op):
        specs = tuple(self.num(x) for x in op["specs"])
        self.g(op["id"]).setSegmentMarker(op["name"], list(specs) if op.get("_list") else specs, op["mid"])

    def op_bp_removeSegMarker(self, op):
        self.g(op["id"]).removeSegmentMarker(op["name"], op["mid"])

    def op_bp_setMarker(self, op):
        lst = [(list if op.get("_list") else tuple)(self.num(x) for x in m) for m in op["list"]]
        if op["which"] == 1:
            self.g(op["id"]).marker1 = lst
        else:
            self.g(op["id"]).marker2 = lst

    def op_bp_appendMarker(self, op):
        # mutation through the public attribute itself: bp.marker1.append((t, dur))
        lst = self.g(op["id"]).marker1 if op["which"] == 1 else self.g(op["id"]).marker2
        lst.append((list if op.get("_list") else tuple)(self.num(x) for x in op["mark"]))

    def op_bp_setSR(self, op):
        self.g(op["id"]).setSR(self.v(op["SR"]))

    def op_bp_copy(self, op):
        self.pool[op["to"]] = self.g(op["id"]).copy()

    def op_bp_add(self, op):
        self.pool[op["to"]] = self.g(op["a"]) + self.g(op["b"])

    def op_bp_eq(self, op):
        return bool(self.g(op["a"]) == self.g(op["b"]))

    def op_bp_desc(self, op):
        b = self.g(op["id"])
        d = b.description
        ser = json_ok(d)
        res = {"desc": to_J(d), "SR": enc(b.SR), "durations": [enc(x) for x in b.durations],
               "length": b.length_segments, "serialisable": ser}
        if not op.get("_noscribble"):
            self._scribble_description(d)
        return res

    def op_bp_duration(self, op):
        return q(self.g(op["id"]).duration)

    def op_bp_points(self, op):
        return int(self.g(op["id"]).points)

    def op_bp_json(self, op):
        with tempfile.TemporaryDirectory() as td:
            p = os.path.join(td, "x.json")
            self.g(op["id"]).write_to_json(p)
            self.pool[op["to"]] = BluePrint.init_from_json(p)

    # ---- elements
    def _note_channel(self, eid, ch, raw):
        if not hasattr(self, "_raw_channels"):
            self._raw_channels, self._known_elements = {}, set()
        self._known_elements.add(eid)
        s = self._raw_channels.setdefault(eid, set())
        (s.add if raw else s.discard)(ch)

    def op_el_new(self, op):
        self.pool[op["id"]] = Element()

    def op_el_addBP(self, op):
        self.g(op["id"]).addBluePrint(op["ch"], self.g(op["bp"]))
        self._note_channel(op["id"], op["ch"], raw=False)

    def op_el_addArray(self, op):
        kw = {k: np.array([self.num(x) for x in v], dtype=float) for k, v in op.get("kw", [])}
        self._note_channel(op["id"], op["ch"], raw=True)
        wfm = np.array([self.num(x) for x in op["wfm"]], dtype=float)
        if op.get("_dtype"):
            # the same numbers in the container the caller happens to have them in (DAC counts, a table of small integers, a list)
            wfm = wfm.tolist() if op["_dtype"] == "list" else wfm.astype(op["_dtype"])
            kw = {k: (v.astype(bool) if op["_dtype"] != "list" else v.astype(int).tolist()) for k, v in kw.items()}
        self.g(op["id"]).addArray(op["ch"], wfm, self.v(op["SR"]), **kw)

    def op_el_addFlags(self, op):
        flags = [self.v(x) for x in op["flags"]]
        if op.get("_as") in ("npint", "npuint8"):
            # the same numbers taken from a numpy table (a row of an integer array)
            cast = np.int64 if op["_as"] == "npint" else np.uint8
            flags = [cast(f) if isinstance(f, int) and not isinstance(f, bool) else f for f in flags]
        self.g(op["id"]).addFlags(op["ch"], flags)

    def op_el_validate(self, op):
        self.g(op["id"]).validateDurations()

    def op_el_getArrays(self, op):
        return self.g(op["id"]).getArrays(includetime=op.get("time", False))

    def op_el_SR(self, op):
        return enc(self.g(op["id"]).SR)

    def op_el_points(self, op):
        return int(self.g(op["id"]).points)

    def op_el_duration(self, op):
        return q(self.g(op["id"]).duration)

    def op_el_channels(self, op):
        return list(self.g(op["id"]).channels)

    def op_el_desc(self, op):
        d = self.g(op["id"]).description
        ser = json_ok(d)
        res = {"desc": to_J(d), "serialisable": ser}
        if not op.get("_noscribble"):
            self._scribble_description(d)
        return res

    def op_el_copy(self, op):
        self.pool[op["to"]] = self.g(op["id"]).copy()

    def op_el_eq(self, op):
        return bool(self.g(op["a"]) == self.g(op["b"]))

    def op_el_changeArg(self, op):
        self.g(op["id"]).changeArg(op["ch"], op["name"], self.v(op["arg"]), self.v(op["value"]), op.get("all", False))

    def op_el_changeDur(self, op):
        self.g(op["id"]).changeDuration(op["ch"], op["name"], self.v(op["dur"]), op.get("all", False))

    def op_el_json(self, op):
        with tempfile.TemporaryDirectory() as td:
            p = os.path.join(td, "x.json")
            self.g(op["id"]).write_to_json(p)
            self.pool[op["to"]] = Element.init_from_json(p)

    # ---- sequences
    def op_sq_new(self, op):
        self.pool[op["id"]] = Sequence()

    @staticmethod
    def _pos(op):
        """the position as the caller's own code may produce it (a loop over np.arange gives numpy integers)"""
        return np.int64(op["pos"]) if op.get("_pos_as") == "npint" else op["pos"]

    def op_sq_addElement(self, op):
        self.g(op["id"]).addElement(self._pos(op), self.g(op["el"]))

    def op_sq_addSub(self, op):
        self.g(op["id"]).addSubSequence(self._pos(op), self.g(op["sub"]))

    def op_sq_setSR(self, op):
        self.g(op["id"]).setSR(self.v(op["v"]))

    def op_sq_setAmp(self, op):
        self.g(op["id"]).setChannelAmplitude(op["ch"], self.v(op["v"]))

    def op_sq_setOff(self, op):
        self.g(op["id"]).setChannelOffset(op["ch"], self.v(op["v"]))

    def op_sq_setRange(self, op):
        # the deprecated setChannelVoltageRange (amplitude and offset in one call; it warns)
        with warnings.catch_warnings():
            warnings.simplefilter("ignore")
            self.g(op["id"]).setChannelVoltageRange(op["ch"], self.v(op["ampl"]), self.v(op["offset"]))

    def op_sq_len(self, op):
        return int(self.g(op["id"]).length_sequenceelements)

    def op_sq_setDelay(self, op):
        self.g(op["id"]).setChannelDelay(op["ch"], self.v(op["v"]))

    def op_sq_setFilter(self, op):
        order = op["order"] if op.get("orderIsInt", True) else float(op["order"])
        self.g(op["id"]).setChannelFilterCompensation(op["ch"], op["kind"], order, f_cut=self.v(op.get("f_cut")), tau=self.v(op.get("tau")))

    def op_sq_setSeq(self, op):
        s = self.g(op["id"])
        m = {"twait": s.setSequencingTriggerWait, "nrep": s.setSequencingNumberOfRepetitions,
             "jump_input": s.setSequencingEventInput, "jump_target": s.setSequencingEventJumpTarget,
             "goto": s.setSequencingGoto}
        v = op["v"]
        if op.get("_as"):
            self._typed_settings = True
        if op.get("_as") == "bool":
            v = bool(v)             # the same number, as a caller's own code may produce it
        elif op.get("_as") == "float":
            v = float(v)
        elif op.get("_as") == "npint":
            v = np.int64(v)
        m[op["field"]](op["pos"], v)

    def op_sq_setSeqSettings(self, op):
        self.g(op["id"]).setSequenceSettings(op["pos"], op["wait"], op["nreps"], op["jump"], op["goto"])

    def op_sq_setName(self, op):
        self.g(op["id"]).name = op["name"]

    def op_sq_check(self, op):
        if "verbose" in op:
            # checkConsistency(verbose=...) -- positional or by keyword; what it prints is not observed
            import contextlib, io
            with contextlib.redirect_stdout(io.StringIO()):
                s = self.g(op["id"])
                return bool(s.checkConsistency(op["verbose"]) if op.get("positional") else s.checkConsistency(verbose=op["verbose"]))
        return bool(self.g(op["id"]).checkConsistency())

    def op_sq_channels(self, op):
        return list(self.g(op["id"]).channels)

    def op_sq_points(self, op):
        return int(self.g(op["id"]).points)

    def op_sq_duration(self, op):
        return q(self.g(op["id"]).duration)

    def op_sq_desc(self, op):
        d = self.g(op["id"]).description
        ser = json_ok(d)
        res = {"desc": to_J(d), "serialisable": ser}
        if not op.get("_noscribble"):
            self._scribble_description(d)
        return res

    def op_sq_forge(self, op):
        s = self.g(op["id"])
        out = s.forge(apply_delays=op.get("delays", True), apply_filters=op.get("filters", True), includetime=op.get("time", False))
        try:
            if not getattr(self, "_typed_settings", False):
                # (a caller who stores a bool / float / numpy integer as a sequencing value gets it back as such; the
                # published schema asks for int: outside C18's domain, which takes settings as Python ints)
                fs_schema.validate(out)
            schema_ok = True
        except Exception as e:  # noqa: BLE001
            schema_ok = str(e)[:200]
        return {"forged": out, "schema": schema_ok}

    def op_sq_awg(self, op):
        pkg = self.g(op["id"]).outputForAWGFile()
        if op.get("index") is not None:
            tup = pkg[op["index"]]
        elif op.get("slice") is not None:
            a, b, c = op["slice"]
            tup = pkg[slice(a, b, c)]
        else:
            tup = pkg[:]
        return {"channels": list(pkg.channels), "tuple": tup}

    def op_sq_seqx(self, op):
        s = self.g(op["id"])
        return s.outputForSEQXFileWithFlags() if op.get("flags") else s.outputForSEQXFile()

    def op_sq_add(self, op):
        self.pool[op["to"]] = self.g(op["a"]) + self.g(op["b"])

    def op_sq_copy(self, op):
        self.pool[op["to"]] = self.g(op["id"]).copy()

    def op_sq_eq(self, op):
        return bool(self.g(op["a"]) == self.g(op["b"]))

    def op_sq_elChangeArg(self, op):
        self.g(op["id"]).element(op["pos"]).changeArg(op["ch"], op["name"], self.v(op["arg"]), self.v(op["value"]), op.get("all", False))

    def op_sq_elChangeDur(self, op):
        self.g(op["id"]).element(op["pos"]).changeDuration(op["ch"], op["name"], self.v(op["dur"]), op.get("all", False))

    def op_sq_json(self, op):
        with tempfile.TemporaryDirectory() as td:
            p = os.path.join(td, "x.json")
            self.g(op["id"]).write_to_json(p)
            self.pool[op["to"]] = Sequence.init_from_json(p)

    # ---- tools
    def op_tl_linvary(self, op):
        self.pool[op["to"]] = tools.makeLinearlyVaryingSequence(
            self.g(op["base"]), op["ch"], op["name"], self.v(op["arg"]), self.num(op["start"]), self.num(op["stop"]), self.num(op["step"]))

    def _vars(self, op):
        vs = op["vars"]
        return ([v["chan"] for v in vs], [v["name"] for v in vs], [self.v(v["arg"]) for v in vs],
                [[self.v(x) for x in v["vals"]] for v in vs])

    @staticmethod
    def _pad(lst, n, filler):
        """lists of deliberately mismatched lengths: `lens` gives the lengths the call receives"""
        lst = list(lst)
        while len(lst) < n:
            lst.append(filler if not lst else lst[-1])
        return lst[:n]

    def op_tl_vary(self, op):
        ch, nm, ar, it = self._vars(op)
        lens = op["lens"]
        self.pool[op["to"]] = tools.makeVaryingSequence(
            self.g(op["base"]), self._pad(ch, lens[0], 1), self._pad(nm, lens[1], "x"), self._pad(ar, lens[2], 0), self._pad(it, lens[3], [0]))

    def op_sq_SR(self, op):
        return q(self.g(op["id"]).SR)

    def op_heap_summary(self, op):
        import heapwalk
        res, self._heap_prev = heapwalk.summary(self.pool, op["vars"], getattr(self, "_heap_prev", {}))
        return res

    def op_tl_repvary(self, op):
        ch, nm, ar, it = self._vars(op)
        lens = op["lens"]
        self.pool[op["to"]] = tools.repeatAndVarySequence(
            self.g(op["seq"]), self._pad(op["poss"], lens[0], 1), self._pad(ch, lens[1], 1), self._pad(nm, lens[2], "x"),
            self._pad(ar, lens[3], 0), self._pad(it, lens[4], [0]))


# --------------------------------------------------------------------------
# the model process


class Model:
    def __init__(self):
        self.p = subprocess.Popen(["lake", "env", "lean", "--run", "Main.lean"], cwd=LEAN_DIR,
                                  stdin=subprocess.PIPE, stdout=subprocess.PIPE, text=True, bufsize=1)

    def run(self, ops):
        self.p.stdin.write(json.dumps({"ops": ops}) + "\n")
        self.p.stdin.flush()
        line = self.p.stdout.readline()
        if not line:
            raise RuntimeError("model driver died")
        r = json.loads(line)
        if "res" not in r:
            raise RuntimeError("model driver: " + line[:300])
        return r["res"]

    def close(self):
        try:
            self.p.stdin.close()
            self.p.wait(timeout=10)
        except Exception:  # noqa: BLE001
            self.p.kill()


# --------------------------------------------------------------------------
# comparison of one op result


def cmp_seqset(impl, model, path):
    for k in ("twait", "nrep", "jump_input", "jump_target", "goto"):
        if impl.get(k) != model.get(k):
            return f"{path}.sequencing.{k}: impl {impl.get(k)!r} != model {model.get(k)!r}"
    if sorted(impl.keys()) != sorted(model.keys()):
        return f"{path}.sequencing keys {sorted(impl.keys())}"
    return None


def cmp_arrays_dict(impl, model, path, tol):
    """impl: {chan: {name: array}}; model: [[chan, chout]...] ; order of channels compared"""
    ichans = list(impl.keys())
    mchans = [c for c, _ in model]
    if ichans != mchans:
        return f"{path}: channels impl {ichans} != model {mchans}"
    for (c, mo) in model:
        try:
            mm = eval_chout(mo)
        except Exception as e:  # noqa: BLE001
            return f"{path}[{c}]: model output not evaluable: {type(e).__name__}: {e}"
        d = arrays_diff(impl[c], mm, f"{path}[{c}]", tol)
        if d:
            return d
    return None


def cmp_forged(impl, model, path, tol):
    out = impl["forged"]
    if sorted(out.keys()) != [p for p, _ in model]:
        return f"{path}: positions impl {sorted(out.keys())} != model {[p for p, _ in model]}"
    if list(out.keys()) != sorted(out.keys()):
        return f"{path}: positions not in order {list(out.keys())}"
    for pos, fp in model:
        e = out[pos]
        if e["type"] != fp["type"]:
            return f"{path}[{pos}].type: impl {e['type']} != model {fp['type']}"
        d = cmp_seqset(e["sequencing"], fp["sequencing"], f"{path}[{pos}]")
        if d:
            return d
        if sorted(e.keys()) != ["content", "sequencing", "type"]:
            return f"{path}[{pos}] keys {sorted(e.keys())}"
        cont = e["content"]
        if list(cont.keys()) != [p2 for p2, _, _ in fp["content"]]:
            return f"{path}[{pos}].content positions impl {list(cont.keys())} != model {[p2 for p2, _, _ in fp['content']]}"
        for p2, chans, sq in fp["content"]:
            ce = cont[p2]
            want_keys = ["data"] if sq is None else ["data", "sequencing"]
            if sorted(ce.keys()) != want_keys:
                return f"{path}[{pos}].content[{p2}] keys impl {sorted(ce.keys())} != model {want_keys}"
            if sq is not None:
                d = cmp_seqset(ce["sequencing"], sq, f"{path}[{pos}].content[{p2}]")
                if d:
                    return d
            d = cmp_arrays_dict(ce["data"], chans, f"{path}[{pos}].content[{p2}].data", tol)
            if d:
                return d
    if impl["schema"] is not True:
        return f"{path}: forged structure fails fs_schema: {impl['schema']}"
    return None


def check_obligations(obs):
    """evaluate deferred voltage-range obligations; True iff some waveform leaves its range"""
    for ob in obs:
        w = eval_wave({**ob["wave"], "resc": None})
        if w.max() > float(Fraction(ob["hi"])) or w.min() < float(Fraction(ob["lo"])):
            return True
    return False


def near_boundary(obs, rel=1e-9):
    """some deferred waveform is within float noise of its range boundary (undecidable)"""
    for ob in obs:
        w = eval_wave({**ob["wave"], "resc": None})
        hi, lo = float(Fraction(ob["hi"])), float(Fraction(ob["lo"]))
        s = max(1.0, abs(hi), abs(lo))
        if abs(w.max() - hi) <= rel * s or abs(w.min() - lo) <= rel * s:
            return True
    return False


def cmp_deferred(impl_res, model_ok, path, tol, cmp_pkg):
    """model_ok: {"obligations","thenErr","pkg"}; impl_res: {"ok":..}|{"err":..}"""
    if near_boundary(model_ok["obligations"]):
        return None
    if check_obligations(model_ok["obligations"]):
        want = "ValueError"
    else:
        want = model_ok["thenErr"]
    if want is not None:
        if "err" not in impl_res:
            return f"{path}: model raises {want}, impl returned a package"
        if impl_res["err"] != want:
            return f"{path}: errclass impl {impl_res['err']} != model {want}"
        return None
    if "err" in impl_res:
        return f"{path}: impl raised {impl_res['err']} ({impl_res.get('msg')}), model returns a package"
    return cmp_pkg(impl_res["ok"], model_ok["pkg"], path, tol)


def cmp_awg(impl, model, path, tol):
    if impl["channels"] != model["channels"]:
        return f"{path}.channels: impl {impl['channels']} != model {model['channels']}"
    wf, m1, m2, nreps, tw, gotos, jumps = impl["tuple"]
    for name, iv, mv in (("nreps", nreps, model["nreps"]), ("trig_waits", tw, model["trig_waits"]),
                         ("gotos", gotos, model["gotos"]), ("jump_tos", jumps, model["jump_tos"])):
        if list(iv) != list(mv):
            return f"{path}.{name}: impl {list(iv)} != model {list(mv)}"
    if len(wf) != len(model["wfms"]) or len(m1) != len(model["m1s"]) or len(m2) != len(model["m2s"]):
        return f"{path}: number of channels impl {len(wf)} != model {len(model['wfms'])}"
    for i, (rowi, rowm) in enumerate(zip(wf, model["wfms"])):
        if len(rowi) != len(rowm):
            return f"{path}.wfms[{i}]: positions impl {len(rowi)} != model {len(rowm)}"
        for p, (wi, wm) in enumerate(zip(rowi, rowm)):
            d = arr_close(wi, eval_wave(wm), tol)
            if d:
                return f"{path}.wfms[{i}][{p}]: {d}"
    for nm, rows_i, rows_m in (("m1s", m1, model["m1s"]), ("m2s", m2, model["m2s"])):
        for i, (rowi, rowm) in enumerate(zip(rows_i, rows_m)):
            if len(rowi) != len(rowm):
                return f"{path}.{nm}[{i}]: positions impl {len(rowi)} != model {len(rowm)}"
            for p, (ai, am) in enumerate(zip(rowi, rowm)):
                d = arr_close(ai, [float(Fraction(x)) for x in am], 0)
                if d:
                    return f"{path}.{nm}[{i}][{p}]: {d}"
    return None


def cmp_seqx(impl, model, path, tol):
    names = ["trig_waits", "nreps", "event_jumps", "event_jump_to", "go_to"]
    want_len = 9 if model["flags"] is not None else 8
    if len(impl) != want_len:
        return f"{path}: tuple length impl {len(impl)} != model {want_len}"
    for i, nm in enumerate(names):
        if list(impl[i]) != list(model[nm]):
            return f"{path}.{nm}: impl {list(impl[i])} != model {list(model[nm])}"
    wf = impl[5]
    if len(wf) != len(model["wfms"]):
        return f"{path}.wfms: channels impl {len(wf)} != model {len(model['wfms'])}"
    for i, (rowi, rowm) in enumerate(zip(wf, model["wfms"])):
        if len(rowi) != len(rowm):
            return f"{path}.wfms[{i}]: positions impl {len(rowi)} != model {len(rowm)}"
        for p, (ai, (wm, m1, m2)) in enumerate(zip(rowi, rowm)):
            ai = np.asarray(ai)
            if ai.ndim != 2 or ai.shape[0] != 3:
                return f"{path}.wfms[{i}][{p}]: shape {ai.shape}"
            d = arr_close(ai[0], eval_wave(wm), tol)
            if d:
                return f"{path}.wfms[{i}][{p}][0]: {d}"
            for r, mm in ((1, m1), (2, m2)):
                d = arr_close(ai[r], [float(Fraction(x)) for x in mm], 0)
                if d:
                    return f"{path}.wfms[{i}][{p}][{r}]: {d}"
    d = arr_close(impl[6], [float(Fraction(x)) for x in model["amplitudes"]], 0)
    if d:
        return f"{path}.amplitudes: {d}"
    if impl[7] != model["seqname"]:
        return f"{path}.seqname: impl {impl[7]!r} != model {model['seqname']!r}"
    if model["flags"] is not None:
        fl = [[list(map(int, x)) for x in row] for row in impl[8]]
        if fl != model["flags"]:
            return f"{path}.flags: impl {fl} != model {model['flags']}"
    return None


READONLY_SIMPLE = {"bp.eq", "el.eq", "sq.eq", "sq.check", "bp.points", "el.points", "sq.points", "sq.len"}
RAT_RESULT = {"sq.SR", "bp.duration", "el.duration", "sq.duration"}


def compare_op(op, ri, rm, tol=1e-9, errclass=True):
    """returns None if the implementation's result `ri` agrees with the model's `rm`"""
    o = op["op"]
    path = o
    if "err" in rm and rm["err"] in ("NoSuchObject", "bad-op"):
        if "err" in ri:
            return None  # the program referred to an object an earlier failed op did not create
        return f"{path}: model {rm['err']}"
    if o == "heap.summary":
        if "err" in ri or "err" in rm:
            return f"{path}: impl {ri.get('err')} model {rm.get('err')}"
        vi, vm = ri["ok"], rm["ok"]
        if vm.get("fault"):
            return "heap-fault: the reference-level model faulted (a method program broke the ownership discipline)"
        # verdict on mutable containers only; sharing of frozen cells (nested filter dicts, arrays) is recorded,
        # not judged: it is harmless as long as nothing writes them, and that shows as a changed object
        si = sorted([a, b, m] for a, b, m, *_ in vi["shared"] if m)
        sm = sorted([a, b, m] for a, b, m, *_ in vm["shared"] if m)
        if si != sm:
            return f"heap-shared: user-held objects sharing mutable containers [a, b, how many]: impl {si} != model {sm}"
        extra = sorted(set(vi["changed"]) - set(vm["changed"]))
        if extra:
            return f"heap-changed: changed although the model says the last calls cannot touch them: {extra}"
        return None
    if o in ("sq.awg", "sq.seqx") and "ok" in rm:
        return cmp_deferred(ri, rm["ok"], path, tol, cmp_awg if o == "sq.awg" else cmp_seqx)
    if ("err" in ri) != ("err" in rm):
        return f"{path}: impl {'raised ' + ri['err'] + ' (' + ri.get('msg', '') + ')' if 'err' in ri else 'returned'}, model {'raised ' + rm['err'] if 'err' in rm else 'returned'}"
    if "err" in ri:
        if errclass and ri["err"] != rm["err"]:
            return f"{path}: errclass impl {ri['err']} != model {rm['err']}"
        return None
    vi, vm = ri["ok"], rm["ok"]
    if o in READONLY_SIMPLE:
        return None if vi == vm else f"{path}: impl {vi!r} != model {vm!r}"
    if o in RAT_RESULT:
        a, b = float(Fraction(vi)), float(Fraction(vm))
        return None if abs(a - b) <= tol * max(1.0, abs(b)) else f"{path}: impl {a!r} != model {b!r}"
    if o == "bp.desc":
        d = J_equal(vi["desc"], vm["desc"], "desc")
        if d:
            return f"{path}: {d}"
        for k in ("SR",):
            a, b = dec_val(vi[k]), dec_val(vm[k])
            if a != b:
                return f"{path}.{k}: impl {a!r} != model {b!r}"
        if [dec_val(x) for x in vi["durations"]] != [dec_val(x) for x in vm["durations"]]:
            return f"{path}.durations: impl {vi['durations']} != model {vm['durations']}"
        if vi["length"] != vm["length"]:
            return f"{path}.length: impl {vi['length']} != model {vm['length']}"
        if vi["serialisable"] != vm["serialisable"]:
            return f"{path}.serialisable: impl {vi['serialisable']} != model {vm['serialisable']}"
        return None
    if o in ("el.desc", "sq.desc"):
        # `_numtol`: the values were computed by the implementation in floating point (linspace)
        d = J_equal(vi["desc"], vm["desc"], "desc", tol=Fraction(op.get("_numtol", 0)))
        if d:
            return f"{path}: {d}"
        if vi["serialisable"] != vm["serialisable"]:
            return f"{path}.serialisable: impl {vi['serialisable']} != model {vm['serialisable']}"
        return None
    if o == "el.getArrays":
        return cmp_arrays_dict(vi, vm, path, tol)
    if o == "el.SR":
        a, b = dec_val(vi), dec_val(vm)
        return None if a == b else f"{path}: impl {a!r} != model {b!r}"
    if o in ("el.channels", "sq.channels"):
        return None if list(vi) == list(vm) else f"{path}: impl {vi!r} != model {vm!r}"
    if o == "sq.forge":
        return cmp_forged(vi, vm, path, tol)
    # mutators: both returned
    return None


def jsonable(x):
    """make an implementation result printable in a replay file"""
    if isinstance(x, np.ndarray):
        return x.tolist() if x.size <= 64 else {"array_len": int(x.size), "head": x.flat[:8].tolist()}
    if isinstance(x, (np.integer,)):
        return int(x)
    if isinstance(x, (np.floating,)):
        return float(x)
    if isinstance(x, dict):
        return {str(k): jsonable(v) for k, v in x.items()}
    if isinstance(x, (list, tuple)):
        return [jsonable(v) for v in x]
    if isinstance(x, (int, float, str, bool)) or x is None:
        return x
    return repr(x)
