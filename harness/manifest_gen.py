#!/venv/bin/python
"""(re)write MANIFEST.json from the property modules that exist in harness/props"""
import importlib, json, os, sys
HERE = os.path.dirname(os.path.abspath(__file__)); VERIF = os.path.dirname(HERE)
sys.path.insert(0, HERE)
ALL = [f"C{i:02d}" for i in range(1, 21)]
checks, na = [], []
for pid in ALL:
    path = os.path.join(HERE, "props", pid.lower() + ".py")
    if not os.path.exists(path):
        na.append({"property_id": pid, "reason": "not claimed yet: the model covers the code but this property's theorems/generators are still being built (see DESIGN.md section 7)"})
        continue
    src = open(path).read()
    ns = {}
    # read the static metadata without importing broadbean
    for key in ("LEVEL_TEXT", "LEVEL_NOTE", "TECHNIQUE", "DESIGN_REF"):
        import re
        m = re.search(rf'^{key}\s*=\s*\((.*?)^\)', src, flags=re.S | re.M) or re.search(rf'^{key}\s*=\s*(".*?")\s*$', src, flags=re.M)
        ns[key] = eval("(" + m.group(1) + ")") if m else None
    checks.append({
        "property_id": pid,
        "quick_cmd": f"/venv/bin/python harness/check.py --property {pid} --tier quick",
        "thorough_cmd": f"/venv/bin/python harness/check.py --property {pid} --tier thorough",
        "evidence_file": f"evidence/{pid}.json",
        "replay_cmd_template": "/venv/bin/python harness/check.py --replay {path}",
        "engine": "lean-model+correspondence",
        "level_claimed": {"category": "proof", "text": ns["LEVEL_TEXT"] or "theorems about the Lean model, tied to the code by generated kernels and the correspondence check", "design_ref": ns["DESIGN_REF"] or f"DESIGN.md section 7, {pid}"},
        "level_note": ns["LEVEL_NOTE"] or "trusted: Lean kernel + propext/Classical.choice/Quot.sound, Mathlib, the py2lean translator, the correspondence harness; numpy/CPython/IEEE-754 modelled not verified",
        "technique": ns["TECHNIQUE"] or "Lean 4 proof about an executable model + differential correspondence with the implementation",
    })
man = {
    "version": 1,
    "setup_cmd": "/venv/bin/python harness/py2lean.py && /venv/bin/python harness/mkroot.py && cd lean && lake build",
    "hooks": {"guard": "BROADBEAN_VERIF", "enable": "not used: the harness drives the public API only, no instrumentation in /repo",
              "baseline_off_cmd": "/venv/bin/python harness/baseline.py", "source_commits": [], "add_only": True},
    "engines": [{"name": "lean-model+correspondence", "path": "harness/check.py", "serves_properties": [c["property_id"] for c in checks],
                 "kind_free_text": "Lean 4 theorems about an executable model (lean/BB), kernels regenerated from /repo by harness/py2lean.py, differential correspondence check harness/core.py against the real broadbean"}],
    "checks": checks,
    "not_applicable": na,
    "notes": "See DESIGN.md. Fix commits in /repo are listed in KNOWN_FINDINGS.txt.",
}
json.dump(man, open(os.path.join(VERIF, "MANIFEST.json"), "w"), indent=1)
print(len(checks), "checks;", len(na), "not claimed")
