#!/venv/bin/python
"""Entry point of every registered check.

    check.py --property C05 [--tier quick|thorough]
    check.py --replay replays/C05-....json

Pipeline (DESIGN.md section 5): regenerate the Tier-A kernels from /repo, `lake build` the
property's theorems and the model driver, audit axioms and hygiene, replay the corpus, run the
correspondence generators, decide, write evidence."""
import argparse
import fcntl
import glob
import hashlib
import importlib
import json
import os
import re
import shutil
import subprocess
import sys
import tempfile
import time
import traceback

HERE = os.path.dirname(os.path.abspath(__file__))
VERIF = os.path.dirname(HERE)
LEAN = os.path.join(VERIF, "lean")
sys.path.insert(0, HERE)

ALLOWED_AXIOMS = {"propext", "Classical.choice", "Quot.sound"}
FORBIDDEN = re.compile(r"\bsorry\b|\badmit\b|^\s*axiom\s|native_decide|bv_decide|implemented_by|\bunsafe\s|maxHeartbeats\s+0\b")
GEN_FILES = ["K.lean", "KReal.lean", "KFloat.lean"]


def sh(cmd, cwd=None, timeout=3600):
    p = subprocess.run(cmd, cwd=cwd, capture_output=True, text=True, timeout=timeout)
    return p.returncode, p.stdout + p.stderr


def strip_comments(text):
    text = re.sub(r"/-.*?-/", "", text, flags=re.S)
    return "\n".join(line.split("--")[0] for line in text.splitlines())


def hygiene():
    bad = []
    for path in glob.glob(os.path.join(LEAN, "BB", "**", "*.lean"), recursive=True) + [os.path.join(LEAN, "Main.lean")]:
        for i, line in enumerate(strip_comments(open(path).read()).splitlines(), 1):
            if FORBIDDEN.search(line):
                bad.append(f"{os.path.relpath(path, VERIF)}:{i}: {line.strip()[:100]}")
    return bad


def theorem_names(module):
    path = os.path.join(LEAN, *module.split(".")) + ".lean"
    text = strip_comments(open(path).read())
    ns = re.findall(r"^namespace\s+(\S+)", text, flags=re.M)
    prefix = ns[0] + "." if ns else ""
    return [prefix + m for m in re.findall(r"^theorem\s+(\S+)", text, flags=re.M)]


def audit(module, extra=()):
    """#print axioms for every property theorem; returns {theorem: [axioms] | None(error)}.  `extra`: further modules whose
    theorems belong to the property (kept in a file of their own for import reasons)"""
    names = theorem_names(module)
    for m in extra:
        names += theorem_names(m)
    src = "".join(f"import {m}\n" for m in (module, *extra)) + "\n".join(f"#print axioms {n}" for n in names) + "\n"
    with tempfile.NamedTemporaryFile("w", suffix=".lean", dir=os.path.join(LEAN, ".lake"), delete=False) as f:
        f.write(src)
        tmp = f.name
    try:
        rc, out = sh(["lake", "env", "lean", tmp], cwd=LEAN, timeout=1800)
    finally:
        os.unlink(tmp)
    res = {n: None for n in names}
    # "'X' depends on axioms: [a, b]" | "'X' does not depend on any axioms"
    for m in re.finditer(r"'(\S+)' depends on axioms: \[([^\]]*)\]", out):
        res[m.group(1)] = [a.strip() for a in m.group(2).replace("\n", " ").split(",") if a.strip()]
    for m in re.finditer(r"'(\S+)' does not depend on any axioms", out):
        res[m.group(1)] = []
    return res, out


class Lock:
    def __enter__(self):
        os.makedirs(os.path.join(LEAN, ".lake"), exist_ok=True)
        self.f = open(os.path.join(LEAN, ".lake", "verif.lock"), "w")
        fcntl.flock(self.f, fcntl.LOCK_EX)
        return self

    def __exit__(self, *a):
        fcntl.flock(self.f, fcntl.LOCK_UN)
        self.f.close()


def restore_golden():
    for fn in GEN_FILES:
        shutil.copy(os.path.join(LEAN, "golden", fn), os.path.join(LEAN, "BB", "Gen", fn))


def local_imports(module, seen=None):
    """the module and every BB.* module it imports, transitively (for the independent re-check)"""
    seen = set() if seen is None else seen
    if module in seen:
        return seen
    seen.add(module)
    path = os.path.join(LEAN, *module.split(".")) + ".lean"
    if os.path.exists(path):
        for m in re.findall(r"^import\s+(BB\.\S+)", open(path).read(), flags=re.M):
            local_imports(m, seen)
    return seen


def prepare(prop, tier="quick"):
    """regenerate kernels, build, audit.  Returns info dict; the model driver is started while
    the lock is held so that it loads the object files this build produced."""
    import py2lean
    info = {"broken": [], "kernel_mode": "regenerated"}
    targets = [prop.LEAN_MODULE, "BB.Model.Codec"] + getattr(prop, "EXTRA_TARGETS", [])
    with Lock():
        t0 = time.time()
        try:
            info["translator"] = py2lean.main()
        except Exception as e:  # noqa: BLE001
            info["translator"] = {"error": f"{type(e).__name__}: {e}"}
            info["broken"].append({"what": "translator", "detail": f"{type(e).__name__}: {e}"})
            restore_golden()
            info["kernel_mode"] = "golden"
        rc, out = sh(["lake", "build"] + targets, cwd=LEAN)
        info["build_s"] = round(time.time() - t0, 1)
        if rc != 0:
            errs = re.findall(r"^error: (\S+?\.lean):(\d+):\d+: (.*)$", out, flags=re.M)
            info["broken"].append({"what": "lake build " + " ".join(targets),
                                   "errors": [f"{f}:{ln}: {msg[:160]}" for f, ln, msg in errs[:12]] or [out[-600:]]})
            # fall back to the last known good kernels so that the model can serve as the oracle
            restore_golden()
            info["kernel_mode"] = "golden"
            rc2, out2 = sh(["lake", "build"] + targets, cwd=LEAN)
            if rc2 != 0:
                info["fatal"] = "build fails even with the golden kernels:\n" + out2[-1500:]
                return info, None
        bad = hygiene()
        info["hygiene"] = bad
        res, raw = audit(prop.LEAN_MODULE, tuple(getattr(prop, "EXTRA_TARGETS", [])))
        info["axioms"] = res
        info["obligations"] = len(res)
        ok = [n for n, ax in res.items() if ax is not None and set(ax) <= ALLOWED_AXIOMS]
        info["discharged"] = len(ok) if not bad else 0
        for n, ax in res.items():
            if ax is None:
                info["broken"].append({"what": "theorem", "name": n, "detail": "not checked (#print axioms gave nothing)"})
            elif not set(ax) <= ALLOWED_AXIOMS:
                info["broken"].append({"what": "theorem", "name": n, "detail": f"depends on axioms {ax}"})
        for b in bad:
            info["broken"].append({"what": "hygiene", "detail": b})
        if tier == "thorough":
            # independent re-check of the compiled proofs (property module and every local module under it)
            mods = sorted(local_imports(prop.LEAN_MODULE))
            t1 = time.time()
            rc, out = sh(["lake", "env", "leanchecker"] + mods, cwd=LEAN, timeout=3600)
            info["leanchecker"] = {"modules": mods, "exit": rc, "seconds": round(time.time() - t1, 1)}
            if rc != 0:
                info["broken"].append({"what": "leanchecker", "detail": out[-600:]})
        from core import Model
        model = Model()
        model.run([])  # wait until the driver has loaded
        # from here on this process only interprets op programs against the code under test: a change to that code must not be
        # able to exhaust the machine (arrays of 10^9 samples from a wrong delay, say) -- it gets a MemoryError instead,
        # which is a result like any other exception
        try:
            import resource
            lim = 16 * 2 ** 30
            soft, hard = resource.getrlimit(resource.RLIMIT_AS)
            resource.setrlimit(resource.RLIMIT_AS, (lim if hard == resource.RLIM_INFINITY else min(lim, hard), hard))
        except Exception:  # noqa: BLE001
            pass
    return info, model


# ---------------------------------------------------------------------------
# correspondence


def first_diff(prop, ops, model, errclass):
    from core import Impl, compare_op
    ri = Impl().run(ops)
    rm = model.run(ops)
    for i, (op, a, b) in enumerate(zip(ops, ri, rm)):
        if op.get("_nocmp"):
            continue
        d = compare_op(op, a, b, tol=getattr(prop, "TOL", 1e-9), errclass=errclass or op.get("_errclass", False))
        if d:
            return {"index": i, "op": op, "diff": d, "impl": jsonable_short(a), "model": jsonable_short(b)}, ri, rm
    extra = getattr(prop, "post_check", None)
    if extra and not (ops and ops[0].get("_universal")):
        d = extra(ops, ri, rm)
        if d:
            return {"index": len(ops) - 1, "op": None, "diff": d}, ri, rm
    return None, ri, rm


REF_FIELDS = ("id", "to", "bp", "el", "sub", "a", "b", "base", "seq")


def merged_program(r, other_ops, ops):
    """two unrelated programs in ONE process and ONE model run, interleaved in chunks: the objects of `other_ops` (renamed y_*)
    are never derived from those of `ops`, so nothing one program does may show in the other's results (no class attribute,
    mutable default, module-level table or cache shared between unrelated objects).  Only the model comparison judges it."""
    def clean(prog, prefix):
        out = []
        for o in prog:
            if o.get("op") == "heap.summary":
                continue
            n = dict(o)
            n.pop("_universal", None)
            for f in REF_FIELDS:
                if prefix and isinstance(n.get(f), str):
                    n[f] = prefix + n[f]
            out.append(n)
        return out
    A, B = clean(other_ops, "y_"), clean(ops, "")
    out = []
    i = j = 0
    while i < len(A) or j < len(B):
        k = r.randint(1, 6)
        out += A[i:i + k]
        i += k
        k = r.randint(1, 6)
        out += B[j:j + k]
        j += k
    if not out:
        return ops
    names = sorted({o[k] for o in out for k in ("id", "to") if isinstance(o.get(k), str)})
    out.append({"op": "heap.summary", "vars": names})
    out[0] = {**out[0], "_universal": True, "_merged": True}
    return out


def jsonable_short(x):
    from core import jsonable
    s = json.dumps(jsonable(x))
    return json.loads(s) if len(s) < 4000 else s[:4000] + "..."


def diff_class(d):
    """what kind of mismatch a diff string reports (its text up to the first colon)"""
    return d["diff"].split(":")[0] if d else None


def shrink(prop, ops, model, errclass, budget=150, want=None):
    """greedy delta debugging: drop ops while a mismatch of the same kind persists"""
    cur = list(ops)
    tries = 0
    changed = True
    while changed and tries < budget:
        changed = False
        for i in range(len(cur) - 1, -1, -1):
            if tries >= budget:
                break
            cand = cur[:i] + cur[i + 1:]
            tries += 1
            try:
                d, _, _ = first_diff(prop, cand, model, errclass)
            except Exception:  # noqa: BLE001
                d = None
            if d and (want is None or diff_class(d) == want):
                cur = cand
                changed = True
    return cur


def known_findings():
    out = []
    p = os.path.join(VERIF, "KNOWN_FINDINGS.txt")
    if os.path.exists(p):
        for line in open(p):
            line = line.strip()
            m = re.match(r"known:\s+property=(\S+)\s+(.*?)\s+match=(.*)$", line)
            if m:
                out.append({"property": m.group(1), "what": m.group(2), "match": m.group(3)})
    return out


def write_replay(pid, seed, tier, payload):
    os.makedirs(os.path.join(VERIF, "replays"), exist_ok=True)
    h = hashlib.sha1(json.dumps(payload, sort_keys=True, default=str).encode()).hexdigest()[:10]
    path = os.path.join("replays", f"{pid}-{tier}-{seed}-{h}.json")
    with open(os.path.join(VERIF, path), "w") as f:
        json.dump({"property": pid, "seed": seed, "tier": tier, **payload}, f, indent=1, default=str)
    return path


def run_check(pid, tier, seed):
    t0 = time.time()
    prop = importlib.import_module("props." + pid.lower())
    info, model = prepare(prop, tier)
    if model is None:
        print("INFRASTRUCTURE: " + info.get("fatal", "?"))
        return 2
    from gen import G
    violations = []   # (line, replay)
    known_hits = []
    stats = {"cases": 0, "ops": 0, "errors_seen": {}, "op_kinds": {}, "distinct": set(), "nontrivial": 0}
    samples = []
    kf = [k for k in known_findings() if k["property"] == pid]

    def record(ops, ri):
        stats["cases"] += 1
        stats["ops"] += len(ops)
        key = hashlib.sha1(json.dumps(ops, sort_keys=True).encode()).hexdigest()
        new = key not in stats["distinct"]
        stats["distinct"].add(key)
        for op, r in zip(ops, ri):
            stats["op_kinds"][op["op"]] = stats["op_kinds"].get(op["op"], 0) + 1
            if "err" in r:
                stats["errors_seen"][r["err"]] = stats["errors_seen"].get(r["err"], 0) + 1
            elif op["op"] == "heap.summary":
                hp = stats.setdefault("extra", {}).setdefault("reference_level_observations",
                                                             {"summaries": 0, "objects_walked": 0, "pairs_sharing_frozen_cells": 0,
                                                              "pairs_sharing_mutable_containers": 0, "objects_changed": 0})
                hp["summaries"] += 1
                hp["objects_walked"] += len(op.get("vars", []))
                hp["pairs_sharing_frozen_cells"] += sum(1 for x in r["ok"]["shared"] if x[3] or x[4])
                hp["pairs_sharing_mutable_containers"] += sum(1 for x in r["ok"]["shared"] if x[2])
                hp["objects_changed"] += len(r["ok"]["changed"])
        if ops and ops[0].get("_universal"):
            nontriv = True
            stats.setdefault("extra", {})["feature_rich_programs"] = stats.setdefault("extra", {}).get("feature_rich_programs", 0) + 1
        else:
            nontriv = getattr(prop, "nontrivial", lambda ops, ri: len(ops) >= 3 and any("ok" in r for r in ri))(ops, ri)
        if new and nontriv:
            stats["nontrivial"] += 1
        if len(samples) < 3 and nontriv:
            samples.append([{k: v for k, v in op.items() if not k.startswith("_")} for op in ops][:12])

    def handle(ops, origin):
        errclass = getattr(prop, "ERRCLASS", False) and not (ops and ops[0].get("_universal"))
        try:
            d, ri, rm = first_diff(prop, ops, model, errclass)
        except Exception as e:  # noqa: BLE001
            raise RuntimeError(f"harness failure on case from {origin}: {type(e).__name__}: {e}\n{traceback.format_exc()}")
        record(ops, ri)
        if not d:
            return
        for k in kf:
            if re.search(k["match"], d["diff"]):
                known_hits.append(k)
                return
        small = shrink(prop, ops, model, errclass, want=diff_class(d))
        d2, _, _ = first_diff(prop, small, model, errclass)
        d2 = d2 or d
        pinned = getattr(prop, "is_pinned", lambda op, diff: True)(d2.get("op"), d2["diff"])
        payload = {"origin": origin, "ops": small, "first_difference": d2, "kernel_mode": info["kernel_mode"],
                   "kind": "pinned observable differs: failing input for the property" if pinned else
                           "extra observable differs: correspondence broken",
                   "how_to_replay": f"/venv/bin/python harness/check.py --replay <this file>"}
        violations.append((pinned, payload))

    # corpus first
    for path in sorted(glob.glob(os.path.join(VERIF, "corpus", pid, "*.json"))):
        c = json.load(open(path))
        handle(c["ops"], "corpus/" + os.path.basename(path))
    n = prop.QUICK_N if tier == "quick" else prop.THOROUGH_N
    direct_fail = []
    prev_case = None
    try:
        for ci in range(n):
            g = G(seed * 1000003 + ci)
            every = getattr(prop, "UNIVERSAL_EVERY", 0)
            if every and ci % every == every - 1:
                # a feature-rich random program (props/universal.py) in place of the property's own generator
                kind = getattr(prop, "UNIVERSAL_KIND", "seq")
                if kind == "bp" or (kind == "both" and (ci // every) % 2 == 0):
                    import props.universal_bp as universal
                else:
                    import props.universal as universal
                ops = universal.program(g, ci)
                ops[0] = {**ops[0], "_universal": True}
            else:
                ops = prop.case(g, tier, ci)
            if getattr(prop, "HEAP_SUMMARY", False) and not any(o.get("op") == "heap.summary" for o in ops):
                # reference-level observation at the end of the program: which user-held objects share cells
                names = sorted({o[k] for o in ops for k in ("id", "to") if isinstance(o.get(k), str)})
                if tier == "thorough":
                    # ... and after every tenth op on the way
                    mixed = []
                    for i, o in enumerate(ops):
                        mixed.append(o)
                        if i % 10 == 9:
                            mixed.append({"op": "heap.summary", "vars": names})
                    ops = mixed
                ops = list(ops) + [{"op": "heap.summary", "vars": names}]
            handle(ops, f"gen seed={seed} case={ci}")
            if len(violations) >= 3:
                break
            every_m = getattr(prop, "MERGE_EVERY", 6)
            if every_m and prev_case is not None and ci % every_m == 3 and len(ops) + len(prev_case) <= 400:
                # this case once more, interleaved with the previous (unrelated) one
                stats["merged"] = stats.get("merged", 0) + 1
                handle(merged_program(g.r, prev_case, ops), f"gen seed={seed} case={ci} interleaved with case={ci - 1}")
                if len(violations) >= 3:
                    break
            prev_case = ops
        if hasattr(prop, "direct"):
            direct_fail = prop.direct(seed, tier, model, stats) or []
    finally:
        model.close()

    # ---- decide
    lines = []
    exit_code = 0
    for k in {json.dumps(k) for k in known_hits}:
        k = json.loads(k)
        lines.append(f"KNOWN-FINDING: property={pid} {k['what']}")
    pinned_v = [p for pin, p in violations if pin]
    extra_v = [p for pin, p in violations if not pin]
    for df in direct_fail:
        pinned_v.append({"origin": "direct check", **df})
    if pinned_v:
        path = write_replay(pid, seed, tier, {**pinned_v[0], "broken_obligations": info["broken"]})
        lines.append(f"VIOLATION property={pid} replay={path}")
        exit_code = 1
    elif info["broken"] or extra_v:
        payload = {"broken_obligations": info["broken"], "kernel_mode": info["kernel_mode"],
                   "note": "a proof obligation or the correspondence no longer checks; the search over the "
                           "property's generators found no input on which the property fails"}
        if extra_v:
            payload.update(extra_v[0])
        path = write_replay(pid, seed, tier, payload)
        lines.append(f"VIOLATION property={pid} replay={path} no-failing-input-found")
        exit_code = 1
    wall = round(time.time() - t0, 1)
    write_evidence(pid, tier, seed, prop, info, stats, samples, wall, len(pinned_v) + len(extra_v))
    for ln in lines:
        print(ln)
    print(f"{pid} {tier} seed={seed}: obligations {info.get('obligations')} discharged {info.get('discharged')} "
          f"kernels={info['kernel_mode']} cases={stats['cases']} ops={stats['ops']} "
          f"violations={len(pinned_v) + len(extra_v)} wall={wall}s")
    return exit_code


TRUSTED_BASE = [
    "Lean 4.33.0 kernel; axioms allowed: propext, Classical.choice, Quot.sound (audited with #print axioms on every run)",
    "Mathlib v4.33.0 (only in BB/Proofs, BB/Properties and BB/Gen/KReal)",
    "harness/py2lean.py (Python AST -> Lean translator for the generated kernels BB/Gen/K*.lean)",
    "harness/core.py, gen.py, props/*.py (correspondence check: generators, public-API interpreter, canonicalisation, tolerances)",
    "modelled, not verified: numpy (linspace, fromiter, cumsum, argmin, round, interp, fft, allclose), CPython (dict order, deepcopy, json, inspect.signature), IEEE-754 arithmetic (replaced by exact rationals)",
]


def write_evidence(pid, tier, seed, prop, info, stats, samples, wall, nviol):
    # evidence/ describes runs against /repo itself; a run pointed at another tree (BB_REPO, used by the
    # seeded-change sweeps) writes under scratch/ (git-ignored) so that it can never replace committed evidence
    evdir = os.path.join(VERIF, "scratch", "evidence_other_tree") if os.environ.get("BB_REPO") else os.path.join(VERIF, "evidence")
    os.makedirs(evdir, exist_ok=True)
    obligations = [{"theorem": n, "axioms": ax} for n, ax in (info.get("axioms") or {}).items()]
    ev = {
        "property_id": pid, "tier": tier, "seed": seed, "level": "proof",
        "coverage": {
            "obligations": max(1, info.get("obligations", 0)),
            "discharged": info.get("discharged", 0),
            "checker_cmd": f"cd lean && lake build {prop.LEAN_MODULE} && lake env lean <file with `#print axioms` for each theorem of {prop.LEAN_MODULE}>",
            "trusted_base": TRUSTED_BASE + getattr(prop, "TRUSTED_EXTRA", []),
            "theorems": obligations,
            "kernel_mode": info["kernel_mode"],
            "leanchecker": info.get("leanchecker", "thorough tier only"),
            "translator": info.get("translator"),
            "broken_obligations": info["broken"],
            "evaluations": stats["cases"],
            "distinct_nontrivial": stats["nontrivial"],
            "rule": getattr(prop, "RULE", "op programs from the property's generator (harness/props); distinct = distinct program text; non-trivial = at least 3 ops and at least one accepted op"),
            "samples": samples or [["no case generated"]],
            "ops_executed": stats["ops"],
            "op_kinds": stats["op_kinds"],
            "errors_seen_in_impl": stats["errors_seen"],
            "extra": stats.get("extra", {}),
        },
        "assumptions": getattr(prop, "ASSUMPTIONS", []),
        "wall_s": wall,
        "violations": nviol,
    }
    with open(os.path.join(evdir, f"{pid}.json"), "w") as f:
        json.dump(ev, f, indent=1, default=str)


def replay(path):
    data = json.load(open(os.path.join(VERIF, path) if not os.path.isabs(path) else path))
    pid = data["property"]
    prop = importlib.import_module("props." + pid.lower())
    info, model = prepare(prop)
    if model is None:
        print("INFRASTRUCTURE: " + info.get("fatal", "?"))
        return 2
    try:
        if "ops" not in data:
            print("replay file names broken obligations only:")
            print(json.dumps(data.get("broken_obligations"), indent=1))
            return 1 if info["broken"] else 0
        d, ri, rm = first_diff(prop, data["ops"], model, getattr(prop, "ERRCLASS", False))
    finally:
        model.close()
    if d:
        print(json.dumps(d, indent=1, default=str)[:3000])
        print(f"VIOLATION property={pid} replay={path}")
        return 1
    print("replay: implementation and model agree on this program now")
    return 0


def main():
    ap = argparse.ArgumentParser()
    ap.add_argument("--property")
    ap.add_argument("--tier", default=os.environ.get("VERIF_TIER", "quick"))
    ap.add_argument("--replay")
    a = ap.parse_args()
    seed = int(os.environ.get("VERIF_SEED", "0") or 0)
    try:
        if a.replay:
            sys.exit(replay(a.replay))
        sys.exit(run_check(a.property, a.tier, seed))
    except subprocess.TimeoutExpired as e:
        print(f"INFRASTRUCTURE: timeout {e}")
        sys.exit(2)
    except RuntimeError as e:
        print(f"INFRASTRUCTURE: {e}")
        sys.exit(2)
    except Exception as e:  # noqa: BLE001  -- a bug in the harness is never a verdict
        print(f"INFRASTRUCTURE: harness error {type(e).__name__}: {e}\n{traceback.format_exc()}")
        sys.exit(2)


if __name__ == "__main__":
    main()
