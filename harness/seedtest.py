#!/venv/bin/python
"""Run checks against a seeded change:  seedtest.py <patch.diff> [--tier quick] [--demo demo.py] C05 [C01 ...]

Applies the patch to /repo (git apply), runs the given properties' checks, prints one line per
property (exit code, VIOLATION line if any), and ALWAYS restores /repo (git checkout -- .).
Used while developing the checks; never registered in MANIFEST.json."""
import argparse
import os
import subprocess
import sys

VERIF = os.path.dirname(os.path.dirname(os.path.abspath(__file__)))


def main():
    ap = argparse.ArgumentParser()
    ap.add_argument("patch")
    ap.add_argument("props", nargs="*")
    ap.add_argument("--tier", default="quick")
    ap.add_argument("--demo")
    ap.add_argument("--tests", action="store_true", help="also run the pinned test suite with the patch applied")
    a = ap.parse_args()
    st = subprocess.run(["git", "-C", "/repo", "status", "--porcelain"], capture_output=True, text=True).stdout.strip()
    if st:
        print("refusing: /repo is not clean:\n" + st)
        return 2
    if a.demo:
        r = subprocess.run(["/venv/bin/python", a.demo], env={**os.environ, "PYTHONPATH": "/repo/src"}, capture_output=True, text=True)
        print(f"demo on unchanged tree: exit {r.returncode}")
    r = subprocess.run(["git", "-C", "/repo", "apply", os.path.abspath(a.patch)], capture_output=True, text=True)
    if r.returncode != 0:
        print("patch does not apply: " + r.stderr[:300])
        return 2
    results = {}
    try:
        if a.demo:
            r = subprocess.run(["/venv/bin/python", a.demo], env={**os.environ, "PYTHONPATH": "/repo/src"}, capture_output=True, text=True)
            print(f"demo with the patch:    exit {r.returncode}  {(r.stdout + r.stderr).strip().splitlines()[-1][:160] if (r.stdout + r.stderr).strip() else ''}")
        if a.tests:
            r = subprocess.run(["/venv/bin/python", os.path.join(VERIF, "harness", "baseline.py")], capture_output=True, text=True)
            print(f"pinned tests with the patch: exit {r.returncode} {r.stdout.strip().splitlines()[0] if r.stdout.strip() else ''}")
        for pid in a.props:
            r = subprocess.run(["/venv/bin/python", "harness/check.py", "--property", pid, "--tier", a.tier],
                               cwd=VERIF, capture_output=True, text=True)
            viol = [ln for ln in r.stdout.splitlines() if ln.startswith("VIOLATION")]
            results[pid] = r.returncode
            print(f"{pid}: exit {r.returncode} {viol[0] if viol else ''}")
            if r.returncode == 2:
                print(r.stdout[-500:])
    finally:
        subprocess.run(["git", "-C", "/repo", "checkout", "--", "."], check=True)
    caught = [p for p, rc in results.items() if rc == 1]
    print("CAUGHT by " + ",".join(caught) if caught else "MISSED")
    return 0


if __name__ == "__main__":
    sys.exit(main())
