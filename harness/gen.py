"""Structured generators of op programs.  Every random choice comes from one
random.Random seeded from VERIF_SEED, so a case replays exactly."""
import random
from fractions import Fraction

from core import enc, q, user_fn_spec

SR_POOL = [1, 7, 100, 2.4, 1e3, 12345.678, 1e6, 1e9, 5e10, 30, 250.5]
NAME_POOL = ["a", "b", "a1b", "x2y", "pulse", "pi2pulse", "x9y9z", "ramp", "wait"]
USER_FNS = ["const", "lin2", "poly4", "pi2pulse", "x9y"]
USER_ARITY = {"const": 1, "lin2": 2, "poly4": 4, "pi2pulse": 1, "x9y": 2}
BUILTIN_ARITY = {"ramp": 2, "sine": 4, "gaussian": 4, "gsc": 4}


class G:
    def __init__(self, seed):
        self.r = random.Random(seed)
        self.n = 0

    def fresh(self, prefix):
        self.n += 1
        return f"{prefix}{self.n}"

    # ---- numbers
    def fnum(self, lo=-2.0, hi=2.0):
        """a float or an int in [lo, hi]"""
        k = self.r.random()
        if k < 0.2:
            return self.r.randint(int(lo), int(hi))
        if k < 0.5:
            return self.r.choice([0.5, -0.5, 0.25, 1.5, -1.25, 0.125, 0.0, 1.0])
        return self.r.uniform(lo, hi)

    def sr(self, pool=None):
        pool = pool or SR_POOL
        if self.r.random() < 0.15:
            return round(self.r.uniform(1, 5e4), 3)
        return self.r.choice(pool)

    def dur(self, SR, n, aligned=False):
        """a duration of about n samples, off-grid by |f| <= 0.4 unless aligned"""
        if aligned or self.r.random() < 0.4:
            return n / SR
        f = self.r.uniform(-0.4, 0.4)
        return (n + f) / SR

    # ---- functions and arguments
    def fn_and_args(self, kinds, SR, n):
        kind = self.r.choice(kinds)
        if kind == "ramp":
            return "ramp", [self.fnum(), self.fnum()]
        if kind == "sine":
            return "sine", [self.r.uniform(0, SR / 2), self.fnum(), self.fnum(-1, 1), self.r.uniform(-3, 3)]
        if kind in ("gaussian", "gsc"):
            d = n / SR
            return kind, [self.fnum(), self.r.uniform(0.05, 1) * d, self.r.uniform(-0.3, 0.3) * d, self.fnum(-1, 1)]
        if kind == "user":
            name = self.r.choice(USER_FNS)
            return user_fn_spec(name), [self.fnum() for _ in range(USER_ARITY[name])]
        raise ValueError(kind)

    # ---- blueprints
    def blueprint(self, bid, SR=None, nseg=(1, 6), kinds=("ramp", "sine", "gaussian", "gsc", "user"),
                  waits=0.25, aligned=False, markers=True, names=True, nmax=40, total=None, setSR=True,
                  seg_n=None):
        """ops creating blueprint `bid`; returns (ops, info).  `total`: exact number of samples
        (then all segments are sample aligned).  info: SR, counts (samples per segment)."""
        r = self.r
        SR = SR if SR is not None else self.sr()
        ops = [{"op": "bp.new", "id": bid}]
        k = r.randint(*nseg)
        counts = []
        if total is not None:
            aligned = True
            # split total into k parts of at least 2 samples
            k = max(1, min(k, total // 2))
            cuts = sorted(r.sample(range(1, total // 2), k - 1)) if k > 1 else []
            parts = [b - a for a, b in zip([0] + cuts, cuts + [total // 2])]
            counts = [2 * p for p in parts]
            counts[-1] += total - sum(counts)
        else:
            counts = [seg_n if seg_n else r.randint(2, nmax) for _ in range(k)]
        elapsed = 0  # in samples (aligned bookkeeping is approximate when off-grid)
        kinds_l = list(kinds)
        segs = []
        for i, n in enumerate(counts):
            is_wait = (i > 0 or r.random() < 0.3) and r.random() < waits and total is None
            if is_wait:
                t = (elapsed + n) / SR
                ops.append({"op": "bp.insert", "id": bid, "pos": -1, "fn": "waituntil", "args": [enc(t)], "dur": None, "name": None})
                segs.append(("waituntil", n))
            else:
                fn, args = self.fn_and_args(kinds_l, SR, n)
                name = None
                if names and r.random() < 0.5:
                    name = r.choice(NAME_POOL)
                d = self.dur(SR, n, aligned=aligned or any(s[0] == "waituntil" for s in segs) or waits > 0)
                ops.append({"op": "bp.insert", "id": bid, "pos": -1, "fn": fn, "args": [enc(a) for a in args],
                            "dur": enc(d), "name": enc(name)})
                segs.append((fn if isinstance(fn, str) else fn["name"], n))
            elapsed += n
        if setSR:
            ops.append({"op": "bp.setSR", "id": bid, "SR": enc(SR)})
        info = {"SR": SR, "counts": counts, "N": sum(counts), "segs": segs}
        if markers:
            ops += self.markers(bid, info)
        return ops, info

    def mark(self, SR, N, maxlen=None):
        """an absolute marker inside the waveform, >= 0.1 sample from rounding ties"""
        r = self.r
        k = r.randint(0, max(0, N - 1))
        g = r.uniform(-0.4, 0.4) if r.random() < 0.6 else 0.0
        if k == 0 and g < 0:
            g = -g
        c = r.randint(0, maxlen if maxlen is not None else max(1, N // 2 + 3))
        h = r.uniform(-0.4, 0.4) if r.random() < 0.6 and c > 0 else 0.0
        return [q((k + g) / SR), q((c + h) / SR)]

    def markers(self, bid, info, pabs=0.5, pseg=0.5):
        r = self.r
        ops = []
        SR, N = info["SR"], info["N"]
        for which in (1, 2):
            if r.random() < pabs:
                ops.append({"op": "bp.setMarker", "id": bid, "which": which,
                            "list": [self.mark(SR, N) for _ in range(r.randint(1, 3))]})
        return ops

    def seg_marker_ops(self, bid, names, info):
        """segment-bound markers on named segments; names: list of current segment names"""
        r = self.r
        ops = []
        SR = info["SR"]
        for nm, n in zip(names, info["counts"]):
            if r.random() < 0.5:
                delay = r.randint(-2, n - 1)
                g = r.uniform(-0.4, 0.4) if r.random() < 0.5 else 0.0
                c = r.randint(0, n + 3)
                h = r.uniform(-0.4, 0.4) if r.random() < 0.5 and c > 0 else 0.0
                ops.append({"op": "bp.setSegMarker", "id": bid, "name": nm,
                            "specs": [q((delay + g) / SR), q((c + h) / SR)], "mid": r.choice([1, 2])})
        return ops


def canonical_names(bases):
    """the names broadbean gives segments whose bases are `bases` (spec of property C05)"""
    seen = {}
    out = []
    for b in bases:
        k = seen.get(b, 0)
        out.append(b if k == 0 else f"{b}{k + 1}")
        seen[b] = k + 1
    return out


def basename(s):
    return s.rstrip("0123456789")
