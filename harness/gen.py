"""Structured generators of op programs.  Every random choice comes from one
random.Random seeded from VERIF_SEED, so a case replays exactly."""
import random
from fractions import Fraction

import userfns
from core import enc, q, user_fn_spec

SR_POOL = [1, 7, 100, 2.4, 1e3, 12345.678, 1e6, 1e9, 5e10, 30, 250.5]
NAME_POOL = ["a", "b", "a1b", "x2y", "pulse", "pi2pulse", "x9y9z", "ramp", "wait", "ab", "pulse width", "waituntilgate", "Ramp"]
USER_FNS = ["const", "lin2", "poly4", "pi2pulse", "x9y", "istep", "icount"]
USER_ARITY = {"const": 1, "lin2": 2, "poly4": 4, "pi2pulse": 1, "x9y": 2, "istep": 1, "icount": 1}
BUILTIN_ARITY = {"ramp": 2, "sine": 4, "gaussian": 4, "gsc": 4}


def arbify(r, bops, p=0.35, keep_first=True):
    """with probability p turn one ordinary segment of the blueprint ops (not the first one when keep_first) into a
    PulseAtoms.arb_func segment: a registered user function and a registered keyword dict as its two arguments"""
    cand = [o for o in bops if o["op"] == "bp.insert" and o["fn"] != "waituntil"]
    if keep_first:
        cand = cand[1:]
    if cand and r.random() < p:
        o = r.choice(cand)
        o["fn"] = "arb"
        o["args"] = [enc(userfns.ARB_FUNCS[r.choice([101, 102])]), enc(dict(userfns.KW_POOL[r.choice([201, 202, 203, 204])]))]
    return bops


class G:
    def __init__(self, seed):
        self.r = random.Random(seed)
        self.n = 0

    def fresh(self, prefix):
        self.n += 1
        return f"{prefix}{self.n}"

    # ---- numbers
    def fnum(self, lo=-2.0, hi=2.0):
        """a float or an int in [lo, hi]"""
        k = self.r.random()
        if k < 0.2:
            return self.r.randint(int(lo), int(hi))
        if k < 0.5:
            return self.r.choice([0.5, -0.5, 0.25, 1.5, -1.25, 0.125, 0.0, 1.0])
        return self.r.uniform(lo, hi)

    def sr(self, pool=None):
        pool = pool or SR_POOL
        if self.r.random() < 0.15:
            return round(self.r.uniform(1, 5e4), 3)
        return self.r.choice(pool)

    def dur(self, SR, n, aligned=False):
        """a duration of about n samples, off-grid by |f| <= 0.4 unless aligned"""
        if aligned or self.r.random() < 0.4:
            return n / SR
        f = self.r.uniform(-0.4, 0.4)
        return (n + f) / SR

    # ---- functions and arguments
    def fn_and_args(self, kinds, SR, n):
        kind = self.r.choice(kinds)
        if kind == "ramp":
            return "ramp", [self.fnum(), self.fnum()]
        if kind == "sine":
            return "sine", [self.r.uniform(0, SR / 2), self.fnum(), self.fnum(-1, 1), self.r.uniform(-3, 3)]
        if kind in ("gaussian", "gsc"):
            d = n / SR
            return kind, [self.fnum(), self.r.uniform(0.05, 1) * d, self.r.uniform(-0.3, 0.3) * d, self.fnum(-1, 1)]
        if kind == "arb":
            # PulseAtoms.arb_func(func, kwargs): a registered user function and a registered keyword dict (opaque for the model)
            return "arb", [userfns.ARB_FUNCS[self.r.choice([101, 102])], dict(userfns.KW_POOL[self.r.choice([201, 202, 203, 204])])]
        if kind == "user":
            name = self.r.choice(USER_FNS)
            return user_fn_spec(name), [self.fnum() for _ in range(USER_ARITY[name])]
        raise ValueError(kind)

    # ---- blueprints
    def blueprint(self, bid, SR=None, nseg=(1, 6), kinds=("ramp", "sine", "gaussian", "gsc", "user"),
                  waits=0.25, aligned=False, markers=True, names=True, nmax=40, total=None, setSR=True,
                  seg_n=None):
        """ops creating blueprint `bid`; returns (ops, info).  `total`: exact number of samples
        (then all segments are sample aligned).  info: SR, counts (samples per segment)."""
        r = self.r
        SR = SR if SR is not None else self.sr()
        ops = [{"op": "bp.new", "id": bid}]
        k = r.randint(*nseg)
        counts = []
        if total is not None:
            aligned = True
            # split total into k parts of at least 2 samples
            k = max(1, min(k, total // 2))
            cuts = sorted(r.sample(range(1, total // 2), k - 1)) if k > 1 else []
            parts = [b - a for a, b in zip([0] + cuts, cuts + [total // 2])]
            counts = [2 * p for p in parts]
            counts[-1] += total - sum(counts)
        else:
            counts = [seg_n if seg_n else r.randint(2, nmax) for _ in range(k)]
        elapsed = 0  # in samples (aligned bookkeeping is approximate when off-grid)
        kinds_l = list(kinds)
        segs = []
        for i, n in enumerate(counts):
            is_wait = (i > 0 or r.random() < 0.3) and r.random() < waits and total is None
            if is_wait:
                t = (elapsed + n) / SR
                ops.append({"op": "bp.insert", "id": bid, "pos": -1, "fn": "waituntil", "args": [enc(t)], "dur": None,
                            "name": enc("mywait") if (n + i) % 3 == 0 else None})     # special segments keep their protected name (D8)
                segs.append(("waituntil", n))
            else:
                fn, args = self.fn_and_args(kinds_l, SR, n)
                name = None
                if names and r.random() < 0.5:
                    name = r.choice(NAME_POOL)
                d = self.dur(SR, n, aligned=aligned or any(s[0] == "waituntil" for s in segs) or waits > 0)
                ops.append({"op": "bp.insert", "id": bid, "pos": -1, "fn": fn, "args": [enc(a) for a in args],
                            "dur": enc(d), "name": enc(name)})
                segs.append((fn if isinstance(fn, str) else fn["name"], n))
            elapsed += n
        if setSR:
            ops.append({"op": "bp.setSR", "id": bid, "SR": enc(SR)})
        info = {"SR": SR, "counts": counts, "N": sum(counts), "segs": segs}
        if markers:
            ops += self.markers(bid, info)
        return ops, info

    def mark(self, SR, N, maxlen=None):
        """an absolute marker inside the waveform, >= 0.1 sample from rounding ties"""
        r = self.r
        k = r.randint(0, max(0, N - 1))
        g = r.uniform(-0.4, 0.4) if r.random() < 0.6 else 0.0
        if k == 0 and g < 0:
            g = -g
        c = r.randint(0, maxlen if maxlen is not None else max(1, N // 2 + 3))
        h = r.uniform(-0.4, 0.4) if r.random() < 0.6 and c > 0 else 0.0
        return [q((k + g) / SR), q((c + h) / SR)]

    def markers(self, bid, info, pabs=0.5, pseg=0.5):
        r = self.r
        ops = []
        SR, N = info["SR"], info["N"]
        for which in (1, 2):
            if r.random() < pabs:
                ops.append({"op": "bp.setMarker", "id": bid, "which": which,
                            "list": [self.mark(SR, N) for _ in range(r.randint(1, 3))]})
        return ops

    def seg_marker_ops(self, bid, names, info):
        """segment-bound markers on named segments; names: list of current segment names"""
        r = self.r
        ops = []
        SR = info["SR"]
        for nm, n in zip(names, info["counts"]):
            if r.random() < 0.5:
                delay = r.randint(-2, n - 1)
                g = r.uniform(-0.4, 0.4) if r.random() < 0.5 else 0.0
                c = r.randint(0, n + 3)
                h = r.uniform(-0.4, 0.4) if r.random() < 0.5 and c > 0 else 0.0
                ops.append({"op": "bp.setSegMarker", "id": bid, "name": nm,
                            "specs": [q((delay + g) / SR), q((c + h) / SR)], "mid": r.choice([1, 2])})
        return ops


def canonical_names(bases):
    """the names broadbean gives segments whose bases are `bases` (spec of property C05)"""
    seen = {}
    out = []
    for b in bases:
        k = seen.get(b, 0)
        out.append(b if k == 0 else f"{b}{k + 1}")
        seen[b] = k + 1
    return out


def basename(s):
    return s.rstrip("0123456789")


# ---------------------------------------------------------------------------
# elements and sequences


def dyadic(r, lo=-1.0, hi=1.0, bits=6):
    k = 1 << bits
    return r.randint(int(lo * k), int(hi * k)) / k


class SeqGen:
    """builds op programs for elements and sequences on top of G"""

    def __init__(self, g):
        self.g = g
        self.r = g.r

    def element(self, eid, SR, N, chans, raw_p=0.3, kinds=("ramp",), flags_p=0.0, markers=True, seg_markers=True,
                waits=0.0, raw_markers=True, nseg=(1, 4)):
        """ops creating element `eid` with the given channels (in the given order), every channel
        N samples at SR.  Returns ops."""
        r = self.r
        ops = [{"op": "el.new", "id": eid}]
        for ch in chans:
            if r.random() < raw_p:
                wfm = [q(dyadic(r)) for _ in range(N)]
                kw = []
                if raw_markers:
                    kw = [["m1", [r.choice([0, 1]) if r.random() < 0.2 else 0 for _ in range(N)]],
                          ["m2", [r.choice([0, 1]) if r.random() < 0.2 else 0 for _ in range(N)]]]
                    if (N + len(ops) + len(chans)) % 4 == 0:
                        # further marker arrays ("'m1', 'm2', 'm3', etc."): they are delayed like every other array
                        kw.append(["m3", [1 if j % 3 == 0 else 0 for j in range(N)]])
                ops.append({"op": "el.addArray", "id": eid, "ch": ch, "wfm": wfm, "SR": enc(SR), "kw": kw})
            else:
                bid = self.g.fresh("b")
                bops, info = self.g.blueprint(bid, SR=SR, nseg=nseg, kinds=kinds, waits=0.0, markers=markers, total=N)
                if waits and r.random() < waits * 0.4 and N >= 16:
                    # two waituntils: ramp, wait, ramp, wait, ramp with whole-sample boundaries
                    a = r.randint(2, 3)
                    w1 = r.randint(a + 2, a + 4)
                    c = r.randint(2, 3)
                    w2 = r.randint(w1 + c + 2, N - 2)
                    bops = [{"op": "bp.new", "id": bid},
                            {"op": "bp.insert", "id": bid, "pos": -1, "fn": "ramp", "args": [enc(dyadic(r)), enc(dyadic(r))], "dur": enc(a / SR), "name": None},
                            {"op": "bp.insert", "id": bid, "pos": -1, "fn": "waituntil", "args": [enc(w1 / SR)], "dur": None, "name": enc("hold") if w1 % 2 else None},
                            {"op": "bp.insert", "id": bid, "pos": -1, "fn": "ramp", "args": [enc(dyadic(r)), enc(dyadic(r))], "dur": enc(c / SR), "name": None},
                            {"op": "bp.insert", "id": bid, "pos": -1, "fn": "waituntil", "args": [enc(w2 / SR)], "dur": None, "name": None},
                            {"op": "bp.insert", "id": bid, "pos": -1, "fn": "ramp", "args": [enc(dyadic(r)), enc(dyadic(r))], "dur": enc((N - w2) / SR), "name": None},
                            {"op": "bp.setSR", "id": bid, "SR": enc(SR)}]
                    info = {"SR": SR, "counts": [a, w1 - a, c, w2 - w1 - c, N - w2], "N": N}
                    if markers:
                        bops += self.g.markers(bid, info)
                elif waits and N >= 8 and (N + len(ops)) % 11 == 3:
                    # the blueprint STARTS with a waituntil: waituntil, ramp (whole-sample boundaries)
                    w = r.randint(2, N - 2)
                    bops = [{"op": "bp.new", "id": bid},
                            {"op": "bp.insert", "id": bid, "pos": -1, "fn": "waituntil", "args": [enc(w / SR)], "dur": None, "name": None},
                            {"op": "bp.insert", "id": bid, "pos": -1, "fn": "ramp", "args": [enc(dyadic(r)), enc(dyadic(r))], "dur": enc((N - w) / SR), "name": None},
                            {"op": "bp.setSR", "id": bid, "SR": enc(SR)}]
                    info = {"SR": SR, "counts": [w, N - w], "N": N}
                    if markers:
                        bops += self.g.markers(bid, info)
                elif waits and r.random() < waits and N >= 8:
                    # replace by: ramp, waituntil, ramp with whole-sample boundaries
                    a = r.randint(2, N // 2 - 2) if N // 2 - 2 >= 2 else 2
                    w = r.randint(a + 2, N - 2)
                    bops = [{"op": "bp.new", "id": bid},
                            {"op": "bp.insert", "id": bid, "pos": -1, "fn": "ramp", "args": [enc(dyadic(r)), enc(dyadic(r))], "dur": enc(a / SR), "name": None},
                            {"op": "bp.insert", "id": bid, "pos": -1, "fn": "waituntil", "args": [enc(w / SR)], "dur": None, "name": enc("mywait") if w % 2 else None},
                            {"op": "bp.insert", "id": bid, "pos": -1, "fn": "ramp", "args": [enc(dyadic(r)), enc(dyadic(r))], "dur": enc((N - w) / SR), "name": None},
                            {"op": "bp.setSR", "id": bid, "SR": enc(SR)}]
                    info = {"SR": SR, "counts": [a, w - a, N - w], "N": N}
                    if markers:
                        bops += self.g.markers(bid, info)
                if seg_markers:
                    names = canonical_names([basename(o["name"]["s"]) if o.get("name") else
                                             ({"gsc": "gaussian_smooth_cutoff", "arb": "arb_func"}.get(o["fn"], o["fn"]) if isinstance(o["fn"], str) else o["fn"]["name"]).rstrip("0123456789")
                                             for o in bops if o["op"] == "bp.insert"])
                    bops += self.g.seg_marker_ops(bid, names, info)
                ops += bops
                if (N + len(ops)) % 7 == 0:
                    # the channel holds a raw array first; the blueprint then replaces it completely
                    ops.append({"op": "el.addArray", "id": eid, "ch": ch, "wfm": [q(0.125)] * N, "SR": enc(SR), "kw": []})
                ops.append({"op": "el.addBP", "id": eid, "ch": ch, "bp": bid})
            if r.random() < flags_p:
                fl = [enc(r.choice([0, 1, 2, 3, 4, "", "H", "L", "T", "P"])) for _ in range(4)]
                if (N + len(ops)) % 4 == 1:
                    fl = [enc(x) for x in r.choice([[0, 0, 0, 0], ["", "", "", ""], [0, "", 0, ""]])]     # "no change" set explicitly is still set
                ops.append({"op": "el.addFlags", "id": eid, "ch": ch, "flags": fl})
        return ops

    def sequence(self, sid, npos=(1, 3), nch=(1, 3), SR=None, N=None, raw_p=0.3, kinds=("ramp",), flags_p=0.0,
                 delays_p=0.0, filters_p=0.0, offsets=True, amp=None, sub_p=0.0, seq_p=0.3, permute=True,
                 waits=0.0, markers=True, same_N=False, chan_pool=None, nseg=(1, 4), shuffle_p=0.3, seq_sr_factor=1):
        """ops creating a consistent sequence `sid`.  Returns (ops, info).
        `seq_sr_factor`: the sequence's own sample rate is that multiple of its elements' (checkConsistency
        compares the entries with each other, not with the sequence)."""
        r = self.r
        SR = SR if SR is not None else r.choice([1, 10, 100, 1e3, 2.5, 1e6, 1e9])
        # (names that begin / end with letters of "channel" and "_delay", upper and lower case twins)
        pool = chan_pool or [1, 2, 3, 4, "A", "B", "ch1", "gate", "aux", "left_delay", "Q", "q"]
        chans = r.sample(pool, r.randint(*nch))
        P = r.randint(*npos)
        ops = [{"op": "sq.new", "id": sid}, {"op": "sq.setSR", "id": sid, "v": enc(SR * seq_sr_factor)}]
        n_common = N if N is not None else r.randint(4, 30)
        info = {"SR": SR, "chans": chans, "P": P, "subs": {}, "els": {}}
        order_of_adding = list(range(1, P + 1))
        if r.random() < shuffle_p:
            r.shuffle(order_of_adding)      # positions may be filled in any order
        for p in order_of_adding:
            n = n_common if (same_N or N is not None) else r.randint(4, 30)
            if r.random() < sub_p:
                sub = self.g.fresh("s")
                ops += [{"op": "sq.new", "id": sub}, {"op": "sq.setSR", "id": sub, "v": enc(SR)}]
                K = r.randint(1, 3)
                inner = list(range(1, K + 1))
                if (n + K) % 3 == 1:
                    inner.reverse()          # the subsequence's positions filled out of ascending order
                for p2 in inner:
                    eid = self.g.fresh("e")
                    order = r.sample(chans, len(chans)) if permute else list(chans)
                    ops += self.element(eid, SR, n, order, raw_p=raw_p, kinds=kinds, flags_p=flags_p, waits=waits, markers=markers, nseg=nseg)
                    ops.append({"op": "sq.addElement", "id": sub, "pos": p2, "el": eid})
                    if r.random() < seq_p:
                        ops.append({"op": "sq.setSeq", "id": sub, "pos": p2, "field": r.choice(["twait", "nrep", "jump_input", "jump_target", "goto"]), "v": r.randint(0, 3)})
                if (n + p) % 3 == 0:
                    # the subsequence carries channel delays of its own: inside a parent only the parent's count
                    ops.append({"op": "sq.setDelay", "id": sub, "ch": chans[0], "v": enc((2 + (n % 3) * 2) / SR)})
                ops.append({"op": "sq.addSub", "id": sid, "pos": p, "sub": sub})
                info["subs"][p] = (sub, K)
            elif info["els"] and (n + p + P) % 5 == 0:
                # the same element once more (a reference pulse between varied ones): every position is forged on its own
                eid = info["els"][sorted(info["els"])[0]]
                ops.append({"op": "sq.addElement", "id": sid, "pos": p, "el": eid})
                info["els"][p] = eid
            else:
                eid = self.g.fresh("e")
                order = r.sample(chans, len(chans)) if permute else list(chans)
                ops += self.element(eid, SR, n, order, raw_p=raw_p, kinds=kinds, flags_p=flags_p, waits=waits, markers=markers, nseg=nseg)
                ops.append({"op": "sq.addElement", "id": sid, "pos": p, "el": eid})
                info["els"][p] = eid
            if r.random() < seq_p:
                ops.append({"op": "sq.setSeq", "id": sid, "pos": p, "field": r.choice(["twait", "nrep", "jump_input", "jump_target", "goto"]),
                            "v": r.randint(0, P)})
        for ch in chans:
            ops.append({"op": "sq.setAmp", "id": sid, "ch": ch, "v": enc(amp if amp is not None else r.choice([4, 5.0, 8, 10.5]))})
            if offsets:
                ops.append({"op": "sq.setOff", "id": sid, "ch": ch, "v": enc(r.choice([0, 0.25, -0.5, 0.0]))})
            if r.random() < delays_p:
                d = r.choice([0, 2, 3, 5, 29, 7])
                ops.append({"op": "sq.setDelay", "id": sid, "ch": ch, "v": enc(d / SR)})
            if r.random() < filters_p:
                kind = r.choice(["HP", "LP"])
                order = r.choice([-2, -1, 1, 2, 3])
                fc = SR * r.choice([1e-3, 1e-2, 0.12, 0.4, 0.75, 3])       # (a cut-off may lie above the Nyquist frequency)
                if r.random() < 0.5:
                    ops.append({"op": "sq.setFilter", "id": sid, "ch": ch, "kind": kind, "order": order, "orderIsInt": True, "f_cut": enc(fc), "tau": None})
                else:
                    ops.append({"op": "sq.setFilter", "id": sid, "ch": ch, "kind": kind, "order": order, "orderIsInt": True, "f_cut": None, "tau": enc(1 / fc)})
        return ops, info
