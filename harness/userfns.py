"""User-supplied pulse shapes used by the generators (module level, so that
``str(fn)`` is ``<function name at 0x..>`` and BluePrint.description reports
``function name``).  They follow the (args..., SR, npts) convention and record
every call so that the call convention of property C02 can be checked."""
import numpy as np

CALLS = []


def _rec(name, args, SR, npts):
    CALLS.append((name, tuple(args), SR, npts, type(npts).__name__))


def const(level, SR, npts):
    _rec("const", (level,), SR, npts)
    return level * np.ones(int(npts))


def lin2(a, b, SR, npts):
    """a + b*t  (name ends in a digit on purpose)"""
    _rec("lin2", (a, b), SR, npts)
    t = np.linspace(0, npts / SR, int(npts), endpoint=False)
    return a + b * t


def poly4(a, b, c, d, SR, npts):
    _rec("poly4", (a, b, c, d), SR, npts)
    t = np.linspace(0, npts / SR, int(npts), endpoint=False)
    return a + b * t + c * t**2 + d * t**3


def pi2pulse(ampl, SR, npts):
    """digit inside the name"""
    _rec("pi2pulse", (ampl,), SR, npts)
    return ampl * np.ones(int(npts))


def x9y(u, v, SR, npts):
    _rec("x9y", (u, v), SR, npts)
    return u * np.ones(int(npts)) + v


def _lin2_twin(b, a, SR, npts):
    """a second, different function that is also called `lin2` (as if defined in another module):
    same parameter names, the other order"""
    _rec("lin2", (b, a), SR, npts)
    t = np.linspace(0, npts / SR, int(npts), endpoint=False)
    return a + b * t


_lin2_twin.__name__ = "lin2"
_lin2_twin.__qualname__ = "lin2"

USER = {f.__name__: f for f in (const, lin2, poly4, pi2pulse, x9y)}
USER["lin2~"] = _lin2_twin
