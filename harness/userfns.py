"""User-supplied pulse shapes used by the generators (module level, so that
``str(fn)`` is ``<function name at 0x..>`` and BluePrint.description reports
``function name``).  They follow the (args..., SR, npts) convention and record
every call so that the call convention of property C02 can be checked."""
import numpy as np

CALLS = []


def _rec(name, args, SR, npts):
    CALLS.append((name, tuple(args), SR, npts, type(npts).__name__))


def const(level, SR, npts):
    _rec("const", (level,), SR, npts)
    return level * np.ones(int(npts))


def lin2(a, b, SR, npts):
    """a + b*t  (name ends in a digit on purpose)"""
    _rec("lin2", (a, b), SR, npts)
    t = np.linspace(0, npts / SR, int(npts), endpoint=False)
    return a + b * t


def poly4(a, b, c, d, SR, npts):
    _rec("poly4", (a, b, c, d), SR, npts)
    t = np.linspace(0, npts / SR, int(npts), endpoint=False)
    return a + b * t + c * t**2 + d * t**3


def pi2pulse(ampl, SR, npts):
    """digit inside the name"""
    _rec("pi2pulse", (ampl,), SR, npts)
    return ampl * np.ones(int(npts))


def x9y(u, v, SR, npts):
    _rec("x9y", (u, v), SR, npts)
    return u * np.ones(int(npts)) + v


def istep(level, SR, npts):
    """a shape that hands back a plain list of ints (a legal return value: the forger converts)"""
    _rec("istep", (level,), SR, npts)
    return [int(level)] * int(npts)


def icount(level, SR, npts):
    """a shape that hands back an integer array"""
    _rec("icount", (level,), SR, npts)
    return np.full(int(npts), int(level), dtype=np.int64)


def _lin2_twin(b, a, SR, npts):
    """a second, different function that is also called `lin2` (as if defined in another module):
    same parameter names, the other order"""
    _rec("lin2", (b, a), SR, npts)
    t = np.linspace(0, npts / SR, int(npts), endpoint=False)
    return a + b * t


_lin2_twin.__name__ = "lin2"
_lin2_twin.__qualname__ = "lin2"

USER = {f.__name__: f for f in (const, lin2, poly4, pi2pulse, x9y, istep, icount)}
USER["lin2~"] = _lin2_twin


# ---- PulseAtoms.arb_func: the user function and its keyword arguments are opaque objects for the model.
# They cross the protocol as {"o": id}; ids are fixed per *content*, so that equal ids mean == in Python.

def arb_lin(t, ka=1.0, kb=0.0):
    return ka * t + kb


def arb_quad(t, ka=1.0, kb=0.0):
    return ka * t * t - kb


ARB_FUNCS = {101: arb_lin, 102: arb_quad}
KW_POOL = {201: {"ka": 2, "kb": 1}, 202: {"ka": 5, "kb": 1}, 203: {"ka": 0.5, "kb": -1.0}, 204: {"ka": -3, "kb": 0.25}}


def opq_to_py(i):
    """the Python object behind an opaque id (a fresh dict for keyword arguments, as a caller would write a literal)"""
    if i in ARB_FUNCS:
        return ARB_FUNCS[i]
    if i in KW_POOL:
        return dict(KW_POOL[i])
    return object()


def py_to_opq(v):
    """the opaque id of a Python object, 0 when it is none of the registered ones"""
    if callable(v):
        for i, f in ARB_FUNCS.items():
            if v is f:
                return i
        return 0
    if isinstance(v, dict):
        for i, d in KW_POOL.items():
            if list(v.keys()) == list(d.keys()) and all(type(v[k]) is type(d[k]) and v[k] == d[k] for k in d):
                return i
    return 0
