"""C08 — forging, output and queries are read-only and repeatable."""
from core import enc, q, J_equal
from gen import SeqGen
from props.c20 import seg_table, _same_arrays

ID = "C08"
UNIVERSAL_EVERY = 6      # every n-th case is a feature-rich random program (props/universal.py)
LEAN_MODULE = "BB.Properties.C08"
QUICK_N = 90
THOROUGH_N = 2000
LEVEL_NOTE = ("proved in Lean: (values) cache unobservable, options independent; (references, BB.Model.Heap) a read-only call - a "
              "program that writes only what it allocated itself and validation caches - leaves every user-held object, its receiver "
              "included, unchanged, for every history and interleaving (heap_query_frame, heap_readonly); the library's own method programs never "
              "break the ownership discipline on any reachable state (Shaped invariant: heap_lib_step, heap_lib_history, "
              "heap_lib_readonly carry no no-fault hypothesis). Decided by correspondence, "
              "not proved: that the Python methods are such programs (after every read-only call the id() walk finds no changed "
              "object and no new sharing; every result equals the value model's). Trusted: Lean kernel + propext/Quot.sound/"
              "Classical.choice, the harness incl. its object walker; numpy/CPython modelled not verified")
TECHNIQUE = ("Lean 4 proofs about a value model and a reference-level ownership model (read-only calls frame everything) + "
             "correspondence with the implementation over interleavings of read-only calls (results, snapshots, id()-level sharing)")
RULE = ("a blueprint (waituntil, both marker kinds), an element (blueprint + raw-array channel, flags) and a valid sequence "
        "(1-3 positions, subsequences, raw arrays, flags, delays, filter compensations given by f_cut and by tau, sequencing); "
        "then an interleaving of 6-14 read-only calls drawn from {forge with any of the 8 option combinations, "
        "outputForAWGFile, outputForSEQXFile(+WithFlags), description, write_to_json, checkConsistency, points, duration, "
        "channels, ==, Element.getArrays(includetime on/off), validateDurations, Element.SR/points/duration, "
        "BluePrint.description/points/duration/==}; after every call the description of all three objects and their forged "
        "arrays (two option combinations) are snapshotted; observed on the implementation alone: every snapshot equals the "
        "first one, and a repeated call returns the same result as its first occurrence; every result also equals the "
        "model's; before the first and after every read-only call the reference-level observation: no user-held object changed "
        "(structural snapshot of the real objects, validation caches aside), sharing between objects as BB.Model.Heap predicts, "
        "no model fault; non-trivial = at least 6 read-only calls succeeded")
ERRCLASS = False


def snapshot(step):
    ops = [{"op": "bp.desc", "id": "b", "_snap": "b"},
           {"op": "el.desc", "id": "e", "_snap": "e"}, {"op": "el.getArrays", "id": "e", "time": False, "_snap": "e#arr"},
           {"op": "sq.desc", "id": "s", "_snap": "s"},
           {"op": "sq.forge", "id": "s", "delays": True, "filters": True, "time": False, "_snap": "s#arr1"},
           {"op": "sq.forge", "id": "s", "delays": False, "filters": False, "time": True, "_snap": "s#arr2"}]
    return [{**o, "_step": step} for o in ops]


def case(g, tier, ci):
    r = g.r
    sg = SeqGen(g)
    SR = r.choice([10, 100, 1e3, 2.5, 1e6])
    N = r.randint(8, 24)
    # blueprint and element
    a = r.randint(2, N // 2 - 1) if N // 2 - 1 >= 2 else 2
    w = r.randint(a + 2, N - 2)
    ops = [{"op": "bp.new", "id": "b"},
           {"op": "bp.insert", "id": "b", "pos": -1, "fn": "ramp", "args": [enc(0.5), enc(-0.25)], "dur": enc(a / SR), "name": enc("up")},
           {"op": "bp.insert", "id": "b", "pos": -1, "fn": "waituntil", "args": [enc(w / SR)], "dur": None, "name": None},
           {"op": "bp.insert", "id": "b", "pos": -1, "fn": r.choice(["ramp", "sine"]), "args": [enc(0.25), enc(1)] if True else [], "dur": enc((N - w) / SR),
            "name": enc("tail")},
           {"op": "bp.setSR", "id": "b", "SR": enc(SR)}]
    if ops[3]["fn"] == "sine":
        ops[3]["args"] = [enc(SR / 8), enc(0.5), enc(0), enc(0)]
    info = {"SR": SR, "N": N, "counts": [a, w - a, N - w]}
    ops += g.markers("b", info, pabs=0.8)
    for nm, mid in (("up", 1), ("tail", 2), ("tail", 1)):
        if r.random() < 0.7:
            ops.append({"op": "bp.setSegMarker", "id": "b", "name": nm, "specs": [q(r.choice([0, 1]) / SR), q(r.choice([1, 2, 3]) / SR)], "mid": mid})
    ops += [{"op": "el.new", "id": "e"}, {"op": "el.addBP", "id": "e", "ch": 1, "bp": "b"},
            {"op": "el.addArray", "id": "e", "ch": "raw", "wfm": [q(r.randint(-8, 8) / 8) for _ in range(N)], "SR": enc(SR),
             "kw": [["m1", [r.choice([0, 1]) for _ in range(N)]], ["m2", [0] * N]] +
                   # the caller's own time axis (not the generic one): every query hands it back, with the time axis on or off
                   # (seeded C08-m17: a query with the axis off removed it from the element)
                   ([["time", [q(2 * k / SR) for k in range(N)]]] if ci % 2 == 1 else [])},
            {"op": "el.addFlags", "id": "e", "ch": 1, "flags": [enc(r.choice([0, 1, "H", "T"])) for _ in range(4)]},
            {"op": "el.copy", "id": "e", "to": "e2"}, {"op": "bp.copy", "id": "b", "to": "b2"}]
    # sequence
    seqx = r.random() < 0.15
    sops, sinfo = sg.sequence("s", npos=(1, 3), nch=(1, 3), SR=SR, N=(r.randint(2400, 2410) if seqx else None), raw_p=0.3,
                              kinds=("ramp",) if seqx else ("ramp", "sine"), flags_p=0.3, delays_p=0.5, filters_p=0.6,
                              sub_p=0.0 if seqx else 0.3, seq_p=0.3, waits=0.2, amp=100)
    if ci % 2 == 0:
        # sequencing values as a caller's own code may produce them: a bool, a whole float, a numpy integer -- a read-only
        # call leaves them exactly as they are (the reference-level snapshot is type-aware)
        for pos in range(1, sinfo["P"] + 1):
            fld, v, kind = r.choice([("twait", 1, "bool"), ("twait", 0, "bool"), ("nrep", 2, "npint"), ("nrep", 3, "float"),
                                     ("goto", 1, "npint"), ("jump_input", 1, "bool")])
            sops.append({"op": "sq.setSeq", "id": "s", "pos": pos, "field": fld, "v": v, "_as": kind})
    ops += sops + [{"op": "sq.copy", "id": "s", "to": "s2"}]
    # a blueprint-only element queried, edited and queried again (cached SR / duration must not go stale)
    ops += [{"op": "el.new", "id": "e3"}, {"op": "el.addBP", "id": "e3", "ch": 1, "bp": "b"}, {"op": "el.addBP", "id": "e3", "ch": "B", "bp": "b"},
            {"op": "sq.new", "id": "s3"}, {"op": "sq.setSR", "id": "s3", "v": enc(SR)}, {"op": "sq.addElement", "id": "s3", "pos": 1, "el": "e3"},
            {"op": "el.duration", "id": "e3"}, {"op": "sq.duration", "id": "s3"}]
    nd = r.randint(2, 30)
    for chx in (1, "B"):
        ops.append({"op": "el.changeDur", "id": "e3", "ch": chx, "name": "tail", "dur": enc(nd / SR), "all": False})
        ops.append({"op": "sq.elChangeDur", "id": "s3", "pos": 1, "ch": chx, "name": "tail", "dur": enc(nd / SR), "all": False})
    ops += [{"op": "el.duration", "id": "e3"}, {"op": "el.points", "id": "e3"}, {"op": "el.duration", "id": "e3"},
            {"op": "sq.duration", "id": "s3"}, {"op": "sq.points", "id": "s3"}, {"op": "sq.duration", "id": "s3"}]
    # a twin of the blueprint-only element that is never queried: `e3 == e30` before and after queries on `e3`
    ops += [{"op": "el.new", "id": "e30"}, {"op": "el.addBP", "id": "e30", "ch": 1, "bp": "b"}, {"op": "el.addBP", "id": "e30", "ch": "B", "bp": "b"}]
    for chx in (1, "B"):
        ops.append({"op": "el.changeDur", "id": "e30", "ch": chx, "name": "tail", "dur": enc(nd / SR), "all": False})
    ops += snapshot(0)
    calls = []
    el_in_s = list(sinfo["els"].values())
    for step in range(1, r.randint(6, 14) + 1):
        k = r.random()
        if k < 0.3:
            c = {"op": "sq.forge", "id": "s", "delays": r.random() < 0.5, "filters": r.random() < 0.5, "time": r.random() < 0.5}
        elif k < 0.42 and not sinfo["subs"]:
            c = r.choice([{"op": "sq.awg", "id": "s"}, {"op": "sq.seqx", "id": "s"}, {"op": "sq.seqx", "id": "s", "flags": True}])
        elif k < 0.62:
            c = r.choice([{"op": "sq.desc", "id": "s"}, {"op": "sq.json", "id": "s", "to": "tmp", "_nocmp": True}, {"op": "sq.check", "id": "s"},
                          {"op": "sq.points", "id": "s"}, {"op": "sq.duration", "id": "s"}, {"op": "sq.channels", "id": "s"},
                          {"op": "sq.eq", "a": "s", "b": "s2", "_nocmp": any(o["op"] == "el.addArray" and o["id"] != "e" for o in ops)}])
        elif k < 0.85:
            c = r.choice([{"op": "el.getArrays", "id": "e", "time": True}, {"op": "el.getArrays", "id": "e", "time": False},
                          {"op": "el.validate", "id": "e"}, {"op": "el.SR", "id": "e"}, {"op": "el.points", "id": "e"},
                          {"op": "el.duration", "id": "e"}, {"op": "el.desc", "id": "e"}, {"op": "el.channels", "id": "e"}])
            if el_in_s and r.random() < 0.3:
                c = {**c, "id": r.choice(el_in_s)}     # the source element of a stored one
        else:
            c = r.choice([{"op": "bp.desc", "id": "b"}, {"op": "bp.points", "id": "b"}, {"op": "bp.duration", "id": "b"},
                          {"op": "bp.eq", "a": "b", "b": "b2"}, {"op": "bp.json", "id": "b", "to": "tmpb", "_nocmp": True},
                          {"op": "el.eq", "a": "e3", "b": "e30"}, {"op": "el.eq", "a": "e30", "b": "e3"},
                          {"op": "el.points", "id": "e3"}])
        if r.random() < 0.12:
            # a mutation in between: the following read-only calls must reflect it (no stale cache), and are
            # again repeatable among themselves
            nd = r.randint(2, 20)
            m = {"op": "el.changeDur", "id": "e", "ch": 1, "name": "up", "dur": enc(nd / SR), "all": False}
            # the raw-array channel keeps its length: the element is valid again only with the old total, so
            # change 'up' and compensate on 'tail' is not possible with a waituntil in between -> use the copy e2
            m = {"op": "el.changeDur", "id": "e2", "ch": 1, "name": "up", "dur": enc(min(nd, a) / SR), "all": False}
            ops.append({**m, "_mutation": step})
            ops += [{"op": "el.duration", "id": "e2", "_after_mut": True}, {"op": "el.points", "id": "e2"},
                    {"op": "el.getArrays", "id": "e2", "time": False}, {"op": "el.duration", "id": "e2"}]
            if el_in_s:
                pass
            continue
        if calls and r.random() < 0.25:
            c = dict(r.choice(calls))          # repeat an earlier call
        calls.append({k2: v for k2, v in c.items() if not k2.startswith("_") or k2 == "_nocmp"})
        ops.append({**c, "_call": step})
        ops += snapshot(step)
    # reference-level observation (BB.Model.Heap vs id() of the real objects): a summary before the first
    # read-only call and one after each: nothing the user holds may change, no sharing may appear
    names = sorted({o[k] for o in ops for k in ("id", "to") if isinstance(o.get(k), str)})
    hs = {"op": "heap.summary", "vars": names}
    out, first = [], True
    for o in ops:
        if first and (o.get("_snap") is not None):
            out.append(dict(hs))
            first = False
        out.append(o)
        if o.get("_call") is not None or o.get("_mutation") is not None:
            out.append({**hs, "_after": "call" if o.get("_call") is not None else "mutation"})
    return out


def _eq_result(a, b):
    if ("err" in a) != ("err" in b):
        return f"{a.get('err')} vs {b.get('err')}"
    if "err" in a:
        return None
    return _same_arrays(_norm(a["ok"]), _norm(b["ok"]), "result")


def _norm(x):
    return x


def post_check(ops, ri, rm):
    first = {}
    calls_seen = {}
    for o, r in zip(ops, ri):
        key = o.get("_snap")
        if key is not None:
            if key not in first:
                first[key] = r
                continue
            a, b = first[key], r
            if ("err" in a) != ("err" in b):
                return f"after read-only call #{o['_step']} ({_callop(ops, o['_step'])}): {key!r} {a.get('err')} -> {b.get('err')}"
            if "ok" in a:
                if "#arr" in key:
                    xa = a["ok"]["forged"] if isinstance(a["ok"], dict) and "forged" in a["ok"] else a["ok"]
                    xb = b["ok"]["forged"] if isinstance(b["ok"], dict) and "forged" in b["ok"] else b["ok"]
                    d = _same_arrays(xa, xb, key)
                else:
                    d = J_equal(a["ok"]["desc"], b["ok"]["desc"], key)
                if d:
                    return f"read-only call #{o['_step']} ({_callop(ops, o['_step'])}) changed the observable state: {d}"
        elif o.get("_call") is not None and o["op"] not in ("sq.json", "bp.json"):
            sig = repr(sorted((k, repr(v)) for k, v in o.items() if not k.startswith("_")))
            if sig in calls_seen:
                d = _eq_result(calls_seen[sig], r)
                if d:
                    return f"repeating {o['op']} gave a different result: {d}"
            else:
                calls_seen[sig] = r
    return None


def _callop(ops, step):
    for o in ops:
        if o.get("_call") == step:
            return o["op"] + (" " + str({k: v for k, v in o.items() if k in ("delays", "filters", "time", "flags")}) if o["op"] in ("sq.forge", "sq.seqx", "el.getArrays") else "")
    return "?"


def nontrivial(ops, ri):
    return sum(1 for o, r in zip(ops, ri) if o.get("_call") is not None and "ok" in r) >= 6
