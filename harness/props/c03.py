"""C03 — markers are 0/1 and ON exactly on the union of their windows."""
from core import enc, q
from gen import canonical_names, basename

ID = "C03"
HEAP_SUMMARY = True      # end every program with the reference-level observation (BB.Model.Heap vs id() walk)
UNIVERSAL_EVERY = 8      # every n-th case is a feature-rich random program (props/universal.py)
UNIVERSAL_KIND = "both"      # alternately the blueprint-level and the sequence-level program
LEAN_MODULE = "BB.Properties.C03"
QUICK_N = 600
THOROUGH_N = 6000
RULE = ("blueprints of 1-6 segments with 0-3 absolute markers per marker channel and segment-bound markers (positive and "
        "negative delays, zero lengths, windows overlapping and running past the end; times >= 0.1 sample from a tie), then a "
        "history of insertSegment/removeSegment/changeDuration/removeSegmentMarker around the marked segments with a forge "
        "after every step; 10% of the cases go through Sequence.outputForSEQXFile (>= 2400 samples); "
        "non-trivial = some marker sample is ON in a successful forge")


def case(g, tier, ci):
    r = g.r
    seqx = r.random() < 0.10 or ci % 12 == 1
    SR = g.sr([1, 7, 100, 2.4, 1e3, 12345.678, 1e6, 1e9, 30])
    if seqx:
        T = r.randint(2400, 2500)
        ops, info = g.blueprint("b", SR=SR, nseg=(1, 4), kinds=("ramp",), waits=0.0, markers=True, total=T)
    else:
        ops, info = g.blueprint("b", SR=SR, nseg=(1, 6), kinds=("ramp", "sine", "user"), waits=0.15, markers=True, nmax=25)
    names = canonical_names([basename(o["name"]["s"]) if o.get("name") else
                             (o["fn"] if isinstance(o["fn"], str) else o["fn"]["name"]).rstrip("0123456789")
                             for o in ops if o["op"] == "bp.insert"])
    # user function `lin2` etc. have names ending in digits: the default name is the stripped one
    ops += g.seg_marker_ops("b", names, info)
    ops += [{"op": "el.new", "id": "e"}, {"op": "el.addBP", "id": "e", "ch": 1, "bp": "b"}, {"op": "el.getArrays", "id": "e", "time": False}]
    if seqx and ci % 3 == 1:
        # two channels with their own marker windows, two positions whose elements were filled in different channel orders:
        # every channel's marker arrays in the SEQX package are ITS windows at every position (seeded C03-m18)
        b2ops, _ = g.blueprint("b2", SR=SR, nseg=(1, 3), kinds=("ramp",), waits=0.0, markers=True, total=T)
        ops += b2ops
        ops += [{"op": "el.addBP", "id": "e", "ch": 2, "bp": "b2"},
                {"op": "el.new", "id": "e2"}, {"op": "el.addBP", "id": "e2", "ch": 2, "bp": "b2"}, {"op": "el.addBP", "id": "e2", "ch": 1, "bp": "b"},
                {"op": "sq.new", "id": "s"}, {"op": "sq.setSR", "id": "s", "v": enc(SR)}, {"op": "sq.addElement", "id": "s", "pos": 1, "el": "e"},
                {"op": "sq.addElement", "id": "s", "pos": 2, "el": "e2"},
                {"op": "sq.setAmp", "id": "s", "ch": 1, "v": 100}, {"op": "sq.setAmp", "id": "s", "ch": 2, "v": 100},
                {"op": "sq.forge", "id": "s", "delays": True, "filters": False, "time": False}, {"op": "sq.seqx", "id": "s"}]
        return ops
    if seqx:
        ops += [{"op": "sq.new", "id": "s"}, {"op": "sq.setSR", "id": "s", "v": enc(SR)}, {"op": "sq.addElement", "id": "s", "pos": 1, "el": "e"},
                {"op": "sq.setAmp", "id": "s", "ch": 1, "v": 100}, {"op": "sq.seqx", "id": "s"}]
        if ci % 2 == 0:
            # the channel is delayed: windows move with the waveform exactly once, in both output paths
            ops += [{"op": "sq.setDelay", "id": "s", "ch": 1, "v": enc(r.choice([2, 5, 40]) / SR)},
                    {"op": "sq.forge", "id": "s", "delays": True, "filters": False, "time": False}, {"op": "sq.seqx", "id": "s"}]
        return ops
    if ci % 7 == 3 and not any(o["op"] == "bp.insert" and o["fn"] == "waituntil" for o in ops):
        # all durations plain integers, a non-integer sample rate: segment starts are the rounded counts / SR
        newSR = r.choice([2.4, 7.3, 1.7])
        for o in ops:
            if o["op"] == "bp.insert":
                o["dur"] = r.choice([d for d in range(1, 7) if abs(d * newSR - round(d * newSR)) <= 0.4 and round(d * newSR) >= 2])
            if o["op"] == "bp.setSR":
                o["SR"] = enc(newSR)
        # windows on the new grid, away from rounding ties
        ops[:] = [o for o in ops if o["op"] not in ("bp.setMarker", "bp.setSegMarker")]
        for nm in names:
            if r.random() < 0.6:
                ops.insert(-3, {"op": "bp.setSegMarker", "id": "b", "name": nm, "specs": [q(r.choice([0, 1]) / newSR), q(r.choice([1, 2]) / newSR)],
                                "mid": r.choice([1, 2])})
        return ops
    # edit history around the marked segments
    for _ in range(r.randint(0, 5)):
        k = r.random()
        nm = r.choice(names) if names else "x"
        if k < 0.2:
            # mark the segment that is currently last, or any
            nmk = names[-1] if names and r.random() < 0.6 else nm
            mid = r.choice([1, 2])
            ops.append({"op": "bp.setSegMarker", "id": "b", "name": nmk, "specs": [q(r.choice([0, 1, -1]) / SR), q(r.choice([1, 2, 3]) / SR)],
                        "mid": mid})
            if r.random() < 0.4:
                # ... and re-specified with length 0 (the end of a pulse-length sweep): the window is gone
                ops += [{"op": "bp.desc", "id": "b"}, {"op": "el.addBP", "id": "e", "ch": 1, "bp": "b"}, {"op": "el.getArrays", "id": "e", "time": False},
                        {"op": "bp.setSegMarker", "id": "b", "name": nmk, "specs": [q(r.choice([0, 1]) / SR), q(0)], "mid": mid}]
        elif k < 0.35:
            n = r.randint(2, 12)
            ops.append({"op": "bp.insert", "id": "b", "pos": r.choice([-1, -1, r.randint(0, len(names)), 0]), "fn": "ramp", "args": [0, 1],
                        "dur": enc(n / SR), "name": {"s": r.choice(["ins", "ramp", "a"])}})
        elif k < 0.55:
            ops.append({"op": "bp.remove", "id": "b", "name": nm})
        elif k < 0.85:
            n = r.randint(2, 20)
            ops.append({"op": "bp.changeDur", "id": "b", "name": nm, "dur": enc(g.dur(SR, n)), "all": False})
        else:
            ops.append({"op": "bp.removeSegMarker", "id": "b", "name": nm, "mid": r.choice([1, 2])})
        ops += [{"op": "bp.desc", "id": "b"}, {"op": "el.addBP", "id": "e", "ch": 1, "bp": "b"},
                {"op": "el.getArrays", "id": "e", "time": False}]
        if r.random() < 0.25:
            # written to JSON and read back: every segment-bound window is still on its own segment (numbered siblings too)
            ops += [{"op": "bp.json", "id": "b", "to": "bj"}, {"op": "bp.setSR", "id": "bj", "SR": enc(SR)},
                    {"op": "el.new", "id": "ej"}, {"op": "el.addBP", "id": "ej", "ch": 1, "bp": "bj"}, {"op": "el.getArrays", "id": "ej", "time": False}]
        if r.random() < 0.35:
            # the SAME element forged, edited through the element, forged again (twice): the windows of the
            # first forging must not linger anywhere
            n = r.randint(2, 20)
            ops += [{"op": "el.changeDur", "id": "e", "ch": 1, "name": r.choice(names) if names else "x", "dur": enc(g.dur(SR, n)), "all": False},
                    {"op": "el.getArrays", "id": "e", "time": False}, {"op": "el.getArrays", "id": "e", "time": True}]
    return ops


def nontrivial(ops, ri):
    for o, r in zip(ops, ri):
        if o["op"] == "el.getArrays" and "ok" in r:
            a = r["ok"].get(1) if isinstance(r["ok"], dict) else None
            if a is None:
                continue
            if a["m1"].any() or a["m2"].any():
                return True
    return False
