"""C18 — forged structure is schema-valid; subsequences forge like stand-alone sequences."""
import numpy as np

from core import enc, q
from gen import SeqGen
from props.c20 import _same_arrays

ID = "C18"
HEAP_SUMMARY = True      # end every program with the reference-level observation (BB.Model.Heap vs id() walk)
UNIVERSAL_EVERY = 6      # every n-th case is a feature-rich random program (props/universal.py)
LEAN_MODULE = "BB.Properties.C18"
QUICK_N = 240
THOROUGH_N = 2500
RULE = ("consistent sequences of 1-4 positions, each an element or (45%) a subsequence of 1-3 elements, 1-3 channels with "
        "int/str ids in per-element order, blueprint and raw-array channels, flags, delays, filter compensations and "
        "sequencing values on parent and subsequences; every subsequence also exists stand-alone and receives the parent's "
        "delay and filter settings; all 8 forge option combinations over the run; observed on the implementation: "
        "fs_schema.validate of every forged result, key sets per position (type/content/sequencing; wfm/m1/m2/flags/time/"
        "newdurations), subsequence content == stand-alone forge position by position with its own sequencing, "
        "points == sum of forged lengths, duration == sum nrep*duration recursively; refusals of nested / other-SR / "
        "non-sequence arguments; everything also compared with the model; non-trivial = a forge with a subsequence")
ERRCLASS = False


def case(g, tier, ci):
    r = g.r
    sg = SeqGen(g)
    SR = r.choice([10, 100, 1e3, 2.5, 1e6])
    chans = r.sample([1, 2, 3, "A", "B"], r.randint(1, 3))
    P = r.randint(1, 4)
    ops = [{"op": "sq.new", "id": "s"}, {"op": "sq.setSR", "id": "s", "v": enc(SR)}]
    subs = {}
    adding = list(range(1, P + 1))
    if r.random() < 0.3:
        r.shuffle(adding)
    for p in adding:
        n = r.randint(4, 24)
        if r.random() < 0.45:
            sub = g.fresh("u")
            K = r.randint(1, 3)
            ops += [{"op": "sq.new", "id": sub}, {"op": "sq.setSR", "id": sub, "v": enc(SR)}]
            if r.random() < 0.3:
                ops.append({"op": "sq.setName", "id": sub, "name": "inner"})
            inner = list(range(1, K + 1))
            if r.random() < 0.4:
                r.shuffle(inner)          # the subsequence's positions filled out of ascending order
            for p2 in inner:
                eid = g.fresh("e")
                n2 = r.randint(4, 24)
                ops += sg.element(eid, SR, n2, r.sample(chans, len(chans)), raw_p=0.25, kinds=("ramp", "sine"), flags_p=0.3, nseg=(1, 3))
                ops.append({"op": "sq.addElement", "id": sub, "pos": p2, "el": eid})
                for fld in ("nrep", "goto", "twait", "jump_target", "jump_input"):
                    if r.random() < 0.35:
                        ops.append({"op": "sq.setSeq", "id": sub, "pos": p2, "field": fld, "v": r.choice([0, 1, 2, 3])})
            ops.append({"op": "sq.addSub", "id": "s", "pos": p, "sub": sub})
            subs[p] = (sub, K)
        else:
            eid = g.fresh("e")
            ops += sg.element(eid, SR, n, r.sample(chans, len(chans)), raw_p=0.25, kinds=("ramp", "sine"), flags_p=0.3, nseg=(1, 3))
            ops.append({"op": "sq.addElement", "id": "s", "pos": p, "el": eid})
        for fld in ("nrep", "goto", "twait", "jump_target", "jump_input"):
            if r.random() < 0.35:
                ops.append({"op": "sq.setSeq", "id": "s", "pos": p, "field": fld, "v": r.choice([0, 1, 2, 3])})
    # settings on the parent, mirrored on every stand-alone subsequence
    for ch in chans:
        sets = [{"op": "sq.setAmp", "ch": ch, "v": 10}, {"op": "sq.setOff", "ch": ch, "v": 0}]
        if r.random() < 0.4:
            sets.append({"op": "sq.setDelay", "ch": ch, "v": enc(r.choice([2, 4, 6]) / SR)})
        if r.random() < 0.35:
            sets.append({"op": "sq.setFilter", "ch": ch, "kind": r.choice(["HP", "LP"]), "order": r.choice([1, 2, -1]), "orderIsInt": True,
                         "f_cut": enc(SR * r.choice([0.01, 0.1])), "tau": None})
        for st in sets:
            ops.append({**st, "id": "s"})
            if st["op"] in ("sq.setDelay", "sq.setFilter"):
                for sub, _ in subs.values():
                    ops.append({**st, "id": sub})
    if ci % 4 == 1:
        # positions as a loop over np.arange hands them over: numpy integers (the forged structure is keyed by plain ints)
        for o in ops:
            if o["op"] in ("sq.addElement", "sq.addSub"):
                o["_pos_as"] = "npint"
    # refusals (at a new position, or at an occupied one: its entry and settings stay what they are)
    k = r.random()
    rpos = P + 1 if r.random() < 0.5 else r.randint(1, P)
    if k < 0.12 and subs:
        ops.append({"op": "sq.addSub", "id": "s", "pos": rpos, "sub": "s", "_errclass": True})         # nested
    elif k < 0.2:
        ops += [{"op": "sq.new", "id": "w"}, {"op": "sq.setSR", "id": "w", "v": enc(SR * 2 if r.random() < 0.5 else SR * (1 + 2 ** -19))},
                {"op": "sq.addSub", "id": "s", "pos": rpos, "sub": "w", "_errclass": True}]            # other sample rate
    elif k < 0.26 and subs:
        # element + subsequence mixed in the offered sequence
        eid = g.fresh("e")
        ops += [{"op": "sq.new", "id": "w"}, {"op": "sq.setSR", "id": "w", "v": enc(SR)}]
        ops += sg.element(eid, SR, 6, list(chans), raw_p=0.0, markers=False, seg_markers=False)
        first = r.random() < 0.5
        sub0 = list(subs.values())[0][0]
        if first:
            ops += [{"op": "sq.addElement", "id": "w", "pos": 1, "el": eid}, {"op": "sq.addSub", "id": "w", "pos": 2, "sub": sub0}]
        else:
            ops += [{"op": "sq.addSub", "id": "w", "pos": 1, "sub": sub0}, {"op": "sq.addElement", "id": "w", "pos": 2, "el": eid}]
        ops.append({"op": "sq.addSub", "id": "s", "pos": P + 1, "sub": "w", "_errclass": True})
    elif k < 0.3:
        ops += [{"op": "sq.new", "id": "w"}, {"op": "sq.setSR", "id": "w", "v": enc(SR)},
                {"op": "sq.addSub", "id": "s", "pos": P + 1, "sub": "w"}, {"op": "sq.check", "id": "s"}]       # an empty subsequence
    if ci % 10 == 6:
        # a parent that has no sample rate yet is offered a subsequence (refused: the rates differ), then gets another rate
        eid = g.fresh("e")
        ops += [{"op": "sq.new", "id": "late"}, {"op": "sq.new", "id": "lsub"}, {"op": "sq.setSR", "id": "lsub", "v": enc(SR)}]
        ops += sg.element(eid, SR, 6, list(chans), raw_p=0.0, markers=False, seg_markers=False)
        ops += [{"op": "sq.addElement", "id": "lsub", "pos": 1, "el": eid}, {"op": "sq.addSub", "id": "late", "pos": 1, "sub": "lsub", "_errclass": True},
                {"op": "sq.setSR", "id": "late", "v": enc(SR / 4)}, {"op": "sq.check", "id": "late"},
                {"op": "sq.forge", "id": "late", "delays": True, "filters": True, "time": False}, {"op": "sq.desc", "id": "late"}]
    dl, fl, tm = r.random() < 0.6, r.random() < 0.6, r.random() < 0.4
    ops.append({"op": "sq.forge", "id": "s", "delays": dl, "filters": fl, "time": tm, "_f": "s"})
    for p, (sub, K) in subs.items():
        ops.append({"op": "sq.forge", "id": sub, "delays": dl, "filters": fl, "time": tm, "_f": f"sub{p}"})
    ops += [{"op": "sq.points", "id": "s", "_tag": "points"}, {"op": "sq.duration", "id": "s", "_tag": "duration"},
            {"op": "sq.desc", "id": "s", "_tag": "desc"}]
    ops.append({"op": "sq.forge", "id": "s", "delays": False, "filters": False, "time": False, "_f": "plain"})
    ops[0]["_opts"] = [dl, fl, tm]
    ops[0]["_SR"] = SR
    return ops


def post_check(ops, ri, rm):
    f = {o["_f"]: r for o, r in zip(ops, ri) if o.get("_f")}
    t = {o["_tag"]: r for o, r in zip(ops, ri) if o.get("_tag")}
    if "s" not in f or "err" in f["s"]:
        return None
    if f["s"]["ok"]["schema"] is not True:
        return f"forged structure fails the published schema: {f['s']['ok']['schema']}"
    out = f["s"]["ok"]["forged"]
    dl, fl, tm = ops[0].get("_opts", [True, True, False])
    N = len(out)
    if sorted(out.keys()) != list(range(1, N + 1)):
        return f"forged positions {sorted(out.keys())} are not 1..{N}"
    for pos, e in out.items():
        if sorted(e.keys()) != ["content", "sequencing", "type"]:
            return f"position {pos}: keys {sorted(e.keys())}"
        if e["type"] not in ("element", "subsequence"):
            return f"position {pos}: type {e['type']!r}"
        if e["type"] == "element" and list(e["content"].keys()) != [1]:
            return f"position {pos}: an element must have exactly one content entry, got {list(e['content'].keys())}"
        for p2, c in e["content"].items():
            want = ["data"] if e["type"] == "element" else ["data", "sequencing"]
            if sorted(c.keys()) != want:
                return f"position {pos}.{p2}: keys {sorted(c.keys())}, expected {want}"
            for ch, arrs in c["data"].items():
                names = set(arrs.keys())
                if not {"wfm"} <= names:
                    return f"position {pos}.{p2} channel {ch!r}: no wfm"
                if not tm and ({"newdurations"} & names):
                    return f"position {pos}.{p2} channel {ch!r}: segment durations delivered although includetime is off"
                if tm and "time" not in names:
                    return f"position {pos}.{p2} channel {ch!r}: no time axis although includetime is on"
                for nm, a in arrs.items():
                    if not isinstance(a, np.ndarray):
                        return f"position {pos}.{p2} channel {ch!r}: {nm} is a {type(a).__name__}, not an array"
        sub = f.get(f"sub{pos}")
        if e["type"] == "subsequence" and sub is not None:
            if "err" in sub:
                return f"position {pos}: the subsequence does not forge stand-alone ({sub['err']}) but does inside the parent"
            so = sub["ok"]["forged"]
            if sorted(so.keys()) != sorted(e["content"].keys()):
                return f"position {pos}: subsequence positions {sorted(e['content'].keys())} vs stand-alone {sorted(so.keys())}"
            for p2 in so:
                d = _same_arrays(so[p2]["content"][1]["data"], e["content"][p2]["data"], f"[{pos}][{p2}]")
                if d:
                    return f"subsequence at {pos} forges differently inside the parent than stand-alone: {d}"
                if so[p2]["sequencing"] != e["content"][p2]["sequencing"]:
                    return f"subsequence at {pos}.{p2}: sequencing {e['content'][p2]['sequencing']} != its own {so[p2]['sequencing']}"
    # points and duration from the plain forge (no delays)
    if "plain" in f and "ok" in f["plain"] and "points" in t and "ok" in t["points"]:
        pl = f["plain"]["ok"]["forged"]
        tot = 0
        dur = 0.0
        SR = float(ops[0]["_SR"])
        for pos, e in pl.items():
            sub_d = 0.0
            for p2, c in e["content"].items():
                n = len(next(iter(c["data"].values()))["wfm"])
                tot += n
                rep = c["sequencing"]["nrep"] if e["type"] == "subsequence" else 1
                sub_d += rep * n / SR
            dur += e["sequencing"]["nrep"] * sub_d
        if t["points"]["ok"] != tot:
            return f"Sequence.points = {t['points']['ok']}, forged samples in total = {tot}"
        if "duration" in t and "ok" in t["duration"]:
            from fractions import Fraction
            got = float(Fraction(t["duration"]["ok"]))
            if abs(got - dur) > 1e-9 * max(1.0, abs(dur)):
                return f"Sequence.duration = {got}, sum of nrep * duration (recursively) = {dur}"
    return None


def nontrivial(ops, ri):
    return any(o["op"] == "sq.addSub" and "ok" in r for o, r in zip(ops, ri))
