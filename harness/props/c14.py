"""C14 — AWG5014 package: normalised in-range samples, faithful sequencing, exact slicing."""
from core import enc, q
from gen import SeqGen

ID = "C14"
HEAP_SUMMARY = True      # end every program with the reference-level observation (BB.Model.Heap vs id() walk)
UNIVERSAL_EVERY = 8      # every n-th case is a feature-rich random program (props/universal.py)
LEAN_MODULE = "BB.Properties.C14"
QUICK_N = 500
THOROUGH_N = 4000
ERRCLASS = False          # pinned classes (ValueError, SequencingError) are checked inside the deferred comparison
RULE = ("consistent sequences of 1-3 positions and 1-3 channels (channel order != sorted order, blueprint and raw-array "
        "channels), amplitude in {0.5,1,2,3,4.5,1+2^-12,2+2^-10}, offset in {0,+-0.25,1,-2,253/2048,-63/2048}; in 40% of the cases one channel/position is a "
        "constant ramp whose dyadic level is inside / exactly at / 2^-20 outside the top or bottom of the channel range; "
        "sequencing values drawn from {bound-1, bound, bound+1} of the 8 instrument bounds and random in-range values; "
        "delays/filters in 20%; observed: the whole package [:], plus an index or slice expression (in and out of range); "
        "error classes ValueError vs SequencingError are compared; non-trivial = a delivered package with >= 2 waveforms")


def level_element(g, eid, SR, N, chans, levels):
    """element whose channels are constant ramps at the given levels"""
    ops = [{"op": "el.new", "id": eid}]
    for ch, lv in zip(chans, levels):
        bid = g.fresh("b")
        ops += [{"op": "bp.new", "id": bid},
                {"op": "bp.insert", "id": bid, "pos": -1, "fn": "ramp", "args": [enc(lv), enc(lv)], "dur": enc(N / SR), "name": None},
                {"op": "bp.setSR", "id": bid, "SR": enc(SR)}, {"op": "el.addBP", "id": eid, "ch": ch, "bp": bid}]
    return ops


def int_array_case(g):
    """raw waveforms handed over as unsigned / signed integer arrays, float32 arrays or lists (volts that happen to be whole
    numbers), integer offsets: every delivered sample is still (v - offset)/(amplitude/2)"""
    r = g.r
    SR = r.choice([10, 100, 1e3])
    N = r.randint(4, 9)
    dt = r.choice(["uint8", "uint8", "int64", "float32", "list", "uint16"])
    amp, off = r.choice([(2, 1), (4, 1), (4, 2), (6, 3)])
    lo, hi = off - amp // 2, off + amp // 2
    ops = [{"op": "sq.new", "id": "s"}, {"op": "sq.setSR", "id": "s", "v": enc(SR)}, {"op": "el.new", "id": "e1"}]
    chans = r.sample([1, 2, "A"], r.randint(1, 2))
    for ch in chans:
        vals = [r.randint(max(lo, 0), hi) for _ in range(N)]
        ops.append({"op": "el.addArray", "id": "e1", "ch": ch, "wfm": [q(v) for v in vals], "SR": enc(SR),
                    "kw": [["m1", [j % 2 for j in range(N)]], ["m2", [0] * N]], "_dtype": dt})
    ops.append({"op": "sq.addElement", "id": "s", "pos": 1, "el": "e1"})
    for ch in chans:
        ops += [{"op": "sq.setAmp", "id": "s", "ch": ch, "v": amp}, {"op": "sq.setOff", "id": "s", "ch": ch, "v": off}]
    if r.random() < 0.5:
        ops.append({"op": "sq.setDelay", "id": "s", "ch": chans[0], "v": enc(2 / SR)})
    ops += [{"op": "sq.awg", "id": "s"}, {"op": "sq.forge", "id": "s", "delays": True, "filters": True, "time": False}]
    return ops


def case(g, tier, ci):
    r = g.r
    if ci % 12 == 7:
        return int_array_case(g)
    sg = SeqGen(g)
    SR = r.choice([1, 10, 100, 1e3, 1e6])
    chans = r.sample([3, 1, 2, "B", "A"], r.randint(1, 3))
    if ci % 5 == 3:
        # channel names of which one is the beginning of the other (1 and 10, 'A' and 'AB'): every channel has its own settings
        chans = list(r.choice([[1, 10], [10, 1], ["A", "AB"], ["AB", "A"], [2, "2b"], [1, 2, 10]]))
    P = r.randint(1, 3)
    # (dyadic values, some with digits below a millivolt: the range is the one that was set, not a rounded one)
    amps = {ch: r.choice([0.5, 1, 2, 3, 4.5, 1 + 2.0 ** -12, 2 + 2.0 ** -10]) for ch in chans}
    offs = {ch: r.choice([0, 0.25, -0.25, 1, -2, 253 / 2048, -63 / 2048]) for ch in chans}
    ops = [{"op": "sq.new", "id": "s"}, {"op": "sq.setSR", "id": "s", "v": enc(SR)}]
    boundary = r.random() < 0.4
    adding = list(range(1, P + 1))
    if r.random() < 0.3:
        r.shuffle(adding)       # positions may be filled in any order
    for p in adding:
        eid = g.fresh("e")
        N = r.randint(4, 12)
        order = r.sample(chans, len(chans))
        if boundary:
            levels = []
            for ch in order:
                a, o = amps[ch], offs[ch]
                k = r.random()
                if k < 0.12:
                    lv = 0.0        # an idle 0 V channel: mapped to -offset/(amplitude/2), refused when 0 V is outside the range
                elif k < 0.5:
                    lv = o + r.choice([-1, 1]) * a / 2 * r.choice([0.5, 0.25, 0.0])
                elif k < 0.8:
                    lv = o + r.choice([-1, 1]) * a / 2
                else:
                    lv = o + r.choice([-1, 1]) * (a / 2 + 2.0 ** -20)
                levels.append(lv)
            ops += level_element(g, eid, SR, N, order, levels)
        else:
            ops += sg.element(eid, SR, N, order, raw_p=0.3, kinds=("ramp",), markers=True, waits=0.4)     # waituntil x channel delay
            for ch in chans:
                amps[ch] = max(amps[ch], 4.5)
                offs[ch] = r.choice([0, 0.25])
        ops.append({"op": "sq.addElement", "id": "s", "pos": p, "el": eid})
    for ch in chans:
        ops.append({"op": "sq.setAmp", "id": "s", "ch": ch, "v": enc(amps[ch])})
        if r.random() < 0.95:
            ops.append({"op": "sq.setOff", "id": "s", "ch": ch, "v": enc(offs[ch])})
        if not boundary and r.random() < 0.35:
            ops.append({"op": "sq.setDelay", "id": "s", "ch": ch, "v": enc(r.choice([2, 3]) / SR)})
        if not boundary and r.random() < 0.15:
            ops.append({"op": "sq.setFilter", "id": "s", "ch": ch, "kind": r.choice(["HP", "LP"]), "order": 1, "orderIsInt": True,
                        **(r.choice([{"f_cut": enc(SR * 0.1), "tau": None}, {"f_cut": None, "tau": enc(10 / SR)}]))})      # (by cut-off or by time constant)
    bounds = {"twait": [-1, 0, 1, 2], "nrep": [-1, 0, 1, 65535, 65536, 65537], "jump_target": [-2, -1, 0, P, P + 1], "goto": [-1, 0, P, P + 1]}
    for p in range(1, P + 1):
        for fld, vals in bounds.items():
            k = r.random()
            if k < 0.25:
                ops.append({"op": "sq.setSeq", "id": "s", "pos": p, "field": fld, "v": r.choice(vals)})
            elif k < 0.5:
                hi = {"twait": 1, "nrep": 65536, "jump_target": P, "goto": P}[fld]
                ops.append({"op": "sq.setSeq", "id": "s", "pos": p, "field": fld, "v": r.randint(0, hi)})
        if r.random() < 0.3:
            ops.append({"op": "sq.setSeq", "id": "s", "pos": p, "field": "jump_input", "v": r.randint(0, 5)})
    if ci % 5 == 3:
        # an addElement that is refused (channels of unequal length) at an occupied position: its settings stay what they are
        bad = g.fresh("e")
        ops += [{"op": "el.new", "id": bad},
                {"op": "el.addArray", "id": bad, "ch": 1, "wfm": [q(0)] * 5, "SR": enc(SR), "kw": []},
                {"op": "el.addArray", "id": bad, "ch": 2, "wfm": [q(0)] * 7, "SR": enc(SR), "kw": []},
                {"op": "sq.addElement", "id": "s", "pos": r.randint(1, P + 1), "el": bad}]
    if ci % 7 == 2 and not boundary:
        # a delay stored for a channel this sequence does not have
        ops.append({"op": "sq.setDelay", "id": "s", "ch": r.choice([9, "Z"]), "v": enc(40 / SR)})
    ops.append({"op": "sq.awg", "id": "s"})
    n = len(chans)
    k = r.random()
    if k < 0.4:
        ops.append({"op": "sq.awg", "id": "s", "index": r.randint(0, n - 1)})
    elif k < 0.8:
        a = r.randint(0, n)
        b = r.randint(a, n)
        ops.append({"op": "sq.awg", "id": "s", "slice": [r.choice([a, None]) if a == 0 else a, r.choice([b, None]) if b == n else b, r.choice([None, 1, 2, 3])]})
    else:
        ops.append({"op": "sq.awg", "id": "s", **r.choice([{"index": n}, {"index": -1}, {"slice": [0, n + 1, 1]}, {"slice": [None, None, 0]}])})
    return ops


def nontrivial(ops, ri):
    return any(o["op"] == "sq.awg" and "ok" in r for o, r in zip(ops, ri))
