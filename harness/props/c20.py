"""C20 — equality is observational: equal objects describe and forge identically."""
import numpy as np

from core import enc, q, user_fn_spec
from gen import arbify, SeqGen, canonical_names, basename

ID = "C20"
HEAP_SUMMARY = True      # end every program with the reference-level observation (BB.Model.Heap vs id() walk)
UNIVERSAL_EVERY = 8      # every n-th case is a feature-rich random program (props/universal.py)
LEAN_MODULE = "BB.Properties.C20"
EXTRA_TARGETS = ["BB.Proofs.G13C20"]      # sequence-level theorems of namespace BB.C20 kept apart for import reasons
QUICK_N = 480
THOROUGH_N = 5000
RULE = ("pairs (a, b): b = a.copy() of a blueprint / element / sequence (blueprint channels only), then 0-4 public mutations "
        "on either side drawn uniformly from {changeArg, changeDuration, insertSegment, removeSegment, set/removeSegmentMarker, "
        "marker1/2, setSR, addFlags, addBluePrint, five sequencing setters, amplitude, offset, delay, filter compensation, SR, "
        "element(pos).changeArg/changeDuration}, 35% of the mutations undone again, read-only calls (points, duration, "
        "validateDurations) interleaved; observed: a == b, b == a, a == a (Boolean vs the model), and on the implementation "
        "alone: symmetry, reflexivity, and whenever == is True equality of the two descriptions and of every forged array; "
        "non-trivial = at least one mutation")
ASSUMPTIONS = ["blueprint channels only (the property's domain)", "blueprints are compared for forging at equal sample rate"]

FN_PARAMS = {"ramp": ["start", "stop"], "sine": ["freq", "ampl", "off", "phase"], "gaussian": ["ampl", "sigma", "mu", "offset"],
             "gsc": ["ampl", "sigma", "mu", "offset"], "const": ["level"], "lin2": ["a", "b"], "poly4": ["a", "b", "c", "d"],
             "pi2pulse": ["ampl"], "x9y": ["u", "v"], "lin2~": ["b", "a"], "arb": ["func", "kwargs"], "istep": ["level"], "icount": ["level"]}


def argval(r, f, values=(0.375, -0.625, 1.0)):
    """{"arg": .., "value": ..} of a changeArg on a segment of function key f: a numeric value for a numeric parameter; for
    PulseAtoms.arb_func another registered user function / keyword dict"""
    import userfns
    a = r.choice(FN_PARAMS[f])
    if f == "arb":
        v = userfns.ARB_FUNCS[r.choice([101, 102])] if a == "func" else dict(userfns.KW_POOL[r.choice([201, 202, 203, 204])])
        return {"arg": enc(a if r.random() < 0.7 else FN_PARAMS[f].index(a)), "value": enc(v)}
    return {"arg": enc(a), "value": enc(r.choice(list(values)))}


def seg_table(bops):
    """[(name, fnkey)] of the segments a list of bp ops creates (insert at -1 only)"""
    raw = []
    for o in bops:
        if o["op"] == "bp.insert":
            fk = o["fn"] if isinstance(o["fn"], str) else o["fn"]["name"]
            nm = o["name"]["s"] if o.get("name") else {"gsc": "gaussian_smooth_cutoff", "arb": "arb_func"}.get(fk, fk)
            raw.append((nm, fk))
    names = canonical_names([basename(n) for n, _ in raw])
    return [(n, fk) for n, (_, fk) in zip(names, raw)]


def bp_mutation(g, bid, segs, SR):
    """one public mutation of blueprint `bid`; returns (ops, undo_ops | None)"""
    r = g.r
    real = [(n, f) for n, f in segs if f != "waituntil"]
    k = r.choice(["arg", "arg", "dur", "dur", "insert", "remove", "segmark", "rmsegmark", "marker", "SR"])
    if k == "arg" and real:
        n, f = r.choice(real)
        return [{"op": "bp.changeArg", "id": bid, "name": n, **argval(r, f, (0.375, -0.625, 3, 1.0))}], None
    if k == "dur" and real:
        n, f = r.choice(real)
        if r.random() < 0.4:
            # a duration that differs from a typical one by far less than a sample / than 1e-8 s
            return [{"op": "bp.changeDur", "id": bid, "name": n, "dur": enc(r.choice([5, 7]) / SR * (1 + 2.0 ** -r.choice([18, 22, 30])))}], \
                   [{"op": "bp.changeDur", "id": "b" if bid == "a" else "a", "name": n, "dur": enc(r.choice([5, 7]) / SR)}]
        return [{"op": "bp.changeDur", "id": bid, "name": n, "dur": enc(r.choice([5, 7, 11]) / SR)}], None
    if k == "insert":
        return ([{"op": "bp.insert", "id": bid, "pos": r.choice([-1, 0, 1]), "fn": "ramp", "args": [enc(0.5), enc(0.25)],
                  "dur": enc(4 / SR), "name": enc("zq")}], [{"op": "bp.remove", "id": bid, "name": "zq"}])
    if k == "remove" and len(segs) > 1 and not any(f == "waituntil" for _, f in segs):
        return [{"op": "bp.remove", "id": bid, "name": r.choice(segs)[0]}], None
    if k == "segmark":
        n = r.choice(segs)[0]
        mid = r.choice([1, 2])
        return ([{"op": "bp.setSegMarker", "id": bid, "name": n, "specs": [q(0), q(r.choice([1, 2]) / SR)], "mid": mid}],
                None)
    if k == "rmsegmark":
        return [{"op": "bp.removeSegMarker", "id": bid, "name": r.choice(segs)[0], "mid": r.choice([1, 2])}], None
    if k == "marker":
        return [{"op": "bp.setMarker", "id": bid, "which": r.choice([1, 2]), "list": [[q(0), q(r.choice([1, 2, 3]) / SR)]]}], None
    return [{"op": "bp.setSR", "id": bid, "SR": enc(SR * 2)}], [{"op": "bp.setSR", "id": bid, "SR": enc(SR)}]


def observe(kind, a, b):
    ops = [{"op": kind + ".eq", "a": a, "b": b, "_eq": "ab"}, {"op": kind + ".eq", "a": b, "b": a, "_eq": "ba"},
           {"op": kind + ".eq", "a": a, "b": a, "_eq": "aa"}, {"op": kind + ".eq", "a": b, "b": b, "_eq": "bb"}]
    if kind == "bp":
        for x in (a, b):
            ops += [{"op": "bp.desc", "id": x, "_side": x, "_nocmp": False},
                    {"op": "el.new", "id": "f" + x}, {"op": "el.addBP", "id": "f" + x, "ch": 1, "bp": x},
                    {"op": "el.getArrays", "id": "f" + x, "_side": x}]
    elif kind == "el":
        for x in (a, b):
            ops += [{"op": "el.desc", "id": x, "_side": x}, {"op": "el.getArrays", "id": x, "_side": x},
                    {"op": "el.SR", "id": x, "_side": x}]
    else:
        for x in (a, b):
            ops += [{"op": "sq.desc", "id": x, "_side": x},
                    {"op": "sq.forge", "id": x, "delays": True, "filters": True, "time": False, "_side": x}]
    return ops


def case(g, tier, ci):
    r = g.r
    which = r.choice(["bp", "bp", "el", "el", "sq", "sq"])
    SR = r.choice([10, 100, 1e3, 2.5, 1e6, 1e9, 2.4e9])
    muts = []      # list of (ops, undo)
    if which == "bp":
        bops, info = g.blueprint("a", SR=SR, nseg=(1, 4), kinds=("ramp", "sine", "gaussian", "user"), waits=0.15, aligned=True)
        arbify(r, bops, p=0.25, keep_first=False)
        segs = seg_table(bops)
        ops = bops + [{"op": "bp.copy", "id": "a", "to": "b"}]
        for _ in range(r.choice([0, 1, 1, 1, 2, 3, 4])):
            side = r.choice(["a", "b"])
            m, undo = bp_mutation(g, side, segs, SR)
            ops += m
            muts.append(1)
            if undo and r.random() < 0.5:
                ops += undo
            if r.random() < 0.3:
                ops.append({"op": "bp.points", "id": r.choice(["a", "b"])})
        if ci % 3 == 0:
            # every marker pair of this case is handed over as a list [t, dur] instead of a tuple (both are accepted)
            for o in ops:
                if o["op"] in ("bp.setSegMarker", "bp.setMarker", "bp.appendMarker"):
                    o["_list"] = True
        return ops + observe("bp", "a", "b")
    sg = SeqGen(g)
    if which == "el":
        chans = r.sample([1, 2, 3, "A"], r.randint(1, 3))
        N = r.randint(6, 24)
        ops = sg.element("a", SR, N, chans, raw_p=0.0, kinds=("ramp", "sine"), flags_p=0.3, nseg=(1, 3))
        tables = {}
        cur = None
        for o in ops:
            if o["op"] == "bp.new":
                cur = o["id"]
                tables[cur] = []
            if o["op"] == "el.addBP":
                tables[o["ch"]] = seg_table([x for x in ops if x.get("id") == o["bp"]])
        ops.append({"op": "el.copy", "id": "a", "to": "b"})
        for _ in range(r.choice([0, 1, 1, 1, 2, 3])):
            side = r.choice(["a", "b"])
            ch = r.choice(chans)
            segs = tables[ch]
            k = r.choice(["arg", "dur", "flags", "flags", "addbp", "read", "newchan"])
            real = [(n, f) for n, f in segs if f != "waituntil"]
            if k == "arg" and real:
                n, f = r.choice(real)
                ops.append({"op": "el.changeArg", "id": side, "ch": ch, "name": n, **argval(r, f)})
            elif k == "dur" and len(chans) == 1 and real:
                n, f = r.choice(real)
                ops.append({"op": "el.changeDur", "id": side, "ch": ch, "name": n, "dur": enc(r.choice([5, 7]) / SR)})
            elif k == "flags":
                ops.append({"op": "el.addFlags", "id": side, "ch": ch, "flags": [enc(r.choice([0, 1, 2, "H", "T", ""])) for _ in range(4)]})
            elif k == "newchan":
                # a channel that exists on one side only (nested channel sets)
                nb = g.fresh("nb")
                bops, _ = g.blueprint(nb, SR=SR, nseg=(1, 2), kinds=("ramp",), waits=0.0, markers=False, total=N)
                ops += bops + [{"op": "el.addBP", "id": side, "ch": r.choice([9, "extra"]), "bp": nb}]
            elif k == "addbp":
                nb = g.fresh("nb")
                bops, _ = g.blueprint(nb, SR=SR, nseg=(1, 2), kinds=("ramp",), waits=0.0, markers=False, total=N)
                ops += bops + [{"op": "el.addBP", "id": side, "ch": ch, "bp": nb}]
                if r.random() < 0.5:   # the same blueprint on the other side too: equal again on this channel
                    ops.append({"op": "el.addBP", "id": "b" if side == "a" else "a", "ch": ch, "bp": nb})
            else:
                ops.append({"op": r.choice(["el.points", "el.duration", "el.validate"]), "id": side})
            muts.append(1)
        return ops + observe("el", "a", "b")
    # sequences
    ops, info = sg.sequence("a", npos=(1, 3), nch=(1, 2), SR=SR, raw_p=0.0, kinds=("ramp", "sine"), flags_p=0.2,
                            delays_p=0.3, filters_p=0.3, sub_p=0.15, seq_p=0.3, waits=0.0, amp=20, chan_pool=[1, 2, 3, "A"])
    ops.append({"op": "sq.copy", "id": "a", "to": "b"})
    chans, P = info["chans"], info["P"]
    for _ in range(r.choice([0, 1, 1, 1, 2, 3])):
        side = r.choice(["a", "b"])
        k = r.choice(["seq", "seq", "amp", "off", "delay", "filter", "SR", "elarg", "read", "newpos", "name", "respell", "badsub"])
        ch = r.choice(chans)
        if k == "name":
            # the name is not compared by ==; then it may not show in description or forged output either
            ops.append({"op": "sq.setName", "id": side, "name": r.choice(["rabi", "t1", ""])})
        elif k == "seq":
            fld = r.choice(["twait", "nrep", "jump_input", "jump_target", "goto"])
            pos = r.randint(1, P)
            v = r.randint(0, P) if fld in ("jump_target", "goto") else r.choice([0, 1, 2, 3])
            ops.append({"op": "sq.setSeq", "id": side, "pos": pos, "field": fld, "v": v})
            if r.random() < 0.25:
                ops.append({"op": "sq.setSeq", "id": "b" if side == "a" else "a", "pos": pos, "field": fld, "v": v})
        elif k == "newpos" and info["els"]:
            # one more position on one side only (a copy of an existing element)
            ops.append({"op": "sq.addElement", "id": side, "pos": P + 1, "el": r.choice(list(info["els"].values()))})
        elif k == "amp":
            ops.append({"op": "sq.setAmp", "id": side, "ch": ch, "v": enc(r.choice([20, 21.5, 30]))})
        elif k == "off":
            ops.append({"op": "sq.setOff", "id": side, "ch": ch, "v": enc(r.choice([0, 0.25, 0.125]))})
        elif k == "delay":
            ops.append({"op": "sq.setDelay", "id": side, "ch": ch, "v": enc(r.choice([0, 2, 3]) / SR)})
        elif k == "filter":
            ops.append({"op": "sq.setFilter", "id": side, "ch": ch, "kind": r.choice(["HP", "LP"]), "order": r.choice([1, 2]),
                        "orderIsInt": True, "f_cut": enc(SR * r.choice([0.01, 0.1])), "tau": None})
        elif k == "badsub":
            # a refused addSubSequence (the subsequence runs at another sample rate) at an occupied or at the next free
            # position: the sequence is what it was (seeded C20-m18: stored before the checks)
            bad = g.fresh("bad")
            ops += [{"op": "sq.new", "id": bad}, {"op": "sq.setSR", "id": bad, "v": enc(SR * 2)},
                    {"op": "sq.addSub", "id": side, "pos": r.randint(1, P + 1), "sub": bad}]
        elif k == "respell":
            # the same filter declared by its cut-off on one side and by its time constant on the other (f_cut = 1/tau exactly):
            # two different settings (the descriptions differ), so the sequences are unequal (seeded C20-m17)
            t = r.choice([0.25, 0.5, 0.125])
            kd, od = r.choice(["HP", "LP"]), r.choice([1, 2])
            ops += [{"op": "sq.setFilter", "id": side, "ch": ch, "kind": kd, "order": od, "orderIsInt": True, "f_cut": enc(1 / t), "tau": None},
                    {"op": "sq.setFilter", "id": "b" if side == "a" else "a", "ch": ch, "kind": kd, "order": od, "orderIsInt": True,
                     "f_cut": None, "tau": enc(t)}]
        elif k == "SR":
            ops.append({"op": "sq.setSR", "id": side, "v": enc(SR * 2)})
            if r.random() < 0.5:
                ops.append({"op": "sq.setSR", "id": side, "v": enc(SR)})
        elif k == "elarg" and info["els"]:
            pos = r.choice(list(info["els"]))
            eid = info["els"][pos]
            # first blueprint of that element on channel ch
            addbp = [o for o in ops if o["op"] == "el.addBP" and o["id"] == eid and o["ch"] == ch]
            if addbp:
                segs = seg_table([x for x in ops if x.get("id") == addbp[-1]["bp"]])
                real = [(n, f) for n, f in segs if f != "waituntil"]
                if real:
                    n, f = r.choice(real)
                    ops.append({"op": "sq.elChangeArg", "id": side, "pos": pos, "ch": ch, "name": n,
                                **argval(r, f)})
        else:
            ops.append(r.choice([{"op": "sq.points", "id": side}, {"op": "sq.duration", "id": side}, {"op": "sq.check", "id": side},
                                 {"op": "sq.forge", "id": side, "delays": True, "filters": True, "time": False},
                                 {"op": "sq.forge", "id": side, "delays": True, "filters": True, "time": False}]))
        muts.append(1)
    return ops + observe("sq", "a", "b")


def _same_arrays(x, y, path=""):
    """exact equality of two forged structures of the implementation; returns None or where they differ"""
    if isinstance(x, dict):
        if not isinstance(y, dict) or set(map(str, x.keys())) != set(map(str, y.keys())):
            return f"{path}: keys differ"
        for k in x:
            yk = y[k] if k in y else y[str(k)]
            d = _same_arrays(x[k], yk, f"{path}[{k!r}]")
            if d:
                return d
        return None
    if isinstance(x, np.ndarray) or isinstance(y, np.ndarray):
        a, b = np.asarray(x), np.asarray(y)
        if a.shape != b.shape:
            return f"{path}: shapes {a.shape} != {b.shape}"
        return None if np.array_equal(a, b) else f"{path}: values differ"
    if isinstance(x, (list, tuple)):
        if not isinstance(y, (list, tuple)) or len(x) != len(y):
            return f"{path}: lengths differ"
        for i, (u, v) in enumerate(zip(x, y)):
            d = _same_arrays(u, v, f"{path}[{i}]")
            if d:
                return d
        return None
    return None if x == y else f"{path}: {x!r} != {y!r}"


def post_check(ops, ri, rm):
    """clauses of the property checked on the implementation alone"""
    eq = {o["_eq"]: r for o, r in zip(ops, ri) if o.get("_eq")}
    if len(eq) < 4 or any("err" in r for r in eq.values()):
        return None
    kind = next(o["op"].split(".")[0] for o in ops if o.get("_eq"))
    ab, ba, aa, bb_ = (eq[k]["ok"] for k in ("ab", "ba", "aa", "bb"))
    if ab != ba:
        return f"{kind}: == is not symmetric: a == b is {ab}, b == a is {ba}"
    if not aa or not bb_:
        return f"{kind}: == is not reflexive: a == a is {aa}, b == b is {bb_}"
    if not ab:
        return None
    side = {}
    for o, r in zip(ops, ri):
        if o.get("_side"):
            side.setdefault(o["_side"], {})[o["op"]] = r
    A, B = side.get("a", {}), side.get("b", {})
    dk = kind + ".desc"
    if dk in A and dk in B and "ok" in A[dk] and "ok" in B[dk]:
        from core import J_equal
        # python dict equality ignores insertion order
        def norm(j):
            if isinstance(j, dict) and "d" in j:
                return {"d": sorted([[k, norm(v)] for k, v in j["d"]], key=lambda kv: kv[0])}
            if isinstance(j, dict) and "a" in j:
                return {"a": [norm(v) for v in j["a"]]}
            return j
        d = J_equal(norm(A[dk]["ok"]["desc"]), norm(B[dk]["ok"]["desc"]), "description")
        if d:
            return f"{kind}: a == b is True but the descriptions differ: {d}"
    fk = "sq.forge" if kind == "sq" else "el.getArrays"
    if fk in A and fk in B:
        ra, rb = A[fk], B[fk]
        if ("err" in ra) != ("err" in rb):
            return f"{kind}: a == b is True but only one side forges ({ra.get('err')} / {rb.get('err')})"
        if "ok" in ra:
            if kind == "bp":
                # blueprints are compared at equal sample rate only
                sa = next((o for o in reversed(ops) if o["op"] == "bp.setSR" and o["id"] == "a"), None)
                sb = next((o for o in reversed(ops) if o["op"] == "bp.setSR" and o["id"] == "b"), None)
                if (sa or {}).get("SR") != (sb or {}).get("SR"):
                    return None
            xa = ra["ok"]["forged"] if kind == "sq" else ra["ok"]
            xb = rb["ok"]["forged"] if kind == "sq" else rb["ok"]
            d = _same_arrays(xa, xb, "forged")
            if d:
                if kind == "el" and "el.SR" in A and "el.SR" in B and A["el.SR"].get("ok") != B["el.SR"].get("ok"):
                    return (f"C20-D23: elements compare equal although their channel blueprints have different sample "
                            f"rates ({A['el.SR'].get('ok')} vs {B['el.SR'].get('ok')}) and forge differently: {d}")
                return f"{kind}: a == b is True but the forged arrays differ: {d}"
    return None


MUTATORS = ("bp.changeArg", "bp.changeDur", "bp.insert", "bp.remove", "bp.setSegMarker", "bp.removeSegMarker", "bp.setMarker",
            "bp.setSR", "el.changeArg", "el.changeDur", "el.addFlags", "el.addBP", "sq.setSeq", "sq.setAmp", "sq.setOff",
            "sq.setDelay", "sq.setFilter", "sq.setSR", "sq.elChangeArg")


def nontrivial(ops, ri):
    ci = next((i for i, o in enumerate(ops) if o["op"] in ("bp.copy", "el.copy", "sq.copy") and o.get("to") == "b"), None)
    return ci is not None and any(o["op"] in MUTATORS for o in ops[ci + 1:])
