"""C01 — forged waveform = in-order concatenation of per-segment samples."""
import numpy as np

from core import enc, q

ID = "C01"
HEAP_SUMMARY = True      # end every program with the reference-level observation (BB.Model.Heap vs id() walk)
UNIVERSAL_EVERY = 8      # every n-th case is a feature-rich random program (props/universal.py)
UNIVERSAL_KIND = "both"      # alternately the blueprint-level and the sequence-level program
LEAN_MODULE = "BB.Properties.C01"
QUICK_N = 600
THOROUGH_N = 6000
ERRCLASS = False
RULE = ("blueprints of 1-8 segments (thorough: up to 40) mixing ramp/sine/gaussian/gaussian_smooth_cutoff/user functions "
        "(1, 2, 4 args)/waituntil, SR from {1, 7, 100, 2.4, 1e3, 12345.678, 1e6, 1e9, 5e10, random}, durations (n+f)/SR with "
        "|f|<=0.4 (int durations with non-integer SR included), 15% with one segment of 0-1 samples; forged through "
        "Element.getArrays(includetime=True) and Sequence.forge; the same blueprint is also rebuilt through a different "
        "edit history (reverse insertion at position 0 with insert/remove noise) and both forges must agree; "
        "non-trivial = at least 2 segments and a successful forge")


def short_wait_case(g):
    """a waituntil whose zero padding comes out at 0, 1 or 2 samples (first, middle or last segment): fewer than two samples
    make forging fail for this kind of segment as for every other -- it is not dropped"""
    r = g.r
    SR = r.choice([1, 10, 100, 1e3, 1e6, 2.5])
    a = r.randint(2, 9)
    k = r.choice([0, 0.3, 1, 1.3, 2, 0, 1])
    where = r.choice(["middle", "middle", "last", "first", "second_of_two"])
    user = {"name": "const", "qual": "function const", "params": ["level", "SR", "npts"]}
    ops = [{"op": "bp.new", "id": "b"}]
    ramp = lambda n, fn="ramp": {"op": "bp.insert", "id": "b", "pos": -1, "fn": fn, "args": [enc(0.5)] if fn != "ramp" else [enc(0.25), enc(1)],
                                 "dur": enc(n / SR), "name": None}
    if where == "first":
        ops += [{"op": "bp.insert", "id": "b", "pos": -1, "fn": "waituntil", "args": [enc(k / SR)], "dur": None, "name": None}, ramp(a)]
    elif where == "last":
        ops += [ramp(a), {"op": "bp.insert", "id": "b", "pos": -1, "fn": "waituntil", "args": [enc((a + k) / SR)], "dur": None, "name": None}]
    elif where == "second_of_two":
        ops += [ramp(a), {"op": "bp.insert", "id": "b", "pos": -1, "fn": "waituntil", "args": [enc((a + 3) / SR)], "dur": None, "name": None},
                {"op": "bp.insert", "id": "b", "pos": -1, "fn": "waituntil", "args": [enc((a + 3 + k) / SR)], "dur": None, "name": None}, ramp(4, user)]
    else:
        ops += [ramp(a), {"op": "bp.insert", "id": "b", "pos": -1, "fn": "waituntil", "args": [enc((a + k) / SR)], "dur": None, "name": None},
                ramp(r.randint(2, 6), r.choice(["ramp", user]))]
    ops += [{"op": "bp.setSR", "id": "b", "SR": enc(SR)}, {"op": "el.new", "id": "e"}, {"op": "el.addBP", "id": "e", "ch": 1, "bp": "b"},
            {"op": "el.getArrays", "id": "e", "time": True}, {"op": "el.getArrays", "id": "e", "time": False},
            {"op": "bp.points", "id": "b"}, {"op": "bp.duration", "id": "b"}]
    return ops


def direct(seed, tier, model, stats):
    """on the implementation alone: every segment's block is what ITS OWN pulse function returns (two different user functions
    that look alike in a description, on two channels of one element and in two separate elements)"""
    import random
    from props.c02 import check_calls_twins
    from core import BluePrint, Element
    r = random.Random(seed * 6133 + 1)
    fails = []
    n_checks = 0
    for _ in range(15 if tier == "quick" else 150):
        n_checks += 1
        d = check_calls_twins(r)
        if d is None:
            # the same across two separate elements forged one after the other
            SR, n = r.choice([1, 10, 1e6]), r.randint(3, 20)

            def make(sign):
                def shape(level, SR, npts):
                    return sign * level * np.ones(int(npts))
                return shape
            outs = []
            for f in (make(1.0), make(-1.0)):
                bp = BluePrint()
                bp.insertSegment(-1, f, (0.5,), dur=n / SR, name="lvl")
                bp.setSR(SR)
                e = Element()
                e.addBluePrint(1, bp)
                outs.append(np.asarray(e.getArrays()[1]["wfm"], float))
            if not (np.array_equal(outs[0], 0.5 * np.ones(n)) and np.array_equal(outs[1], -0.5 * np.ones(n))):
                d = (f"two separate elements with look-alike user shapes (one factory, same arguments): the second element's block is "
                     f"{outs[1][:3]} ..., its own shape returns -0.5")
        if d:
            fails.append({"what": d, "call": "forging blueprints whose user shapes share name, signature and arguments"})
            break
    stats["cases"] += n_checks
    stats["nontrivial"] += n_checks
    return fails


def case(g, tier, ci):
    r = g.r
    if ci % 15 == 7:
        return short_wait_case(g)
    nseg = (1, 8) if tier == "quick" or r.random() < 0.8 else (9, 40)
    short = r.random() < 0.15
    ops, info = g.blueprint("b", nseg=nseg, waits=0.2 if r.random() < 0.5 else 0.0, nmax=30 if tier == "quick" else 200)
    ins = [op for op in ops if op["op"] == "bp.insert"]
    if short and ins:
        victim = r.choice([o for o in ins if o["fn"] != "waituntil"] or ins)
        if victim["fn"] != "waituntil":
            victim["dur"] = enc(r.choice([0.0, 0.4, 1.0, 1.4, 0.6]) / info["SR"])
    if r.random() < 0.15 and not any(o["fn"] == "waituntil" for o in ins):
        # integer durations with a non-integer sample rate; durations stay >= 0.1 sample away from a rounding
        # tie (the property's domain), and the absolute markers (generated for the old rate) are dropped
        newSR = r.choice([2.4, 7.3, 1.7])
        for o in ins:
            o["dur"] = r.choice([d for d in range(1, 7) if abs(d * newSR - round(d * newSR)) <= 0.4 and round(d * newSR) >= 2])
        for o in ops:
            if o["op"] == "bp.setSR":
                o["SR"] = enc(newSR)
        ops[:] = [o for o in ops if o["op"] != "bp.setMarker"]
        info["SR"] = newSR
        info["intdur"] = True
    ops.append({"op": "el.new", "id": "e"})
    if (ci % 4) == 1:
        # the channel held a raw array first: assigning the blueprint replaces it completely
        ops.append({"op": "el.addArray", "id": "e", "ch": 1, "wfm": [q(0.125 * (j % 5)) for j in range(6 + ci % 3)], "SR": enc(info["SR"]),
                    "kw": [["m1", [0] * (6 + ci % 3)]]})
    ops += [{"op": "el.addBP", "id": "e", "ch": 1, "bp": "b"},
            {"op": "el.getArrays", "id": "e", "time": True}, {"op": "el.getArrays", "id": "e", "time": False}]
    if r.random() < 0.2 and not info.get("intdur"):     # (with int durations the TOTAL may sit at a rounding tie)
        # the element was queried (SR/points/duration are cached), then its channel is replaced by the same
        # blueprint at another sample rate: forging must use the new blueprint's rate
        ops += [{"op": r.choice(["el.SR", "el.duration", "el.validate"]), "id": "e"},
                {"op": "bp.copy", "id": "b", "to": "bx"}, {"op": "bp.setSR", "id": "bx", "SR": enc(info["SR"] * r.choice([10, 2]))},
                {"op": "el.addBP", "id": "e", "ch": 1, "bp": "bx"}, {"op": "el.getArrays", "id": "e", "time": True, "_pair2": True},
                {"op": "el.addBP", "id": "e", "ch": 1, "bp": "b"}]
    if any(o["fn"] == "waituntil" for o in ins) and r.random() < 0.6 and not info.get("intdur"):
        # forge, edit a segment of the SAME element, forge again: the stored blueprint's waituntil must still adapt
        from props.c20 import seg_table
        tbl = seg_table([o for o in ops if o.get("id") == "b"])
        firstwait = next(i for i, (_, f) in enumerate(tbl) if f == "waituntil")
        before = [(n, f) for n, f in tbl[:firstwait] if f != "waituntil"]
        if before:
            nm = r.choice(before)[0]
            ops += [{"op": "el.changeDur", "id": "e", "ch": 1, "name": nm, "dur": enc(r.randint(2, 6) / info["SR"]), "all": False},
                    {"op": "el.getArrays", "id": "e", "time": True, "_pair2": True},
                    {"op": "el.addBP", "id": "e", "ch": 1, "bp": "b"}]
    # a different history producing the same blueprint
    ops.append({"op": "bp.new", "id": "h"})
    for o in reversed(ins):
        if r.random() < 0.3:
            ops.append({"op": "bp.insert", "id": "h", "pos": 0, "fn": "ramp", "args": [0, 0], "dur": 1, "name": {"s": "noise"}})
            ops.append({"op": "bp.remove", "id": "h", "name": "noise"})
        ops.append({**o, "id": "h", "pos": 0})
    for o in ops[:]:
        if o["op"] in ("bp.setSR", "bp.setMarker") and o["id"] == "b":
            ops.append({**o, "id": "h"})
    ops += [{"op": "bp.eq", "a": "b", "b": "h"}, {"op": "el.new", "id": "e2"}, {"op": "el.addBP", "id": "e2", "ch": 1, "bp": "h"},
            {"op": "el.getArrays", "id": "e2", "time": True, "_pair": True}]
    if r.random() < 0.3:
        ops += [{"op": "sq.new", "id": "s"}, {"op": "sq.setSR", "id": "s", "v": enc(info["SR"])},
                {"op": "sq.addElement", "id": "s", "pos": 1, "el": "e"}, {"op": "sq.forge", "id": "s", "delays": True, "filters": True, "time": True}]
        if (ci % 3) == 1:
            # a filter compensation on the channel: all four arrays keep the one common length (odd totals included)
            ops += [{"op": "sq.setAmp", "id": "s", "ch": 1, "v": enc(1e6)},
                    {"op": "sq.setFilter", "id": "s", "ch": 1, "kind": r.choice(["HP", "LP"]), "order": 1, "orderIsInt": True,
                     "f_cut": enc(info["SR"] * 0.1), "tau": None},
                    {"op": "sq.forge", "id": "s", "delays": True, "filters": True, "time": True}]
        if (ci % 2) == 0:
            # the sequence's own sample rate is set (again, to another value) after the element went in: the element
            # is still forged at its blueprints' rate
            ops += [{"op": "sq.setSR", "id": "s", "v": enc(info["SR"] * 1.25)},
                    {"op": "sq.forge", "id": "s", "delays": True, "filters": True, "time": True},
                    {"op": "el.getArrays", "id": "e", "time": True}]
    return ops


def post_check(ops, ri, rm):
    """history independence on the implementation itself"""
    first = next((r for o, r in zip(ops, ri) if o["op"] == "el.getArrays" and o.get("time") and not o.get("_pair")), None)
    second = next((r for o, r in zip(ops, ri) if o.get("_pair")), None)
    if first is None or second is None:
        return None
    if ("err" in first) != ("err" in second):
        return f"history dependence: direct build {'raises' if 'err' in first else 'forges'}, rebuilt blueprint {'raises' if 'err' in second else 'forges'}"
    if "err" in first:
        return None
    a, b = first["ok"][1], second["ok"][1]
    for k in a:
        if k not in b or not np.array_equal(np.asarray(a[k]), np.asarray(b[k])):
            return f"history dependence: array {k} differs between two histories of the same blueprint"
    return None


def nontrivial(ops, ri):
    nseg = sum(1 for o in ops if o["op"] == "bp.insert" and o["id"] == "b")
    forged = any(o["op"] == "el.getArrays" and "ok" in r for o, r in zip(ops, ri))
    return nseg >= 2 and forged
