"""C07 — consistency gate: only gap-free, homogeneous sequences produce output."""
from core import enc, q
from gen import SeqGen

ID = "C07"
HEAP_SUMMARY = True      # end every program with the reference-level observation (BB.Model.Heap vs id() walk)
UNIVERSAL_EVERY = 8      # every n-th case is a feature-rich random program (props/universal.py)
LEAN_MODULE = "BB.Properties.C07"
QUICK_N = 500
THOROUGH_N = 4000
RULE = ("sequences built by adding 0-6 elements/subsequences at positions drawn from 1..6 in random order (overwriting "
        "included), 35% with a gap, 20% with one deviating channel set, 15% with one deviating sample rate, with a random "
        "subset of {SR, amplitude, offset, sequencing entries} present; observed: checkConsistency (Boolean / raise) and "
        "raise/no-raise of forge, channels, + (either side), repeatAndVarySequence, outputForAWGFile, outputForSEQXFile(+WithFlags); "
        "every 12th case a parent holding a subsequence with a hole at position 1 and a subsequence with deviating channel sets; "
        "thorough additionally enumerates all insertion orders of all subsets of {1..4}; non-trivial = at least 2 entries")


def build(g, sid, positions, SR, chans, deviant=None, has_SR=True, amp=True, off=True, subs=0.15):
    r = g.r
    sg = SeqGen(g)
    ops = [{"op": "sq.new", "id": sid}]
    if has_SR:
        ops.append({"op": "sq.setSR", "id": sid, "v": enc(SR)})
    for i, p in enumerate(positions):
        chs = list(chans)
        sr = SR
        if deviant is not None and deviant[0] == i:
            if deviant[1] == "chan":
                k = r.random()
                if k < 0.35:
                    chs = chans[:-1] + ["zz"]
                elif k < 0.6:
                    chs = chans + ["extra"]
                else:
                    # the same label with the other type: 1 vs '1', 'A' stays (no int twin)
                    i = r.randrange(len(chans))
                    chs = list(chans)
                    chs[i] = str(chs[i]) if isinstance(chs[i], int) else chs[i] + "x"
            else:
                # twice the rate, or a rate that differs only in the 6th significant digit
                sr = SR * 2 if r.random() < 0.5 else SR * (1 + 2 ** -19)
        r.shuffle(chs)
        N = r.randint(4, 12)
        if r.random() < subs and has_SR and (deviant is None or (deviant[0] == i and deviant[1] == "chan")):
            # (a subsequence may be the entry whose channel set deviates)
            sub = g.fresh("s")
            eid = g.fresh("e")
            ops += [{"op": "sq.new", "id": sub}, {"op": "sq.setSR", "id": sub, "v": enc(SR)}]
            ops += sg.element(eid, sr, N, chs, raw_p=0.2, markers=False, seg_markers=False)
            ops += [{"op": "sq.addElement", "id": sub, "pos": 1, "el": eid}, {"op": "sq.addSub", "id": sid, "pos": p, "sub": sub}]
        else:
            eid = g.fresh("e")
            ops += sg.element(eid, sr, N, chs, raw_p=0.2, markers=False, seg_markers=False)
            ops.append({"op": "sq.addElement", "id": sid, "pos": p, "el": eid})
    for ch in chans:
        if amp and r.random() < 0.9:
            ops.append({"op": "sq.setAmp", "id": sid, "ch": ch, "v": 10})
        if off and r.random() < 0.9:
            ops.append({"op": "sq.setOff", "id": sid, "ch": ch, "v": 0})
    return ops


def inconsistent_subs(g, SR, chans, with_empty=False):
    """a parent that holds (a) a subsequence with a hole at position 1 and (b) a subsequence whose elements define
    different channel sets (in random order, sometimes beside a consistent entry): each of them is inconsistent by
    itself, so the parent's checkConsistency answers False (it raised SequenceConsistencyError before the repair D27)
    and every gated operation refuses"""
    r = g.r
    sg = SeqGen(g)
    ops = [{"op": "sq.new", "id": "s"}, {"op": "sq.setSR", "id": "s", "v": enc(SR)}]
    kinds = ["hole", "chans"]
    r.shuffle(kinds)
    if r.random() < 0.5:
        kinds.insert(r.randrange(3), r.choice(["ok", "el"]))
    if with_empty:
        # D28: a stored subsequence that holds no element at all (its `channels` query raises KeyError): alone, next to
        # an ordinary element (before or behind it), or among inconsistent subsequences - the answer is False, not KeyError
        kinds = r.choice([["empty"], ["el", "empty"], ["empty", "el"], ["ok", "empty"], ["empty"] + kinds, kinds + ["empty"]])
    for p, kind in enumerate(kinds, 1):
        if kind == "el":
            eid = g.fresh("e")
            ops += sg.element(eid, SR, r.randint(4, 12), list(chans), raw_p=0.2, markers=False, seg_markers=False)
            ops.append({"op": "sq.addElement", "id": "s", "pos": p, "el": eid})
            continue
        sub = g.fresh("s")
        ops += [{"op": "sq.new", "id": sub}, {"op": "sq.setSR", "id": sub, "v": enc(SR)}]
        if kind == "hole":
            inner = [(q_, list(chans)) for q_ in r.choice([[2], [2, 3], [3, 2]])]
        elif kind == "chans":
            other = chans[:-1] + ["zz"] if r.random() < 0.5 else chans + ["extra"]
            inner = [(1, list(chans)), (2, other)]
            r.shuffle(inner)
        elif kind == "empty":
            inner = []
        else:
            inner = [(1, list(chans))]
        for q_, chs in inner:
            eid = g.fresh("e")
            r.shuffle(chs)
            ops += sg.element(eid, SR, r.randint(4, 12), chs, raw_p=0.2, markers=False, seg_markers=False)
            ops.append({"op": "sq.addElement", "id": sub, "pos": q_, "el": eid})
        ops.append({"op": "sq.addSub", "id": "s", "pos": p, "sub": sub})
    for ch in chans:
        ops.append({"op": "sq.setAmp", "id": "s", "ch": ch, "v": 10})
        ops.append({"op": "sq.setOff", "id": "s", "ch": ch, "v": 0})
    return ops


def observe(sid, other):
    return [{"op": "sq.SR", "id": sid},         # (a getter: reading it must not create the setting)
            {"op": "sq.new", "id": "z"},        # an empty operand without any settings: + still gates on the other operand
            {"op": "sq.add", "a": "z", "b": sid, "to": "sumz1"}, {"op": "sq.add", "a": sid, "b": "z", "to": "sumz2"},
            {"op": "sq.check", "id": sid}, {"op": "sq.check", "id": sid, "verbose": True, "positional": len(sid + other) % 2 == 0},
            {"op": "sq.check", "id": sid, "verbose": 1}, {"op": "sq.channels", "id": sid},
            {"op": "sq.forge", "id": sid, "delays": True, "filters": True, "time": False},
            {"op": "sq.add", "a": sid, "b": other, "to": "sum1"}, {"op": "sq.add", "a": other, "b": sid, "to": "sum2"},
            {"op": "tl.repvary", "seq": sid, "to": "rv", "lens": [0, 0, 0, 0, 0], "poss": [], "vars": []},
            {"op": "sq.awg", "id": sid}, {"op": "sq.seqx", "id": sid}, {"op": "sq.seqx", "id": sid, "flags": True}]


def case(g, tier, ci):
    r = g.r
    SR = r.choice([1, 10, 100, 2.5, 1e6, 1e9])
    chans = r.sample([1, 2, 3, "A", "B", "a", "ch01", "ch1"], r.randint(1, 3))      # (names that differ only in case or in a leading zero are different channels)
    k = r.randint(0, 5)
    if r.random() < 0.35:
        positions = [r.randint(1, 6) for _ in range(k)]
    else:
        positions = list(range(1, k + 1))
        r.shuffle(positions)
        if r.random() < 0.3 and positions:
            positions.append(r.choice(positions))      # overwrite
    if ci % 9 == 4 and k >= 2:
        # a position below 1 next to a gap, so that the highest position still equals the number of entries
        positions = [p for p in range(1, k + 1) if p != k - 1] + [r.choice([0, 0, -1])]
        r.shuffle(positions)
    if ci % 12 == 7:
        # inconsistent subsequences inside the parent, then check (plain and verbose), channels, forge, + (observe)
        return inconsistent_subs(g, SR, chans) + build(g, "t", [1], SR, chans, subs=0.0) + observe("s", "t")
    if ci % 12 == 2:
        # ... and empty stored subsequences (D28)
        return inconsistent_subs(g, SR, chans, with_empty=True) + build(g, "t", [1], SR, chans, subs=0.0) + observe("s", "t")
    dv = None
    u = r.random()
    if positions and u < 0.20:
        dv = (r.randrange(len(positions)), "chan")
    elif positions and u < 0.35:
        dv = (r.randrange(len(positions)), "SR")
    ops = build(g, "s", positions, SR, chans, deviant=dv, has_SR=r.random() < 0.9, amp=r.random() < 0.85, off=r.random() < 0.85)
    # a consistent partner with the same settings for +
    ops += build(g, "t", [1], SR, chans, subs=0.0)
    if ci % 6 == 1:
        # the sequence's own sample rate set (again) after it was filled: entries keep the rate they came with
        ops.append({"op": "sq.setSR", "id": "s", "v": enc(SR * 2)})
    if r.random() < 0.3:
        ops.append({"op": "sq.setSeq", "id": "s", "pos": r.randint(1, 6), "field": "nrep", "v": 2})
    if r.random() < 0.3:
        # a sequencing entry created for a position that may hold no element (deprecated setter creates entries)
        ops.append({"op": "sq.setSeqSettings", "id": "s", "pos": r.choice([0, 1, 2, 3, 4, 5, 7]), "wait": 0, "nreps": 1, "jump": 0, "goto": 0})
    if ci % 9 == 4:
        # positions handed over as numpy integers (a loop over np.arange): equal numbers are equal positions
        # (seeded C07-m17: positions compared by identity)
        for o in ops:
            if o["op"] in ("sq.addElement", "sq.addSub") and o.get("id") == "s":
                o["_pos_as"] = "npint"
    return ops + observe("s", "t")


def nontrivial(ops, ri):
    return sum(1 for o in ops if o["op"] in ("sq.addElement", "sq.addSub") and o["id"] == "s") >= 2
