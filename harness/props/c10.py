"""C10 — channel delays shift exactly the addressed channel, identically in every path."""
import numpy as np

from core import enc, q
from gen import SeqGen

ID = "C10"
HEAP_SUMMARY = True      # end every program with the reference-level observation (BB.Model.Heap vs id() walk)
UNIVERSAL_EVERY = 6      # every n-th case is a feature-rich random program (props/universal.py)
LEAN_MODULE = "BB.Properties.C10"
QUICK_N = 250
THOROUGH_N = 3000
RULE = ("consistent sequences of 1-3 positions (20% subsequences, forge path only), 1-4 channels with int/str ids whose "
        "insertion order is permuted per element, blueprint (ramp/sine, both marker kinds, waituntil) and raw-array channels, "
        "delays of 0 or >= 2 whole samples per channel (0.29 s @ 100 Sa/s and other products that are not exact in floats), "
        "front and back padding each 0 or >= 2 samples; observed: forge(apply_delays=True/False), outputForAWGFile()[:], "
        "outputForSEQXFile() — every sample and marker; direct check on the implementation: delayed == zeros + undelayed + zeros "
        "per channel, and the three paths agree; non-trivial = some delay > 0")


def one_sample_pad_case(g):
    """finding D26: blueprint channels whose delays differ by exactly one sample (both >= 2 samples, inside the quantifier):
    the channel with the shorter delay needs ONE trailing zero sample, which is appended as a segment of its own and refused
    by the forger (segments need two samples) -- forge and both output methods raise SegmentDurationError"""
    r = g.r
    SR = r.choice([100, 10, 1e3, 1e6])
    N = r.randint(4, 12)
    d1 = r.choice([2, 3, 4, 6])
    ds = r.sample([d1, d1 + 1], 2) + ([d1 + 1] if r.random() < 0.3 else [])
    chans = r.sample([1, 2, "A", 3], len(ds))
    ops = [{"op": "sq.new", "id": "s"}, {"op": "sq.setSR", "id": "s", "v": enc(SR)}, {"op": "el.new", "id": "e1"}]
    for ch in chans:
        bid = g.fresh("b")
        ops += [{"op": "bp.new", "id": bid},
                {"op": "bp.insert", "id": bid, "pos": -1, "fn": "ramp", "args": [enc(0.25), enc(1)], "dur": enc(N / SR), "name": None},
                {"op": "bp.setSR", "id": bid, "SR": enc(SR)}, {"op": "el.addBP", "id": "e1", "ch": ch, "bp": bid}]
    ops.append({"op": "sq.addElement", "id": "s", "pos": 1, "el": "e1"})
    for ch, d in zip(chans, ds):
        ops += [{"op": "sq.setAmp", "id": "s", "ch": ch, "v": 100}, {"op": "sq.setOff", "id": "s", "ch": ch, "v": 0},
                {"op": "sq.setDelay", "id": "s", "ch": ch, "v": enc(d / SR)}]
    ops += [{"op": "sq.forge", "id": "s", "delays": True, "filters": False, "time": False, "_d": True},
            {"op": "sq.forge", "id": "s", "delays": False, "filters": False, "time": False, "_u": True},
            {"op": "sq.awg", "id": "s"}]
    ops[0]["_delays"] = {str(ch): d for ch, d in zip(chans, ds)}
    ops[0]["_factor"] = 1
    return ops


def case(g, tier, ci):
    r = g.r
    if ci % 60 == 13:
        return one_sample_pad_case(g)
    sg = SeqGen(g)
    SR = r.choice([100, 100, 10, 1e3, 2.5, 1e6, 1e9])
    seqx = r.random() < 0.12
    subs = 0.0 if seqx else (0.2 if r.random() < 0.5 else 0.0)
    N = r.randint(2400, 2420) if seqx else None
    # 12%: the sequence's own sample rate differs from its elements' (still consistent)
    # the sequence's own rate: equal to its elements', a multiple, or a fraction (a delay that is whole in element
    # samples need not be whole in sequence samples)
    factor = r.choice([2, 10, 0.5, 0.1]) if (r.random() < 0.2 and subs == 0.0) else 1
    ops, info = sg.sequence("s", npos=(1, 3), nch=(1, 4), SR=SR, N=N, raw_p=0.3, kinds=("ramp", "sine") if not seqx else ("ramp",),
                            flags_p=0.1, delays_p=0.0, filters_p=0.0, sub_p=subs, waits=0.3, amp=100, seq_p=0.1,
                            seq_sr_factor=factor)
    chans = info["chans"]
    # delays: samples 0 or >= 2, pairwise differences 0 or >= 2
    # 27/29 and 7/9: two samples apart, but the float difference of the two delays is just below 2/SR
    pool = [0, 2, 3, 5, 7, 29, 27] if r.random() < 0.7 else [0, 2, 4, 9, 7]
    chosen = {}
    for ch in chans:
        if r.random() < 0.7:
            for _ in range(10):
                d = r.choice(pool)
                if all(abs(d - e) != 1 for e in list(chosen.values()) + [0]):
                    chosen[ch] = d
                    break
    if chosen and max(chosen.values()) - min(list(chosen.values()) + ([0] if len(chosen) < len(chans) else [])) == 1:
        chosen = {}
    for ch, d in chosen.items():
        ops.append({"op": "sq.setDelay", "id": "s", "ch": ch, "v": enc(d / SR if SR != 100 or d != 29 else 0.29)})
    if ci % 4 == 1:
        # a (long) delay stored for a channel this sequence does not have
        ops.append({"op": "sq.setDelay", "id": "s", "ch": r.choice([9, "Z"]), "v": enc(r.choice([40, 290]) / SR)})
    ops += [{"op": "sq.forge", "id": "s", "delays": True, "filters": False, "time": r.random() < 0.3, "_d": True},
            {"op": "sq.forge", "id": "s", "delays": False, "filters": False, "time": False, "_u": True}]
    if not info["subs"]:
        ops += [{"op": "sq.awg", "id": "s"}, {"op": "sq.seqx", "id": "s"}]
    ops[0]["_delays"] = {str(k): v for k, v in chosen.items()}
    ops[0]["_factor"] = factor
    return ops


def post_check(ops, ri, rm):
    """the property's clauses checked directly on the implementation's output"""
    delays = ops[0].get("_delays") if ops and ops[0]["op"] == "sq.new" else None
    if delays is None:
        return None
    # a shrunk program may have lost delay ops: recompute from the program
    SRv = None
    actual = {}
    for o in ops:
        if o["op"] == "sq.setDelay" and o["id"] == "s":
            actual[str(o["ch"])] = o["v"]
        if o["op"] == "sq.setSR" and o["id"] == "s":
            SRv = o["v"]
    if SRv is None:
        return None
    from fractions import Fraction

    def num(v):
        return float(Fraction(v["q"])) if isinstance(v, dict) else float(v)
    SR = num(SRv) / ops[0].get("_factor", 1)        # delays count in samples of the elements
    D = {ch: int(round(num(v) * SR)) for ch, v in actual.items()}
    fd = next((r for o, r in zip(ops, ri) if o.get("_d")), None)
    fu = next((r for o, r in zip(ops, ri) if o.get("_u")), None)
    if fd is not None and fu is not None and "err" in fd and "ok" in fu and fd["err"] == "SegmentDurationError":
        # finding D26 (KNOWN_FINDINGS.txt): all delays are 0 or >= 2 whole samples, the undelayed sequence forges, and some
        # blueprint channel needs exactly one padding sample behind (or in front)
        bp_chans = {str(o["ch"]) for o in ops if o["op"] == "el.addBP"}
        present = {str(ch) for pos in fu["ok"]["forged"] for p2 in fu["ok"]["forged"][pos]["content"]
                   for ch in fu["ok"]["forged"][pos]["content"][p2]["data"]}
        Mx = max([D.get(ch, 0) for ch in present] + [0])
        if all(d == 0 or d >= 2 for d in D.values()) and any(Mx - D.get(ch, 0) == 1 for ch in present & bp_chans):
            return (f"C10-D26: delays {sorted(D.items())} (whole samples, each 0 or >= 2): forge(apply_delays=True) raises "
                    f"SegmentDurationError because a blueprint channel needs exactly one trailing zero sample; the undelayed sequence forges")
    if fd is None or fu is None or "err" in fd or "err" in fu:
        return None
    M = max(list(D.values()) + [0])
    fd, fu = fd["ok"]["forged"], fu["ok"]["forged"]
    for pos in fu:
        for p2 in fu[pos]["content"]:
            du, dd = fu[pos]["content"][p2]["data"], fd[pos]["content"][p2]["data"]
            M = max([D.get(str(ch), 0) for ch in du] + [0])       # a delay stored for a channel the sequence lacks moves nothing
            for ch in du:
                d = D.get(str(ch), 0)
                for name in du[ch]:
                    if name in ("flags",):
                        continue
                    a, b = np.asarray(du[ch][name]), np.asarray(dd[ch][name])
                    absolute_marker = False
                    if name == "wfm" or name not in ("m1", "m2") or True:
                        want = np.concatenate((np.zeros(d), a, np.zeros(M - d)))
                    if len(b) != len(a) + M:
                        return f"pos {pos}.{p2} channel {ch!r} {name}: delayed length {len(b)} != {len(a)} + {M}"
                    if name == "wfm" and not np.array_equal(b, want):
                        return f"pos {pos}.{p2} channel {ch!r}: delayed waveform is not zeros({d}) + undelayed + zeros({M - d})"
    # paths agree
    awg = next((r for o, r in zip(ops, ri) if o["op"] == "sq.awg"), None)
    sx = next((r for o, r in zip(ops, ri) if o["op"] == "sq.seqx"), None)
    if sx is not None and "ok" in sx:
        chans = list(fd[1]["content"][1]["data"].keys())
        for i, ch in enumerate(chans):
            for p, arr in enumerate(sx["ok"][5][i]):
                f = fd[p + 1]["content"][1]["data"][ch]
                for row, name in enumerate(("wfm", "m1", "m2")):
                    if not np.array_equal(np.asarray(arr[row]), np.asarray(f[name])):
                        return f"outputForSEQXFile and forge disagree on channel {ch!r} position {p + 1} {name}"
    return None


def nontrivial(ops, ri):
    return any(o["op"] == "sq.setDelay" and o["v"] != 0 for o in ops)
