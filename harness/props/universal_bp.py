"""Blueprint-level companion of props/universal.py: the long random edit history of C05's generator (insert at any
position, remove, changeArg / changeDuration with and without replaceeverywhere, copy, +, segment markers, names with
digits, numbered siblings, user functions, waituntil) and then every blueprint it left behind is described, queried,
forged through an element of its own (with and without time axis), put into a sequence and forged / output there.
Edit history x forging x markers x output in one program; everything is compared with the models."""
from core import enc
import props.c05 as c05


def program(g, ci):
    r = g.r
    ops = [dict(o) for o in c05.case(g, "quick", ci)]
    bids = []
    for o in ops:
        for k in ("id", "to"):
            v = o.get(k)
            if isinstance(v, str) and o["op"].startswith("bp.") and v not in bids:
                bids.append(v)
    # every time in C05's histories is a multiple of 1/4: at 100 Sa/s (or 400) all segment starts and window edges are
    # whole samples, so no "nearest sample" or rounding tie can arise from the edit history
    sr = enc(r.choice([100, 400, 100.0]))
    for i, b in enumerate(bids[:4]):
        e, s = f"ue{i}", f"us{i}"
        ops.append({"op": "bp.setSR", "id": b, "SR": sr})
        ops += [{"op": "bp.desc", "id": b}, {"op": "bp.points", "id": b}, {"op": "bp.duration", "id": b},
                {"op": "el.new", "id": e}, {"op": "el.addBP", "id": e, "ch": r.choice([1, "A"]), "bp": b},
                {"op": "el.getArrays", "id": e, "time": True}, {"op": "el.getArrays", "id": e, "time": False},
                {"op": "el.points", "id": e}, {"op": "el.duration", "id": e}, {"op": "el.SR", "id": e}, {"op": "el.desc", "id": e},
                {"op": "el.copy", "id": e, "to": e + "c"}, {"op": "el.eq", "a": e, "b": e + "c"},
                # the description read back: same description, same forged arrays once at the same rate
                {"op": "bp.json", "id": b, "to": b + "j"}, {"op": "bp.setSR", "id": b + "j", "SR": sr}, {"op": "bp.desc", "id": b + "j"},
                {"op": "el.new", "id": e + "j"}, {"op": "el.addBP", "id": e + "j", "ch": 1, "bp": b + "j"},
                {"op": "el.getArrays", "id": e + "j", "time": False},
                {"op": "sq.new", "id": s}, {"op": "sq.setSR", "id": s, "v": sr}, {"op": "sq.addElement", "id": s, "pos": 1, "el": e},
                {"op": "sq.forge", "id": s, "delays": True, "filters": True, "time": r.random() < 0.5}, {"op": "sq.desc", "id": s}]
    names = sorted({o[k] for o in ops for k in ("id", "to") if isinstance(o.get(k), str)})
    ops.append({"op": "heap.summary", "vars": names})
    return ops
