"""C11 — declared filter compensation = ripasso inverse filter on the forged waveform."""
import numpy as np

from core import enc, q, dec_val
from gen import SeqGen

ID = "C11"
HEAP_SUMMARY = True      # end every program with the reference-level observation (BB.Model.Heap vs id() walk)
UNIVERSAL_EVERY = 6      # every n-th case is a feature-rich random program (props/universal.py)
LEAN_MODULE = "BB.Properties.C11"
QUICK_N = 200
THOROUGH_N = 2500
TOL = 1e-7     # relative to max|wfm|: the filter is evaluated by the same ripasso function on the model's input
RULE = ("consistent sequences of 1-3 positions (20% subsequences), 1-3 channels (int/str, permuted per element), blueprint and "
        "raw channels, 0-2 filtered channels with kind in {HP,LP} x order in {-2,-1,1,2,3} x (f_cut | tau), f_cut in "
        "SR*{1e-3..0.4}, plus arbitrary whole-sample delays; amplitude large so that range checks do not interfere; observed: "
        "forge(apply_filters=True) and (=False), outputForSEQXFile, outputForAWGFile (model rescale undone), invalid "
        "specifications (kind 'BP', order 1.0, tau and f_cut) rejected by class; direct check: unfiltered channels and all "
        "markers are bit-identical with filters on and off; non-trivial = some channel filtered")


def case(g, tier, ci):
    r = g.r
    sg = SeqGen(g)
    SR = r.choice([100, 10, 1e3, 1e6, 1e9, 1.2e9, 2.4e9, 3e9])
    seqx = r.random() < 0.1
    ops, info = sg.sequence("s", npos=(1, 3), nch=(1, 3), SR=SR, N=(r.randint(2400, 2410) if seqx else None), raw_p=0.3,
                            kinds=("ramp", "sine") if not seqx else ("ramp",), flags_p=0.1, delays_p=0.4, filters_p=0.6,
                            sub_p=0.0 if seqx else 0.2, waits=0.2, amp=1e6, seq_p=0.1,
                            seq_sr_factor=r.choice([1, 1, 1, 1, 1, 1, 2, 10]))      # the filter runs at the sequence's own rate
    # delays: keep front/back padding 0 or >= 2 samples (use even sample counts)
    for o in ops:
        if o["op"] == "sq.setDelay":
            o["v"] = enc(r.choice([0, 2, 4, 6]) / SR)
    ch0 = info["chans"][0]
    if ci % 3 == 0:
        ops.append({"op": "sq.setFilter", "id": "s", "ch": ch0, **r.choice([
            {"kind": r.choice(["BP", "hp", "Lp", "", "HPF", " LP"]), "order": 1, "orderIsInt": True, "f_cut": enc(SR / 10), "tau": None},
            {"kind": "HP", "order": 1, "orderIsInt": False, "f_cut": enc(SR / 10), "tau": None},
            {"kind": "LP", "order": 2, "orderIsInt": True, "f_cut": enc(SR / 10), "tau": enc(10 / SR)}]), "_errclass": True})
    ops += [{"op": "sq.forge", "id": "s", "delays": True, "filters": True, "time": False, "_on": True},
            {"op": "sq.forge", "id": "s", "delays": True, "filters": False, "time": False, "_off": True},
            {"op": "sq.forge", "id": "s", "delays": False, "filters": True, "time": r.random() < 0.3}, {"op": "sq.desc", "id": "s"}]
    if not info["subs"]:
        if ci % 4 == 2:
            # an output call that is refused (too many repetitions for the AWG70000A), then the setting is repaired and a
            # compensation (re)declared: the next packages are made from the sequence as it is now
            ops += [{"op": "sq.setSeq", "id": "s", "pos": 1, "field": "nrep", "v": 20000},
                    {"op": "sq.seqx", "id": "s", "flags": True}, {"op": "sq.setSeq", "id": "s", "pos": 1, "field": "nrep", "v": 2},
                    {"op": "sq.setFilter", "id": "s", "ch": ch0, "kind": r.choice(["HP", "LP"]), "order": 1, "orderIsInt": True,
                     "f_cut": enc(SR * r.choice([0.05, 0.2])), "tau": None},
                    {"op": "sq.forge", "id": "s", "delays": True, "filters": True, "time": False}]
        ops += [{"op": "sq.awg", "id": "s"}, {"op": "sq.seqx", "id": "s"}]
        if ci % 4 == 2:
            ops.append({"op": "sq.seqx", "id": "s", "flags": True})
    return ops


def post_check(ops, ri, rm):
    on_at = next((i for i, o in enumerate(ops) if o.get("_on")), len(ops))
    filtered = {str(o["ch"]) for o, r in list(zip(ops, ri))[:on_at] if o["op"] == "sq.setFilter" and "ok" in r}
    on = next((r for o, r in zip(ops, ri) if o.get("_on")), None)
    off = next((r for o, r in zip(ops, ri) if o.get("_off")), None)
    if on is None or off is None or "err" in on or "err" in off:
        return None
    on, off = on["ok"]["forged"], off["ok"]["forged"]
    for pos in off:
        for p2 in off[pos]["content"]:
            a, b = off[pos]["content"][p2]["data"], on[pos]["content"][p2]["data"]
            for ch in a:
                for name in a[ch]:
                    if name == "wfm" and str(ch) in filtered:
                        continue
                    if not np.array_equal(np.asarray(a[ch][name]), np.asarray(b[ch][name])):
                        return f"position {pos}.{p2} channel {ch!r} array {name} differs between filters on and off"
    # independent reference: the documented inverse RC filter (transfer function H^-order on the fft grid,
    # H(0) = 1) evaluated here with numpy on the unfiltered delayed waveform -- does not call broadbean.ripasso
    spec = {}
    seq_sr = None
    for o, r in zip(ops, ri):
        if o.get("_on"):
            break           # (what is declared after the observed forge does not count)
        if o["op"] == "sq.setFilter" and o.get("id") == "s" and "ok" in r:
            fc = float(dec_val(o["f_cut"])) if o.get("f_cut") is not None else 1 / float(dec_val(o["tau"]))
            spec[str(o["ch"])] = (o["kind"], int(o["order"]), fc)
        if o["op"] == "sq.setSR" and o.get("id") == "s" and "ok" in r:
            seq_sr = float(dec_val(o["v"]))
    if seq_sr is None:
        return None
    for pos in off:
        for p2 in off[pos]["content"]:
            a, b = off[pos]["content"][p2]["data"], on[pos]["content"][p2]["data"]
            for ch in a:
                if str(ch) not in spec or "wfm" not in a[ch]:
                    continue
                kind, order, fc = spec[str(ch)]
                x = np.asarray(a[ch]["wfm"], dtype=float)
                y = np.asarray(b[ch]["wfm"], dtype=float)
                N = len(x)
                f = np.fft.fftfreq(N, 1 / seq_sr)
                w = 2j * np.pi * f / fc
                h = w / (1 + w) if kind == "HP" else 1 / (1 + w)
                if kind == "HP":
                    h[0] = 1.0
                with np.errstate(all="ignore"):
                    H = h ** (-order)
                if not np.all(np.isfinite(H)):
                    continue
                ref = np.fft.ifft(np.fft.fft(x) * H).real
                scale = max(1e-300, float(np.max(np.abs(ref))), float(np.max(np.abs(x))))
                gain = max(1.0, float(np.max(np.abs(H))))
                if y.shape != ref.shape or float(np.max(np.abs(y - ref))) > 1e-9 * gain * N * scale:
                    return (f"C11-ref: position {pos}.{p2} channel {ch!r}: delivered waveform differs from the documented inverse "
                            f"{kind} filter of order {order}, f_cut {fc}, DC gain 1 at SR {seq_sr} by {float(np.max(np.abs(y - ref))):.3e}")
    return None


def nontrivial(ops, ri):
    return any(o["op"] == "sq.setFilter" and "ok" in r for o, r in zip(ops, ri))
