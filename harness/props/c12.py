"""C12 — ripasso filters multiply every DFT bin by the stated transfer function."""
import numpy as np

from core import ripasso
from props.c02 import bits, unbits
from props import c11 as _c11

ID = "C12"
LEAN_MODULE = "BB.Properties.C12"
QUICK_N = 20
THOROUGH_N = 200
LEVEL_NOTE = ("partial w.r.t. floating point: bin-by-bin multiplication, Hermitian grid, linearity and the custom-axis assembly "
              "are proved in exact arithmetic over the complex numbers (Mathlib ZMod.dft) for the kernels regenerated from "
              "_rcFilter; accuracy of numpy's FFT and of float evaluation is measured (rtol 1e-9 * gain). Trusted: Lean kernel + "
              "propext/Classical.choice/Quot.sound, Mathlib, py2lean, the correspondence harness, fft = DFT")
TECHNIQUE = ("Lean 4 proof (Mathlib discrete Fourier transform) about kernels regenerated from the source + numeric "
             "correspondence of the implementation with the documented transfer functions and with an executable Float model")
TOL = 1e-9
RULE = ("every N in 2..33 (thorough ..129) x kinds HP/LP x orders 1..3 x cut-offs {1e-4, 1e-2, 0.12, 0.5, 3}*SR x SR in "
        "{1, 100, 1e4, 1e9} x DC gains {0.5, 1, 2}, sampled: on all N unit impulses fft(out)[k] / fft(in)[k] against the "
        "documented H(f_k)^(+-order) for every bin 2k != N (DC gain at k = 0), output real and of length N; linearity on random "
        "signals; the same calls on the executable Float model (lean/BB/Model/Ripasso.lean, naive DFT); "
        "applyCustomTransferFunction on strictly increasing axes (3-40 knots, first knot 0 or > 0, last = SR/2 or beyond) "
        "against np.interp at |f| (divide with invert=True), odd and even N; rejected axes (equal knots, decreasing, short) by "
        "class; op programs: sequences with filter compensations (as C11); evaluations = direct calls + op programs")
case = _c11.case
nontrivial = getattr(_c11, "nontrivial", lambda ops, ri: True)
post_check = getattr(_c11, "post_check", None)
ERRCLASS = False


def H_doc(kind, SR, fc, order, dc, N):
    """the documented transfer function on the fftfreq grid"""
    f = np.fft.fftfreq(N, 1 / SR)
    w = 2j * np.pi * f / fc
    if kind == "HP":
        h = w / (1 + w)
        h[0] = dc
    else:
        h = 1 / (1 + w)
    with np.errstate(divide="ignore", invalid="ignore"):
        return h ** order


def bins_check(fn, label, x, H, N):
    try:
        y = fn(x)
    except Exception as e:  # noqa: BLE001 -- the filter itself raised on a legal call
        return f"{label}: raised {type(e).__name__}: {e}"
    if not isinstance(y, np.ndarray) or y.shape != (N,):
        return f"{label}: output shape {getattr(y, 'shape', None)} for input length {N}"
    if np.iscomplexobj(y):
        return f"{label}: output is complex"
    X, Y = np.fft.fft(x), np.fft.fft(y)
    scale = max(1.0, float(np.max(np.abs(H[np.isfinite(H)])))) * max(1.0, float(np.max(np.abs(X))))
    for k in range(N):
        if 2 * k == N or not np.isfinite(H[k]):
            continue
        if abs(Y[k] - X[k] * H[k]) > TOL * scale * max(1, N):
            return f"{label}: bin {k} of the output is {Y[k]!r}, input bin x H = {X[k] * H[k]!r} (N={N})"
    return None


def model_check(model, label, spec, x, y_impl, gain):
    r = model.run([{"op": "rip.apply", **spec, "signal": [bits(v) for v in x]}])[0]
    if "ok" not in r:
        return f"{label}: the model raised {r.get('err')}, the implementation returned"
    ym = np.array([unbits(s) for s in r["ok"]])
    err = float(np.max(np.abs(ym - y_impl)))
    if err > 1e-8 * max(1.0, gain) * max(1.0, float(np.max(np.abs(x)))) * len(x):
        return f"{label}: implementation and executable model differ by {err:.3e}"
    return None


def custom_cases(r, tier):
    for _ in range(40 if tier == "quick" else 600):
        N = r.randint(2, 40 if tier == "quick" else 129)
        SR = r.choice([1, 100, 1e4, 1e9, 44100])
        K = r.randint(3, 40 if tier == "quick" else 500)
        # the axis starts at 0, above 0, or below 0 (two-sided axes are looked up at |f| like any other)
        k0 = r.random()
        first = 0.0 if k0 < 0.5 else (SR * r.uniform(0.001, 0.05) if k0 < 0.75 else -SR * r.uniform(0.05, 0.6))
        last = SR / 2 if r.random() < 0.5 else SR * r.uniform(0.5, 1.2)
        inner = sorted(r.uniform(first, last) for _ in range(K - 2))
        fr = np.array([first] + inner + [last])
        if np.any(np.diff(fr) < SR * 1e-3):
            fr = np.linspace(first, last, K)
        amp = np.array([r.uniform(0.2, 3) for _ in range(K)])
        invert = r.random() < 0.4
        if not invert and r.random() < 0.3:
            # gains of exactly 0 (a DC block, a brick wall above some knot): those components are removed
            if r.random() < 0.5:
                amp[0] = 0.0
            else:
                amp[K // 2:] = 0.0
        yield N, SR, fr, amp, invert


def direct(seed, tier, model, stats):
    import random
    r = random.Random(seed * 104729 + 12)
    fails = []
    tested = {"rc_impulse_sets": 0, "rc_bins": 0, "model_calls": 0, "linearity": 0, "custom": 0, "rejections": 0}
    Ns = list(range(2, 34)) if tier == "quick" else list(range(2, 130))
    for N in Ns:
        for _ in range(2 if tier == "quick" else 6):
            kind = r.choice(["HP", "LP"])
            order = r.choice([1, 2, 3, 1, 2, 3, -1, -2])      # a negative order is the opposite filter
            SR = r.choice([1, 100, 1e4, 1e9, 1.2e9, 3e9, 2.5, 12345.678, 0.75])      # (sample rates need not be whole numbers)
            fc = SR * r.choice([1e-4, 1e-2, 0.12, 0.5, 3])
            dc = r.choice([0.5, 1, 2])
            inverse = r.random() < 0.5
            positional = r.random() < 0.4         # the DC gain as the sixth positional argument / by keyword
            if r.random() < 0.3:
                order = r.choice([np.int64, np.int32, np.int16])(order)      # an order taken from an integer array
            if inverse:
                fn = (lambda x: ripasso.applyInverseRCFilter(x, SR, kind, fc, order, dc)) if positional else \
                     (lambda x: ripasso.applyInverseRCFilter(x, SR, kind, fc, order, DCgain=dc))
                H = H_doc(kind, SR, fc, -order, dc, N)
            else:
                fn = (lambda x: ripasso.applyRCFilter(x, SR, kind, fc, order, dc)) if positional else \
                     (lambda x: ripasso.applyRCFilter(x, SR, kind, fc, order, DCgain=dc))
                H = H_doc(kind, SR, fc, order, dc, N)
            label = (f"{'applyInverseRCFilter' if inverse else 'applyRCFilter'}(SR={SR}, kind={kind}, f_cut={fc}, order={order}, "
                     f"{'' if positional else 'DCgain='}{dc})")
            tested["rc_impulse_sets"] += 1
            d = None
            for j in range(N):
                x = np.zeros(N)
                x[j] = 1.0
                d = bins_check(fn, label + f" on impulse {j}", x, H, N)
                tested["rc_bins"] += N
                if d:
                    break
            gain = float(np.max(np.abs(H[np.isfinite(H)])))
            if d is None:
                # what a filter returns belongs to the caller: normalise it in place, the same call again is unaffected
                x = np.zeros(N)
                x[N // 2] = 1.0
                try:
                    y1 = fn(x.copy())
                    keep = np.array(y1, copy=True)
                    if isinstance(y1, np.ndarray) and y1.flags.writeable:
                        y1 -= 0.5
                        y1 *= 2.0
                    y2 = fn(x.copy())
                    if np.shape(y2) != np.shape(keep) or not np.array_equal(np.asarray(y2), keep):
                        d = f"{label}: the same call returns other values after the caller wrote into the array it got the first time"
                except Exception as e:  # noqa: BLE001
                    d = f"{label}: raised {type(e).__name__}: {e}"
            if d is None:
                # "for every real signal": also one whose samples are held as integers (array of ints, list, int16 counts)
                j = r.randrange(N)
                xi = np.zeros(N, dtype=np.int64)
                xi[j] = 1
                x16 = np.zeros(N, dtype=np.int16)
                x16[j], x16[(j + 1) % N] = 1000, -3
                for nm, xs in (("int64 impulse", xi), ("list of ints", [int(v) for v in xi]), ("int16 samples", x16)):
                    d = bins_check(fn, label + f" on an {nm}", xs, H, N)
                    tested["rc_bins"] += N
                    if d:
                        break
            if d is None and kind == "HP":
                # the same call again with another DC gain, and then the first one again (results must not
                # depend on what was computed before)
                for dc2 in (r.choice([0.25, 3.0]), dc):
                    H2 = H_doc(kind, SR, fc, -order if inverse else order, dc2, N)
                    if inverse:
                        fn2 = lambda x, dc2=dc2: ripasso.applyInverseRCFilter(x, SR, kind, fc, order, DCgain=dc2)
                    else:
                        fn2 = lambda x, dc2=dc2: ripasso.applyRCFilter(x, SR, kind, fc, order, DCgain=dc2)
                    x = np.ones(N) + np.arange(N) / N
                    d = bins_check(fn2, label + f" repeated with DCgain={dc2}", x, H2, N)
                    if d:
                        break
            if d is None and N <= 24 and gain < 1e6:
                x = np.zeros(N)
                x[r.randrange(N)] = 1.0
                d = model_check(model, label, {"kind": kind, "inverse": inverse, "SR": bits(SR), "fcut": bits(fc), "order": int(order), "dc": bits(dc)},
                                x, fn(x), gain)
                tested["model_calls"] += 1
            if d is None:
                x, y = np.array([r.uniform(-1, 1) for _ in range(N)]), np.array([r.uniform(-1, 1) for _ in range(N)])
                a, b = r.uniform(-2, 2), r.uniform(-2, 2)
                lhs, rhs = fn(a * x + b * y), a * fn(x) + b * fn(y)
                tested["linearity"] += 1
                if np.max(np.abs(lhs - rhs)) > 1e-8 * max(1.0, gain) * N:
                    d = f"{label}: not linear in the signal (max deviation {np.max(np.abs(lhs - rhs)):.3e})"
            if d:
                fails.append({"what": d, "call": label, "N": N})
                break
        if len(fails) >= 2:
            break
    # custom transfer functions
    for N, SR, fr, amp, invert in custom_cases(r, tier):
        if len(fails) >= 3:
            break
        fgrid = np.abs(np.fft.fftfreq(N, 1 / SR))
        T = np.interp(fgrid, fr, amp)
        with np.errstate(divide="ignore"):
            H = (1 / T) if invert else T
        if N % 3 == 0:
            fn = lambda x: ripasso.applyCustomTransferFunction(x, SR, fr, amp, invert)        # the flag as fifth positional argument
        else:
            fn = lambda x: ripasso.applyCustomTransferFunction(x, SR, fr, amp, invert=invert)
        label = f"applyCustomTransferFunction(N={N}, SR={SR}, {len(fr)} knots, {'' if N % 3 == 0 else 'invert='}{invert})"
        tested["custom"] += 1
        d = None
        try:
            for j in range(N):
                x = np.zeros(N)
                x[j] = 1.0
                d = bins_check(fn, label + f" on impulse {j}", x, H.astype(complex), N)
                if d:
                    break
            if d is None and N <= 24:
                d = bins_check(fn, label + " on a list of ints", [3 if j == 1 else 0 for j in range(N)], H.astype(complex), N)
            if d is None and N <= 24:
                x = np.array([r.uniform(-1, 1) for _ in range(N)])
                d = model_check(model, label, {"kind": "custom", "SR": bits(SR), "tf_freqs": [bits(v) for v in fr],
                                               "tf_amp": [bits(v) for v in amp], "invert": invert}, x, fn(x), float(np.max(np.abs(H))))
                tested["model_calls"] += 1
            if d is None:
                x, y = np.array([r.uniform(-1, 1) for _ in range(N)]), np.array([r.uniform(-1, 1) for _ in range(N)])
                lhs, rhs = fn(2 * x - 3 * y), 2 * fn(x) - 3 * fn(y)
                if np.max(np.abs(lhs - rhs)) > 1e-8 * float(np.max(np.abs(H))) * N:
                    d = f"{label}: not linear in the signal"
            if d is None:
                # history: an RC filter for the same (N, SR) right after the custom transfer function was used
                kind2 = r.choice(["HP", "LP"])
                x = np.array([r.uniform(-1, 1) for _ in range(N)])
                d = bins_check(lambda z: ripasso.applyRCFilter(z, SR, kind2, 0.12 * SR, 1, DCgain=1),
                               f"applyRCFilter({kind2}, order 1, f_cut {0.12 * SR}, N={N}, SR={SR}) after " + label, x,
                               H_doc(kind2, SR, 0.12 * SR, 1, 1, N), N)
        except Exception as e:  # noqa: BLE001
            d = f"{label}: raised {type(e).__name__}: {e}"
        if d:
            fails.append({"what": d, "call": label, "tf_freqs": fr.tolist(), "tf_amp": amp.tolist()})
    # rejected axes
    x = np.ones(8)
    # (each unusable axis is tried twice: a refused call must not make the next one pass)
    for fr, want in (([0, 1, 1, 5], ValueError), ([0, 1, 1, 5], ValueError), ([0, 2, 1, 5], ValueError), ([0, 2, 1, 5], ValueError),
                     ([0, 1, 2, 3], ripasso.MissingFrequenciesError), ([0, 1, 2, 3], ripasso.MissingFrequenciesError),
                     ([0, 1, 2, 4.999], ripasso.MissingFrequenciesError), ([0, 1, 2, 4.999], ripasso.MissingFrequenciesError),
                     # the offending step lies beyond Nyquist (5 Hz): still not strictly increasing (seeded C12-m18)
                     ([0, 2, 6, 5.5], ValueError), ([0, 2, 5, 5], ValueError), ([0, 5, 1, 7], ValueError), ([0, 6, 5], ValueError)):
        tested["rejections"] += 1
        try:
            ripasso.applyCustomTransferFunction(x, 10, np.array(fr, float), np.ones(len(fr)))
            fails.append({"what": f"applyCustomTransferFunction accepted the frequency axis {fr} at SR=10 ({want.__name__} expected)",
                          "call": "applyCustomTransferFunction"})
        except want:
            pass
        except Exception as e:  # noqa: BLE001
            fails.append({"what": f"applyCustomTransferFunction raised {type(e).__name__} for the axis {fr}, {want.__name__} expected",
                          "call": "applyCustomTransferFunction"})
    # Nyquist is SR/2 also when that is not a whole number
    for SRx, fr in ((5, [0, 1, 2.4975]), (5, [0, 1, 2]), (1, [0, 0.25, 0.4999]), (2.5, [0, 1, 1.2]), (7, [0, 3, 3.4]), (5, [0, 1, 2]), (7, [0, 3, 3.4])):
        tested["rejections"] += 1
        try:
            ripasso.applyCustomTransferFunction(np.ones(6), SRx, np.array(fr, float), np.ones(len(fr)))
            fails.append({"what": f"applyCustomTransferFunction accepted the frequency axis {fr} at SR={SRx}, which stops short of Nyquist "
                                  f"{SRx / 2} (MissingFrequenciesError expected)", "call": "applyCustomTransferFunction"})
        except ripasso.MissingFrequenciesError:
            pass
        except Exception as e:  # noqa: BLE001
            fails.append({"what": f"applyCustomTransferFunction raised {type(e).__name__} for the axis {fr} at SR={SRx}, MissingFrequenciesError expected",
                          "call": "applyCustomTransferFunction"})
    for SRx, fr in ((5, [0, 1, 2.5]), (1, [0, 0.5]), (2.5, [0, 1.25]), (7, [0, 2, 3.5, 9])):
        tested["rejections"] += 1
        try:
            ripasso.applyCustomTransferFunction(np.ones(6), SRx, np.array(fr, float), np.ones(len(fr)))
        except Exception as e:  # noqa: BLE001
            fails.append({"what": f"applyCustomTransferFunction rejected the valid axis {fr} at SR={SRx}: {type(e).__name__}",
                          "call": "applyCustomTransferFunction"})
    for fr in ([0, 1, 2, 5], [0.5, 2, 5], [0, 5], [0, 2.5, 7]):
        tested["rejections"] += 1
        try:
            ripasso.applyCustomTransferFunction(x, 10, np.array(fr, float), np.ones(len(fr)))
        except Exception as e:  # noqa: BLE001
            fails.append({"what": f"applyCustomTransferFunction rejected the valid axis {fr} at SR=10: {type(e).__name__}",
                          "call": "applyCustomTransferFunction"})
    n = sum(tested.values())
    stats["cases"] += tested["rc_impulse_sets"] + tested["custom"] + tested["rejections"]
    stats["nontrivial"] += tested["rc_impulse_sets"] + tested["custom"]
    stats["extra"] = {"direct": tested}
    return fails
