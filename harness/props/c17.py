"""C17 — parameter sweeps change exactly the addressed values, step by step."""
import copy
from fractions import Fraction

from core import enc, q, J_equal, user_fn_spec
from gen import SeqGen
from props.c20 import seg_table, FN_PARAMS

ID = "C17"
HEAP_SUMMARY = True      # end every program with the reference-level observation (BB.Model.Heap vs id() walk)
UNIVERSAL_EVERY = 8      # every n-th case is a feature-rich random program (props/universal.py)
LEAN_MODULE = "BB.Properties.C17"
QUICK_N = 300
THOROUGH_N = 3000
ERRCLASS = False
RULE = ("base elements of 1-3 channels (2-4 sample-aligned segments: ramp, sine, one- and two-argument user functions), "
        "N = 1-3 simultaneous variations (same or different channels/segments; argument by name or by position; 'duration' swept "
        "on all channels alike), M = 1-5 steps; makeVaryingSequence, makeLinearlyVaryingSequence (whole and fractional step "
        "counts, start > stop, a single step) and repeatAndVarySequence on sequences of 1-3 positions with sequencing, delays "
        "and filters; 15% with mismatched list lengths / value counts; observed on the implementation: the description of "
        "every position of the result against the base description with exactly the addressed values replaced, the number of "
        "positions, SR / AWG settings, retargeted sequencing per repetition, input description unchanged, ValueError by class; "
        "everything also compared with the model (description and forged arrays of the result); non-trivial = a returned sequence")


def base_element(g, eid, SR, chans, N):
    """element whose channels have named, sample-aligned segments; returns (ops, {ch: [(name, fnkey, count)]})"""
    r = g.r
    ops = [{"op": "el.new", "id": eid}]
    table = {}
    for ch in chans:
        bid = g.fresh("b")
        k = r.randint(2, 4)
        k = max(1, min(k, N // 2))
        cuts = sorted(r.sample(range(1, N // 2), k - 1)) if k > 1 else []
        counts = [2 * (b - a) for a, b in zip([0] + cuts, cuts + [N // 2])]
        counts[-1] += N - sum(counts)
        bops = [{"op": "bp.new", "id": bid}]
        for n in counts:
            fk = r.choice(["ramp", "ramp", "sine", "const", "lin2", "lin2~"])     # lin2~: another function that is also called lin2
            if fk == "ramp":
                fn, args = "ramp", [g.fnum(), g.fnum()]
            elif fk == "sine":
                fn, args = "sine", [r.uniform(0, SR / 2), g.fnum(), g.fnum(-1, 1), 0.0]
            else:
                fn, args = user_fn_spec(fk), [g.fnum() for _ in FN_PARAMS[fk]]
            nm = r.choice([None, "a", "b", "pi2pulse"])
            bops.append({"op": "bp.insert", "id": bid, "pos": -1, "fn": fn, "args": [enc(a) for a in args], "dur": enc(n / SR), "name": enc(nm)})
        bops.append({"op": "bp.setSR", "id": bid, "SR": enc(SR)})
        tbl = [(n, f, c) for (n, f), c in zip(seg_table(bops), counts)]
        for nm, _, c in tbl:
            if r.random() < 0.4:
                # a window bound to the segment (a swept duration may become shorter than the window: the window is kept)
                bops.append({"op": "bp.setSegMarker", "id": bid, "name": nm, "specs": [q(r.choice([0, 1]) / SR), q(r.randint(1, max(1, c)) / SR)],
                             "mid": r.choice([1, 2])})
        ops += bops + [{"op": "el.addBP", "id": eid, "ch": ch, "bp": bid}]
        table[ch] = tbl
    return ops, table


def variations(g, table, chans, SR, M):
    r = g.r
    vs = []
    if r.random() < 0.25:
        # duration of the first segment, on all channels alike
        if r.random() < 0.3:
            n = r.sample(range(2, 30), M)      # the same new duration everywhere: valid only if the first segments were alike
            if r.random() < 0.5:
                # a value between one and a half and two sample periods: forged as two points, a valid element (seeded C17-m18)
                n[r.randrange(M)] = r.choice([1.75, 1.6, 1.875])
            for ch in chans:
                vs.append({"chan": ch, "name": table[ch][0][0], "arg": enc("duration"), "vals": [enc(x / SR) for x in n]})
        else:
            # every channel's first segment grows by the same number of samples: valid as a whole, invalid after
            # any single channel's change
            delta = r.sample(range(0, 20), M)
            # (the swept durations need not be whole samples: the stored value is the one that was given)
            frac = [r.choice([0, 0, 0.25, -0.3, 0.125]) for _ in delta]
            for ch in chans:
                vs.append({"chan": ch, "name": table[ch][0][0], "arg": enc("duration"),
                           "vals": [enc((table[ch][0][2] + x + f) / SR) for x, f in zip(delta, frac)]})
        return vs
    for _ in range(r.randint(1, 3)):
        ch = r.choice(chans)
        nm, fk, _ = r.choice(table[ch])
        params = FN_PARAMS[fk]
        i = r.randrange(len(params))
        arg = params[i] if r.random() < 0.5 else i
        vals = [g.fnum() for _ in range(M)]
        if fk == "sine" and i == 0:
            vals = [r.uniform(0, SR / 2) for _ in range(M)]
        vs.append({"chan": ch, "name": nm, "arg": enc(arg), "vals": [enc(x) for x in vals]})
    return vs


def case(g, tier, ci):
    r = g.r
    SR = r.choice([10, 100, 1e3, 2.5, 1e6])
    chans = r.sample([1, 2, 3, "A"], r.randint(1, 3))
    twins = ci % 9 == 5
    if twins:
        # 1 and "1" (2 and "2") as two channels of one element: a sweep addressed to one of them leaves the other alone.  A
        # description keys channels by their printed ids (one entry for the pair in Python, two in the model): such cases are
        # judged by what is forged, descriptions are not compared
        first = r.choice([1, 2])
        chans = r.sample([first, str(first)], 2) + ([3] if r.random() < 0.4 else [])
    if ci % 11 == 6:
        # a 'duration' sweep with values between one and a half and two sample periods (forged as two points: the element
        # stays valid) next to ordinary ones (seeded C17-m18: refused by a guard stricter than the forger)
        SR = r.choice([100, 10, 1e3])
        ops = [{"op": "bp.new", "id": "bs"},
               {"op": "bp.insert", "id": "bs", "pos": -1, "fn": "ramp", "args": [enc(0), enc(1)], "dur": enc(4 / SR), "name": enc("a")},
               {"op": "bp.insert", "id": "bs", "pos": -1, "fn": "ramp", "args": [enc(1), enc(0.5)], "dur": enc(r.randint(2, 9) / SR), "name": enc("b")},
               {"op": "bp.setSR", "id": "bs", "SR": enc(SR)}, {"op": "el.new", "id": "e"}, {"op": "el.addBP", "id": "e", "ch": 1, "bp": "bs"}]
        vals = [r.choice([1.75, 1.6, 1.875]), r.randint(2, 6), r.choice([1.75, 1.5625])]
        r.shuffle(vals)
        vs = [{"chan": 1, "name": "a", "arg": enc("duration"), "vals": [enc(x / SR) for x in vals]}]
        ops += [{"op": "el.desc", "id": "e", "_tag": "in0"},
                {"op": "tl.vary", "base": "e", "to": "s", "lens": [1, 1, 1, 1], "vars": vs, "_errclass": True, "_tag": "call"},
                {"op": "sq.desc", "id": "s", "_tag": "out"}, {"op": "sq.check", "id": "s"},
                {"op": "sq.forge", "id": "s", "delays": True, "filters": True, "time": False},
                {"op": "el.desc", "id": "e", "_tag": "in1"}]
        ops[0]["_vary"] = {"vars": vs, "M": 3, "SR": SR}
        return ops
    N = r.randint(8, 30)
    kind = r.choice(["vary", "vary", "lin", "rep", "rep"])
    ops, table = base_element(g, "e", SR, chans, N)
    if twins:
        ops[0] = {**ops[0], "_twins": True}
    if kind == "vary":
        M = r.randint(1, 5)
        vs = variations(g, table, chans, SR, M)
        lens = [len(vs)] * 4
        bad = r.random()
        if bad < 0.08:
            lens[r.randrange(4)] += 1
        elif bad < 0.15 and len(vs) > 1:
            vs[-1]["vals"] = vs[-1]["vals"][:-1] + ([] if M > 1 else [enc(0.5), enc(0.25)])
        ops += [{"op": "el.desc", "id": "e", "_tag": "in0"},
                {"op": "tl.vary", "base": "e", "to": "s", "lens": lens, "vars": vs, "_errclass": True, "_tag": "call"},
                {"op": "sq.desc", "id": "s", "_tag": "out"}, {"op": "sq.check", "id": "s"},
                {"op": "sq.forge", "id": "s", "delays": True, "filters": True, "time": False},
                {"op": "el.desc", "id": "e", "_tag": "in1"}]
        ops[0]["_vary"] = {"vars": vs, "M": M, "SR": SR}
        return ops
    if kind == "lin":
        ch = r.choice(chans)
        nm, fk, _ = r.choice(table[ch])
        params = FN_PARAMS[fk]
        i = r.randrange(len(params))
        arg = params[i] if r.random() < 0.5 else i
        k = r.randint(0, 6)
        step = r.choice([0.25, 0.5, 0.1, 1, 0.3])
        start = r.choice([0, -1, 0.5, 0.2])
        f = r.choice([0, 0, 0.3, -0.3])
        stop = start + r.choice([1, -1]) * (k + f) * step
        if fk == "sine" and i == 0:
            start, step = 0, SR / 40
            stop = (k + f) * step
        qs = q
        if not (fk == "sine" and i == 0) and r.random() < 0.3:
            # start, stop and step all Python ints, the step not dividing the span: still round(|stop-start|/step)+1
            # equidistant values from start to stop inclusive (0, 5, 10 for 0..10 step 4)
            start, stop, step = r.choice([(0, 10, 4), (0, 10, 6), (1, 6, 2), (10, 0, 4), (-3, 4, 2), (0, 7, 3), (2, 2, 1), (0, 6, 3)])
            qs = int
        ops += [{"op": "el.desc", "id": "e", "_tag": "in0"},
                {"op": "tl.linvary", "base": "e", "to": "s", "ch": ch, "name": nm, "arg": enc(arg), "start": qs(start), "stop": qs(stop),
                 "step": qs(step), "_tag": "call"},
                {"op": "sq.desc", "id": "s", "_tag": "out", "_numtol": "1/1000000000"}, {"op": "sq.check", "id": "s"},
                {"op": "sq.forge", "id": "s", "delays": True, "filters": True, "time": False},
                {"op": "el.desc", "id": "e", "_tag": "in1"}]
        ops[0]["_lin"] = {"ch": ch, "name": nm, "arg": arg, "start": start, "stop": stop, "step": step, "k": k, "fk": fk}
        return ops
    # repeatAndVarySequence
    P = r.randint(1, 3)
    ops = [{"op": "sq.new", "id": "t"}, {"op": "sq.setSR", "id": "t", "v": enc(SR)}]
    tables = {}
    order = list(range(1, P + 1))
    if r.random() < 0.4:
        r.shuffle(order)          # positions filled out of ascending order
    for p in order:
        eo, tb = base_element(g, f"e{p}", SR, chans, N)
        ops += eo + [{"op": "sq.addElement", "id": "t", "pos": p, "el": f"e{p}"}]
        tables[p] = tb
    for p in range(1, P + 1):
        for fld in ("goto", "jump_target", "nrep"):
            if r.random() < 0.5:
                ops.append({"op": "sq.setSeq", "id": "t", "pos": p, "field": fld,
                            "v": r.choice([-1, 0, 1, P]) if fld == "jump_target" else r.randint(0, P)})
    for ch in chans:
        ops += [{"op": "sq.setAmp", "id": "t", "ch": ch, "v": 10}, {"op": "sq.setOff", "id": "t", "ch": ch, "v": 0}]
        if r.random() < 0.3:
            ops.append({"op": "sq.setDelay", "id": "t", "ch": ch, "v": enc(r.choice([2, 4]) / SR)})
        if r.random() < 0.3:
            ops.append({"op": "sq.setFilter", "id": "t", "ch": ch, "kind": "HP", "order": 1, "orderIsInt": True, "f_cut": enc(SR * 0.1), "tau": None})
    M = r.randint(1, 4)
    vs, poss = [], []
    for _ in range(r.randint(1, 3)):
        p = r.randint(1, P)
        v = variations(g, tables[p], chans, SR, M)
        if v[0]["arg"] == enc("duration"):
            continue
        vs.append(v[0])
        poss.append(p)
    if not vs:
        p = 1
        vs = [v for v in variations(g, tables[1], chans, SR, M) if v["arg"] != enc("duration")][:1] or \
             [{"chan": chans[0], "name": tables[1][chans[0]][0][0], "arg": 0, "vals": [enc(0.5)] * M}]
        poss = [1]
    lens = [len(vs)] * 5
    if r.random() < 0.1:
        lens[r.randrange(5)] += 1
    ops += [{"op": "sq.desc", "id": "t", "_tag": "in0"},
            {"op": "tl.repvary", "seq": "t", "to": "s", "lens": lens, "poss": poss, "vars": vs, "_errclass": True, "_tag": "call"},
            {"op": "sq.desc", "id": "s", "_tag": "out"}, {"op": "sq.check", "id": "s"},
            {"op": "sq.forge", "id": "s", "delays": True, "filters": True, "time": False},
            {"op": "sq.desc", "id": "t", "_tag": "in1"}]
    ops[0]["_rep"] = {"vars": vs, "poss": poss, "M": M, "P": P}
    return ops


# ---- expected descriptions (the property's own wording, computed from the input description)

def jd(j):
    return dict((k, v) for k, v in j["d"])


def set_in_channel(chan_desc, name, arg, val):
    """returns a copy of one channel's description with the addressed value replaced"""
    out = copy.deepcopy(chan_desc)
    for k, seg in out["d"]:
        if not k.startswith("segment"):
            continue
        sd = jd(seg)
        if sd["name"] == {"s": name}:
            for kv in seg["d"]:
                if arg == "duration" and kv[0] == "durations":
                    kv[1] = val
                elif arg != "duration" and kv[0] == "arguments":
                    items = kv[1]["d"]
                    if isinstance(arg, int):
                        items[arg][1] = val
                    else:
                        for it in items:
                            if it[0] == arg:
                                it[1] = val
            return out
    return None


def apply_vars(el_desc, vs, m):
    out = copy.deepcopy(el_desc)
    for v in vs:
        arg = v["arg"]["s"] if isinstance(v["arg"], dict) else v["arg"]
        for kv in out["d"]:
            if kv[0] == str(v["chan"]):
                new = set_in_channel(kv[1], v["name"], arg, to_Jval(v["vals"][m]))
                if new is None:
                    return None
                kv[1] = new
    return out


def to_Jval(pv):
    if isinstance(pv, int):
        return {"q": str(pv)}
    return pv


def post_check(ops, ri, rm):
    if ops and ops[0].get("_twins"):
        return None
    res = {o["_tag"]: r for o, r in zip(ops, ri) if o.get("_tag")}
    if "call" not in res or "in0" not in res or "err" in res["in0"]:
        return None
    d = J_equal(res["in0"]["ok"]["desc"], res["in1"]["ok"]["desc"], "desc") if "ok" in res.get("in1", {}) else "input cannot be described any more"
    if d:
        return f"the input was modified by the sweep tool: {d}"
    if "err" in res["call"]:
        return None       # rejections are compared with the model (class pinned)
    out = res["out"]["ok"]["desc"]
    outd = jd(out)
    npos = len(out["d"]) - 1
    base = res["in0"]["ok"]["desc"]
    meta = ops[0]
    if "_vary" in meta:
        vs, M = meta["_vary"]["vars"], meta["_vary"]["M"]
        if npos != M:
            return f"makeVaryingSequence returned {npos} positions for {M} steps"
        for m in range(M):
            want = apply_vars(base, vs, m)
            if want is None:
                return None
            got = jd(outd[str(m + 1)])["channels"]
            d = J_equal(got, want, f"position {m + 1}")
            if d:
                return f"makeVaryingSequence: element {m + 1} is not the base with exactly the addressed values replaced: {d}"
        sr = jd(outd["awgspecs"]).get("SR")
        if sr is None or Fraction(sr["q"]) != Fraction(*float(meta["_vary"]["SR"]).as_integer_ratio()):
            return "makeVaryingSequence: result is not at the base element's sample rate"
    if "_lin" in meta:
        L = meta["_lin"]
        x = abs(L["stop"] - L["start"]) / L["step"]
        if abs(x - round(x)) > 0.45:
            return None
        n = round(x) + 1
        if npos != n:
            return f"makeLinearlyVaryingSequence returned {npos} positions, round(|stop-start|/step)+1 = {n}"
        for i in range(n):
            val = L["start"] if n == 1 else L["start"] + i * (L["stop"] - L["start"]) / (n - 1)
            want = apply_vars(base, [{"chan": L["ch"], "name": L["name"], "arg": L["arg"] if isinstance(L["arg"], int) else {"s": L["arg"]},
                                      "vals": [None] * i + [{"q": q(val)}]}], i)
            if want is None:
                return None
            got = jd(outd[str(i + 1)])["channels"]
            d = J_equal(got, want, f"position {i + 1}")
            if d and "!=" in d:
                # values are compared to float tolerance
                chan = jd(got)[str(L["ch"])]
                gv = None
                for k, seg in chan["d"]:
                    if k.startswith("segment") and jd(seg)["name"] == {"s": L["name"]}:
                        items = jd(seg)["arguments"]["d"]
                        gv = items[L["arg"]][1] if isinstance(L["arg"], int) else dict((a, b) for a, b in items)[L["arg"]]
                if gv is None or abs(float(Fraction(gv["q"])) - val) > 1e-9 * max(1, abs(val)):
                    return f"makeLinearlyVaryingSequence: value at step {i} is {gv}, expected {val}"
                # everything else must be identical: replace and compare again
                want2 = apply_vars(base, [{"chan": L["ch"], "name": L["name"], "arg": L["arg"] if isinstance(L["arg"], int) else {"s": L["arg"]},
                                           "vals": [None] * i + [gv]}], i)
                d = J_equal(got, want2, f"position {i + 1}")
            if d:
                return f"makeLinearlyVaryingSequence: element {i + 1} differs from the base beyond the swept value: {d}"
    if "_rep" in meta:
        R = meta["_rep"]
        M, P = R["M"], R["P"]
        if npos != M * P:
            return f"repeatAndVarySequence returned {npos} positions, expected {M}*{P}"
        based = jd(base)
        if J_equal(jd(out)["awgspecs"], based["awgspecs"], "awgspecs", sort_keys=("awgspecs",)):
            return "repeatAndVarySequence: AWG settings differ from the input's"
        for m in range(M):
            for p in range(1, P + 1):
                src = jd(based[str(p)])
                want = src["channels"]
                vs_here = [v for v, pp in zip(R["vars"], R["poss"]) if pp == p]
                want = apply_vars(want, vs_here, m)
                if want is None:
                    return None
                got = jd(outd[str(m * P + p)])
                d = J_equal(got["channels"], want, f"step {m} position {p}")
                if d:
                    return f"repeatAndVarySequence: {d}"
                ws = copy.deepcopy(src["sequencing"])
                for kv in ws["d"]:
                    if kv[0] in ("Go to", "jump_target") and int(kv[1]["q"]) > 0:
                        kv[1] = {"q": str(int(kv[1]["q"]) + m * P)}
                d = J_equal(got["sequencing"], ws, f"step {m} position {p} sequencing")
                if d:
                    return f"repeatAndVarySequence: {d}"
    return None


_case_inner = case


def case(g, tier, ci):
    ops = _case_inner(g, tier, ci)
    per_el = {}
    for o in ops:
        if o["op"] in ("el.addBP", "el.addArray"):
            per_el.setdefault(o["id"], set()).add((type(o["ch"]).__name__, str(o["ch"])))
    if any(len({s for _, s in v}) < len(v) for v in per_el.values()):
        ops = [({**o, "_nocmp": True} if o["op"] in ("el.desc", "sq.desc") else o) for o in ops]
        ops[0] = {**ops[0], "_twins": True}
    return ops


def nontrivial(ops, ri):
    return any(o.get("_tag") == "call" and "ok" in r for o, r in zip(ops, ri))
