"""C09 — copies and stored/derived objects are independent of their source."""
import numpy as np

from core import enc, q, J_equal
from gen import SeqGen, arbify
from props.c20 import seg_table, FN_PARAMS, _same_arrays, argval

ID = "C09"
UNIVERSAL_EVERY = 6      # every n-th case is a feature-rich random program (props/universal.py)
LEAN_MODULE = "BB.Properties.C09"
QUICK_N = 110
THOROUGH_N = 2200
LEVEL_NOTE = ("proved in Lean: (values) a derived object equals its source at creation; (references, BB.Model.Heap) for every history of "
              "calls whose programs obey the checked ownership discipline, calls on other objects leave an object's whole observable "
              "tree unchanged (heap_separation, heap_independent, heap_derive_leaves_sources); every method program of the library obeys that "
              "discipline on every reachable state (Shaped invariant: heap_lib_call_nofault, heap_lib_history_nofault, "
              "heap_lib_independent without a no-fault hypothesis) and a copy unfolds to the same tree as its source "
              "(heap_deepCopy_correct, heap_bp/el/sqCopy_same). Decided by correspondence, not proved: "
              "that the method programs of BB.Model.Heap describe what the Python methods allocate, copy and write (same sharing "
              "between any two user-held objects as an id() walk of the real objects finds), and the refinement "
              "of the implementation by the value model over the derive x mutate matrix. Trusted: Lean kernel + propext/Quot.sound/"
              "Classical.choice, py2lean, the harness incl. its object walker; CPython's object model (deepcopy, list.copy, dict.copy) "
              "modelled not verified")
TECHNIQUE = ("Lean 4 proofs about a value model and about a reference-level ownership model (frame / separation invariant over all "
             "histories) + correspondence of both models with the implementation (results, and id()-level sharing)")
RULE = ("one chain of objects per case: blueprint b -> b.copy(), b + b2 -> element e (addBluePrint) -> e.copy() -> sequence s "
        "(addElement, addSubSequence) -> s.copy(), s + s2, makeVaryingSequence(e), makeLinearlyVaryingSequence(e), "
        "repeatAndVarySequence(s); then 4-9 public mutations, each on a randomly chosen object of the chain (source or "
        "derived): changeArg, changeDuration, insert/removeSegment, set/removeSegmentMarker, marker1/2 assignment and "
        ".append, setSR, addFlags, addBluePrint, five sequencing setters, amplitude, offset, delay, filter compensation, "
        "element(pos).changeArg; after the derivations and after every mutation the description of every object and the "
        "forged arrays of every element/sequence are snapshotted; observed on the implementation alone: a mutation changes "
        "no snapshot but the mutated object's; and every snapshot equals the value-semantics model's; "
        "after the derivations and after every mutation also the reference-level observation: which pairs of objects share "
        "mutable containers / nested filter dicts / arrays (id() walk of the real objects) equals what the ownership model "
        "BB.Model.Heap predicts, the model never faults, and only objects the model allows to change did change; "
        "non-trivial = at least 3 accepted mutations")
ERRCLASS = False


def snap(objs):
    ops = []
    for kind, oid in objs:
        if kind == "bp":
            ops.append({"op": "bp.desc", "id": oid, "_snap": oid})
        elif kind == "el":
            ops += [{"op": "el.desc", "id": oid, "_snap": oid}, {"op": "el.getArrays", "id": oid, "_snap": oid + "#arr"}]
        else:
            ops += [{"op": "sq.desc", "id": oid, "_snap": oid},
                    {"op": "sq.forge", "id": oid, "delays": True, "filters": False, "time": False, "_snap": oid + "#arr"}]
    return ops


def case(g, tier, ci):
    r = g.r
    sg = SeqGen(g)
    SR = r.choice([10, 100, 1e3, 2.5])
    N = r.randint(8, 20)
    # --- sources
    bops, info = g.blueprint("b", SR=SR, nseg=(2, 4), kinds=("ramp", "sine", "user"), waits=0.0, markers=True, total=N)
    arbify(r, bops)        # maybe one arb_func segment: its keyword dict is handed on by copy() / + / addBluePrint as it is
    segs = seg_table(bops)
    names = [n for n, _ in segs]
    ops = bops + g.seg_marker_ops("b", names, info)
    b2ops, _ = g.blueprint("b2", SR=SR, nseg=(1, 2), kinds=("ramp",), waits=0.0, markers=False, total=N)
    ops += b2ops
    ops += [{"op": "bp.copy", "id": "b", "to": "bc"}, {"op": "bp.add", "a": "b", "b": "b2", "to": "bs"}]
    ops += [{"op": "el.new", "id": "e"}, {"op": "el.addBP", "id": "e", "ch": 1, "bp": "b"}, {"op": "el.addBP", "id": "e", "ch": 2, "bp": "b2"}]
    if r.random() < 0.5:
        # flags, the explicit "no change everywhere" included
        ops.append({"op": "el.addFlags", "id": "e", "ch": 1, "flags": [[1, 0, 2, 0], [0, 0, 0, 0], ["", "", "", ""], [4, 3, 0, 1]][N % 4]})
    ops.append({"op": "el.copy", "id": "e", "to": "ec"})
    ops += [{"op": "sq.new", "id": "s"}, {"op": "sq.setSR", "id": "s", "v": enc(SR)}]
    have_sub = r.random() < 0.5
    first = [{"op": "sq.addElement", "id": "s", "pos": 1, "el": "e"}]
    if have_sub:
        second = [{"op": "sq.new", "id": "u"}, {"op": "sq.setSR", "id": "u", "v": enc(SR)}, {"op": "sq.addElement", "id": "u", "pos": 1, "el": "ec"},
                  {"op": "sq.addSub", "id": "s", "pos": 2, "sub": "u"}]
    else:
        second = [{"op": "sq.addElement", "id": "s", "pos": 2, "el": "ec"}]
    # positions filled in ascending order, or position 2 before position 1
    ops += (second + first) if N % 5 < 2 else (first + second)
    for ch in (1, 2):
        ops += [{"op": "sq.setAmp", "id": "s", "ch": ch, "v": 20}, {"op": "sq.setOff", "id": "s", "ch": ch, "v": 0}]
    settings = []
    if r.random() < 0.5:
        settings.append({"op": "sq.setDelay", "ch": 1, "v": enc(2 / SR)})
    if r.random() < 0.6:
        # a filter compensation declared BEFORE copying/adding: the nested setting must not be shared
        settings.append({"op": "sq.setFilter", "ch": r.choice([1, 2]), "kind": r.choice(["HP", "LP"]), "order": r.choice([1, 2]), "orderIsInt": True,
                         **(r.choice([{"f_cut": enc(SR * 0.1), "tau": None}, {"f_cut": None, "tau": enc(10 / SR)}]))})
    ops += [{**st, "id": "s"} for st in settings]
    # an empty sequence carrying the same settings (the `total = Sequence(); total = total + part` idiom)
    ops += [{"op": "sq.new", "id": "s0"}, {"op": "sq.setSR", "id": "s0", "v": enc(SR)}]
    for ch in (1, 2):
        ops += [{"op": "sq.setAmp", "id": "s0", "ch": ch, "v": 20}, {"op": "sq.setOff", "id": "s0", "ch": ch, "v": 0}]
    ops += [{**st, "id": "s0"} for st in settings]
    ops += [{"op": "sq.copy", "id": "s", "to": "sc"}, {"op": "sq.add", "a": "s", "b": "sc", "to": "ss"},
            {"op": "sq.add", "a": "s0", "b": "s", "to": "es"}]
    # a piece that has only its sample rate set: `+` refuses it on either side (different AWG settings) and
    # leaves both operands as they were (seeded C09-m10: only contradicting settings refused)
    ops += [{"op": "sq.new", "id": "sb"}, {"op": "sq.setSR", "id": "sb", "v": enc(SR)}, {"op": "sq.addElement", "id": "sb", "pos": 1, "el": "ec"},
            {"op": "sq.add", "a": "s", "b": "sb", "to": "xb"}, {"op": "sq.add", "a": "sb", "b": "s", "to": "bx"}]
    objs = [("bp", "b"), ("bp", "b2"), ("bp", "bc"), ("bp", "bs"), ("el", "e"), ("el", "ec"), ("sq", "s"), ("sq", "sc"), ("sq", "ss"),
            ("sq", "es")]
    if have_sub:
        objs.append(("sq", "u"))
    real = [(n, f) for n, f in segs if f != "waituntil"]
    n0, f0 = real[0]
    tool = r.random()
    if tool < 0.35:
        ops.append({"op": "tl.vary", "base": "e", "to": "tv", "lens": [1, 1, 1, 1],
                    "vars": [{"chan": 1, "name": n0, "arg": enc(FN_PARAMS[f0][0]), "vals": [enc(0.25), enc(0.5)]}]})
        objs.append(("sq", "tv"))
    elif tool < 0.6:
        ops.append({"op": "tl.linvary", "base": "e", "to": "tv", "ch": 1, "name": n0, "arg": 0, "start": q(0), "stop": q(1), "step": q(0.5)})
        objs.append(("sq", "tv"))
    elif tool < 0.85 and not have_sub:
        zero_steps = N % 4 == 0       # a sweep over zero values: the (empty) result must still be independent of `s`
        ops.append({"op": "tl.repvary", "seq": "s", "to": "tv", "lens": [1, 1, 1, 1, 1], "poss": [1],
                    "vars": [{"chan": 1, "name": n0, "arg": 0, "vals": [] if zero_steps else [enc(0.25), enc(0.5)]}]})
        objs.append(("sq", "tv"))
        forced = [{"op": "sq.setAmp", "id": "tv", "ch": 1, "v": enc(7.5)}, {"op": "sq.setSR", "id": "tv", "v": enc(SR * 4)}] if zero_steps else []
    forced = locals().get("forced", [])
    watch = list(objs)
    if N % 3 == 0:
        # a waituntil inserted under a user-chosen name: copy() / addBluePrint store it under the protected
        # name the original already has (D8) -- watched, never mutated
        ops += [{"op": "bp.new", "id": "bw"},
                {"op": "bp.insert", "id": "bw", "pos": -1, "fn": "ramp", "args": [enc(0.5), enc(-0.5)], "dur": enc(3 / SR), "name": enc("up")},
                {"op": "bp.insert", "id": "bw", "pos": -1, "fn": "waituntil", "args": [enc(6 / SR)], "dur": None, "name": enc("mywait")},
                {"op": "bp.insert", "id": "bw", "pos": -1, "fn": "ramp", "args": [enc(0.25), enc(0)], "dur": enc((N - 6) / SR), "name": enc("down")},
                {"op": "bp.setSR", "id": "bw", "SR": enc(SR)}, {"op": "bp.copy", "id": "bw", "to": "bwc"},
                {"op": "el.new", "id": "ew"}, {"op": "el.addBP", "id": "ew", "ch": 1, "bp": "bw"}]
        watch += [("bp", "bw"), ("bp", "bwc"), ("el", "ew")]
    ops += [{**o, "_step": 0} for o in snap(watch)]
    # --- mutations
    step = 0
    for _ in range(r.randint(4, 9)):
        step += 1
        kind, oid = r.choice(objs)
        m = None
        if kind == "bp":
            nm, fk = r.choice(real)
            k = r.choice(["arg", "dur", "insert", "remove", "segmark", "rmsegmark", "assign", "append", "SR"])
            if k == "arg":
                m = {"op": "bp.changeArg", "id": oid, "name": nm, **argval(r, fk)}
            elif k == "dur":
                m = {"op": "bp.changeDur", "id": oid, "name": nm, "dur": enc(r.choice([3, 5, 7]) / SR)}
            elif k == "insert":
                m = {"op": "bp.insert", "id": oid, "pos": r.choice([-1, 0, 1]), "fn": "ramp", "args": [enc(0.5), enc(0.25)], "dur": enc(4 / SR), "name": enc("zq")}
            elif k == "remove":
                m = {"op": "bp.remove", "id": oid, "name": r.choice(names + ["zq"])}
            elif k == "segmark":
                m = {"op": "bp.setSegMarker", "id": oid, "name": nm, "specs": [q(0), q(r.choice([1, 2]) / SR)], "mid": r.choice([1, 2])}
            elif k == "rmsegmark":
                m = {"op": "bp.removeSegMarker", "id": oid, "name": nm, "mid": r.choice([1, 2])}
            elif k == "assign":
                m = {"op": "bp.setMarker", "id": oid, "which": r.choice([1, 2]), "list": [[q(0), q(r.choice([1, 2, 3]) / SR)]]}
            elif k == "append":
                m = {"op": "bp.appendMarker", "id": oid, "which": r.choice([1, 2]), "mark": [q(r.choice([0, 1, 2]) / SR), q(r.choice([1, 2]) / SR)]}
            else:
                m = {"op": "bp.setSR", "id": oid, "SR": enc(SR * r.choice([1, 2]))}
        elif kind == "el":
            nm, fk = r.choice(real)
            k = r.choice(["arg", "dur", "flags", "addbp"])
            if k == "arg":
                m = {"op": "el.changeArg", "id": oid, "ch": 1, "name": nm, **argval(r, fk)}
            elif k == "dur":
                m = {"op": "el.changeDur", "id": oid, "ch": 1, "name": nm, "dur": enc(r.choice([3, 5]) / SR)}
            elif k == "flags":
                m = {"op": "el.addFlags", "id": oid, "ch": r.choice([1, 2]), "flags": [enc(r.choice([0, 1, 2, "H", "T"])) for _ in range(4)]}
            else:
                m = {"op": "el.addBP", "id": oid, "ch": r.choice([1, 2]), "bp": r.choice(["b2", "bc", "b"])}
        else:
            k = r.choice(["seq", "seq", "amp", "off", "delay", "filter", "SR", "elarg", "name"])
            if k == "seq":
                m = {"op": "sq.setSeq", "id": oid, "pos": r.choice([1, 2]), "field": r.choice(["twait", "nrep", "jump_input", "jump_target", "goto"]),
                     "v": r.choice([0, 1, 2, 3])}
            elif k == "amp":
                m = {"op": "sq.setAmp", "id": oid, "ch": r.choice([1, 2]), "v": enc(r.choice([20, 21.5, 30]))}
            elif k == "off":
                m = {"op": "sq.setOff", "id": oid, "ch": r.choice([1, 2]), "v": enc(r.choice([0, 0.25]))}
            elif k == "delay":
                m = {"op": "sq.setDelay", "id": oid, "ch": r.choice([1, 2]), "v": enc(r.choice([0, 2, 4]) / SR)}
            elif k == "filter":
                m = {"op": "sq.setFilter", "id": oid, "ch": r.choice([1, 2]), "kind": r.choice(["HP", "LP"]), "order": 1, "orderIsInt": True,
                     "f_cut": enc(SR * 0.1), "tau": None}
            elif k == "SR":
                m = {"op": "sq.setSR", "id": oid, "v": enc(SR)}
            elif k == "elarg":
                nm, fk = r.choice(real)
                m = {"op": "sq.elChangeArg", "id": oid, "pos": 1, "ch": 1, "name": nm, **argval(r, fk, (0.375, -0.625))}
            else:
                m = {"op": "sq.setName", "id": oid, "name": "renamed"}
        m["_mut"] = oid
        m["_step"] = step
        ops.append(m)
        ops += [{**o, "_step": step} for o in snap(watch)]
    if not have_sub and N % 2 == 1:
        # a sweep that is refused part-way (the second duration is 0): the input sequence is what it was
        # (two varied parameters: at the second step the first one is applied before the second one is refused)
        forced = list(forced) + [{"op": "tl.repvary", "id": "tvbad", "seq": "s", "to": "tvbad", "lens": [2, 2, 2, 2, 2], "poss": [1, 1],
                                  "vars": [{"chan": 1, "name": n0, "arg": 0, "vals": [enc(0.25), enc(0.5)]},
                                           {"chan": 1, "name": n0, "arg": enc("duration"), "vals": [enc(info["counts"][0] / SR), enc(0)]}]}]
    if N % 4 == 2:
        # the source blueprint gets another sample rate and is put on the element's channel again: the element holds it as it is now
        forced = list(forced) + [{"op": "bp.setSR", "id": "b2", "SR": enc(SR * 2)}, {"op": "el.addBP", "id": "ec", "ch": 2, "bp": "b2"},
                                 {"op": "bp.setSR", "id": "b", "SR": enc(SR * 2)}, {"op": "el.addBP", "id": "ec", "ch": 1, "bp": "b"}]
    arbs = [n for n, f in segs if f == "arb"]
    if arbs:
        # the keyword dict of an arb_func segment is handed on by copy() / + / addBluePrint as it is: an edit of it on one
        # side (by name or by position, with a dict value) must replace it there and leave the other holders alone
        import userfns
        forced = list(forced)
        for oid in r.sample(["b", "bc", "bs"], 2):
            forced.append({"op": "bp.changeArg", "id": oid, "name": arbs[0], "arg": enc(r.choice(["kwargs", 1])),
                           "value": enc(dict(userfns.KW_POOL[r.choice([201, 202, 203, 204])]))})
        forced.append({"op": "el.changeArg", "id": r.choice(["e", "ec"]), "ch": 1, "name": arbs[0], "arg": enc("kwargs"),
                       "value": enc(dict(userfns.KW_POOL[r.choice([201, 202, 203, 204])]))})
    for m in forced:
        step += 1
        ops.append({**m, "_mut": m["id"], "_step": step})
        ops += [{**o, "_step": step} for o in snap(watch)]
    return with_heap_summaries(ops)


def with_heap_summaries(ops):
    """reference-level observation (BB.Model.Heap vs id() of the real objects): after the derivations and after
    every mutation, which user-held objects share cells, and which of them changed"""
    names = sorted({o[k] for o in ops for k in ("id", "to") if isinstance(o.get(k), str)})
    hs = {"op": "heap.summary", "vars": names}
    out, first = [], True
    for o in ops:
        if first and o.get("_snap") is not None:
            out.append(dict(hs))
            first = False
        out.append(o)
        if o.get("_mut") is not None:
            out.append(dict(hs))
    return out


def post_check(ops, ri, rm):
    """no mutation changes the snapshot of any object but the mutated one (implementation alone)"""
    prev = {}
    mutated = None
    cur_step = 0
    for o, r in zip(ops, ri):
        if o.get("_mut") is not None:
            mutated = o["_mut"]
            cur_step = o["_step"]
            continue
        key = o.get("_snap")
        if key is None:
            continue
        owner = key.split("#")[0]
        if key in prev and owner != mutated and o.get("_step") == cur_step and cur_step > 0:
            a, b = prev[key], r
            if ("err" in a) != ("err" in b):
                return f"step {cur_step}: mutating {mutated!r} changed whether {key!r} can be observed ({a.get('err')} -> {b.get('err')})"
            if "ok" in a:
                if key.endswith("#arr"):
                    xa = a["ok"]["forged"] if isinstance(a["ok"], dict) and "forged" in a["ok"] else a["ok"]
                    xb = b["ok"]["forged"] if isinstance(b["ok"], dict) and "forged" in b["ok"] else b["ok"]
                    d = _same_arrays(xa, xb, key)
                else:
                    d = J_equal(a["ok"]["desc"], b["ok"]["desc"], key)
                if d:
                    return f"step {cur_step}: mutating {mutated!r} ({_mutop(ops, cur_step)}) changed the untouched object {owner!r}: {d}"
        prev[key] = r
    return None


def _mutop(ops, step):
    for o in ops:
        if o.get("_mut") is not None and o.get("_step") == step:
            return o["op"]
    return "?"


def nontrivial(ops, ri):
    return sum(1 for o, r in zip(ops, ri) if o.get("_mut") is not None and "ok" in r) >= 3
