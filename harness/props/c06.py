"""C06 — an element is valid iff all channels share sample rate and point count."""
import numpy as np

from core import enc, q
from gen import SeqGen, dyadic

ID = "C06"
HEAP_SUMMARY = True      # end every program with the reference-level observation (BB.Model.Heap vs id() walk)
UNIVERSAL_EVERY = 8      # every n-th case is a feature-rich random program (props/universal.py)
UNIVERSAL_KIND = "both"      # alternately the blueprint-level and the sequence-level program
LEAN_MODULE = "BB.Properties.C06"
QUICK_N = 600
THOROUGH_N = 6000
ERRCLASS = True      # the property names ElementDurationError
RULE = ("elements of 1-6 channels (int and str ids) mixing blueprints and raw arrays; in 55% of the cases one channel deviates in "
        "sample rate (x2, x1.5, +1) or in point count (+-1 sample ... x2); observed: validateDurations (ok / ElementDurationError by "
        "class), points, duration, SR, getArrays lengths and content, Sequence.addElement accept/refuse, addArray with marker "
        "arrays of wrong length; direct check: an accepted whole-sample element forges to exactly Element.points samples on every "
        "channel and duration == points/SR; non-trivial = at least 2 channels")
TRUSTED_EXTRA = ["numpy.allclose semantics |a-b| <= atol + rtol*|b| with rtol=1e-5 (modelled)"]


def long_case(g, ci):
    """two channels of at least 100 000 points that differ by one, two or three samples (or not at all): a difference of
    one sample is a difference whatever the length.  Only validation and the queries run; nothing this long is forged."""
    r = g.r
    SR = r.choice([1e6, 1e9, 2.4e9, 100])
    N = r.choice([100000, 100000, 250000, 1000000])
    d = r.choice([1, 1, 2, 3, 0])
    ops = [{"op": "el.new", "id": "e"}]
    for i, n in enumerate((N, N + d)):
        bid = g.fresh("b")
        ops += [{"op": "bp.new", "id": bid},
                {"op": "bp.insert", "id": bid, "pos": -1, "fn": "ramp", "args": [enc(0), enc(1)], "dur": enc(n / SR), "name": None},
                {"op": "bp.setSR", "id": bid, "SR": enc(SR)}, {"op": "el.addBP", "id": "e", "ch": i + 1, "bp": bid}]
    ops += [{"op": "el.validate", "id": "e"}, {"op": "el.points", "id": "e"}, {"op": "el.SR", "id": "e"},
            {"op": "sq.new", "id": "s"}, {"op": "sq.setSR", "id": "s", "v": enc(SR)},
            {"op": "sq.addElement", "id": "s", "pos": 1, "el": "e"}, {"op": "sq.check", "id": "s"}]
    return ops


def case(g, tier, ci):
    r = g.r
    if ci % 40 == 17:
        return long_case(g, ci)
    sg = SeqGen(g)
    SR = r.choice([1, 2, 10, 100, 1e3, 2.5, 1e6, 1e9, 12345.678, 1.2e9, 2.4e9])      # the last two: a period that is no whole number of ns
    N = r.randint(4, 40 if tier == "quick" else 300)
    chans = r.sample([1, 2, 3, 4, "A", "B", "ch1", 7, "1", "7"], r.randint(1, 6))      # ("1" and 1 are two channels)
    ops = sg.element("e", SR, N, chans, raw_p=0.4, kinds=("ramp", "sine", "user"), flags_p=0.1, waits=0.2, nseg=(1, 4))
    k = r.random()
    sr_dev = False
    if k < 0.55 and len(chans) >= 1:
        # one deviant channel, overwriting an existing one or added as a new channel
        ch = r.choice(chans) if r.random() < 0.6 else "dev"
        if r.random() < 0.5:
            SR2 = r.choice([SR * 2, SR * 1.5, SR + 1, SR * (1 + 2 ** -19)])     # the last: equal to 6 significant digits
            sr_dev = True
            N2 = N
        else:
            SR2 = SR
            N2 = max(2, N + r.choice([-1, 1, 2, -2, N, 5]))
        if r.random() < 0.5:
            ops.append({"op": "el.addArray", "id": "e", "ch": ch, "wfm": [q(dyadic(r)) for _ in range(N2)], "SR": enc(SR2), "kw": []})
        else:
            bid = g.fresh("b")
            bops, _ = g.blueprint(bid, SR=SR2, nseg=(1, 3), kinds=("ramp",), waits=0.0, markers=False, total=N2)
            ops += bops + [{"op": "el.addBP", "id": "e", "ch": ch, "bp": bid}]
    elif k < 0.62:
        # addArray with a marker array of the wrong length (refused); the element is not used afterwards
        ops.append({"op": "el.new", "id": "x"})
        ops.append({"op": "el.addArray", "id": "x", "ch": 1, "wfm": [q(dyadic(r)) for _ in range(N)], "SR": enc(SR),
                    "kw": r.choice([[["m1", [0] * N], ["m2", [0] * (N + r.choice([-1, 1, 3]))]],
                                    [["m1", [0] * N], ["m2", [0] * N], ["m3", [0] * (N + r.choice([-1, 1]))]],
                                    [["m3", [1] * (N - 1)]]]), "_errclass": True})
    if ci % 10 == 3:
        # a channel whose first segment is an ordinary ramp NAMED like a wait ('waituntil_readout'), followed by a real waituntil:
        # points and duration are those of the forged waveform
        a, w = 3, 3 + r.randint(2, 5)
        if N > w + 2:
            ops += [{"op": "bp.new", "id": "bw"},
                    {"op": "bp.insert", "id": "bw", "pos": -1, "fn": "ramp", "args": [enc(r.choice([40, 0.5]) / SR), enc(0.25)], "dur": enc(a / SR),
                     "name": enc(r.choice(["waituntil_readout", "waituntilgate"]))},
                    {"op": "bp.insert", "id": "bw", "pos": -1, "fn": "waituntil", "args": [enc(w / SR)], "dur": None, "name": None},
                    {"op": "bp.insert", "id": "bw", "pos": -1, "fn": "ramp", "args": [enc(0), enc(1)], "dur": enc((N - w) / SR), "name": None},
                    {"op": "bp.setSR", "id": "bw", "SR": enc(SR)}, {"op": "bp.points", "id": "bw"}, {"op": "bp.duration", "id": "bw"},
                    {"op": "el.addBP", "id": "e", "ch": chans[0], "bp": "bw"}]
    if ci % 6 == 2:
        # a refused addBluePrint (an empty blueprint) on an occupied channel changes nothing
        ops += [{"op": "bp.new", "id": "empty"}, {"op": "el.addBP", "id": "e", "ch": r.choice(chans), "bp": "empty"}]
    if ci % 8 == 5:
        # a channel re-assigned with the SAME blueprint at another sample rate (equal segments, so `==` to the stored one):
        # the channel takes the new rate (seeded C06-m18: the call dropped as a no-op)
        # (only blueprints that run at the element's own rate: a whole multiple of it keeps their durations whole samples)
        bch = [o for o in ops if o["op"] == "el.addBP" and o["id"] == "e" and
               [x["SR"] for x in ops if x["op"] == "bp.setSR" and x["id"] == o["bp"]] == [enc(SR)]]
        if bch:
            tgt = r.choice(bch)
            ops += [{"op": "bp.setSR", "id": tgt["bp"], "SR": enc(SR * r.choice([2, 4]))}, {"op": "el.addBP", "id": "e", "ch": tgt["ch"], "bp": tgt["bp"]}]
            sr_dev = True
    if r.random() < 0.35 and not sr_dev:      # (with one sample rate only: the new durations are whole samples, no ties)
        # a query first (it caches SR/duration), then an edit that may make the channels unequal, then everything again
        ops.append({"op": r.choice(["el.validate", "el.points", "el.duration", "el.SR"]), "id": "e"})
        bch = [o for o in ops if o["op"] == "el.addBP" and o["id"] == "e"]
        if bch:
            tgt = r.choice(bch)
            first = next((o for o in ops if o["op"] == "bp.insert" and o["id"] == tgt["bp"] and o["fn"] != "waituntil"), None)
            if first is not None and not first.get("name"):
                fn = first["fn"] if isinstance(first["fn"], str) else first["fn"]["name"].rstrip("0123456789")
                which = [tgt["ch"]] if r.random() < 0.7 else [o["ch"] for o in bch]
                nd = r.randint(2, 30)
                for ch in which:
                    ops.append({"op": "el.changeDur", "id": "e", "ch": ch, "name": fn, "dur": enc(nd / SR), "all": False})
        if r.random() < 0.3:
            ops.append({"op": "el.copy", "id": "e", "to": "e2"})
            ops += [{"op": "el.validate", "id": "e2"}, {"op": "el.points", "id": "e2"}]
    ops += [{"op": "el.validate", "id": "e"}, {"op": "el.points", "id": "e"}, {"op": "el.duration", "id": "e"},
            {"op": "el.SR", "id": "e"}, {"op": "el.getArrays", "id": "e", "time": r.random() < 0.5}, {"op": "el.channels", "id": "e"},
            {"op": "el.getArrays", "id": "e", "time": False}, {"op": "el.validate", "id": "e"}, {"op": "el.points", "id": "e"},
            {"op": "sq.new", "id": "s"}, {"op": "sq.setSR", "id": "s", "v": enc(SR)},
            {"op": "sq.addElement", "id": "s", "pos": 1, "el": "e"}, {"op": "sq.desc", "id": "s"}]
    if len({str(c) for c in chans}) < len(chans):
        # 1 and "1" on one element: two channels everywhere but in a description, whose keys are the printed ids (one entry
        # there, in the code and not in the model) -- not described
        ops = [o for o in ops if o["op"] != "sq.desc"]
    return ops


def post_check(ops, ri, rm):
    res = {o["op"]: r for o, r in zip(ops, ri) if o.get("id") == "e"}
    v, pts, dur, sr, arr = (res.get(k) for k in ("el.validate", "el.points", "el.duration", "el.SR", "el.getArrays"))
    if v is None or "err" in v or arr is None or "err" in arr or "err" in pts:
        return None
    n = pts["ok"]
    for ch, d in arr["ok"].items():
        for k in ("wfm", "m1", "m2"):
            if k in d and len(d[k]) != n:
                return f"accepted element: channel {ch!r} array {k} has {len(d[k])} samples, Element.points = {n}"
    from fractions import Fraction
    SR = sr["ok"]
    SRv = float(Fraction(SR["q"])) if isinstance(SR, dict) else float(SR)
    if abs(float(Fraction(dur["ok"])) - n / SRv) > 1e-9 * max(1.0, n / SRv):
        return f"accepted element: duration {float(Fraction(dur['ok']))} != points/SR = {n / SRv}"
    return None


def nontrivial(ops, ri):
    return sum(1 for o in ops if o["op"] in ("el.addBP", "el.addArray") and o["id"] == "e") >= 2
