"""C05 — segment names stay unique; name-addressed edits touch only their target."""
from core import enc, q, user_fn_spec
from gen import NAME_POOL as _NAME_POOL, USER_ARITY, canonical_names, basename

# base names of which one is a proper prefix of another (ramp / rampup, a / ab / a1b): name matching is by base name, not by prefix
NAME_POOL = _NAME_POOL + ["rampup", "ab"]

ID = "C05"
HEAP_SUMMARY = True      # end every program with the reference-level observation (BB.Model.Heap vs id() walk)
UNIVERSAL_EVERY = 8      # every n-th case is a feature-rich random program (props/universal.py)
UNIVERSAL_KIND = "both"      # alternately the blueprint-level and the sequence-level program
LEAN_MODULE = "BB.Properties.C05"
QUICK_N = 500
THOROUGH_N = 5000
RULE = ("random histories (length 8-30; thorough up to 45) over insertSegment (any position incl. -1; name given/omitted/empty/"
        "ending in a digit), removeSegment, changeArg (by name and position, replaceeverywhere on/off), changeDuration, "
        "set/removeSegmentMarker, copy, +, addBluePrint on a pool of up to 4 blueprints and one element; after every op the "
        "description, durations and length of every pool member are compared with the model; distinct = program text; "
        "non-trivial = at least 3 accepted mutators and 2 segments sharing a base name at some point")
ASSUMPTIONS = ["segment names and argument names are ASCII", "argument values are numbers"]

FNS = ["ramp", "sine", "const", "lin2", "poly4", "pi2pulse", "x9y", "waituntil"]
PARAMS = {"ramp": ["start", "stop"], "sine": ["freq", "ampl", "off", "phase"], "const": ["level"],
          "lin2": ["a", "b"], "poly4": ["a", "b", "c", "d"], "pi2pulse": ["ampl"], "x9y": ["u", "v"]}


def fnspec(k):
    return k if k in ("ramp", "sine", "waituntil") else user_fn_spec(k)


def sibling_case(g):
    """several segments sharing ONE base name but having DIFFERENT functions; name-addressed edits of a
    numbered sibling before and after the numbering shifts (remove / insert in front)"""
    r = g.r
    ops = [{"op": "bp.new", "id": "b0"}]
    # 3-5 siblings, or more than nine (two-digit numbers: a10, a11, ...)
    nsib = r.randint(3, 5) if r.random() < 0.65 else r.randint(10, 13)
    fns = [r.choice(["ramp", "sine", "const", "lin2", "poly4", "x9y"]) for _ in range(nsib)]
    for f in fns:
        ops.append({"op": "bp.insert", "id": "b0", "pos": -1, "fn": fnspec(f), "args": [enc(g.fnum()) for _ in PARAMS[f]],
                    "dur": enc(r.choice([1, 0.5, 2])), "name": enc("a")})
    names = canonical_names(["a"] * len(fns))
    cur = list(zip(names, fns))
    ops.append({"op": "bp.desc", "id": "b0"})
    for _ in range(r.randint(4, 9)):
        k = r.random()
        if k < 0.55 and cur:
            nm, f = r.choice(cur)
            ps = PARAMS[f]
            arg = r.choice(ps) if r.random() < 0.7 else r.randint(0, len(ps) - 1)
            if r.random() < 0.15:
                arg = r.choice(["stop", "sigma", "level", "nosuch"])
            ops.append({"op": "bp.changeArg", "id": "b0", "name": nm, "arg": enc(arg), "value": enc(g.fnum()), "all": r.random() < 0.15})
        elif k < 0.8 and len(cur) > 1:
            i = r.randrange(len(cur) - 1)          # an earlier sibling: the later ones are renumbered
            ops.append({"op": "bp.remove", "id": "b0", "name": cur[i][0]})
            fl = [f for _, f in cur]
            del fl[i]
            cur = list(zip(canonical_names(["a"] * len(fl)), fl))
        else:
            f = r.choice(["ramp", "sine", "const", "lin2"])
            ops.append({"op": "bp.insert", "id": "b0", "pos": 0, "fn": fnspec(f), "args": [enc(g.fnum()) for _ in PARAMS[f]],
                        "dur": enc(1), "name": enc("a")})
            fl = [f] + [x for _, x in cur]
            cur = list(zip(canonical_names(["a"] * len(fl)), fl))
        ops.append({"op": "bp.desc", "id": "b0"})
    if nsib >= 10:
        ops += [{"op": "bp.copy", "id": "b0", "to": "b0c"}, {"op": "bp.desc", "id": "b0c"}]
    return ops


def case(g, tier, ci):
    r = g.r
    if r.random() < 0.15:
        return sibling_case(g)
    ops = []
    pool = ["b0"]
    names = {"b0": []}   # the generator's own idea of current names, used only to aim edits
    fns = {"b0": []}
    ops.append({"op": "bp.new", "id": "b0"})
    if r.random() < 0.5:
        ops.append({"op": "bp.setSR", "id": "b0", "SR": enc(r.choice([1, 10, 100, 2.5]))})
    have_el = False
    L = r.randint(8, 30 if tier == "quick" else 45)

    def snap():
        for b in pool:
            ops.append({"op": "bp.desc", "id": b})
        if have_el:
            ops.append({"op": "el.desc", "id": "e"})

    def pick_name(b):
        k = r.random()
        if names[b] and k < 0.72:
            return r.choice(names[b])
        if names[b] and k < 0.8:
            # an existing base name with a number that (most likely) no sibling carries: unknown, hence refused
            return basename(r.choice(names[b])) + str(r.choice([1, 3, 7, 12]))
        if k < 0.9:
            return r.choice(NAME_POOL)
        return r.choice(["nosuch", "a7", ""])

    for _ in range(L):
        b = r.choice(pool)
        k = r.random()
        if k < 0.32:
            f = r.choice(FNS)
            pos = r.choice([-1, -1, 0, 1, 2, 5, r.randint(0, 6), -2])
            nk = r.random()
            name = None if nk < 0.35 else ("" if nk < 0.42 else (r.choice(NAME_POOL) if nk < 0.93 else r.choice(["a2", "x9"])))
            if f == "waituntil":
                args = [enc(r.choice([1, 2.5, 10]))]
                dur = None
            else:
                args = [enc(g.fnum()) for _ in PARAMS[f]]
                dur = enc(r.choice([1, 0.5, 2, 0.25, 3]))
            op = {"op": "bp.insert", "id": b, "pos": pos, "fn": fnspec(f), "args": args, "dur": dur, "name": enc(name)}
            if len(args) == 1 and f != "waituntil" and r.random() < 0.5:
                # the single argument of a one-argument function given bare, not as a tuple (0 and 0.0 included)
                op["args"] = [enc(r.choice([0, 0.0, 0.5, 3, -1.25]))]
                op["_bare"] = True
            ops.append(op)
            ok = pos >= -1 and not (name and name[-1].isdigit() and f != "waituntil")
            if ok:
                nm = f if f == "waituntil" else (name if name else f)
                lst, fl = names[b], fns[b]
                at = len(lst) if pos == -1 else min(pos, len(lst))
                lst.insert(at, nm)
                fl.insert(at, f)
                names[b] = canonical_names([basename(x) for x in lst])
        elif k < 0.42:
            nm = pick_name(b)
            ops.append({"op": "bp.remove", "id": b, "name": nm})
            if nm in names[b]:
                i = names[b].index(nm)
                del names[b][i]
                del fns[b][i]
                names[b] = canonical_names([basename(x) for x in names[b]])
        elif k < 0.60:
            nm = pick_name(b)
            f = fns[b][names[b].index(nm)] if nm in names[b] else "ramp"
            ps = PARAMS.get(f, ["start", "stop"])
            ak = r.random()
            if ak < 0.45:
                arg = r.choice(ps)
            elif ak < 0.85:
                arg = r.randint(0, len(ps) - 1)
            else:
                arg = r.choice(["nosucharg", 7, "stop", "SR", -1])
            ops.append({"op": "bp.changeArg", "id": b, "name": nm, "arg": enc(arg), "value": enc(g.fnum()),
                        "all": r.random() < 0.3})
        elif k < 0.74:
            nm = pick_name(b)
            dk = r.random()
            dur = g.r.choice([1, 2, 0.5, 3.5, 7]) if dk < 0.7 else r.choice([0, -1, 0.001, "abc", None])
            ops.append({"op": "bp.changeDur", "id": b, "name": nm, "dur": enc(dur), "all": r.random() < 0.3})
        elif k < 0.82:
            nm = pick_name(b)
            ops.append({"op": "bp.setSegMarker", "id": b, "name": nm, "specs": [q(r.choice([0, 0.25, -0.5, 1])), q(r.choice([0, 0.5, 1, 2]))],
                        "mid": r.choice([1, 2, 1, 2, 3])})
        elif k < 0.86:
            ops.append({"op": "bp.removeSegMarker", "id": b, "name": pick_name(b), "mid": r.choice([1, 2, 0])})
        elif k < 0.91 and len(pool) < 4:
            nb = g.fresh("b")
            ops.append({"op": "bp.copy", "id": b, "to": nb})
            pool.append(nb)
            names[nb] = list(names[b])
            fns[nb] = list(fns[b])
        elif k < 0.96 and len(pool) < 4:
            b2 = r.choice(pool)
            nb = g.fresh("b")
            if r.random() < 0.4:
                # the operands of + may carry different sample rates (or one of them none): the sum has the left one's
                ops.append({"op": "bp.setSR", "id": r.choice([b, b2]), "SR": enc(r.choice([1, 10, 100, 2.5, 4]))})
            ops.append({"op": "bp.add", "a": b, "b": b2, "to": nb})
            pool.append(nb)
            names[nb] = canonical_names([basename(x) for x in names[b] + names[b2]])
            fns[nb] = fns[b] + fns[b2]
        else:
            if not have_el:
                ops.append({"op": "el.new", "id": "e"})
                have_el = True
            ops.append({"op": "el.addBP", "id": "e", "ch": r.choice([1, 2, "A"]), "bp": b})
        snap()
    if have_el and r.random() < 0.7:
        nm = pick_name(pool[0])
        ops.append({"op": "el.changeArg", "id": "e", "ch": r.choice([1, 2, "A", 9]), "name": nm, "arg": enc(r.choice(["stop", 0, "level", 1])),
                    "value": enc(g.fnum()), "all": r.random() < 0.3})
        ops.append({"op": "el.changeDur", "id": "e", "ch": r.choice([1, 2, "A"]), "name": nm, "dur": enc(r.choice([1, 2, 0, -3])), "all": False})
        snap()
    return ops


def nontrivial(ops, ri):
    acc = sum(1 for op, r in zip(ops, ri) if op["op"] in ("bp.insert", "bp.remove", "bp.changeArg", "bp.changeDur") and "ok" in r)
    return acc >= 3
