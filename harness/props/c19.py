"""C19 — description/JSON round trip loses nothing that affects output."""
from core import enc, q, J_equal, dec_val
from gen import SeqGen, NAME_POOL
from props.c20 import seg_table, _same_arrays

ID = "C19"
HEAP_SUMMARY = True      # end every program with the reference-level observation (BB.Model.Heap vs id() walk)
UNIVERSAL_EVERY = 8      # every n-th case is a feature-rich random program (props/universal.py)
LEAN_MODULE = "BB.Properties.C19"
QUICK_N = 400
THOROUGH_N = 4000
RULE = ("blueprints (1-6 segments over ramp, sine, gaussian, gaussian_smooth_cutoff, waituntil; names from a pool with digits "
        "inside and repeats; int and float arguments incl. negative, 1e-9 and 1e9; absolute and segment-bound markers on both "
        "marker channels), elements (1-3 integer channels, flags) and sequences (1-3 positions, every sequencing field set, "
        "amplitude, offset, delay, filter compensation by f_cut or tau) are written with write_to_json to a real file and read "
        "back with init_from_json; observed on the implementation: description before == after (as Python values), "
        "json-serialisable, read-back == original, and forged arrays of both identical once the read-back object has the same "
        "sample rate; the read-back object's description is also compared with the model's; non-trivial = the read-back succeeded")
ASSUMPTIONS = ["built-in pulse shapes only", "integer channel ids", "amplitude and offset set for every channel of a sequence",
               "a 'waituntil' segment is inserted without a duration (the way the documentation shows)"]

KINDS = ("ramp", "sine", "gaussian", "gsc")
EXTREME = [1e-9, 1e9, -3, 0, 7, -0.5, 2.0 ** -20, 123456.789]


def spice(g, ops):
    """replace some arguments by extreme ints/floats"""
    r = g.r
    for o in ops:
        if o["op"] == "bp.insert" and o["fn"] == "ramp" and r.random() < 0.4:
            o["args"] = [enc(r.choice(EXTREME)), enc(r.choice(EXTREME))]
    return ops


def seg_markers(g, bid, bops, info):
    names = [n for n, _ in seg_table(bops)]
    return g.seg_marker_ops(bid, names, info)


def observe(kind, a, b, SR=None):
    ops = [{"op": kind + ".desc", "id": a, "_side": "a"}, {"op": kind + ".json", "id": a, "to": b, "_json": True},
           {"op": kind + ".desc", "id": b, "_side": "b"},
           {"op": kind + ".eq", "a": b, "b": a, "_eq": "ba"}, {"op": kind + ".eq", "a": a, "b": b, "_eq": "ab"}]
    if kind == "bp":
        ops.append({"op": "bp.setSR", "id": b, "SR": enc(SR)})
        for x, sd in ((a, "a"), (b, "b")):
            ops += [{"op": "el.new", "id": "f" + x}, {"op": "el.addBP", "id": "f" + x, "ch": 1, "bp": x},
                    {"op": "el.getArrays", "id": "f" + x, "time": True, "_forge": sd}]
    elif kind == "sq":
        for x, sd in ((a, "a"), (b, "b")):
            ops.append({"op": "sq.forge", "id": x, "delays": True, "filters": True, "time": False, "_forge": sd})
    return ops


def case(g, tier, ci):
    r = g.r
    which = r.choice(["bp", "bp", "el", "sq", "sq"])
    SR = r.choice([10, 100, 1e3, 2.5, 1e6, 1e9])
    if which == "bp":
        if r.random() < 0.06:      # more than 99 segments: the segment keys no longer sort as strings
            bops, info = g.blueprint("a", SR=SR, nseg=(100, 125), kinds=("ramp",), waits=0.0, aligned=True, markers=False, seg_n=2)
        else:
            bops, info = g.blueprint("a", SR=SR, nseg=(1, 6), kinds=KINDS, waits=0.25, aligned=True, markers=True)
        # names: pool with digits inside, repeats
        for o in bops:
            if o["op"] == "bp.insert" and o["fn"] != "waituntil" and r.random() < 0.7:
                o["name"] = enc(r.choice(NAME_POOL + ["pi2pulse", "a1b", "x9y9z", "q"]))
        spice(g, bops)
        ops = bops + seg_markers(g, "a", bops, info)
        if r.random() < 0.3:
            ops.append({"op": "bp.remove", "id": "a", "name": seg_table(bops)[0][0]})
        return ops + observe("bp", "a", "b", SR)
    sg = SeqGen(g)
    if which == "el":
        chans = r.sample([1, 2, 3, 7, 12, -1, 0], r.randint(1, 3))
        N = r.randint(6, 30)
        ops = sg.element("a", SR, N, chans, raw_p=0.0, kinds=KINDS, flags_p=0.6, nseg=(1, 4))
        spice(g, ops)
        if ci % 4 == 1:
            # a refused addFlags (one illegal value) leaves the channel's flags as they were (set or not set)
            ops += [{"op": "el.addFlags", "id": "a", "ch": chans[0], "flags": [enc(2), enc("T"), enc("X"), enc(0)]}]
        if ci % 3 == 2:
            # flags taken from a numpy table (np.int64 / np.uint8 values): stored, described and written as plain integers
            ops += [{"op": "el.addFlags", "id": "a", "ch": chans[-1], "flags": [enc(r.choice([0, 1, 2, 3, 4])) for _ in range(4)],
                     "_as": r.choice(["npint", "npuint8"])}]
        if ci % 2 == 0:
            # the original has been inspected before it is written (the getters run the validation)
            ops += [{"op": r.choice(["el.SR", "el.points", "el.duration"]), "id": "a"}]
        return ops + observe("el", "a", "b")
    ops, info = sg.sequence("a", npos=(1, 3), nch=(1, 3), SR=SR, raw_p=0.0, kinds=KINDS, flags_p=0.4, delays_p=0.5,
                            filters_p=0.5, sub_p=0.0, seq_p=0.0, waits=0.2, amp=r.choice([20, 30.5]), chan_pool=[1, 2, 3, 4, 11, -2, 10],
                            offsets=True)
    P = info["P"]
    for p in range(1, P + 1):
        for fld in ("twait", "nrep", "jump_input", "jump_target", "goto"):
            if r.random() < 0.6:
                hi = P if fld in ("jump_target", "goto") else (3 if fld != "nrep" else 100)
                lo = -1 if fld == "jump_target" else 0
                v = r.choice([lo, 0, 1, hi]) if r.random() < 0.6 else r.randint(lo, hi)      # boundary values first
                ops.append({"op": "sq.setSeq", "id": "a", "pos": p, "field": fld, "v": v})
    if r.random() < 0.3:
        ops.append({"op": "sq.setName", "id": "a", "name": "myseq"})
    if ci % 3 == 0 and info["els"]:
        # an element edited in place after it was added: every channel's first ordinary segment gets one more sample
        pos = sorted(info["els"])[0]
        eid = info["els"][pos]
        edits = []
        for a in [o for o in ops if o["op"] == "el.addBP" and o["id"] == eid]:
            bops = [o for o in ops if o["op"] == "bp.insert" and o["id"] == a["bp"]]
            hit = next(((nm, o) for (nm, fk), o in zip(seg_table(bops), bops) if fk != "waituntil" and o.get("dur") is not None), None)
            if hit is None or any(o["fn"] == "waituntil" for o in bops):
                edits = []
                break
            edits.append({"op": "sq.elChangeDur", "id": "a", "pos": pos, "ch": a["ch"], "name": hit[0],
                          "dur": enc(float(dec_val(hit[1]["dur"])) + 1 / SR), "all": False})
        ops += edits
    return ops + observe("sq", "a", "b")


def _norm(j):
    if isinstance(j, dict) and "d" in j:
        return {"d": sorted([[k, _norm(v)] for k, v in j["d"]], key=lambda kv: kv[0])}
    if isinstance(j, dict) and "a" in j:
        return {"a": [_norm(v) for v in j["a"]]}
    return j


def post_check(ops, ri, rm):
    kind = next((o["op"].split(".")[0] for o in ops if o.get("_json")), None)
    if kind is None:
        return None
    res = {}
    for o, r in zip(ops, ri):
        for tag in ("_side", "_eq", "_forge"):
            if o.get(tag):
                res[(tag, o[tag])] = r
        if o.get("_json"):
            res["json"] = r
    da = res.get(("_side", "a"))
    if da is None or "err" in da:
        return None          # the original could not even be described (not in the domain)
    if not da["ok"]["serialisable"]:
        return f"{kind}: the description is not JSON-serialisable"
    if "err" in res["json"]:
        return f"{kind}: write_to_json/init_from_json raised {res['json']['err']}: {res['json'].get('msg')}"
    db = res.get(("_side", "b"))
    if db is None or "err" in db:
        return f"{kind}: the read-back object cannot be described"
    d = J_equal(_norm(da["ok"]["desc"]), _norm(db["ok"]["desc"]), "description")
    if d:
        return f"{kind}: description changed by the JSON round trip: {d}"
    # order of segments / channels / positions is part of "lists every segment in order"
    d = J_equal(da["ok"]["desc"], db["ok"]["desc"], "description", sort_keys=("awgspecs",))
    if d:
        return f"{kind}: description order changed by the JSON round trip: {d}"
    for k in ("ab", "ba"):
        e = res.get(("_eq", k))
        if e is None or "err" in e or e["ok"] is not True:
            return f"{kind}: read-back object does not compare equal to the original ({k}: {e})"
    fa, fb = res.get(("_forge", "a")), res.get(("_forge", "b"))
    if fa is not None and fb is not None:
        if ("err" in fa) != ("err" in fb):
            return f"{kind}: only one of original / read-back forges ({fa.get('err')} / {fb.get('err')}: {fb.get('msg')})"
        if "ok" in fa:
            xa = fa["ok"]["forged"] if kind == "sq" else fa["ok"]
            xb = fb["ok"]["forged"] if kind == "sq" else fb["ok"]
            d = _same_arrays(xa, xb, "forged")
            if d:
                return f"{kind}: original and read-back forge differently: {d}"
    return None


def nontrivial(ops, ri):
    return any(o.get("_json") and "ok" in r for o, r in zip(ops, ri))
