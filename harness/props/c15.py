"""C15 — SEQX package mirrors the forged sequence and enforces AWG70000A limits."""
from core import enc, q
from gen import SeqGen
from props.c14 import level_element

ID = "C15"
HEAP_SUMMARY = True      # end every program with the reference-level observation (BB.Model.Heap vs id() walk)
UNIVERSAL_EVERY = 4      # every n-th case is a feature-rich random program (props/universal.py)
LEAN_MODULE = "BB.Properties.C15"
QUICK_N = 60
THOROUGH_N = 1200
ERRCLASS = False
RULE = ("consistent sequences of 1-3 positions and 1-3 channels whose waveforms have {2399, 2400, 2401, 2600} points, blueprint "
        "and raw-array channels with markers of both kinds, flags (ints and letter aliases) set on all / some / no "
        "(channel, position), sequencing values around the 10 instrument bounds, 30% with a boundary-level waveform, 20% with "
        "delays; observed: the whole 8-tuple and the 9-tuple of the flags variant, ValueError vs SequencingError by class, "
        "addFlags acceptance (length 3/5, token 5, 'X' rejected); non-trivial = a delivered package")


def case(g, tier, ci):
    r = g.r
    sg = SeqGen(g)
    SR = r.choice([1e3, 1e6, 1e9, 2.4e9])
    chans = r.sample([3, 1, 2, "B"], r.randint(1, 3))
    if ci % 5 == 3:
        # channel names of which one is the beginning of the other (1 and 10, 'A' and 'AB'): every channel has its own settings
        chans = list(r.choice([[1, 10], [10, 1], ["A", "AB"], ["AB", "A"], [2, "2b"], [1, 2, 10]]))
    P = r.randint(1, 3)
    N = r.choice([2399, 2400, 2400, 2401, 2600]) if ci % 6 != 4 else r.choice([2399, 2400, 1000])
    amps = {ch: r.choice([0.5, 1, 2, 4.5, 1 + 2.0 ** -12]) for ch in chans}      # (one with digits below a millivolt)
    boundary = r.random() < 0.45 or ci % 6 == 4
    force_other = ci % 4 == 2 and ci % 6 != 4
    if force_other:
        # at least two channels with different ranges, and a level that fits ANOTHER channel's range (every waveform is
        # checked against its own channel's amplitude: seeded C15-m2, C15-m5)
        if len(chans) < 2:
            chans = r.sample([3, 1, 2, "B"], r.randint(2, 3))
        amps = dict(zip(chans, r.sample([0.5, 1, 2, 4.5], len(chans))))
        boundary = True
    ops = [{"op": "sq.new", "id": "s"}, {"op": "sq.setSR", "id": "s", "v": enc(SR)}]
    if r.random() < 0.5:
        ops.append({"op": "sq.setName", "id": "s", "name": r.choice(["myseq", "x", ""])})
    fp = r.choice([0.0, 0.5, 0.5, 0.5, 1.0])      # mostly: some channels flagged, their neighbours not
    adding = list(range(1, P + 1))
    if r.random() < 0.3:
        r.shuffle(adding)       # positions may be filled in any order
    for p in adding:
        eid = g.fresh("e")
        order = r.sample(chans, len(chans))
        if boundary:
            levels = []
            for ch in order:
                a = amps[ch]
                k = r.random()
                other = [amps[c] for c in chans if c != ch]
                if ci % 6 == 4:
                    lv = 0.0        # every channel of this case idles at 0 V (2399 points are too few all the same)
                elif force_other and p == adding[0]:
                    lv = r.choice(other) / 2 * r.choice([1, 0.75])
                elif k < 0.4:
                    lv = a / 2 * r.choice([0.5, 0.0])
                elif k < 0.65:
                    lv = a / 2
                elif k < 0.8 or not other:
                    lv = a / 2 + 2.0 ** -20
                else:
                    lv = r.choice(other) / 2 * r.choice([1, 0.75])     # in range for another channel, maybe not for this one
                levels.append(r.choice([-1, 1]) * lv)
            ops += level_element(g, eid, SR, N, order, levels)
            for ch in order:
                if r.random() < fp:
                    ops.append({"op": "el.addFlags", "id": eid, "ch": ch, "flags": [enc(r.choice([0, 1, 2, 3, 4, "", "H", "L", "T", "P"])) for _ in range(4)]})
        else:
            ops += sg.element(eid, SR, N, order, raw_p=0.6 if ci % 3 == 0 else 0.25, kinds=("ramp",), markers=True, flags_p=fp, nseg=(1, 3))
            for ch in chans:
                amps[ch] = 4.5
        if r.random() < 0.3:
            # flags assigned a second time (0 / '' must overwrite, not keep, the earlier flag)
            ops.append({"op": "el.addFlags", "id": eid, "ch": r.choice(order),
                        "flags": [enc(r.choice([0, "", 0, 1, "T"])) for _ in range(4)]})
        if r.random() < 0.15:
            ops.append({"op": "el.addFlags", "id": eid, "ch": order[0],
                        "flags": r.choice([[0, 1, 2], [0, 1, 2, 3, 4], [0, 5, 0, 0], [enc("X"), 0, 0, 0], [0, 0, 0, enc("h")]])})
        ops.append({"op": "sq.addElement", "id": "s", "pos": p, "el": eid})
    for ch in chans:
        ops.append({"op": "sq.setAmp", "id": "s", "ch": ch, "v": enc(amps[ch])})
        if r.random() < 0.3:
            ops.append({"op": "sq.setOff", "id": "s", "ch": ch, "v": enc(0.25)})
        if not boundary and r.random() < 0.2:
            ops.append({"op": "sq.setDelay", "id": "s", "ch": ch, "v": enc(r.choice([2, 3, 7]) / SR)})
        elif not boundary and ci % 3 == 0 and ch == chans[0] and SR in (1e9, 2.4e9):
            # a whole number of samples whose product delay*SR falls just below it in floating point (15 at 1 GSa/s ...):
            # raw arrays are padded by the rounded number, like blueprints
            ops.append({"op": "sq.setDelay", "id": "s", "ch": ch, "v": enc(r.choice([15, 30, 60] if SR == 1e9 else [51, 59, 87]) / SR)})
    bounds = {"twait": [-1, 0, 3, 4], "jump_input": [-1, 0, 3, 4], "nrep": [-1, 0, 1, 16383, 16384, 65536],
              "jump_target": [-2, -1, 0, P, P + 1], "goto": [-1, 0, P, P + 1]}
    for p in range(1, P + 1):
        for fld, vals in bounds.items():
            k = r.random()
            if k < 0.12:
                ops.append({"op": "sq.setSeq", "id": "s", "pos": p, "field": fld, "v": r.choice(vals)})
            elif k < 0.5:
                hi = {"twait": 3, "jump_input": 3, "nrep": 16383, "jump_target": P, "goto": P}[fld]
                ops.append({"op": "sq.setSeq", "id": "s", "pos": p, "field": fld, "v": r.randint(0, hi)})
    if ci % 7 == 3:
        # a position set up, then filled again: addElement resets its sequencing to the defaults, and the five lists show
        # the defaults there (seeded C15-m10: the earlier settings kept)
        p = r.randint(1, P)
        ops += [{"op": "sq.setSeq", "id": "s", "pos": p, "field": "twait", "v": 2}, {"op": "sq.setSeq", "id": "s", "pos": p, "field": "nrep", "v": 5},
                {"op": "sq.setSeq", "id": "s", "pos": p, "field": "goto", "v": P},
                {"op": "sq.addElement", "id": "s", "pos": p, "el": eid}]
    if ci % 5 == 2:
        ops.append({"op": "sq.setSeq", "id": "s", "pos": r.randint(1, P), "field": "nrep", "v": 0})      # 0 repetitions = infinite, a legal value
    if not boundary and ci % 4 == 1:
        # a filter compensation, and the sequence's own sample rate (the one the filter runs at) other than its elements'
        for ch in chans:
            ops.append({"op": "sq.setAmp", "id": "s", "ch": ch, "v": enc(1e6)})
        ops.append({"op": "sq.setFilter", "id": "s", "ch": chans[0], "kind": r.choice(["HP", "LP"]), "order": 1, "orderIsInt": True,
                    **(r.choice([{"f_cut": enc(SR * 0.05), "tau": None}, {"f_cut": None, "tau": enc(20 / SR)}]))})
        if ci % 8 == 1:
            ops.append({"op": "sq.setSR", "id": "s", "v": enc(SR * 2)})
    ops += [{"op": "sq.channels", "id": "s"},
            {"op": "sq.seqx", "id": "s"}, {"op": "sq.seqx", "id": "s", "flags": True}, {"op": "sq.seqx", "id": "s", "flags": True},
            {"op": "sq.forge", "id": "s", "delays": True, "filters": True, "time": False}]
    return ops


def nontrivial(ops, ri):
    return any(o["op"] == "sq.seqx" and "ok" in r for o, r in zip(ops, ri))
