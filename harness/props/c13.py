"""C13 — filter compensation inverts the filter it is declared for."""
import numpy as np

from core import ripasso
from props.c12 import H_doc
from props import c11 as _c11

ID = "C13"
LEAN_MODULE = "BB.Properties.C13"
QUICK_N = 20
THOROUGH_N = 200
LEVEL_NOTE = ("partial: restoration of every bin below Nyquist, the constant-offset statement, order additivity and the custom "
              "inverse are proved in exact arithmetic (Mathlib ZMod.dft) for the kernels regenerated from _rcFilter; the "
              "'floating-point error x condition number' clause is measured. Trusted: Lean kernel + propext/Classical.choice/"
              "Quot.sound, Mathlib, py2lean, the correspondence harness, fft = DFT")
TECHNIQUE = ("Lean 4 proof (Mathlib discrete Fourier transform) about kernels regenerated from the source + numeric "
             "correspondence of the implementation's round trips within float error x condition number")
RULE = ("N in {8, 9, 16, 33, 63, 64, 65, 250, 251} (thorough up to 1025) x kinds x orders 1..3 x cut-offs {1e-4..3}*SR x SR in "
        "{1, 100, 1e4, 1e9} x DC gains; signals: unit impulses, random, square waves of period 2 (pure Nyquist), 4, N/5; "
        "observed: spectra of inverse(filter(x)) and filter(inverse(x)) against x on every bin 2k != N within "
        "1e-9 * condition number (max|H|^n / min|H|^n), HP with default DC gain 0: all bins but DC restored and, for odd N or no "
        "Nyquist content, inverse(filter(x)) - x constant (ptp <= tol); order m then n == order m+n; order -n == compensation of "
        "order n; custom transfer function with invert=True undoes invert=False and vice versa (axes on and off the fft grid); "
        "DCgain <= 0 and unknown kinds are ValueErrors for both functions; op programs: as C11")
case = _c11.case
nontrivial = getattr(_c11, "nontrivial", lambda ops, ri: True)
post_check = getattr(_c11, "post_check", None)
ERRCLASS = False
TOL = 1e-9


def signals(r, N):
    x = np.zeros(N)
    x[r.randrange(N)] = 1.0
    yield "impulse", x
    yield "random", np.array([r.uniform(-1, 1) for _ in range(N)])
    yield "square2", np.array([1.0 if (j % 2) == 0 else -1.0 for j in range(N)])
    yield "square4", np.array([1.0 if (j % 4) < 2 else 0.0 for j in range(N)])
    p = max(2, N // 5)
    yield "squareN5", np.array([1.0 if (j % p) < p // 2 else -0.5 for j in range(N)])
    # real signals whose samples happen to be integers, held as an integer array / a plain list
    xi = np.zeros(N, dtype=np.int64)
    xi[r.randrange(N)] = 1
    yield "impulse (int64 array)", xi
    yield "square (list of ints)", [1 if (j % 4) < 2 else 0 for j in range(N)]


def cond(H, N):
    idx = [k for k in range(N) if 2 * k != N and np.isfinite(H[k]) and H[k] != 0]
    a = np.abs(H[idx])
    return float(a.max() / a.min()) if len(idx) else 1.0


def spec_diff(a, b, N, skip_dc=False):
    A, B = np.fft.fft(a), np.fft.fft(b)
    worst, wk = 0.0, None
    for k in range(N):
        if 2 * k == N or (skip_dc and k == 0):
            continue
        e = abs(A[k] - B[k])
        if e > worst:
            worst, wk = e, k
    return worst, wk


def direct(seed, tier, model, stats):
    try:
        return _direct(seed, tier, model, stats)
    except Exception as e:  # noqa: BLE001 -- a filter raised on a legal call (the argument checks have their own try blocks)
        import traceback
        tb = traceback.extract_tb(e.__traceback__)
        where = next((f"{t.name} line {t.lineno}" for t in reversed(tb) if "ripasso" in t.filename), "ripasso")
        return [{"what": f"a ripasso filter raised {type(e).__name__}: {e} ({where}) on a legal call of the round-trip checks",
                 "call": "applyRCFilter / applyInverseRCFilter / applyCustomTransferFunction"}]


def _direct(seed, tier, model, stats):
    import random
    r = random.Random(seed * 7907 + 13)
    fails = []
    tested = {"roundtrips": 0, "hp_default": 0, "order_add": 0, "order_neg": 0, "custom": 0, "rejections": 0}
    Ns = [8, 9, 16, 33, 63, 64, 65, 250, 251] if tier == "quick" else [8, 9, 16, 33, 63, 64, 65, 127, 250, 251, 512, 1001, 1024, 1025]
    reps = 3 if tier == "quick" else 8
    for N in Ns:
        for rep in range(reps + 1):
            if len(fails) >= 3:
                break
            kind = r.choice(["HP", "LP"])
            order = r.choice([1, 2, 3])
            SR = r.choice([1, 100, 1e4, 1e9, 2.5, 12345.678, 0.75])      # (sample rates need not be whole numbers)
            fc = SR * r.choice([1e-4, 1e-2, 0.12, 0.5, 3])
            if rep == reps:
                # one strongly attenuating filter per length (gain of the compensation 1e7 .. 1e10)
                kind, order, fc = r.choice([("LP", 2, SR * 1e-4), ("LP", 3, SR * 1e-2), ("LP", 2, SR * 3e-4)])
            dc = r.choice([0.5, 1, 2])
            H = H_doc(kind, SR, fc, order, dc, N)
            kappa = cond(H, N)
            label = f"N={N} kind={kind} order={order} SR={SR} f_cut={fc} DCgain={dc}"
            if kappa > 1e7:
                # strongly attenuating filters (condition number up to 1e10): double precision still restores every bin to a few
                # thousand eps x kappa, far below the signal; tolerance 1e-14 * kappa (measured worst case: 2e-17 * kappa) instead of 1e-9 * kappa
                if kappa <= 1e10:
                    tested["roundtrips"] += 2
                    x = np.zeros(N)
                    x[r.randrange(N)] = 1.0
                    fw = ripasso.applyRCFilter(x, SR, kind, fc, order, DCgain=dc)
                    iv = ripasso.applyInverseRCFilter(x, SR, kind, fc, order, DCgain=dc)
                    for lab, y in (("inverse(filter(x))", ripasso.applyInverseRCFilter(fw, SR, kind, fc, order, DCgain=dc)),
                                   ("filter(inverse(x))", ripasso.applyRCFilter(iv, SR, kind, fc, order, DCgain=dc))):
                        e, k = spec_diff(y, x, N)
                        if e > 1e-14 * kappa * N:
                            fails.append({"what": f"{lab} does not restore bin {k} of a unit impulse: |diff| {e:.3e} (kappa {kappa:.2e})", "call": label})
                            break
                continue
            onp = r.choice([np.int64, np.int32])(order) if (N + order) % 2 == 0 else order      # an order taken from an integer array
            fwd = lambda x: ripasso.applyRCFilter(x, SR, kind, fc, onp, DCgain=dc)

            def inv(x, _first=[True]):
                y = ripasso.applyInverseRCFilter(x, SR, kind, fc, onp, DCgain=dc)
                if _first[0] and isinstance(y, np.ndarray) and y.flags.writeable:
                    # what the compensation returns belongs to the caller: the same call once more, after the first result was
                    # normalised in place, gives the result proper
                    _first[0] = False
                    y *= 0.5
                    y -= 1.0
                    y = ripasso.applyInverseRCFilter(x, SR, kind, fc, onp, DCgain=dc)
                return y
            for nm, x in signals(r, N):
                tested["roundtrips"] += 2
                if (N + order) % 3 == 0 and not isinstance(x, list) and x.dtype.kind == "f":
                    # the filters are linear: a signal of nanovolts is restored as well as one of volts
                    x = x * r.choice([1e-9, 1e-6, 1e-3])
                    nm += " (scaled down)"
                    scale = float(np.max(np.abs(np.fft.fft(x))))
                else:
                    scale = max(1.0, float(np.max(np.abs(np.fft.fft(x)))))
                for lab, y in (("inverse(filter(x))", inv(fwd(x))), ("filter(inverse(x))", fwd(inv(x)))):
                    e, k = spec_diff(y, x, N)
                    if e > TOL * kappa * scale * N:
                        fails.append({"what": f"{lab} does not restore bin {k} of the {nm} signal: |diff| {e:.3e} (kappa {kappa:.2e})", "call": label})
                        break
                if fails:
                    break
            # order additivity and order -n
            m, n = r.choice([1, 2]), r.choice([1, 2])
            x = np.array([r.uniform(-1, 1) for _ in range(N)])
            Hm = H_doc(kind, SR, fc, m + n, dc, N)
            km = cond(Hm, N)
            if km < 1e7:
                tested["order_add"] += 1
                a = ripasso.applyRCFilter(ripasso.applyRCFilter(x, SR, kind, fc, m, DCgain=dc), SR, kind, fc, n, DCgain=dc)
                b = ripasso.applyRCFilter(x, SR, kind, fc, m + n, DCgain=dc)
                e, k = spec_diff(a, b, N)
                if e > TOL * max(1.0, float(np.max(np.abs(Hm[np.isfinite(Hm)])))) * N * max(1.0, float(np.max(np.abs(np.fft.fft(x))))):
                    fails.append({"what": f"order {m} then order {n} differs from order {m + n} at bin {k}: {e:.3e}", "call": label})
                tested["order_neg"] += 1
                a = ripasso.applyRCFilter(x, SR, kind, fc, -n, DCgain=dc)
                b = ripasso.applyInverseRCFilter(x, SR, kind, fc, n, DCgain=dc)
                if np.max(np.abs(a - b)) > TOL * km * N:
                    fails.append({"what": f"order -{n} is not the compensation of order {n} (max diff {np.max(np.abs(a - b)):.3e})", "call": label})
                # ... and the compensation of order -n is the filter of order n (same DC gain)
                a = ripasso.applyInverseRCFilter(x + 0.5, SR, kind, fc, -n, DCgain=dc)
                b = ripasso.applyRCFilter(x + 0.5, SR, kind, fc, n, DCgain=dc)
                if np.max(np.abs(a - b)) > TOL * km * N:
                    fails.append({"what": f"the compensation of order -{n} is not the filter of order {n} (max diff {np.max(np.abs(a - b)):.3e})", "call": label})
            # HP with its default DC gain 0
            if kind == "HP":
                tested["hp_default"] += 1
                for nm, x in signals(r, N):
                    y = ripasso.applyInverseRCFilter(ripasso.applyRCFilter(x, SR, "HP", fc, order), SR, "HP", fc, order)
                    scale = max(1.0, float(np.max(np.abs(np.fft.fft(x)))))
                    e, k = spec_diff(y, x, N, skip_dc=True)
                    if e > TOL * kappa * scale * N:
                        fails.append({"what": f"HP (default DC gain) round trip does not restore bin {k} of the {nm} signal: {e:.3e}", "call": label})
                        break
                    X = np.fft.fft(x)
                    nyq_free = (N % 2 == 1) or abs(X[N // 2]) < 1e-9
                    if nyq_free and np.ptp(y - x) > TOL * kappa * scale * N:
                        fails.append({"what": f"HP round trip of the {nm} signal differs from the original by more than a constant "
                                              f"(peak-to-peak of the difference {np.ptp(y - x):.3e})", "call": label})
                        break
        if len(fails) >= 3:
            break
    # custom transfer function and its inverse
    for _ in range(30 if tier == "quick" else 400):
        if len(fails) >= 3:
            break
        N = r.choice([8, 9, 33, 64, 65, 200, 201])
        SR = r.choice([1, 100, 1e4])
        K = r.randint(3, 30)
        if r.random() < 0.4:
            fr = np.abs(np.fft.fftfreq(N, 1 / SR))
            fr = np.unique(np.concatenate((fr, [SR / 2])))          # on the fft grid
        elif r.random() < 0.6:
            fr = np.linspace(0, SR * r.uniform(0.5, 0.8), K)           # off the grid
        else:
            fr = np.linspace(SR * r.uniform(0.02, 0.2), SR * r.uniform(0.5, 0.8), K)     # not starting at 0 Hz: held constant below
        amp = np.array([r.uniform(0.3, 3) for _ in range(len(fr))])
        x = np.array([r.uniform(-1, 1) for _ in range(N)])
        tested["custom"] += 1
        T = np.interp(np.abs(np.fft.fftfreq(N, 1 / SR)), fr, amp)
        kappa = float(T.max() / T.min())
        scale = max(1.0, float(np.max(np.abs(np.fft.fft(x)))))
        # (the flag by keyword, or as the fifth positional argument)
        for lab, y in (("invert(apply(x))", ripasso.applyCustomTransferFunction(ripasso.applyCustomTransferFunction(x, SR, fr, amp), SR, fr, amp, invert=True)),
                       ("apply(invert(x))", ripasso.applyCustomTransferFunction(ripasso.applyCustomTransferFunction(x, SR, fr, amp, invert=True), SR, fr, amp)),
                       ("invert(apply(x)), flag positional", ripasso.applyCustomTransferFunction(ripasso.applyCustomTransferFunction(x, SR, fr, amp, False), SR, fr, amp, True))):
            e, k = spec_diff(y, x, N)
            if e > TOL * kappa * scale * N:
                fails.append({"what": f"custom transfer function: {lab} does not restore bin {k}: {e:.3e} (N={N}, {len(fr)} knots)",
                              "call": "applyCustomTransferFunction", "tf_freqs": fr.tolist(), "tf_amp": amp.tolist()})
                break
        # history: an RC round trip for the same (N, SR) right after the custom transfer function was used
        kind2, fc2, o2 = r.choice(["HP", "LP"]), SR * 0.12, r.choice([1, 2])
        H2 = H_doc(kind2, SR, fc2, o2, 1, N)
        k2 = cond(H2, N)
        y = ripasso.applyInverseRCFilter(ripasso.applyRCFilter(x, SR, kind2, fc2, o2, DCgain=1), SR, kind2, fc2, o2, DCgain=1)
        e, k = spec_diff(y, x, N)
        tested["roundtrips"] += 1
        if e > TOL * k2 * scale * N:
            fails.append({"what": f"after a custom transfer function call with the same (N={N}, SR={SR}): inverse(filter(x)) of {kind2} order {o2} "
                                  f"does not restore bin {k}: {e:.3e}", "call": "applyCustomTransferFunction then applyRCFilter"})
    # argument checks
    x = np.ones(8)
    for dcg in (0, -1, -0.5):
        tested["rejections"] += 1
        try:
            ripasso.applyInverseRCFilter(x, 10, "HP", 1, 1, DCgain=dcg)
            fails.append({"what": f"applyInverseRCFilter accepted DCgain={dcg}", "call": "applyInverseRCFilter"})
        except ValueError:
            pass
        except Exception as e:  # noqa: BLE001
            fails.append({"what": f"applyInverseRCFilter raised {type(e).__name__} for DCgain={dcg}, ValueError expected", "call": "applyInverseRCFilter"})
    for kind in ("BP", "hp", "", None):
        for fn in (ripasso.applyRCFilter, ripasso.applyInverseRCFilter):
            tested["rejections"] += 1
            try:
                fn(x, 10, kind, 1, 1)
                fails.append({"what": f"{fn.__name__} accepted the unknown filter kind {kind!r}", "call": fn.__name__})
            except ValueError:
                pass
            except Exception as e:  # noqa: BLE001
                fails.append({"what": f"{fn.__name__} raised {type(e).__name__} for kind {kind!r}, ValueError expected", "call": fn.__name__})
    for dcg in (1e-3, 1, 5):
        tested["rejections"] += 1
        try:
            ripasso.applyInverseRCFilter(x, 10, "HP", 1, 1, DCgain=dcg)
        except Exception as e:  # noqa: BLE001
            fails.append({"what": f"applyInverseRCFilter rejected the positive DCgain={dcg}: {type(e).__name__}", "call": "applyInverseRCFilter"})
    stats["cases"] += sum(tested.values())
    stats["nontrivial"] += tested["roundtrips"] + tested["custom"]
    stats["extra"] = {"direct": tested}
    return fails
