"""C04 — waituntil pads with zeros so the next segment starts at the stated time."""
import numpy as np
from fractions import Fraction

from core import enc, q
from gen import canonical_names, basename

ID = "C04"
HEAP_SUMMARY = True      # end every program with the reference-level observation (BB.Model.Heap vs id() walk)
UNIVERSAL_EVERY = 8      # every n-th case is a feature-rich random program (props/universal.py)
UNIVERSAL_KIND = "both"      # alternately the blueprint-level and the sequence-level program
LEAN_MODULE = "BB.Properties.C04"
QUICK_N = 600
THOROUGH_N = 6000
RULE = ("blueprints of whole-sample segments with 1-3 waituntil segments (also in first position), wait times leaving >= 2 "
        "samples of padding, then 0-4 changeDuration edits of preceding segments (half still fitting, half overrunning the "
        "wait time); after every step forge, BluePrint.duration/points, Element.duration/points; direct check on the "
        "implementation: the segment after a wait starts at sample round(t*SR) and the padding is zero; "
        "non-trivial = a successful forge containing a waituntil")


def siblings_case(g):
    """numbered siblings in front of a waituntil, all edited at once through the element (replaceeverywhere): whether the
    wait is overrun is decided by the sum of ALL the new durations"""
    r = g.r
    SR = r.choice([10, 100, 1e3, 1e6])
    na, pad = r.randint(3, 10), r.randint(4, 12)
    nsib = r.randint(2, 3)
    T = nsib * na + pad
    ops = [{"op": "bp.new", "id": "b"}]
    for _ in range(nsib):
        ops.append({"op": "bp.insert", "id": "b", "pos": -1, "fn": "ramp", "args": [enc(0.5), enc(1)], "dur": enc(na / SR), "name": enc("a")})
    if r.random() < 0.6:
        # another segment in front of the wait whose name merely BEGINS with the siblings' base name: not one of them
        ops.append({"op": "bp.insert", "id": "b", "pos": r.choice([0, -1]), "fn": "ramp", "args": [enc(0.75), enc(0.25)], "dur": enc(2 / SR),
                    "name": enc(r.choice(["ab", "a_up", "a b"]))})
        T += 2
    ops += [{"op": "bp.insert", "id": "b", "pos": -1, "fn": "waituntil", "args": [enc(T / SR)], "dur": None, "name": None},
            {"op": "bp.insert", "id": "b", "pos": -1, "fn": "ramp", "args": [enc(1), enc(0)], "dur": enc(r.randint(2, 9) / SR), "name": enc("b")},
            {"op": "bp.setSR", "id": "b", "SR": enc(SR)},
            {"op": "el.new", "id": "es"}, {"op": "el.addBP", "id": "es", "ch": 1, "bp": "b"},
            {"op": "el.getArrays", "id": "es", "time": True}]
    extra = T - nsib * na - pad        # samples of the prefix-named segment, if any
    cands = [n for n in {2, na + 1, max(2, (T - extra) // nsib - 1), (T - extra) // nsib + 2, T} if nsib * n + extra != T]
    # (never filling the time up to the wait exactly: whether t - elapsed is 0 or a rounding error below 0 is a tie)
    if r.random() < 0.6:
        # one sibling edited alone, then all of them set to the value the FIRST one already has: every sibling gets it
        # (seeded C04-m17: the edit stopped at the first sibling that needed no change)
        ops += [{"op": "el.changeDur", "id": "es", "ch": 1, "name": "a2", "dur": enc((na + 1) / SR), "all": False},
                {"op": "el.getArrays", "id": "es", "time": True},
                {"op": "el.changeDur", "id": "es", "ch": 1, "name": "a", "dur": enc(na / SR), "all": True},
                {"op": "el.getArrays", "id": "es", "time": True}, {"op": "el.duration", "id": "es"}]
    for n in r.sample(sorted(cands), min(3, len(cands))):
        ops += [{"op": "el.changeDur", "id": "es", "ch": 1, "name": r.choice(["a", "a2"]), "dur": enc(n / SR), "all": True},
                {"op": "el.getArrays", "id": "es", "time": True}, {"op": "el.duration", "id": "es"}, {"op": "el.points", "id": "es"}]
    return ops


def direct(seed, tier, model, stats):
    """on the implementation alone, at the closed form the theorem `wait_end_to_end` states: paddings of more than a million
    samples (a millisecond at GSa/s rates) - too long to ship through the model driver sample by sample: the forged waveform
    and both marker arrays have round(t*SR) + n_after samples, the padding is zero, the next block starts at round(t*SR)"""
    import random
    from core import BluePrint, Element, PA as PulseAtoms
    r = random.Random(seed * 7919 + 4)
    fails = []
    n_checks = 0
    for SR, T in ([(1.2e9, 1_200_000), (1e9, 1_048_577)] if tier == "quick" else
                  [(1.2e9, 1_200_000), (1e9, 1_048_577), (2.4e9, 2_400_000), (1e9, 1_048_576), (25e9, 3_000_000)]):
        n_checks += 1
        na, nb = r.randint(2, 1200), r.randint(2, 1200)
        bp = BluePrint()
        bp.insertSegment(-1, PulseAtoms.ramp, (0.5, 1), dur=na / SR)
        bp.insertSegment(-1, "waituntil", ((na + T) / SR,))
        bp.insertSegment(-1, PulseAtoms.ramp, (1, 0.25), dur=nb / SR)
        bp.setSR(SR)
        e = Element()
        e.addBluePrint(1, bp)
        try:
            arr = e.getArrays()[1]
        except Exception as ex:      # noqa: BLE001
            fails.append({"what": f"forging a wait of {T} samples at {SR} Sa/s raised {type(ex).__name__}: {str(ex)[:160]}", "call": "Element.getArrays"})
            break
        w = np.asarray(arr["wfm"], float)
        d = None
        if len(w) != na + T + nb or len(arr["m1"]) != len(w) or len(arr["m2"]) != len(w):
            d = (f"wait until sample {na + T} at {SR} Sa/s between segments of {na} and {nb} samples: waveform has {len(w)} samples, "
                 f"markers {len(arr['m1'])}/{len(arr['m2'])}, expected {na + T + nb}")
        elif np.any(w[na:na + T] != 0) or w[na + T] != 1.0 or w[na - 1] == 0:
            d = f"wait until sample {na + T} at {SR} Sa/s: the padding is not zero up to the wait time or the next segment does not start there"
        elif int(e.points) != na + T + nb:
            d = f"Element.points is {e.points}, the forged waveform has {len(w)} samples"
        if d:
            fails.append({"what": d, "call": f"BluePrint [ramp {na} samples, waituntil {(na + T) / SR!r}, ramp {nb} samples] at SR {SR!r}; Element.getArrays()"})
            break
    stats["cases"] += n_checks
    stats["nontrivial"] += n_checks
    return fails


def long_wait_case(g):
    """a wait that fills more than a million samples (a millisecond at GSa/s rates): the element's point count and duration
    include all of the filled time.  Only the queries run; nothing this long is compared sample by sample."""
    r = g.r
    SR, T = r.choice([(1.2e9, 1_200_000), (2.4e9, 1_100_000), (1e9, 1_048_577), (1e9, 1_048_576 + 1200)])
    na, nb = r.randint(2, 1200), r.randint(2, 1200)
    ops = [{"op": "bp.new", "id": "b"},
           {"op": "bp.insert", "id": "b", "pos": -1, "fn": "ramp", "args": [enc(0), enc(1)], "dur": enc(na / SR), "name": None},
           {"op": "bp.insert", "id": "b", "pos": -1, "fn": "waituntil", "args": [enc((T + na) / SR)], "dur": None, "name": None},
           {"op": "bp.insert", "id": "b", "pos": -1, "fn": "ramp", "args": [enc(1), enc(0)], "dur": enc(nb / SR), "name": None},
           {"op": "bp.setSR", "id": "b", "SR": enc(SR)}, {"op": "bp.points", "id": "b"}, {"op": "bp.duration", "id": "b"},
           {"op": "el.new", "id": "el"}, {"op": "el.addBP", "id": "el", "ch": 1, "bp": "b"},
           {"op": "el.validate", "id": "el"}, {"op": "el.points", "id": "el"}, {"op": "el.duration", "id": "el"}]
    return ops


def case(g, tier, ci):
    r = g.r
    if ci % 12 == 5:
        return siblings_case(g)
    if ci % 50 == 23:
        return long_wait_case(g)
    SR = g.sr([1, 7, 100, 2.5, 1e3, 1e6, 1e9, 30, 12345.678])
    ops = [{"op": "bp.new", "id": "b"}]
    k = r.randint(2, 6)
    elapsed = 0
    segs = []   # (name-base, n samples or None for wait, wait target sample)
    nwaits = 0
    for i in range(k):
        if nwaits < 3 and r.random() < (0.45 if i > 0 else 0.15):
            pad = r.randint(2, 15)
            T = elapsed + pad
            off = r.uniform(-0.3, 0.3) if r.random() < 0.3 else 0.0   # t not exactly on the grid
            ops.append({"op": "bp.insert", "id": "b", "pos": -1, "fn": "waituntil", "args": [enc((T + off) / SR)], "dur": None, "name": None})
            segs.append(("waituntil", None, T))
            elapsed = T
            nwaits += 1
        else:
            n = r.randint(2, 12)
            fn, args = g.fn_and_args(["ramp", "sine", "user"], SR, n)
            ops.append({"op": "bp.insert", "id": "b", "pos": -1, "fn": fn, "args": [enc(a) for a in args], "dur": enc(n / SR), "name": None})
            segs.append((fn if isinstance(fn, str) else fn["name"], n, None))
            elapsed += n
    if nwaits == 0:
        T = elapsed + r.randint(2, 9)
        ops.append({"op": "bp.insert", "id": "b", "pos": -1, "fn": "waituntil", "args": [enc(T / SR)], "dur": None, "name": None})
        ops.append({"op": "bp.insert", "id": "b", "pos": -1, "fn": "ramp", "args": [1, 1], "dur": enc(3 / SR), "name": None})
        segs += [("waituntil", None, T), ("ramp", 3, None)]
    ops.append({"op": "bp.setSR", "id": "b", "SR": enc(SR)})
    names = canonical_names([basename(s[0]) for s in segs])

    def observe():
        return [{"op": "el.new", "id": "e"}, {"op": "el.addBP", "id": "e", "ch": 1, "bp": "b"},
                {"op": "el.getArrays", "id": "e", "time": True},
                {"op": "bp.duration", "id": "b"}, {"op": "bp.points", "id": "b"},
                {"op": "el.duration", "id": "e"}, {"op": "el.points", "id": "e"}]

    ops += observe()
    for _ in range(r.randint(0, 4)):
        cands = [i for i, s in enumerate(segs) if s[1] is not None]
        if not cands:
            break
        i = r.choice(cands)
        def zero_pad(n):
            """would some waituntil end up with exactly 0 samples of padding? (float noise decides
            between 'fits' and 'overrun' there: outside the property's domain)"""
            el = 0
            for j, s in enumerate(segs):
                if s[1] is not None:
                    el += n if j == i else s[1]
                else:
                    if el == s[2]:
                        return True
                    el = max(el, s[2])
            return False
        for _try in range(20):
            n = r.randint(2, 12) if r.random() < 0.5 else r.randint(12, 60)   # the latter likely overruns
            if not zero_pad(n):
                break
        else:
            continue
        ops.append({"op": "bp.changeDur", "id": "b", "name": names[i], "dur": enc(n / SR), "all": False})
        segs[i] = (segs[i][0], n, None)
        ops += observe()
    # the same on ONE element that is forged, edited through Element.changeDuration and forged again
    # (forging must not have frozen the waituntil of the stored blueprint)
    if r.random() < 0.5:
        ops += [{"op": "el.new", "id": "es"}, {"op": "el.addBP", "id": "es", "ch": 1, "bp": "b"},
                {"op": "el.getArrays", "id": "es", "time": True}, {"op": "el.points", "id": "es"}]
        for _ in range(r.randint(1, 3)):
            cands = [i for i, sg in enumerate(segs) if sg[1] is not None]
            if not cands:
                break
            i = r.choice(cands)

            def zero_pad2(n):
                el = 0
                for j, sg in enumerate(segs):
                    if sg[1] is not None:
                        el += n if j == i else sg[1]
                    else:
                        if el == sg[2]:
                            return True
                        el = max(el, sg[2])
                return False
            for _try in range(20):
                n = r.randint(2, 12) if r.random() < 0.6 else r.randint(12, 40)
                if not zero_pad2(n):
                    break
            else:
                continue
            ops.append({"op": "el.changeDur", "id": "es", "ch": 1, "name": names[i], "dur": enc(n / SR), "all": False})
            segs[i] = (segs[i][0], n, None)
            ops += [{"op": "el.getArrays", "id": "es", "time": True}, {"op": "el.duration", "id": "es"}, {"op": "el.points", "id": "es"}]
    return ops


def post_check(ops, ri, rm):
    """direct check of the property's clause on the implementation's own output; expectations are
    reconstructed from the program itself (so that a shrunk program is judged correctly)"""
    segs = []  # [base name, duration (Fraction) or None, wait time (Fraction) or None]
    SR = None
    for o, r in zip(ops, ri):
        if o["op"] == "bp.insert" and o["id"] == "b" and "ok" in r:
            fn = o["fn"] if isinstance(o["fn"], str) else o["fn"]["name"]
            if fn == "waituntil":
                segs.append(["waituntil", None, Fraction(o["args"][0]["q"]) if isinstance(o["args"][0], dict) else Fraction(o["args"][0])])
            else:
                d = o["dur"]
                nm = o["name"]["s"] if isinstance(o.get("name"), dict) and o["name"].get("s") else fn
                segs.append([nm, Fraction(d["q"]) if isinstance(d, dict) else Fraction(d), None])
        elif o["op"] == "bp.setSR":
            v = o["SR"]
            SR = Fraction(v["q"]) if isinstance(v, dict) else Fraction(v)
        elif o["op"] in ("bp.changeDur", "el.changeDur") and "ok" in r:
            names = canonical_names([basename(s[0]) for s in segs])
            if o["name"] in names:
                d = o["dur"]
                for j, nmj in enumerate(names):
                    if nmj == o["name"] or (o.get("all") and basename(nmj) == basename(o["name"])):
                        segs[j][1] = Fraction(d["q"]) if isinstance(d, dict) else Fraction(d)
        elif o["op"] == "el.getArrays" and "ok" in r and SR is not None:
            arr = r["ok"][1]
            counts = np.rint(arr["newdurations"] * float(SR)).astype(int)
            if len(counts) != len(segs):
                return f"forged {len(counts)} segments, blueprint has {len(segs)}"
            starts = np.concatenate(([0], np.cumsum(counts)))
            aligned = True
            for i, (nm, d, t) in enumerate(segs):
                if nm == "waituntil":
                    x = t * SR
                    T = round(x)
                    if aligned and abs(x - T) <= Fraction(2, 5):
                        if starts[i + 1] != T:
                            return f"segment after waituntil #{i} starts at sample {starts[i + 1]}, expected round(t*SR) = {T}"
                    if np.any(arr["wfm"][starts[i]:starts[i + 1]] != 0):
                        return f"waituntil #{i} padding is not all zero"
                    aligned = aligned and abs(x - T) <= Fraction(1, 1000)
                else:
                    aligned = aligned and (d * SR).denominator == 1
            if len(arr["wfm"]) != starts[-1]:
                return "waveform length differs from the sum of the segment counts"
    return None


def nontrivial(ops, ri):
    return any(o["op"] == "el.getArrays" and "ok" in r for o, r in zip(ops, ri))
