"""C16 — sequence concatenation is compositional, associative and retargets jumps."""
import numpy as np

from core import enc, q, J_equal
from gen import SeqGen
from props.c20 import _same_arrays, seg_table
from props.c19 import _norm

ID = "C16"
HEAP_SUMMARY = True      # end every program with the reference-level observation (BB.Model.Heap vs id() walk)
UNIVERSAL_EVERY = 6      # every n-th case is a feature-rich random program (props/universal.py)
LEAN_MODULE = "BB.Properties.C16"
QUICK_N = 200
THOROUGH_N = 2500
RULE = ("triples a, b, c of consistent sequences over the same channels (0-3 positions each, the empty one carrying the "
        "settings; blueprint and raw-array channels, 15% subsequences, flags) with identical AWG settings (amplitude, offset, "
        "delays, filter compensations) and sequencing values from {-1, 0, 1..N}; 15% of the cases with one deviating setting or "
        "an inconsistent operand; observed on the implementation: (a+b).forge() position by position against a.forge() and "
        "b.forge() (all option combinations), sequencing entries against the retarget rule, AWG settings, (a+b)+c == a+(b+c) "
        "and equal descriptions, operands' descriptions unchanged, error classes; pairs of blueprints (second without waituntil "
        "and absolute markers): waveform of b1+b2 = concatenation, markers of b2 still on its segments; everything also "
        "compared with the model; non-trivial = a successful sum with >= 2 positions")
ASSUMPTIONS = ["sequencing entries are created by addElement/addSubSequence and changed by the setSequencingXXX methods"]
ERRCLASS = False


def settings_ops(r, sid, chans, SR, spec):
    ops = []
    for ch in chans:
        ops.append({"op": "sq.setAmp", "id": sid, "ch": ch, "v": enc(spec["amp"][ch])})
        ops.append({"op": "sq.setOff", "id": sid, "ch": ch, "v": enc(spec["off"][ch])})
        if ch in spec["delay"]:
            ops.append({"op": "sq.setDelay", "id": sid, "ch": ch, "v": enc(spec["delay"][ch] / SR)})
        if ch in spec["filt"]:
            k, o, fc = spec["filt"][ch]
            if o == 2:      # given by its time constant
                ops.append({"op": "sq.setFilter", "id": sid, "ch": ch, "kind": k, "order": o, "orderIsInt": True, "f_cut": None, "tau": enc(1 / fc)})
            else:
                ops.append({"op": "sq.setFilter", "id": sid, "ch": ch, "kind": k, "order": o, "orderIsInt": True, "f_cut": enc(fc), "tau": None})
    return ops


def mkseq(g, sid, SR, chans, P, spec, subs):
    r = g.r
    sg = SeqGen(g)
    if P == 0:
        ops = [{"op": "sq.new", "id": sid}, {"op": "sq.setSR", "id": sid, "v": enc(SR)}]
        info = {"P": 0}
    else:
        ops, info = sg.sequence(sid, npos=(P, P), nch=(len(chans), len(chans)), SR=SR, raw_p=0.25, kinds=("ramp", "sine"), flags_p=0.15,
                                delays_p=0.0, filters_p=0.0, offsets=False, amp=10, sub_p=subs, seq_p=0.0, chan_pool=list(chans),
                                markers=True)
        ops = [o for o in ops if o["op"] not in ("sq.setAmp",) or o["id"] != sid]
        for p in range(1, P + 1):
            for fld in ("goto", "jump_target", "nrep", "twait", "jump_input"):
                if r.random() < 0.5:
                    v = r.choice([-1, 0, 1, P]) if fld == "jump_target" else (r.randint(0, P) if fld == "goto" else r.randint(0, 3))
                    o = {"op": "sq.setSeq", "id": sid, "pos": p, "field": fld, "v": v}
                    if fld in ("goto", "jump_target") and v > 0 and (p + P + len(chans)) % 3 == 0:
                        # the same target as a numpy integer / a whole float (computed by the caller's own code)
                        o["_as"] = "npint" if (p + v) % 2 == 0 else "float"
                    ops.append(o)
    ops += settings_ops(r, sid, chans, SR, spec)
    return ops, info


def many_siblings_case(g):
    """two operands whose segments all share one base name, ten or more in the sum: the numbering runs on into two digits,
    and the sum can be copied, stored in an element and forged like any other blueprint"""
    r = g.r
    SR = r.choice([10, 100, 1e3])
    ops = []
    for bid, k in (("p", r.randint(4, 7)), ("r", r.randint(5, 8))):
        ops.append({"op": "bp.new", "id": bid})
        for _ in range(k):
            ops.append({"op": "bp.insert", "id": bid, "pos": -1, "fn": "ramp", "args": [enc(g.fnum()), enc(g.fnum())], "dur": enc(r.randint(2, 5) / SR),
                        "name": enc("step")})
        ops.append({"op": "bp.setSR", "id": bid, "SR": enc(SR)})
    ops += [{"op": "bp.setSegMarker", "id": "r", "name": "step2", "specs": [q(0), q(2 / SR)], "mid": 1},
            {"op": "bp.add", "a": "p", "b": "r", "to": "t"}, {"op": "bp.desc", "id": "t"}, {"op": "bp.copy", "id": "t", "to": "tc"}, {"op": "bp.desc", "id": "tc"},
            {"op": "bp.eq", "a": "t", "b": "tc"}, {"op": "el.new", "id": "et"}, {"op": "el.addBP", "id": "et", "ch": 1, "bp": "t"},
            {"op": "el.getArrays", "id": "et", "time": False}, {"op": "el.desc", "id": "et"},
            {"op": "bp.changeArg", "id": "t", "name": "step11", "arg": enc("stop"), "value": enc(0.375)}, {"op": "bp.desc", "id": "t"},
            {"op": "bp.json", "id": "t", "to": "tj"}, {"op": "bp.desc", "id": "tj"}, {"op": "bp.eq", "a": "tj", "b": "t"}]
    return ops


def bp_case(g):
    r = g.r
    SR = r.choice([10, 100, 1e3, 2.5])
    if r.random() < 0.5:
        o1, i1 = g.blueprint("p", SR=SR, nseg=(1, 4), kinds=("ramp", "sine", "user"), waits=0.2, aligned=True, markers=True)
    elif r.random() < 0.5:   # durations off the sample grid (|f| <= 0.4): segment starts must come from the rounded counts
        o1, i1 = g.blueprint("p", SR=SR, nseg=(2, 5), kinds=("ramp", "sine", "user"), waits=0.0, aligned=False, markers=True, nmax=12)
    else:
        # every segment of the first operand a third of a sample too long (or too short): the residues add up to
        # more than a sample, the rounded counts do not
        f = r.choice([0.3, -0.3, 0.35])
        counts = [r.randint(3, 12) for _ in range(r.randint(3, 5))]
        o1 = [{"op": "bp.new", "id": "p"}]
        for n in counts:
            o1.append({"op": "bp.insert", "id": "p", "pos": -1, "fn": "ramp", "args": [enc(g.fnum()), enc(g.fnum())],
                       "dur": enc((n + f) / SR), "name": None})
        o1.append({"op": "bp.setSR", "id": "p", "SR": enc(SR)})
        i1 = {"SR": SR, "counts": counts, "N": sum(counts)}
    o2, i2 = g.blueprint("r", SR=SR, nseg=(1, 4), kinds=("ramp", "sine", "user"), waits=0.0, aligned=True, markers=False)
    n1 = [n for n, _ in seg_table(o1)]
    n2 = [n for n, _ in seg_table(o2)]
    ops = o1 + g.seg_marker_ops("p", n1, i1) + o2
    for nm, n in zip(n2, i2["counts"]):
        if r.random() < 0.8:
            ops.append({"op": "bp.setSegMarker", "id": "r", "name": nm, "specs": [q(r.randint(0, n - 1) / SR), q(r.randint(1, n) / SR)],
                        "mid": r.choice([1, 2])})
    if len(n1) >= 2 and r.random() < 0.4:
        # the first operand went through an edit history: a segment removed (and sometimes put back at the end)
        ops.append({"op": "bp.remove", "id": "p", "name": r.choice(n1)})
        # (absolute windows were placed for the longer blueprint and could now start beyond its end, where "nearest
        # sample" means something else in the sum: cleared)
        ops += [{"op": "bp.setMarker", "id": "p", "which": 1, "list": []}, {"op": "bp.setMarker", "id": "p", "which": 2, "list": []}]
        if r.random() < 0.5:
            ops.append({"op": "bp.insert", "id": "p", "pos": -1, "fn": "ramp", "args": [enc(0.5), enc(-0.5)], "dur": enc(r.randint(3, 9) / SR), "name": enc("again")})
    ops += [{"op": "bp.add", "a": "p", "b": "r", "to": "pr"}, {"op": "bp.desc", "id": "pr"}, {"op": "bp.desc", "id": "p"}]
    for x in ("p", "r", "pr"):
        ops += [{"op": "el.new", "id": "e" + x}, {"op": "el.addBP", "id": "e" + x, "ch": 1, "bp": x},
                {"op": "el.getArrays", "id": "e" + x, "_bp": x}]
    return ops


def case(g, tier, ci):
    r = g.r
    if ci % 20 == 11:
        return many_siblings_case(g)
    if r.random() < 0.3:
        return bp_case(g)
    SR = r.choice([10, 100, 1e3, 2.5, 1e6])
    chans = r.sample([1, 2, 3, "A", "B"], r.randint(1, 3))
    spec = {"amp": {ch: r.choice([10, 12.5]) for ch in chans}, "off": {ch: r.choice([0, 0.25]) for ch in chans},
            "delay": {ch: r.choice([2, 4]) for ch in chans if r.random() < 0.25},
            "filt": {ch: (r.choice(["HP", "LP"]), r.choice([1, 2]), SR * r.choice([0.01, 0.1])) for ch in chans if r.random() < 0.25}}
    subs = 0.15 if r.random() < 0.5 else 0.0
    Ps = [r.choice([0, 1, 1, 2, 3]), r.randint(1, 3), r.randint(1, 2)]
    ops = []
    infos = {}
    for sid, P in zip("abc", Ps):
        o, info = mkseq(g, sid, SR, chans, P, spec, subs)
        ops += o
        infos[sid] = info
    bad = r.random()
    if ci % 20 == 7:
        bad = 0.14           # every twentieth case has an inconsistent right operand
    if bad < 0.08:
        ops.append({"op": "sq.setOff", "id": r.choice("ab"), "ch": chans[0], "v": enc(0.5)})
    elif bad < 0.12:
        ops.append({"op": "sq.setDelay", "id": r.choice("ab"), "ch": chans[0], "v": enc(7 / SR)})
    elif bad < 0.16 and Ps[1] >= 1:
        # make b inconsistent: an element at position P+2 (gap)
        eid = g.fresh("e")
        ops += SeqGen(g).element(eid, SR, 8, list(chans), raw_p=0.0, markers=False, seg_markers=False)
        ops.append({"op": "sq.addElement", "id": "b", "pos": Ps[1] + 2, "el": eid})
        if ci % 2 == 0:
            # ... and one at position 0: the highest position equals the number of entries again
            ops.append({"op": "sq.addElement", "id": "b", "pos": 0, "el": eid})
    ops += [{"op": "sq.desc", "id": "a", "_tag": "a0"}, {"op": "sq.desc", "id": "b", "_tag": "b0"}]
    ops += [{"op": "sq.add", "a": "a", "b": "b", "to": "ab", "_errclass": True, "_tag": "add"},
            {"op": "sq.desc", "id": "ab", "_tag": "ab"},
            {"op": "sq.desc", "id": "a", "_tag": "a1"}, {"op": "sq.desc", "id": "b", "_tag": "b1"}]
    opts = [(True, True, False), (False, False, False), (True, False, True), (False, True, False)]
    dl, fl, tm = r.choice(opts)
    for x in ("a", "b", "ab"):
        ops.append({"op": "sq.forge", "id": x, "delays": dl, "filters": fl, "time": tm, "_f": x})
    # the sum was forged (all option combinations that run the filters included): the operands are what they were
    ops += [{"op": "sq.forge", "id": "ab", "delays": True, "filters": True, "time": False},
            {"op": "sq.desc", "id": "b", "_tag": "b2"}, {"op": "sq.add", "a": "a", "b": "b", "to": "ab_again", "_errclass": True},
            {"op": "sq.desc", "id": "ab_again"}]
    ops += [{"op": "sq.add", "a": "ab", "b": "c", "to": "ab_c"}, {"op": "sq.add", "a": "b", "b": "c", "to": "bc"},
            {"op": "sq.add", "a": "a", "b": "bc", "to": "a_bc"},
            # == raises on raw-array channels (numpy truth value), so associativity is observed through
            # descriptions and forged arrays; the Boolean is compared with the model only without raw arrays
            {"op": "sq.eq", "a": "ab_c", "b": "a_bc", "_tag": "assoc", "_nocmp": any(o["op"] == "el.addArray" for o in ops)},
            {"op": "sq.desc", "id": "ab_c", "_tag": "d1"}, {"op": "sq.desc", "id": "a_bc", "_tag": "d2"},
            {"op": "sq.forge", "id": "ab_c", "delays": dl, "filters": fl, "time": tm, "_f": "ab_c"},
            {"op": "sq.forge", "id": "a_bc", "delays": dl, "filters": fl, "time": tm, "_f": "a_bc"}]
    ops[0]["_lens"] = Ps
    return ops


def _seqof(desc, pos):
    for k, v in desc["d"]:
        if k == str(pos):
            return {kk: vv for kk, vv in dict((a, b) for a, b in v["d"])["sequencing"]["d"]}
    return None


def post_check(ops, ri, rm):
    bpres = {o["_bp"]: r for o, r in zip(ops, ri) if o.get("_bp")}
    if bpres:
        if any("err" in r for r in bpres.values()):
            return None
        p, rr, pr = (bpres[k]["ok"][1] for k in ("p", "r", "pr"))
        if not np.array_equal(pr["wfm"], np.concatenate((p["wfm"], rr["wfm"]))):
            return "bp: waveform of b1+b2 is not the concatenation of the operands' waveforms"
        n1 = len(p["wfm"])
        for m in ("m1", "m2"):
            if not np.array_equal(pr[m][:n1], p[m]):
                return f"bp: {m} of b1+b2 differs from b1's inside b1"
            if np.any((rr[m] == 1) & (pr[m][n1:] != 1)):
                return f"bp: a segment-bound {m} window of b2 is not ON at its segment in b1+b2"
        return None
    res = {o["_tag"]: r for o, r in zip(ops, ri) if o.get("_tag")}
    f = {o["_f"]: r for o, r in zip(ops, ri) if o.get("_f")}
    if "add" not in res:
        return None
    if "err" in res["add"]:
        return None          # error classes are compared with the model op by op
    if any("err" in res.get(k, {"err": 1}) for k in ("a0", "b0", "a1", "b1", "ab")):
        return None
    for x in "ab":
        d = J_equal(res[x + "0"]["ok"]["desc"], res[x + "1"]["ok"]["desc"], "desc")
        if d:
            return f"operand {x} changed by +: {d}"
    da, db, dab = (res[k]["ok"]["desc"] for k in ("a0", "b0", "ab"))
    na = len(da["d"]) - 1
    nb = len(db["d"]) - 1
    if len(dab["d"]) - 1 != na + nb:
        return f"a+b has {len(dab['d']) - 1} positions, expected {na}+{nb}"
    for p in range(1, na + 1):
        if _seqof(dab, p) != _seqof(da, p):
            return f"sequencing of position {p} of a changed in a+b"
    for p in range(1, nb + 1):
        want = dict(_seqof(db, p))
        for key in ("Go to", "jump_target"):
            v = int(want[key]["q"])
            if v > 0:
                want[key] = {"q": str(v + na)}
        if _seqof(dab, p + na) != want:
            return f"sequencing of position {p} of b is {_seqof(dab, p + na)} in a+b, expected {want}"
    spec = lambda d: _norm(dict((a, b) for a, b in d["d"])["awgspecs"])
    if J_equal(spec(dab), spec(db), "awgspecs") or J_equal(spec(dab), spec(da), "awgspecs"):
        return "AWG settings of a+b differ from the operands'"
    if all(k in f and "ok" in f[k] for k in ("a", "b", "ab")):
        fa, fb, fab = (f[k]["ok"]["forged"] for k in ("a", "b", "ab"))
        for p in range(1, na + 1):
            d = _same_arrays(fa[p]["content"], fab[p]["content"], f"forge[{p}]")
            if d:
                return f"(a+b).forge() differs from a.forge() at position {p}: {d}"
        for p in range(1, nb + 1):
            d = _same_arrays(fb[p]["content"], fab[p + na]["content"], f"forge[{p + na}]")
            if d:
                return f"(a+b).forge() differs from b.forge() at position {p} (+{na}): {d}"
    if "assoc" in res and "ok" in res["assoc"] and res["assoc"]["ok"] is not True:
        return "(a+b)+c != a+(b+c)"
    if "d1" in res and "d2" in res and "ok" in res["d1"] and "ok" in res["d2"]:
        d = J_equal(res["d1"]["ok"]["desc"], res["d2"]["ok"]["desc"], "desc")
        if d:
            return f"(a+b)+c and a+(b+c) have different descriptions: {d}"
    if "ab_c" in f and "a_bc" in f:
        if ("ok" in f["ab_c"]) != ("ok" in f["a_bc"]):
            return "only one of (a+b)+c and a+(b+c) forges"
        if "ok" in f["ab_c"]:
            d = _same_arrays(f["ab_c"]["ok"]["forged"], f["a_bc"]["ok"]["forged"], "forge")
            if d:
                return f"(a+b)+c and a+(b+c) forge differently: {d}"
    return None


def nontrivial(ops, ri):
    return any(o.get("_tag") == "add" and "ok" in r for o, r in zip(ops, ri)) or any(o["op"] == "bp.add" for o in ops)
