"""C02 — built-in pulse shapes equal their documented closed forms."""
import math
import struct

import numpy as np

import userfns
from core import enc, q, PA, BluePrint, Element
from gen import G

ID = "C02"
LEAN_MODULE = "BB.Properties.C02"
QUICK_N = 60
THOROUGH_N = 600
LEVEL_NOTE = ("partial w.r.t. floating point: the closed forms are proved over the reals for the formulas regenerated from "
              "PulseAtoms; the IEEE-754 evaluation by numpy is compared numerically (rtol 1e-9). Trusted: Lean kernel + "
              "propext/Classical.choice/Quot.sound, Mathlib, the py2lean translator, the correspondence harness")
TECHNIQUE = ("Lean 4 proof over the reals about kernels regenerated from the source (closed forms, start/peak/step lemmas) + "
             "numeric correspondence of the implementation with the documented closed forms and with the generated kernels")
TOL = 1e-9
RULE = ("direct calls PulseAtoms.<shape>(*args, SR, n) on argument grids: |ampl|,|off|,start,stop <= 10, 0 <= freq <= SR/2 "
        "(incl. 0 and SR/2), sigma in (0.02..2)*dur, mu in (-0.4..0.4)*dur incl. values that put the peak on a grid point, "
        "any phase, SR from {1, 3, 7, 100, 2.4, 1e3, 44100, 1e6, 1e9, 2.5e10, 5e10, random}, n from {2, 3, 5, 7, 10, 64, 91, "
        "random <= 2000 (thorough 1e5)}; observed: number of points == n, every sample against the documented closed form "
        "at t_k = k/SR (rtol 1e-9 * scale), ramp first sample / constant step / end point excluded, gaussian peak and "
        "symmetry, gaussian_smooth_cutoff first sample == offset exactly and peak == ampl+offset, waituntil zeros, arb_func "
        "receives the time axis and kwargs unchanged; the Float instance of the regenerated kernels against the implementation; "
        "recording user shapes with 1, 2 and 4 arguments: called once per forge with the stored arguments, the blueprint's SR "
        "and an int sample count; op programs: blueprints of built-in segments forged through Element.getArrays; "
        "evaluations = direct calls + op programs; non-trivial = all")
ASSUMPTIONS = ["sample rates 1..5e10 and point counts n >= 2 as the property states"]

SRS = [1, 3, 7, 100, 2.4, 1e3, 44100, 1e6, 1e9, 2.5e10, 5e10]
NS = [2, 3, 5, 7, 10, 14, 28, 64, 91, 250]


def bits(x):
    return str(struct.unpack("<Q", struct.pack("<d", float(x)))[0])


def unbits(s):
    return struct.unpack("<d", struct.pack("<Q", int(s)))[0]


def case(g, tier, ci):
    """op programs: a blueprint of built-in segments forged through an element (ties the per-segment block of
    Element.getArrays to the direct call, as C01 does)"""
    SR = g.sr([1, 7, 100, 2.4, 1e3, 1e6, 1e9, 5e10])
    ops, info = g.blueprint("b", SR=SR, nseg=(1, 5), kinds=("ramp", "sine", "gaussian", "gsc"), waits=0.2, markers=False, nmax=60)
    ops += [{"op": "el.new", "id": "e"}, {"op": "el.addBP", "id": "e", "ch": 1, "bp": "b"}, {"op": "el.getArrays", "id": "e", "time": True}]
    if ci % 5 == 2:
        # two channels of equal duration whose off-grid segments round to different totals (2 x 2.4 samples = 4 points,
        # 1 x 4.8 samples = 5 points): every shape still delivers all of its own points
        r = g.r
        k = r.choice([2.4, 3.4, 6.4])
        ops += [{"op": "bp.new", "id": "p1"},
                {"op": "bp.insert", "id": "p1", "pos": -1, "fn": "ramp", "args": [enc(0.0), enc(1.0)], "dur": enc(k / SR), "name": None},
                {"op": "bp.insert", "id": "p1", "pos": -1, "fn": "sine", "args": [enc(SR / 8), enc(0.5), enc(0.0), enc(0.0)], "dur": enc(k / SR), "name": None},
                {"op": "bp.setSR", "id": "p1", "SR": enc(SR)},
                {"op": "bp.new", "id": "p2"},
                {"op": "bp.insert", "id": "p2", "pos": -1, "fn": "ramp", "args": [enc(0.0), enc(1.0)], "dur": enc(2 * k / SR), "name": None},
                {"op": "bp.setSR", "id": "p2", "SR": enc(SR)},
                {"op": "el.new", "id": "e2"}, {"op": "el.addBP", "id": "e2", "ch": 1, "bp": "p1"}, {"op": "el.addBP", "id": "e2", "ch": 2, "bp": "p2"},
                {"op": "el.validate", "id": "e2"}, {"op": "el.getArrays", "id": "e2", "time": True}]
    if ci % 5 == 3:
        # the channel held a raw array first: the blueprint's shapes are what is forged
        ops = ops[:-2] + [{"op": "el.addArray", "id": "e", "ch": 1, "wfm": [q(0.25)] * 7, "SR": enc(SR), "kw": []}] + ops[-2:]
    return ops


def nontrivial(ops, ri):
    return True


# --------------------------------------------------------------------------- closed forms (the documentation's)

def t_axis(SR, n):
    return np.arange(n) / SR


def doc_ramp(start, stop, SR, n):
    return start + (stop - start) * np.arange(n) / n


def doc_sine(freq, ampl, off, phase, SR, n):
    return ampl * np.sin(2 * np.pi * freq * t_axis(SR, n) + phase) + off


def doc_gauss(ampl, sigma, mu, offset, SR, n):
    t = t_axis(SR, n)
    return ampl * np.exp(-((t - mu - n / SR / 2) ** 2) / (2 * sigma ** 2)) + offset


def doc_gsc(ampl, sigma, mu, offset, SR, n):
    t = t_axis(SR, n)
    gfun = lambda x: np.exp(-((x - mu - n / SR / 2) ** 2) / (2 * sigma ** 2))
    return ampl * (gfun(t) - gfun(0.0)) / (1 - gfun(0.0)) + offset


def close(a, b, scale):
    a, b = np.asarray(a, float), np.asarray(b, float)
    if a.shape != b.shape:
        return f"{a.shape[0] if a.ndim else '?'} points returned, {b.shape[0]} requested"
    err = float(np.max(np.abs(a - b))) if a.size else 0.0
    if not err <= TOL * scale:
        i = int(np.argmax(np.abs(a - b)))
        return f"sample {i}: {a[i]!r} vs closed form {b[i]!r} (|diff| {err:.3e})"
    return None


def shape_cases(r, tier, count):
    """(shape name, args, SR, n)"""
    out = []
    big = 2000 if tier == "quick" else 100000
    for i in range(count):
        SR = r.choice(SRS) if r.random() < 0.8 else round(r.uniform(1, 5e4), 3)
        n = r.choice(NS) if r.random() < 0.7 else r.randint(2, big if r.random() < 0.1 else 400)
        dur = n / SR
        k = i % 5
        if k == 0:
            out.append(("ramp", [r.uniform(-10, 10), r.uniform(-10, 10)] if r.random() < 0.8 else [r.choice([0, 1, -3]), r.choice([0, 1, 2.5])], SR, n))
        elif k == 1:
            f = r.choice([0.0, SR / 2, SR / 4, r.uniform(0, SR / 2), r.uniform(0, SR / 2)])
            out.append(("sine", [f, r.uniform(-10, 10), r.uniform(-10, 10), r.uniform(-7, 7)], SR, n))
        elif k in (2, 3):
            sigma = r.uniform(0.02, 2) * dur
            if r.random() < 0.4 and n >= 3:
                kp = r.randint(1, n - 1)           # put the peak on the grid point kp
                mu = kp / SR - dur / 2
            else:
                mu = r.uniform(-0.4, 0.4) * dur
            out.append(("gaussian" if k == 2 else "gaussian_smooth_cutoff", [r.uniform(-10, 10), sigma, mu, r.uniform(-10, 10)], SR, n))
        else:
            out.append(("waituntil", [r.uniform(0, 5)], SR, n))
    return out


def check_shape(name, args, SR, n):
    """the property's clauses for one direct call; returns None or what fails"""
    f = getattr(PA, name)
    SRa = int(SR) if float(SR).is_integer() and SR < 2 ** 53 else SR
    y = np.asarray(f(*args, SRa, n))
    if y.shape != (n,):
        return f"{name} returned {y.shape} points, {n} requested"
    if name == "ramp":
        s, e = args
        d = close(y, doc_ramp(s, e, SR, n), max(1, abs(s), abs(e)))
        if d:
            return f"ramp: {d}"
        if abs(y[0] - s) > TOL * max(1, abs(s)):
            return f"ramp: first sample {y[0]!r} is not start {s!r}"
        if s != e and n >= 2 and abs(y[-1] - e) <= abs(e - s) / n * 0.5:
            return "ramp: the end point (stop) is included"
    elif name == "sine":
        fr, a, o, ph = args
        phase_err = 2 * np.pi * fr * (n / SR) * 4e-16 + 1e-12      # float error of the argument of sin
        d = close(y, doc_sine(fr, a, o, ph, SR, n), max(1, abs(a), abs(o)) * max(1.0, phase_err / TOL))
        if d:
            return f"sine: {d}"
    elif name in ("gaussian", "gaussian_smooth_cutoff"):
        a, sg, mu, o = args
        doc = doc_gauss if name == "gaussian" else doc_gsc
        if name == "gaussian_smooth_cutoff":
            g0 = math.exp(-((0 - mu - n / SR / 2) ** 2) / (2 * sg ** 2))
            if 1 - g0 < 1e-6:
                return None          # ill-conditioned normalisation (peak practically at t = 0): outside the sensible range
            cond = 1 / (1 - g0)
        else:
            cond = 1.0
        d = close(y, doc(a, sg, mu, o, SR, n), max(1, abs(a) * cond, abs(o)))
        if d:
            return f"{name}: {d}"
        if name == "gaussian_smooth_cutoff" and y[0] != o:
            return f"gaussian_smooth_cutoff: first sample {y[0]!r} is not exactly offset {o!r}"
        tpk = n / SR / 2 + mu
        kp = tpk * SR
        if abs(kp - round(kp)) < 1e-9 and 0 <= round(kp) < n and (name == "gaussian" or round(kp) != 0):
            v = y[int(round(kp))]
            if abs(v - (a + o)) > 1e-7 * max(1, abs(a) * cond, abs(o)):
                return f"{name}: value at the centre shifted by mu is {v!r}, not ampl+offset = {a + o!r}"
        if a >= 0 and np.max(y) > a + o + 1e-9 * max(1, abs(a) * cond, abs(o)):
            return f"{name}: a sample exceeds ampl+offset"
    elif name == "waituntil":
        if np.any(y != 0):
            return "waituntil: not all zeros"
    return None


def check_kernel(model, name, args, SR, n):
    """the regenerated Float kernel against the implementation"""
    r = model.run([{"op": "pulse.eval", "fn": name, "args": [bits(a) for a in args], "SR": bits(SR), "n": n}])[0]
    if "ok" not in r:
        return f"model cannot evaluate {name}"
    ym = np.array([unbits(s) for s in r["ok"]])
    SRa = int(SR) if float(SR).is_integer() and SR < 2 ** 53 else SR
    y = np.asarray(getattr(PA, name)(*args, SRa, n), float)
    scale = max(1.0, float(np.max(np.abs(y))) if y.size else 1.0)
    if name == "sine":
        scale *= max(1.0, (2 * np.pi * args[0] * n / SR * 4e-16 + 1e-12) / TOL)
    if name == "gaussian_smooth_cutoff":
        g0 = math.exp(-((0 - args[2] - n / SR / 2) ** 2) / (2 * args[1] ** 2))
        if 1 - g0 < 1e-6:
            return None
        scale *= 1 / (1 - g0)
    d = close(y, ym, scale)
    return f"generated kernel {name} (Float) vs implementation: {d}" if d else None


def _guarded(fn, *a):
    """an exception out of the library during a direct check is a result (the unchanged library raises none here)"""
    try:
        return fn(*a)
    except Exception as ex:       # noqa: BLE001
        return f"{fn.__name__}: the library raised {type(ex).__name__}: {str(ex)[:200]}"


def check_calls(r):
    """user shapes are called once per forge with the stored arguments, the blueprint's SR and an int count"""
    SR = r.choice([10, 100, 2.5, 1e6, 12345.678])
    bp = BluePrint()
    want = []
    k = r.randint(1, 5)
    for j in range(k):
        nm = r.choice(["const", "lin2", "poly4", "istep", "icount"])
        if j == 0 and k > 1 and r.random() < 0.5:
            nm = r.choice(["istep", "icount"])      # the FIRST shape hands back ints (a list / an int array): the others keep their values
        f = userfns.USER[nm]
        ar = {"const": 1, "lin2": 2, "poly4": 4, "istep": 1, "icount": 1}[nm]
        args = tuple(r.choice([r.uniform(-2, 2), r.randint(-3, 3)]) for _ in range(ar))
        n = r.randint(2, 40)
        frac = r.uniform(-0.4, 0.4) if r.random() < 0.5 else 0.0
        bp.insertSegment(-1, f, args, dur=(n + frac) / SR)
        want.append((nm, args, SR, n))
    bp.setSR(SR)
    e = Element()
    e.addBluePrint(1, bp)
    del userfns.CALLS[:]
    forged = e.getArrays()
    calls = list(userfns.CALLS)
    # the blocks are what the shapes return for these arguments
    expect = np.concatenate([np.asarray(userfns.USER[wn](*wa, wsr, wnp), dtype=float) for wn, wa, wsr, wnp in want])
    del userfns.CALLS[len(calls):]
    got = np.asarray(forged[1]["wfm"], dtype=float)
    if got.shape != expect.shape or not np.array_equal(got, expect):
        i = int(np.argmax(got != expect)) if got.shape == expect.shape else -1
        return f"the forged waveform is not the concatenation of what the user shapes return (first difference at sample {i}: {got[i] if i >= 0 else got.shape} vs {expect[i] if i >= 0 else expect.shape})"
    if len(calls) != len(want):
        return f"{len(want)} user segments, {len(calls)} calls of user shapes in one forge"
    for (nm, args, sr, npts, tname), (wn, wa, wsr, wnp) in zip(calls, want):
        if nm != wn or tuple(args) != tuple(wa):
            return f"user shape {wn}{wa} was called as {nm}{tuple(args)}"
        if any(type(a) is not type(b) for a, b in zip(args, wa)):
            return f"user shape {wn}: argument types changed {args} vs {wa}"
        if sr != wsr:
            return f"user shape {wn}: called with SR {sr!r}, blueprint has {wsr!r}"
        if tname not in ("int", "int64", "int32") or int(npts) != wnp:
            return f"user shape {wn}: called with npts {npts!r} ({tname}), segment has {wnp} samples"
    return None


def check_calls_twins(r):
    """two channels of ONE element carrying shapes that look alike in a description (made by one factory: same qualified
    name, same arguments, durations, names) but are different functions; and a shape with an array-valued argument.  Every
    segment's own function is called, once, with exactly its stored arguments, and its block holds what it returned."""
    SR = r.choice([10, 100, 1e6])
    n = r.randint(3, 30)
    log = []

    def make_shape(sign):
        def shape(level, SR, npts):
            log.append((sign, level, SR, npts))
            return sign * level * np.ones(int(npts))
        return shape
    up, down = make_shape(1.0), make_shape(-1.0)
    lv = r.choice([0.5, 1, -0.25])
    e = Element()
    pairs = [(1, up), (2, down)]
    if r.random() < 0.5:
        pairs.reverse()          # channel 2 assigned before channel 1: every channel still gets its own shape's block
    for ch, f in pairs:
        bp = BluePrint()
        bp.insertSegment(-1, f, (lv,), dur=n / SR, name="lvl")
        bp.setSR(SR)
        e.addBluePrint(ch, bp)
    arrs = e.getArrays()
    if sorted(c[0] for c in log) != [-1.0, 1.0]:
        return f"two channels with two different user shapes of one factory: calls made {[(c[0], c[1]) for c in log]} (each shape once expected)"
    for ch, sign in ((1, 1.0), (2, -1.0)):
        if not np.array_equal(np.asarray(arrs[ch]["wfm"], float), sign * lv * np.ones(n)):
            return f"channel {ch}: the block is not what this channel's own shape returned ({arrs[ch]['wfm'][:3]} ..., expected {sign * lv})"
    # an array-valued argument (a table of levels) reaches the shape as the array that was stored
    got = {}

    def table(levels, SR, npts):
        got["levels"] = levels
        return np.resize(np.asarray(levels, float) * 2, int(npts))
    levels = np.array([r.uniform(-1, 1) for _ in range(3)])
    bp = BluePrint()
    bp.insertSegment(-1, table, (levels,), dur=n / SR, name="tab")
    bp.setSR(SR)
    e2 = Element()
    e2.addBluePrint(1, bp)
    w = np.asarray(e2.getArrays()[1]["wfm"], float)
    if not isinstance(got.get("levels"), np.ndarray) or not np.array_equal(got["levels"], levels):
        return f"user shape with an array argument was called with {type(got.get('levels')).__name__} {got.get('levels')!r}, stored: ndarray {levels!r}"
    if not np.array_equal(w, np.resize(levels * 2, n)):
        return "user shape with an array argument: the block is not what the shape returns for the stored arguments"
    return None


def check_arb(r):
    SR = r.choice([1, 10, 2.5, 1e6, 1e9])
    n = r.randint(2, 50)
    seen = {}

    def rec(time, **kw):
        seen["time"] = np.array(time)
        seen["kw"] = dict(kw)
        return np.zeros(len(time))

    kw = {"a": r.uniform(-1, 1), "freq": r.randint(1, 5), "label": "x"}
    form = r.randrange(4)
    if form == 1:
        # a user function whose own keywords happen to be called SR / npts (a slew rate, a number of pulses)
        def rec(time, SR=2e5, npts=None, start=0.0):      # noqa: F811
            seen["time"] = np.array(time)
            seen["kw"] = {"SR": SR, "npts": npts, "start": start}
            return np.zeros(len(time))
        kw = {"SR": r.choice([2e5, 7.5]), "npts": r.choice([3, None]), "start": -0.25}
    elif form == 2:
        def rec(time, npts=None, **rest):                 # noqa: F811
            seen["time"] = np.array(time)
            seen["kw"] = {"npts": npts, **rest}
            return np.zeros(len(time))
        kw = {"npts": None, "time_unit": "s"}
    elif form == 3:
        kw = {}
    out = PA.arb_func(rec, dict(kw), SR, n)
    if len(out) != n:
        return f"arb_func returned {len(out)} points, {n} requested"
    if seen.get("kw") != kw:
        return f"arb_func passed kwargs {seen.get('kw')} instead of {kw}"
    d = close(seen["time"], np.arange(n) / SR, max(1.0, n / SR))
    if d:
        return f"arb_func time axis: {d}"
    return None


def direct(seed, tier, model, stats):
    import random
    r = random.Random(seed * 7919 + 17)
    count = 400 if tier == "quick" else 10000
    fails = []
    tested = {"closed_form": 0, "kernel": 0, "calls": 0, "arb": 0}
    cases = list(shape_cases(r, tier, count))
    # narrow gaussians (the exponential underflows to 0 in the tails: still the closed form), placed after smooth-cutoff calls
    for j in range(6):
        SRn, nn = r.choice([1e6, 1e9, 100]), r.choice([200, 1000])
        cases.insert(10 + 7 * j, ("gaussian_smooth_cutoff", [1.0, 0.2 * nn / SRn, 0.0, 0.0], SRn, nn))
        cases.insert(11 + 7 * j, ("gaussian", [r.uniform(-2, 2), r.choice([0.004, 0.008]) * nn / SRn, 0.0, 0.25], SRn, nn))
    for i, (name, args, SR, n) in enumerate(cases):
        try:
            with np.errstate(all="ignore"):
                pass
            d = check_shape(name, args, SR, n)
            if d is None and i % 3 == 0:
                # what a shape returns belongs to the caller: rescale it in place, the next call is unaffected
                SRa = int(SR) if float(SR).is_integer() and i % 2 else SR
                y1 = getattr(PA, name)(*args, SRa, n)
                keep = np.array(y1, dtype=float, copy=True)
                if isinstance(y1, np.ndarray) and y1.flags.writeable:
                    y1 += 0.05
                    y1[: max(1, n // 2)] = 1.0
                y2 = np.asarray(getattr(PA, name)(*args, SRa, n), dtype=float)
                if y2.shape != keep.shape or not np.array_equal(y2, keep):
                    d = f"PulseAtoms.{name}: the same call returns other values after the caller wrote into the array it got the first time"
        except Exception as e:  # noqa: BLE001 -- the shape itself raised
            d = f"PulseAtoms.{name} raised {type(e).__name__}: {e}"
        tested["closed_form"] += 1
        if d is None and (i % 4 == 0 or tier != "quick") and n <= 3000:
            d = check_kernel(model, name, args, SR, n)
            tested["kernel"] += 1
        if d:
            fails.append({"what": d, "call": {"shape": name, "args": [repr(a) for a in args], "SR": repr(SR), "npts": n},
                          "how_to_replay": f"PulseAtoms.{name}(*{args!r}, {SR!r}, {n})"})
            if len(fails) >= 3:
                break
    # long waveforms at high rates: the error of the sine must not grow with the sample index (reference: the phase
    # 2*pi*f*k/SR reduced modulo one turn in integer arithmetic before it is converted to floating point)
    for SRl, fl, nl in ((50_000_000_000, 7_300_000_000, 300_000), (25_000_000_000, 12_499_999_999, 200_000)) if tier == "quick" else \
            ((50_000_000_000, 7_300_000_000, 2_000_000), (25_000_000_000, 12_499_999_999, 1_000_000), (1_000_000_000, 333_333_333, 1_000_000)):
        ph = r.uniform(-3, 3)
        turns = np.array([(fl * k) % SRl for k in range(0, nl)], dtype=float) / SRl
        ref = 1.5 * np.sin(2 * np.pi * turns + ph) + 0.25
        out = np.asarray(PA.sine(fl, 1.5, 0.25, ph, SRl, nl), dtype=float)
        tested["closed_form"] += 1
        if out.shape != ref.shape or float(np.max(np.abs(out - ref))) > 2e-8:
            i = int(np.argmax(np.abs(out - ref))) if out.shape == ref.shape else -1
            fails.append({"what": f"sine of {nl} points at {SRl} Sa/s, {fl} Hz: sample {i} deviates from ampl*sin(2*pi*f*k/SR+phase)+off by "
                                  f"{float(np.max(np.abs(out - ref))) if out.shape == ref.shape else 'shape'} (tolerance 2e-8)",
                          "call": {"shape": "sine", "args": [fl, 1.5, 0.25, ph], "SR": SRl, "npts": nl}})
    for _ in range(60 if tier == "quick" else 1000):
        d = _guarded(check_calls, r)
        tested["calls"] += 1
        if d:
            fails.append({"what": d, "call": "user-shape call convention (Element.getArrays on a blueprint of recording shapes)"})
            break
    for _ in range(20 if tier == "quick" else 200):
        d = _guarded(check_calls_twins, r)
        tested["calls"] += 1
        if d:
            fails.append({"what": d, "call": "user-shape call convention (two look-alike shapes on two channels; array-valued argument)"})
            break
    for _ in range(30 if tier == "quick" else 300):
        d = _guarded(check_arb, r)
        tested["arb"] += 1
        if d:
            fails.append({"what": d, "call": "PulseAtoms.arb_func(recording function, kwargs, SR, n)"})
            break
    stats["cases"] += sum(tested.values())
    stats["nontrivial"] += sum(tested.values())
    stats["extra"] = {"direct": tested}
    return fails
