"""A feature-rich random program shared by the sequence-level property checks: one sequence with everything switched
on (blueprint and raw-array channels, int and str channel names, waituntil, both marker kinds, flags, subsequences with
settings of their own, delays, filter compensations by f_cut and by tau with positive and negative orders, sequencing,
the sequence's own sample rate equal to or different from its elements', positions filled in any order), then a random
walk over deriving, mutating and read-only calls.  After every step the touched objects are described and forged and the
reference-level observation is taken.  Everything is compared with the models; nothing here is property specific -
seeded changes that need two features at once tend to be caught here first."""
from core import enc, q
from gen import SeqGen
from props.c20 import seg_table, FN_PARAMS


def _targets(ops, info):
    """(pos, ch, segment name, fn key) of blueprint segments inside plain elements of sequence `s`"""
    out = []
    for pos, eid in info["els"].items():
        for o in ops:
            if o["op"] == "el.addBP" and o["id"] == eid:
                segs = seg_table([x for x in ops if x.get("id") == o["bp"]])
                for n, f in segs:
                    if f in ("ramp", "sine"):
                        out.append((pos, o["ch"], n, f))
    return out


def program(g, ci):
    r = g.r
    sg = SeqGen(g)
    SR = r.choice([100, 1e3, 1e6, 1e9, 10, 1.2e9, 2.4e9])
    with_subs = r.random() < 0.3
    factor = 1 if with_subs else r.choice([1, 1, 1, 2, 0.5])
    ops, info = sg.sequence("s", npos=(1, 3), nch=(1, 3), SR=SR, raw_p=0.3, kinds=("ramp", "sine"), flags_p=0.3,
                            delays_p=0.0, filters_p=0.4, sub_p=0.35 if with_subs else 0.0, seq_p=0.4, waits=0.3, amp=1e6,
                            seq_sr_factor=factor, chan_pool=[1, 2, 3, "A", "B"])
    chans, P = info["chans"], info["P"]
    # delays: whole sample counts of the elements, pairwise 0 or >= 2 samples apart (front/back padding 0 or >= 2
    # samples); the odd pool is not whole in samples of a sequence running at half the rate
    dpool = [0, 2, 4, 6] if r.random() < 0.6 else [0, 3, 5, 7]
    for ch in chans:
        if r.random() < 0.4:
            ops.append({"op": "sq.setDelay", "id": "s", "ch": ch, "v": enc(r.choice(dpool) / SR)})
    has_arrays = any(o["op"] == "el.addArray" for o in ops)
    live = ["s"]
    rerated = False
    names = sorted({o[k] for o in ops for k in ("id", "to") if isinstance(o.get(k), str)})

    def observe(ids):
        out = []
        for x in ids:
            out += [{"op": "sq.desc", "id": x}, {"op": "sq.forge", "id": x, "delays": True, "filters": True, "time": False}]
        out.append({"op": "heap.summary", "vars": sorted(set(names + live))})
        return out

    if ci % 9 == 4:
        # a sequence that lacks a setting (sample rate, an amplitude, an offset): getters are read first, outputs raise
        drop = r.choice(["sq.setSR", "sq.setAmp", "sq.setOff"])
        victim = next((o for o in ops if o["op"] == drop and o["id"] == "s"), None)
        if victim is not None and not with_subs:
            ops.remove(victim)
            ops += [{"op": "sq.SR", "id": "s"}, {"op": "sq.channels", "id": "s"}, {"op": "sq.points", "id": "s"},
                    {"op": "sq.awg", "id": "s"}, {"op": "sq.seqx", "id": "s"}]
    ops += observe(["s"])
    tg = _targets(ops, info)
    k = 0
    for _ in range(r.randint(6, 14)):
        k += 1
        x = r.choice(live)
        u = r.random()
        step = []
        touched = [x]
        if u < 0.12:
            new = f"c{k}"
            step = [{"op": "sq.copy", "id": x, "to": new}]
            live.append(new)
            touched = [x, new]
        elif u < 0.2 and len(live) >= 2:
            y = r.choice(live)
            new = f"t{k}"
            step = [{"op": "sq.add", "a": x, "b": y, "to": new, "_errclass": True}]
            live.append(new)
            touched = [x, y, new]
        elif u < 0.26 and not with_subs and tg and x == "s":
            pos, ch, n, f = r.choice(tg)
            new = f"v{k}"
            nvals = r.choice([0, 1, 2])
            step = [{"op": "tl.repvary", "seq": "s", "to": new, "lens": [1, 1, 1, 1, 1], "poss": [pos],
                     "vars": [{"chan": ch, "name": n, "arg": enc(r.choice(FN_PARAMS[f][1:] if f == "sine" else FN_PARAMS[f])),
                               "vals": [enc(r.choice([0.25, -0.5, 0.75])) for _ in range(nvals)]}], "_errclass": True}]
            live.append(new)
            touched = ["s", new]
        elif u < 0.36:
            p = r.randint(1, P + 1)
            fld = r.choice(["twait", "nrep", "jump_input", "jump_target", "goto"])
            step = [{"op": "sq.setSeq", "id": x, "pos": p, "field": fld, "v": r.choice([0, 1, 2, 3])}]
            if r.random() < 0.2:
                # the same number as a whole float / a bool (JSON can write both)
                step[0]["_as"] = "float" if step[0]["v"] > 1 or fld in ("nrep", "goto", "jump_target") else "bool"
        elif u < 0.44:
            ch = r.choice(chans)
            step = [r.choice([{"op": "sq.setAmp", "id": x, "ch": ch, "v": enc(r.choice([1e6, 2e6]))},
                              {"op": "sq.setOff", "id": x, "ch": ch, "v": enc(r.choice([0, 0.25, -0.5]))},
                              {"op": "sq.setRange", "id": x, "ch": ch, "ampl": enc(r.choice([1e6, 3e6])), "offset": enc(r.choice([0, 0.125]))}])]
        elif u < 0.52:
            # (now and then for a channel the sequence does not have: stored, moves nothing)
            step = [{"op": "sq.setDelay", "id": x, "ch": r.choice(list(chans) * 4 + [9]), "v": enc(r.choice(dpool) / SR)}]
        elif u < 0.62:
            fc = SR * r.choice([1e-2, 0.12, 0.4])
            spec = {"f_cut": enc(fc), "tau": None} if r.random() < 0.5 else {"f_cut": None, "tau": enc(1 / fc)}
            step = [{"op": "sq.setFilter", "id": x, "ch": r.choice(chans), "kind": r.choice(["HP", "LP", "LP", "hp"]),
                     "order": r.choice([-2, -1, 1, 2]), "orderIsInt": True, **spec, "_errclass": True}]
        elif u < 0.68:
            step = [{"op": "sq.setSR", "id": x, "v": enc(SR * r.choice([1, 2, 0.5]))}]
            rerated = True
        elif u < 0.72:
            step = [{"op": "sq.setName", "id": x, "name": r.choice(["rabi", "t1", ""])}]
        elif u < 0.8 and tg and x == "s":
            pos, ch, n, f = r.choice(tg)
            arg = r.choice(FN_PARAMS[f][1:] if f == "sine" else FN_PARAMS[f])
            step = [{"op": "sq.elChangeArg", "id": "s", "pos": pos, "ch": ch, "name": n, "arg": enc(arg),
                     "value": enc(r.choice([0.375, -0.625, 1.0])), "all": r.random() < 0.2, "_np": r.random() < 0.3}]
        elif u < 0.86 and info["els"] and x == "s":
            # an element put (again) at a position that may be occupied
            pos = r.choice(list(info["els"]))
            eid = info["els"][pos]
            pre = []
            if r.random() < 0.5:
                pre = [{"op": "el.addFlags", "id": eid, "ch": r.choice(chans), "flags": [enc(r.choice([0, 1, "", "T", 4])) for _ in range(4)]}]
            step = pre + [{"op": "sq.addElement", "id": "s", "pos": r.choice([pos, pos, P + 1]), "el": eid}]
            if r.random() < 0.3:
                # ... or an element that is refused (channels of unequal length), at an occupied position
                step = [{"op": "el.new", "id": f"bad{k}"},
                        {"op": "el.addArray", "id": f"bad{k}", "ch": chans[0], "wfm": [q(0)] * 5, "SR": enc(SR), "kw": []},
                        {"op": "el.addArray", "id": f"bad{k}", "ch": "zz", "wfm": [q(0)] * 7, "SR": enc(SR), "kw": []},
                        {"op": "sq.addElement", "id": "s", "pos": pos, "el": f"bad{k}"}]
                names.append(f"bad{k}")
        else:
            if r.random() < 0.2 and factor == 1 and not rerated:
                # written to JSON and read back: the read-back object joins the walk (only while the sequence runs at its
                # elements' rate: reading back re-rates the blueprints, and half a rate makes rounding ties)
                new = f"j{k}"
                ops += [{"op": "sq.json", "id": x, "to": new, "_errclass": False}] + observe([new])
                names.append(new)
            rd = [{"op": "sq.channels", "id": x}, {"op": "sq.points", "id": x}, {"op": "sq.duration", "id": x}, {"op": "sq.check", "id": x},
                  {"op": "sq.check", "id": x, "verbose": True}, {"op": "sq.len", "id": x},
                  {"op": "sq.SR", "id": x},
                  {"op": "sq.forge", "id": x, "delays": r.random() < 0.5, "filters": r.random() < 0.5, "time": r.random() < 0.5}]
            if not with_subs:
                rd += [{"op": "sq.awg", "id": x}, {"op": "sq.seqx", "id": x}, {"op": "sq.seqx", "id": x, "flags": True}]
            if len(live) >= 2:
                rd.append({"op": "sq.eq", "a": x, "b": r.choice(live), "_nocmp": has_arrays})
            step = [r.choice(rd)]
        ops += step + observe(touched)
    return ops
