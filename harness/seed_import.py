#!/venv/bin/python
"""Confirm a sub-agent's mutant in a scratch worktree and file it under /verif/seeded/<id>/.

    seed_import.py <property> <mutdir> <worktree> <seed-id>

In the worktree (never /repo): demo passes on the clean tree, patch applies, demo fails with it,
the pinned stable tests still pass with it.  Writes seeded/<seed-id>/{patch.diff,demo.py,notes.md,meta.json}.
Development tool; not registered in MANIFEST.json."""
import json
import os
import shutil
import subprocess
import sys
import tempfile
import xml.etree.ElementTree as ET

VERIF = os.path.dirname(os.path.dirname(os.path.abspath(__file__)))


def run(cmd, **kw):
    return subprocess.run(cmd, capture_output=True, text=True, **kw)


def main():
    prop, mutdir, wt, sid = sys.argv[1:5]
    env = {**os.environ, "PYTHONPATH": os.path.join(wt, "src")}
    meta = {"seed_id": sid, "property": prop, "ran": []}
    run(["git", "-C", wt, "checkout", "--", "."])
    demo = os.path.join(mutdir, "demo.py")
    r0 = run(["/venv/bin/python", demo], env=env, cwd=wt)
    meta["demo_exit_clean"] = r0.returncode
    meta["ran"].append(f"PYTHONPATH={wt}/src /venv/bin/python demo.py  (clean) -> exit {r0.returncode}")
    ra = run(["git", "-C", wt, "apply", os.path.join(mutdir, "patch.diff")])
    if ra.returncode != 0:
        print(sid, "patch does not apply", ra.stderr[:200])
        return 1
    try:
        r1 = run(["/venv/bin/python", demo], env=env, cwd=wt)
        meta["demo_exit_mutant"] = r1.returncode
        tail = (r1.stdout + r1.stderr).strip().splitlines()
        meta["demo_message"] = tail[-1][:300] if tail else ""
        meta["ran"].append(f"git apply patch.diff; PYTHONPATH={wt}/src /venv/bin/python demo.py -> exit {r1.returncode}")
        stable = json.load(open("/root/.vp/BASELINE.json"))["stable_pass"]
        with tempfile.TemporaryDirectory() as td:
            jx = os.path.join(td, "j.xml")
            run(["/venv/bin/python", "-m", "pytest", "-q", "-p", "no:cacheprovider", "--timeout=900",
                 "--continue-on-collection-errors", f"--junitxml={jx}", "tests"], env=env, cwd=wt)
            passed = set()
            for tc in ET.parse(jx).getroot().iter("testcase"):
                if not any(ch.tag in ("failure", "error", "skipped") for ch in tc):
                    passed.add(f"{tc.get('classname')}::{tc.get('name')}")
        missing = [t for t in stable if t not in passed]
        meta["stable_tests_passing_with_mutant"] = len(stable) - len(missing)
        meta["stable_tests_total"] = len(stable)
        meta["stable_tests_failing_with_mutant"] = missing
        meta["ran"].append(f"pytest tests (mutant applied): {len(stable) - len(missing)}/{len(stable)} pinned stable tests pass")
    finally:
        run(["git", "-C", wt, "checkout", "--", "."])
    notes = os.path.join(mutdir, "notes.md")
    meta["needs_to_manifest"] = open(notes).read()[:1500] if os.path.exists(notes) else ""
    ok = meta["demo_exit_clean"] == 0 and meta["demo_exit_mutant"] != 0 and not missing
    meta["confirmed"] = ok
    if ok:
        out = os.path.join(VERIF, "seeded", sid)
        os.makedirs(out, exist_ok=True)
        for f in ("patch.diff", "demo.py", "notes.md"):
            if os.path.exists(os.path.join(mutdir, f)):
                shutil.copy(os.path.join(mutdir, f), os.path.join(out, f))
        json.dump(meta, open(os.path.join(out, "meta.json"), "w"), indent=1)
    print(sid, "confirmed" if ok else f"NOT confirmed: {meta}")
    return 0


sys.exit(main())
