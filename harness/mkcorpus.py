#!/venv/bin/python
"""Development tool: build the regression corpus from the repaired defects.

For every `fixed:` line of KNOWN_FINDINGS.txt: scratch worktree of /repo, revert that fix commit
there, run the property's quick check with BB_REPO pointing at it; the shrunk failing program of
the replay file becomes corpus/<property>/<Dn>_<commit>.json.  /repo is never modified."""
import glob, json, os, re, shutil, subprocess, sys, tempfile

VERIF = os.path.dirname(os.path.dirname(os.path.abspath(__file__)))


def main():
    base = tempfile.mkdtemp(prefix="bbcorpus")
    done = []
    try:
        for line in open(os.path.join(VERIF, "KNOWN_FINDINGS.txt")):
            m = re.match(r"fixed:\s+property=(\S+)\s+(\S+)\s+(D\d+)\s+(.*)$", line.strip())
            if not m:
                continue
            pid, commit, dn, what = m.groups()
            also = re.findall(r"also (C\d\d)", what)
            wt = os.path.join(base, dn)
            subprocess.run(["git", "-C", "/repo", "worktree", "add", "-q", "--detach", wt, "HEAD"], check=True)
            try:
                r = subprocess.run(["git", "-C", wt, "revert", "-n", commit], capture_output=True, text=True)
                if r.returncode != 0:
                    print(dn, "revert failed", r.stderr[:200])
                    continue
                for p in [pid] + also:
                    before = set(glob.glob(os.path.join(VERIF, "replays", f"{p}-*.json")))
                    rr = subprocess.run(["/venv/bin/python", "harness/check.py", "--property", p, "--tier", "quick"], cwd=VERIF,
                                        capture_output=True, text=True, env={**os.environ, "BB_REPO": wt})
                    new = sorted(set(glob.glob(os.path.join(VERIF, "replays", f"{p}-*.json"))) - before, key=os.path.getmtime)
                    print(dn, p, "exit", rr.returncode, [ln for ln in rr.stdout.splitlines() if ln.startswith("VIOLATION")][:1], flush=True)
                    if rr.returncode == 1 and new:
                        d = json.load(open(new[-1]))
                        if "ops" in d:
                            os.makedirs(os.path.join(VERIF, "corpus", p), exist_ok=True)
                            out = os.path.join(VERIF, "corpus", p, f"{dn}_{commit}.json")
                            json.dump({"what": f"{dn} (fixed by {commit}): {what}", "ops": d["ops"],
                                       "difference_with_the_defect": d.get("first_difference", {}).get("diff")}, open(out, "w"), indent=1)
                            done.append(out)
            finally:
                subprocess.run(["git", "-C", "/repo", "worktree", "remove", "--force", wt])
    finally:
        shutil.rmtree(base, ignore_errors=True)
        subprocess.run(["git", "-C", "/repo", "worktree", "prune"])
        subprocess.run(["/venv/bin/python", "harness/py2lean.py"], cwd=VERIF, capture_output=True)
    print(len(done), "corpus entries written")


main()
