#!/venv/bin/python
"""Development sweep (not registered in MANIFEST.json): run checks against every seeded change.

    sweep.py [--all-props] [--tier quick] [seed-id ...]

For each /verif/seeded/<id>/patch.diff: make a scratch git worktree of /repo outside /repo and
/verif, apply the patch there, run the check of the property the change was written for (and,
with --all-props, every other check) with BB_REPO pointing at the scratch tree, remove the
worktree.  /repo itself is never modified.  Writes seeded/RESULTS.json."""
import argparse, glob, json, os, shutil, subprocess, sys, tempfile

VERIF = os.path.dirname(os.path.dirname(os.path.abspath(__file__)))
ALL = [f"C{i:02d}" for i in range(1, 21)]


def main():
    ap = argparse.ArgumentParser()
    ap.add_argument("ids", nargs="*")
    ap.add_argument("--all-props", action="store_true")
    ap.add_argument("--tier", default="quick")
    ap.add_argument("--out", default=os.path.join(VERIF, "seeded", "RESULTS.json"))
    a = ap.parse_args()
    ids = a.ids or sorted(os.path.basename(p) for p in glob.glob(os.path.join(VERIF, "seeded", "C*")))
    results = json.load(open(a.out)) if os.path.exists(a.out) else {}
    base = tempfile.mkdtemp(prefix="bbsweep")
    try:
        for sid in ids:
            d = os.path.join(VERIF, "seeded", sid)
            meta = json.load(open(os.path.join(d, "meta.json")))
            wt = os.path.join(base, sid)
            subprocess.run(["git", "-C", "/repo", "worktree", "add", "-q", "--detach", wt, "HEAD"], check=True)
            try:
                r = subprocess.run(["git", "-C", wt, "apply", os.path.join(d, "patch.diff")], capture_output=True, text=True)
                if r.returncode != 0:
                    results[sid] = {"error": "patch does not apply: " + r.stderr[:200]}
                    continue
                props = ALL if a.all_props else [meta["property"]]
                res = results.get(sid, {}) if isinstance(results.get(sid), dict) else {}
                for pid in props:
                    rr = subprocess.run(["/venv/bin/python", "harness/check.py", "--property", pid, "--tier", a.tier], cwd=VERIF,
                                        capture_output=True, text=True, env={**os.environ, "BB_REPO": wt})
                    v = [ln for ln in rr.stdout.splitlines() if ln.startswith("VIOLATION")]
                    res[pid] = {"exit": rr.returncode, "line": v[0] if v else ""}
                    print(sid, pid, rr.returncode, v[0] if v else "", flush=True)
                res["caught_by"] = sorted(p for p, x in res.items() if isinstance(x, dict) and x.get("exit") == 1)
                res["property"] = meta["property"]
                results[sid] = res
            finally:
                subprocess.run(["git", "-C", "/repo", "worktree", "remove", "--force", wt])
            json.dump(results, open(a.out, "w"), indent=1, sort_keys=True)
    finally:
        shutil.rmtree(base, ignore_errors=True)
        subprocess.run(["git", "-C", "/repo", "worktree", "prune"])
    # leave the generated kernels as /repo has them
    subprocess.run(["/venv/bin/python", "harness/py2lean.py"], cwd=VERIF, capture_output=True)
    missed = [s for s, x in results.items() if not x.get("caught_by")]
    print("missed:", missed)


main()
