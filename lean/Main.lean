/-
  Main — line-protocol driver of the executable model.
  stdin: one JSON program per line: {"ops":[{...},...]}   stdout: {"res":[...]} per line.
  Run with `lake env lean --run Main.lean`.
-/
import BB.Model.Codec
import BB.Gen.KFloat
import BB.Model.Ripasso
import BB.Model.Heap

open Lean BB BB.Codec

structure Pool where
  bps : List (String × BP) := []
  els : List (String × Element) := []
  sqs : List (String × Sequence) := []

namespace Pool
def bp? (p : Pool) (k : String) : Option BP := p.bps.lookup k
def el? (p : Pool) (k : String) : Option Element := p.els.lookup k
def sq? (p : Pool) (k : String) : Option Sequence := p.sqs.lookup k
def setBP (p : Pool) (k : String) (b : BP) : Pool := { p with bps := Dict.upsert p.bps k b }
def setEl (p : Pool) (k : String) (e : Element) : Pool := { p with els := Dict.upsert p.els k e }
def setSq (p : Pool) (k : String) (s : Sequence) : Pool := { p with sqs := Dict.upsert p.sqs k s }
end Pool

def fStr (j : Json) (k : String) : String := (asStr? (getField j k)).getD ""
def fInt (j : Json) (k : String) : Int := (asInt? (getField j k)).getD 0
def fBool (j : Json) (k : String) : Bool := asBool (getField j k)
def fVal (j : Json) (k : String) : Val := asVal (getField j k)
def fRat (j : Json) (k : String) : Rat := (asRat? (getField j k)).getD 0
def fOptInt (j : Json) (k : String) : Option Int := asInt? (getField j k)

def noObj : Json := Json.mkObj [("err", Json.str "NoSuchObject")]

def asVariation (j : Json) : Tools.Variation :=
  { chan := asChan (getField j "chan"), name := fStr j "name", arg := fVal j "arg",
    vals := (asArr (getField j "vals")).map asVal }

def withBP (p : Pool) (op : Json) (f : BP → Res BP) : Pool × Json :=
  match p.bp? (fStr op "id") with
  | none => (p, noObj)
  | some b => let r := f b; (p.setBP (fStr op "id") r.st, jResErr r.err)

def withEl (p : Pool) (op : Json) (f : Element → Res Element) : Pool × Json :=
  match p.el? (fStr op "id") with
  | none => (p, noObj)
  | some e => let r := f e; (p.setEl (fStr op "id") r.st, jResErr r.err)

def withSq (p : Pool) (op : Json) (f : Sequence → Res Sequence) : Pool × Json :=
  match p.sq? (fStr op "id") with
  | none => (p, noObj)
  | some s => let r := f s; (p.setSq (fStr op "id") r.st, jResErr r.err)

def readEl {α} (p : Pool) (op : Json) (f : Element → α) (enc : α → Json) : Pool × Json :=
  match p.el? (fStr op "id") with
  | none => (p, noObj)
  | some e => (p, enc (f e))

def readSq {α} (p : Pool) (op : Json) (f : Sequence → α) (enc : α → Json) : Pool × Json :=
  match p.sq? (fStr op "id") with
  | none => (p, noObj)
  | some s => (p, enc (f s))

def seqField (field : String) (v : Int) (q : SeqSet) : SeqSet :=
  if field = "twait" then { q with twait := v }
  else if field = "nrep" then { q with nrep := v }
  else if field = "jump_input" then { q with jump_input := v }
  else if field = "jump_target" then { q with jump_target := v }
  else { q with goto := v }

def setSeqSettings (s : Sequence) (pos w n j g : Int) : Sequence :=
  let q : SeqSet := ⟨w, n, 0, j, g⟩
  { s with sequencing := Dict.upsert s.sequencing pos q }

/-- a Float that crosses the protocol as the decimal string of its IEEE-754 bit pattern -/
def fBits (j : Json) : Float :=
  match j with
  | .str s => Float.ofBits (s.toNat?.getD 0).toUInt64
  | _ => 0.0

def jBits (x : Float) : Json := Json.str (toString x.toBits.toNat)

/-- evaluate a generated Float kernel (BB.Gen.Flt, regenerated from PulseAtoms) on n points -/
def pulseEval (fn : String) (args : List Float) (sr : Float) (n : Nat) : Option (List Float) :=
  let nf := n.toFloat
  match fn, args with
  | "ramp", [a, b] => some ((List.range n).map (Gen.Flt.ramp a b sr nf))
  | "sine", [f, a, o, ph] => some ((List.range n).map (Gen.Flt.sine f a o ph sr nf))
  | "gaussian", [a, s, m, o] => some ((List.range n).map (Gen.Flt.gaussian a s m o sr nf))
  | "gaussian_smooth_cutoff", [a, s, m, o] => some ((List.range n).map (Gen.Flt.gaussian_smooth_cutoff a s m o sr nf))
  | "waituntil", [d] => some ((List.range n).map (Gen.Flt.waituntil d sr nf))
  | _, _ => none

def step (p : Pool) (op : Json) : Pool × Json :=
  let o := fStr op "op"
  -- blueprints ------------------------------------------------------------
  if o = "bp.new" then (p.setBP (fStr op "id") {}, jOk Json.null)
  else if o = "bp.insert" then
    withBP p op (fun b => b.insertSegment (fInt op "pos") (asFn (getField op "fn"))
      ((asArr (getField op "args")).map asVal) (fVal op "dur") (fVal op "name"))
  else if o = "bp.remove" then withBP p op (fun b => b.removeSegment (fStr op "name"))
  else if o = "bp.changeArg" then
    withBP p op (fun b => b.changeArg (fStr op "name") (fVal op "arg") (fVal op "value") (fBool op "all"))
  else if o = "bp.changeDur" then
    withBP p op (fun b => b.changeDuration (fStr op "name") (fVal op "dur") (fBool op "all"))
  else if o = "bp.setSegMarker" then
    withBP p op (fun b => b.setSegmentMarker (fStr op "name") (asMark (getField op "specs")) (fInt op "mid"))
  else if o = "bp.removeSegMarker" then
    withBP p op (fun b => b.removeSegmentMarker (fStr op "name") (fInt op "mid"))
  else if o = "bp.setMarker" then
    withBP p op (fun b =>
      let l := (asArr (getField op "list")).map asMark
      ⟨if fInt op "which" = 1 then { b with marker1 := l } else { b with marker2 := l }, none⟩)
  else if o = "bp.appendMarker" then
    withBP p op (fun b =>
      let m := asMark (getField op "mark")
      ⟨if fInt op "which" = 1 then { b with marker1 := b.marker1 ++ [m] } else { b with marker2 := b.marker2 ++ [m] }, none⟩)
  else if o = "bp.setSR" then withBP p op (fun b => ⟨{ b with SR := fVal op "SR" }, none⟩)
  else if o = "bp.copy" then
    match p.bp? (fStr op "id") with
    | none => (p, noObj)
    | some b => (p.setBP (fStr op "to") b.copy, jOk Json.null)
  else if o = "bp.add" then
    match p.bp? (fStr op "a"), p.bp? (fStr op "b") with
    | some a, some b => (p.setBP (fStr op "to") (a.add b), jOk Json.null)
    | _, _ => (p, noObj)
  else if o = "bp.eq" then
    match p.bp? (fStr op "a"), p.bp? (fStr op "b") with
    | some a, some b => (p, jOk (Json.bool (a.beq b)))
    | _, _ => (p, noObj)
  else if o = "bp.desc" then
    match p.bp? (fStr op "id") with
    | none => (p, noObj)
    | some b => (p, jOk (Json.mkObj [("desc", jJ b.toDesc), ("SR", jVal b.SR),
        ("durations", jList jVal (b.segs.map (·.dur))), ("length", jNat b.segs.length),
        ("serialisable", Json.bool b.toDesc.serialisable)]))
  else if o = "bp.duration" then
    match p.bp? (fStr op "id") with
    | none => (p, noObj)
    | some b => (p, jExcept jRat b.duration)
  else if o = "bp.points" then
    match p.bp? (fStr op "id") with
    | none => (p, noObj)
    | some b => (p, jExcept jInt b.points)
  else if o = "bp.json" then
    match p.bp? (fStr op "id") with
    | none => (p, noObj)
    | some b =>
      match BP.ofDesc b.toDesc with
      | .ok b' => (p.setBP (fStr op "to") b', jOk Json.null)
      | .error e => (p, jErr e)
  -- elements --------------------------------------------------------------
  else if o = "el.new" then (p.setEl (fStr op "id") {}, jOk Json.null)
  else if o = "el.addBP" then
    match p.bp? (fStr op "bp") with
    | none => (p, noObj)
    | some b => withEl p op (fun e => e.addBluePrint (asChan (getField op "ch")) b)
  else if o = "el.addArray" then
    withEl p op (fun e => e.addArray (asChan (getField op "ch")) (asRatList (getField op "wfm")) (fVal op "SR")
      ((asArr (getField op "kw")).map (fun kv => match asArr kv with
        | [k, v] => ((asStr? k).getD "", asRatList v)
        | _ => ("", []))))
  else if o = "el.addFlags" then
    withEl p op (fun e => e.addFlags (asChan (getField op "ch")) ((asArr (getField op "flags")).map asVal))
  else if o = "el.validate" then withEl p op (fun e => e.validateDurations)
  else if o = "el.getArrays" then readEl p op (fun e => e.getArrays (fBool op "time")) (jExcept jArrays)
  else if o = "el.SR" then readEl p op (fun e => e.getSR) (jExcept jVal)
  else if o = "el.points" then readEl p op (fun e => e.points) (jExcept jInt)
  else if o = "el.duration" then readEl p op (fun e => e.duration) (jExcept jRat)
  else if o = "el.channels" then readEl p op (fun e => e.channels) (fun l => jOk (jList jChan l))
  else if o = "el.desc" then
    readEl p op (fun e => e.toDesc) (jExcept (fun d => Json.mkObj [("desc", jJ d), ("serialisable", Json.bool d.serialisable)]))
  else if o = "el.copy" then
    match p.el? (fStr op "id") with
    | none => (p, noObj)
    | some e => (p.setEl (fStr op "to") e.copy, jOk Json.null)
  else if o = "el.eq" then
    match p.el? (fStr op "a"), p.el? (fStr op "b") with
    | some a, some b => (p, jOk (Json.bool (a.beq b)))
    | _, _ => (p, noObj)
  else if o = "el.changeArg" then
    withEl p op (fun e => e.changeArg (asChan (getField op "ch")) (fStr op "name") (fVal op "arg") (fVal op "value") (fBool op "all"))
  else if o = "el.changeDur" then
    withEl p op (fun e => e.changeDuration (asChan (getField op "ch")) (fStr op "name") (fVal op "dur") (fBool op "all"))
  else if o = "el.json" then
    match p.el? (fStr op "id") with
    | none => (p, noObj)
    | some e =>
      match e.toDesc >>= Element.ofDesc with
      | .ok e' => (p.setEl (fStr op "to") e', jOk Json.null)
      | .error er => (p, jErr er)
  -- sequences -------------------------------------------------------------
  else if o = "sq.new" then (p.setSq (fStr op "id") {}, jOk Json.null)
  else if o = "sq.addElement" then
    match p.el? (fStr op "el") with
    | none => (p, noObj)
    | some e =>
      -- addElement validates its argument, which writes the argument's cache
      let p := match e.validate with
        | .ok m => p.setEl (fStr op "el") { e with cache := some m }
        | .error _ => p
      withSq p op (fun s => s.addElement (fInt op "pos") e)
  else if o = "sq.addSub" then
    match p.sq? (fStr op "sub") with
    | none => (p, noObj)
    | some sub => withSq p op (fun s => s.addSubSequence (fInt op "pos") sub)
  else if o = "sq.setSR" then withSq p op (fun s => ⟨s.setSR (fVal op "v"), none⟩)
  else if o = "sq.setAmp" then withSq p op (fun s => ⟨s.setChannelAmplitude (asChan (getField op "ch")) (fVal op "v"), none⟩)
  else if o = "sq.setOff" then withSq p op (fun s => ⟨s.setChannelOffset (asChan (getField op "ch")) (fVal op "v"), none⟩)
  else if o = "sq.setRange" then
    -- the deprecated `setChannelVoltageRange(channel, ampl, offset)`: both settings at once
    withSq p op (fun s => ⟨(s.setChannelAmplitude (asChan (getField op "ch")) (fVal op "ampl")).setChannelOffset
      (asChan (getField op "ch")) (fVal op "offset"), none⟩)
  else if o = "sq.len" then readSq p op (fun s => (s.data.length : Int)) (fun n => jOk (jInt n))
  else if o = "sq.setDelay" then withSq p op (fun s => ⟨s.setChannelDelay (asChan (getField op "ch")) (fVal op "v"), none⟩)
  else if o = "sq.setFilter" then
    withSq p op (fun s => s.setChannelFilterCompensation (asChan (getField op "ch")) (fStr op "kind") (fInt op "order")
      (fBool op "orderIsInt") (fVal op "f_cut") (fVal op "tau"))
  else if o = "sq.setSeq" then
    withSq p op (fun s => s.setSequencing (fInt op "pos") (seqField (fStr op "field") (fInt op "v")))
  else if o = "sq.setSeqSettings" then
    -- the deprecated `setSequenceSettings(pos, wait, nreps, jump, goto)` creates or replaces the entry
    withSq p op (fun s => ⟨setSeqSettings s (fInt op "pos") (fInt op "wait") (fInt op "nreps") (fInt op "jump") (fInt op "goto"), none⟩)
  else if o = "sq.setName" then withSq p op (fun s => ⟨{ s with name := fStr op "name" }, none⟩)
  else if o = "sq.check" then readSq p op (fun s => s.checkConsistency) (jExcept Json.bool)
  else if o = "sq.channels" then readSq p op (fun s => s.channels) (jExcept (jList jChan))
  else if o = "sq.SR" then readSq p op (fun s => (s.specNum "SR").getD (-1)) (fun r => jOk (jRat r))
  else if o = "sq.points" then readSq p op (fun s => s.points) (jExcept jInt)
  else if o = "sq.duration" then readSq p op (fun s => s.duration) (jExcept jRat)
  else if o = "sq.desc" then
    readSq p op (fun s => s.toDesc) (jExcept (fun d => Json.mkObj [("desc", jJ d), ("serialisable", Json.bool d.serialisable)]))
  else if o = "sq.forge" then
    readSq p op (fun s => s.forge (fBool op "delays") (fBool op "filters") (fBool op "time")) (jExcept jForged)
  else if o = "sq.awg" then
    -- optional index / slice: {"index": i} or {"slice": [start|null, stop|null, step|null]}
    readSq p op (fun s => s.outputForAWGFile) (fun r =>
      match r with
      | .error e => jErr e
      | .ok d =>
        let nCh := match d.pkg with | some pk => pk.wfms.length | none => 0
        let sel : Except Err (List Nat) :=
          match getField op "index", getField op "slice" with
          | .null, .null => .ok (List.range nCh)
          | .null, sl =>
            match asArr sl with
            | [a, b, c] => Sequence.awgSlice nCh (asInt? a) (asInt? b) (asInt? c)
            | _ => .error .key
          | ix, _ => Sequence.awgIndex nCh ((asInt? ix).getD 0)
        match d.pkg, sel with
        | some _, .error e => jOk (jDeferred (fun (_ : Sequence.AWGPkg) => Json.null) { d with thenErr := some e, pkg := none })
        | _, _ => jOk (jDeferred (fun pk => jAWG pk (sel.toOption.getD [])) d))
  else if o = "sq.seqx" then
    readSq p op (fun s => if fBool op "flags" then s.outputForSEQXFileWithFlags else s.outputForSEQXFile)
      (jExcept (jDeferred jSEQX))
  else if o = "sq.add" then
    match p.sq? (fStr op "a"), p.sq? (fStr op "b") with
    | some a, some b =>
      match a.add b with
      | .ok s => (p.setSq (fStr op "to") s, jOk Json.null)
      | .error e => (p, jErr e)
    | _, _ => (p, noObj)
  else if o = "sq.copy" then
    match p.sq? (fStr op "id") with
    | none => (p, noObj)
    | some s => (p.setSq (fStr op "to") s.copy, jOk Json.null)
  else if o = "sq.eq" then
    match p.sq? (fStr op "a"), p.sq? (fStr op "b") with
    | some a, some b => (p, jOk (Json.bool (a.beq b)))
    | _, _ => (p, noObj)
  else if o = "sq.elChangeArg" then
    withSq p op (fun s => Tools.modifyElement s (fInt op "pos") (fun e =>
      e.changeArg (asChan (getField op "ch")) (fStr op "name") (fVal op "arg") (fVal op "value") (fBool op "all")))
  else if o = "sq.elChangeDur" then
    withSq p op (fun s => Tools.modifyElement s (fInt op "pos") (fun e =>
      e.changeDuration (asChan (getField op "ch")) (fStr op "name") (fVal op "dur") (fBool op "all")))
  else if o = "sq.json" then
    match p.sq? (fStr op "id") with
    | none => (p, noObj)
    | some s =>
      match s.toDesc >>= Sequence.ofDesc with
      | .ok s' => (p.setSq (fStr op "to") s', jOk Json.null)
      | .error er => (p, jErr er)
  -- tools -----------------------------------------------------------------
  else if o = "tl.linvary" then
    match p.el? (fStr op "base") with
    | none => (p, noObj)
    | some e =>
      match Tools.makeLinearlyVaryingSequence e (asChan (getField op "ch")) (fStr op "name") (fVal op "arg")
          (fRat op "start") (fRat op "stop") (fRat op "step") with
      | .ok s => (p.setSq (fStr op "to") s, jOk Json.null)
      | .error er => (p, jErr er)
  else if o = "tl.vary" then
    match p.el? (fStr op "base") with
    | none => (p, noObj)
    | some e =>
      -- makeVaryingSequence validates its argument, which writes the argument's cache
      let p := match e.validate with
        | .ok m => p.setEl (fStr op "base") { e with cache := some m }
        | .error _ => p
      match Tools.makeVaryingSequence e ((asArr (getField op "lens")).filterMap (fun j => (asInt? j).map Int.toNat))
          ((asArr (getField op "vars")).map asVariation) with
      | .ok s => (p.setSq (fStr op "to") s, jOk Json.null)
      | .error er => (p, jErr er)
  else if o = "tl.repvary" then
    match p.sq? (fStr op "seq") with
    | none => (p, noObj)
    | some s =>
      match Tools.repeatAndVarySequence s ((asArr (getField op "lens")).filterMap (fun j => (asInt? j).map Int.toNat))
          ((asArr (getField op "poss")).filterMap asInt?) ((asArr (getField op "vars")).map asVariation) with
      | .ok s' => (p.setSq (fStr op "to") s', jOk Json.null)
      | .error er => (p, jErr er)
  else if o = "rip.apply" then
    let sig := ((asArr (getField op "signal")).map fBits).toArray
    let res :=
      if fStr op "kind" = "custom" then
        Rip.applyCustom sig (fBits (getField op "SR")) ((asArr (getField op "tf_freqs")).map fBits).toArray
          ((asArr (getField op "tf_amp")).map fBits).toArray (fBool op "invert")
      else
        Rip.applyRC (fBool op "inverse") sig (fBits (getField op "SR")) (fStr op "kind") (fBits (getField op "fcut"))
          (fInt op "order") (fBits (getField op "dc"))
    match res with
    | .ok ys => (p, jOk (Json.arr (ys.toList.map jBits).toArray))
    | .error e => (p, jErr e)
  else if o = "pulse.eval" then
    match pulseEval (fStr op "fn") ((asArr (getField op "args")).map fBits) (fBits (getField op "SR")) (fInt op "n").toNat with
    | some xs => (p, jOk (Json.arr (xs.map jBits).toArray))
    | none => (p, Json.mkObj [("err", Json.str "bad-op")])
  else (p, Json.mkObj [("err", Json.str "bad-op")])

/-! ### the reference-level model (BB.Model.Heap) runs next to the value model: every op is
    mapped to the program of the method it calls; acceptance and the structural parameters
    (how many positions a sweep produced) are taken from the value model's own result -/

structure HeapDrv where
  st : Heap.State := {}
  tok : Nat := 1
  /-- what each user-held object looked like at the last summary -/
  prev : List (String × String) := []
  /-- objects a refused call may have touched -/
  maybe : List String := []

def chanKey (j : Json) : String :=
  match j with
  | .str s => "s:" ++ s
  | j => match asInt? j with | some n => toString n | none => j.compress

def hvar (d : HeapDrv) (k : String) : Option Heap.Addr := d.st.vars.lookup k

def hAct (d : HeapDrv) (target : String) (p : Heap.Addr → Heap.Prog Unit) : HeapDrv :=
  -- a program that refers to an object an earlier (shrunk away / refused) op did not create is skipped
  match hvar d target with
  | some _ => { d with st := d.st.call (.act target p) }
  | none => d

def hQuery (d : HeapDrv) (target : String) (p : Heap.Addr → Heap.Prog Unit) : HeapDrv :=
  match hvar d target with
  | some _ => { d with st := d.st.call (.query target p) }
  | none => d

def hDerive (d : HeapDrv) (name : String) (p : Heap.Prog Heap.Addr) : HeapDrv :=
  { d with st := d.st.call (.derive name p) }

def isOk (r : Json) : Bool := match r with | .obj _ => (getField r "ok" != Json.null) || (r.compress == "{\"ok\":null}") | _ => false

def heapStep (d : HeapDrv) (op : Json) (r : Json) (p' : Pool) : HeapDrv :=
  let o := fStr op "op"
  let ok := isOk r
  let d := { d with tok := d.tok + 1 }
  let t := d.tok
  let id := fStr op "id"
  let refused (x : String) : HeapDrv := { d with maybe := x :: d.maybe }
  if o = "bp.new" then hDerive d id Heap.bpNew
  else if o = "el.new" then hDerive d id Heap.elNew
  else if o = "sq.new" then hDerive d id Heap.sqNew
  else if ["bp.insert", "bp.remove", "bp.changeArg", "bp.changeDur", "bp.setSegMarker", "bp.removeSegMarker", "bp.appendMarker", "bp.setSR"].contains o then
    if ok then hAct d id (Heap.bpMutate t)
    else if o = "bp.changeArg" && fBool op "all" then
      -- a refused `replaceeverywhere` edit may have changed the segments in front of the failing one (C05: only single-segment
      -- edits are promised to leave the blueprint unchanged): the contents count as changed
      hAct (refused id) id (Heap.bpMutate t)
    else refused id
  else if o = "bp.setMarker" then
    if ok then hAct d id (fun b => Heap.bpSetMarker t b ("marker" ++ toString (fInt op "which"))) else refused id
  else if o = "bp.copy" || o = "bp.json" then
    match hvar d id with
    | some x => if ok then hDerive d (fStr op "to") (Heap.bpCopy x) else d
    | none => d
  else if o = "bp.add" then
    match hvar d (fStr op "a"), hvar d (fStr op "b") with
    | some a, some b => if ok then hDerive d (fStr op "to") (Heap.bpAdd a b) else d
    | _, _ => d
  else if o = "el.addBP" then
    match hvar d (fStr op "bp") with
    | some b => if ok then hAct d id (fun e => Heap.elAddBP e (chanKey (getField op "ch")) b) else refused id
    | none => d
  else if o = "el.addArray" then
    let names := ((asArr (getField op "kw")).map (fun kv => (asStr? ((asArr kv).headD Json.null)).getD "")) ++ ["wfm"]
    if ok then hAct d id (fun e => Heap.elAddArray t e (chanKey (getField op "ch")) names)
    else hAct (refused id) id (fun e => Heap.elAddArrayBroken e (chanKey (getField op "ch")))
  else if o = "el.addFlags" then
    if ok then hAct d id (fun e => Heap.elAddFlags t e (chanKey (getField op "ch"))) else refused id
  else if o = "el.copy" || o = "el.json" then
    match hvar d id with
    | some x => if ok then hDerive d (fStr op "to") (Heap.elCopy x) else d
    | none => d
  else if o = "el.changeArg" || o = "el.changeDur" then
    if ok then hAct d id (fun e => Heap.elMutateBP t e (chanKey (getField op "ch"))) else refused id
  else if ["el.validate", "el.SR", "el.points", "el.duration"].contains o then
    if ok then hQuery d id (Heap.elValidate t) else d
  else if o = "sq.setSR" then (if ok then hAct d id (fun s => Heap.sqSetSpec t s "SR") else refused id)
  else if o = "sq.setAmp" then (if ok then hAct d id (fun s => Heap.sqSetSpec t s ("amp:" ++ chanKey (getField op "ch"))) else refused id)
  else if o = "sq.setOff" then (if ok then hAct d id (fun s => Heap.sqSetSpec t s ("off:" ++ chanKey (getField op "ch"))) else refused id)
  else if o = "sq.setRange" then
    (if ok then hAct (hAct d id (fun s => Heap.sqSetSpec t s ("amp:" ++ chanKey (getField op "ch")))) id
      (fun s => Heap.sqSetSpec t s ("off:" ++ chanKey (getField op "ch"))) else refused id)
  else if o = "sq.setDelay" then (if ok then hAct d id (fun s => Heap.sqSetSpec t s ("delay:" ++ chanKey (getField op "ch"))) else refused id)
  else if o = "sq.setFilter" then
    if ok then hAct d id (fun s => Heap.sqSetFilter t s ("filter:" ++ chanKey (getField op "ch"))) else refused id
  else if o = "sq.setSeq" then
    if ok then hAct d id (fun s => Heap.sqSetSeq t s (toString (fInt op "pos")) (fStr op "field")) else refused id
  else if o = "sq.setSeqSettings" then
    if ok then hAct d id (fun s => Heap.sqSetSeqSettings t s (toString (fInt op "pos"))) else refused id
  else if o = "sq.setName" then (if ok then hAct d id (Heap.sqSetName t) else refused id)
  else if o = "sq.addElement" then
    match hvar d (fStr op "el") with
    | some e => if ok then hAct d id (fun s => Heap.sqAddElement t s (toString (fInt op "pos")) e) else refused id
    | none => d
  else if o = "sq.addSub" then
    match hvar d (fStr op "sub") with
    | some sub => if ok then hAct d id (fun s => Heap.sqAddSub s (toString (fInt op "pos")) sub) else refused id
    | none => d
  else if o = "sq.copy" || o = "sq.json" then
    match hvar d id with
    | some x => if ok then hDerive d (fStr op "to") (Heap.sqCopy x) else d
    | none => d
  else if o = "sq.add" then
    match hvar d (fStr op "a"), hvar d (fStr op "b") with
    | some a, some b => if ok then hDerive d (fStr op "to") (Heap.sqAdd a b) else d
    | _, _ => d
  else if o = "sq.elChangeArg" || o = "sq.elChangeDur" then
    if ok then hAct d id (fun s => Heap.sqElMutate t s (toString (fInt op "pos")) (chanKey (getField op "ch"))) else refused id
  else if ["sq.forge", "sq.awg", "sq.seqx"].contains o then
    if ok then hQuery d id (Heap.sqForge t) else d
  else if o = "tl.linvary" then
    match hvar d (fStr op "base"), p'.sq? (fStr op "to") with
    | some base, some res =>
      if ok then hDerive d (fStr op "to") (Heap.tlLinVary t base (chanKey (getField op "ch")) (res.data.map (fun pe => toString pe.1))) else d
    | _, _ => d
  else if o = "tl.vary" then
    match hvar d (fStr op "base"), p'.sq? (fStr op "to") with
    | some base, some res =>
      let poss := res.data.map (fun pe => toString pe.1)
      let edits := ((asArr (getField op "vars")).map (fun v => poss.map (fun pos => (pos, chanKey (getField v "chan"))))).flatten
      if ok then hDerive d (fStr op "to") (Heap.tlVary t base poss edits) else d
    | _, _ => d
  else if o = "tl.repvary" then
    match hvar d (fStr op "seq") with
    | some sq =>
      let vars := asArr (getField op "vars")
      let steps := match vars with | v :: _ => (asArr (getField v "vals")).length | [] => 0
      let edits := ((asArr (getField op "poss")).zip vars).map (fun pv => (toString ((asInt? pv.1).getD 0), chanKey (getField pv.2 "chan")))
      if ok then hDerive d (fStr op "to") (Heap.tlRepVary t sq steps edits) else d
    | none => d
  else d

def dedup (l : List Nat) : List Nat := l.foldl (fun acc a => if acc.contains a then acc else acc ++ [a]) []

/-- per pair of user-held objects: how many mutable cells, nested filter dicts and arrays they
    share; and which objects look different from the last summary -/
def heapSummary (d : HeapDrv) (names : List String) : HeapDrv × Json :=
  let h := d.st.heap
  let fuel := Heap.depth + 4
  let live := names.filterMap (fun n => (hvar d n).map (fun a => (n, a)))
  let reaches := live.map (fun na => (na.1, dedup (Heap.reach fuel h na.2)))
  let count (l : List Nat) (pred : Heap.Kind → Bool) : Nat :=
    (l.filter (fun a => match h[a]? with | some c => pred c.kind | none => false)).length
  let rec pairs : List (String × List Nat) → List Json
    | [] => []
    | x :: rest =>
      (rest.filterMap (fun y =>
        let sh := x.2.filter (fun a => y.2.contains a)
        if sh.isEmpty then none
        else
          let (a, b) := if x.1 < y.1 then (x.1, y.1) else (y.1, x.1)
          some (Json.arr #[Json.str a, Json.str b,
            Json.num (count sh (fun k => !k.frozen) : Nat), Json.num (count sh (fun k => k == .filterDict) : Nat),
            Json.num (count sh (fun k => k == .ndarray) : Nat)]))) ++ pairs rest
  let shared := pairs reaches
  let now := live.map (fun na => (na.1, toString (repr (Heap.unfold fuel h na.2))))
  let changed := now.filterMap (fun ns =>
    match d.prev.lookup ns.1 with
    | some old => if old == ns.2 && !(d.maybe.contains ns.1) then none else some ns.1
    | none => none)
  ({ d with prev := now, maybe := [] },
   jOk (Json.mkObj [("fault", Json.bool d.st.fault), ("shared", Json.arr shared.toArray),
                    ("changed", Json.arr (changed.map Json.str).toArray), ("cells", Json.num (h.length : Nat))]))

def runProgram (ops : List Json) : List Json :=
  let rec go (p : Pool) (d : HeapDrv) : List Json → List Json
    | [] => []
    | op :: rest =>
      if fStr op "op" = "heap.summary" then
        let (d', r) := heapSummary d ((asArr (getField op "vars")).filterMap asStr?)
        r :: go p d' rest
      else
        let (p', r) := step p op
        r :: go p' (heapStep d op r p') rest
  go {} {} ops

partial def loop (h : IO.FS.Stream) (out : IO.FS.Stream) : IO Unit := do
  let line ← h.getLine
  if line.isEmpty then return ()
  match Json.parse line with
  | .error e => out.putStrLn (Json.compress (Json.mkObj [("bad", Json.str e)]))
  | .ok j =>
    let res := runProgram (asArr (getField j "ops"))
    out.putStrLn (Json.compress (Json.mkObj [("res", Json.arr res.toArray)]))
  out.flush
  loop h out

def main : IO Unit := do loop (← IO.getStdin) (← IO.getStdout)
