/-
  BB.Model.Codec — JSON encoding/decoding of model values for the line protocol.
  Rationals travel as "p/q" strings (exact), Python ints as JSON numbers.
-/
import Lean.Data.Json
import BB.Model.Describe
import BB.Model.Tools

namespace BB.Codec
open Lean

def ratStr (q : Rat) : String :=
  if q.den = 1 then toString q.num else toString q.num ++ "/" ++ toString q.den

def parseRat (s : String) : Option Rat :=
  match s.splitOn "/" with
  | [p, q] => do
    let p ← p.toInt?
    let q ← q.toNat?
    if q = 0 then none else some (mkRat p q)
  | [p] => do
    let p ← p.toInt?
    some (p : Rat)
  | _ => none

def jRat (q : Rat) : Json := Json.str (ratStr q)
def jInt (n : Int) : Json := Json.num (JsonNumber.fromInt n)
def jNat (n : Nat) : Json := Json.num (JsonNumber.fromNat n)
def jOpt {α} (f : α → Json) : Option α → Json
  | some a => f a
  | none => Json.null
def jList {α} (f : α → Json) (l : List α) : Json := Json.arr (l.map f).toArray

def getField (j : Json) (k : String) : Json := (j.getObjVal? k).toOption.getD Json.null

def asInt? (j : Json) : Option Int :=
  match j with
  | .num n => if n.exponent = 0 then some n.mantissa else none
  | _ => none

def asStr? : Json → Option String
  | .str s => some s
  | _ => none

def asBool (j : Json) : Bool := match j with | .bool b => b | _ => false

def asArr (j : Json) : List Json := match j with | .arr a => a.toList | _ => []

/-- a rational: JSON int, or "p/q" -/
def asRat? (j : Json) : Option Rat :=
  match j with
  | .str s => parseRat s
  | _ => (asInt? j).map (fun n => (n : Rat))

def asRatList (j : Json) : List Rat := (asArr j).filterMap asRat?

/-- Python values: int → number, float → {"q": "p/q"}, str → {"s": ..}, None → null, other → {"o": id} -/
def asVal (j : Json) : Val :=
  match j with
  | .null => .none
  | .num _ => match asInt? j with | some n => .num n | none => .opq 0
  | .str s => match parseRat s with | some q => .num q | none => .str s
  | _ =>
    match getField j "q" with
    | .str s => match parseRat s with | some q => .num q | none => .opq 0
    | _ => match getField j "s" with
      | .str s => .str s
      | _ => match asInt? (getField j "o") with
        | some n => .opq n.toNat
        | none => .opq 0

def jVal : Val → Json
  | .num q => Json.mkObj [("q", jRat q)]
  | .str s => Json.mkObj [("s", Json.str s)]
  | .none => Json.null
  | .opq i => Json.mkObj [("o", jNat i)]

def asChan (j : Json) : Chan :=
  match j with
  | .str s => .str s
  | _ => .int ((asInt? j).getD 0)

def jChan : Chan → Json
  | .int n => jInt n
  | .str s => Json.str s

def asMark (j : Json) : Mark :=
  match asArr j with
  | [a, b] => ((asRat? a).getD 0, (asRat? b).getD 0)
  | _ => (0, 0)

def fnByKey (k : String) : Option Fn :=
  if k = "waituntil" then some Fn.waitSpecial
  else if k = "gsc" then builtinFns.find? (·.name = "gaussian_smooth_cutoff")
  else if k = "waitfn" then some Fn.waitCallable
  else if k = "arb" then builtinFns.find? (·.name = "arb_func")
  else builtinFns.find? (fun f => f.name = k ∧ f.name ≠ "waituntil")

def asFn (j : Json) : Fn :=
  match j with
  | .str k => (fnByKey k).getD default
  | _ =>
    if asBool (getField j "special") then
      { special := true, name := (asStr? (getField j "name")).getD "", qual := (asStr? (getField j "name")).getD "",
        params := [], shape := .call }
    else
      { special := false
        name := (asStr? (getField j "name")).getD ""
        qual := (asStr? (getField j "qual")).getD ""
        params := (asArr (getField j "params")).filterMap asStr?
        shape := .call }

def jFn (f : Fn) : Json :=
  Json.mkObj [("special", Json.bool f.special), ("name", Json.str f.name), ("qual", Json.str f.qual),
    ("params", Json.arr (f.params.map Json.str).toArray)]

def jErr (e : Err) : Json := Json.mkObj [("err", Json.str e.pyName)]
def jOk (j : Json) : Json := Json.mkObj [("ok", j)]

def jExcept {α} (f : α → Json) : Except Err α → Json
  | .ok a => jOk (f a)
  | .error e => jErr e

def jResErr (e : Option Err) : Json :=
  match e with
  | none => jOk Json.null
  | some er => jErr er

/-- ordered JSON value: null | {"q"} | {"s"} | {"a":[..]} | {"d":[[k,v],..]} | {"o"} -/
partial def jJ : J → Json
  | .null => Json.null
  | .num q => Json.mkObj [("q", jRat q)]
  | .str s => Json.mkObj [("s", Json.str s)]
  | .arr l => Json.mkObj [("a", Json.arr (l.map jJ).toArray)]
  | .obj l => Json.mkObj [("d", Json.arr (l.map (fun (k, v) => Json.arr #[Json.str k, jJ v])).toArray)]
  | .opq i => Json.mkObj [("o", jNat i)]

partial def asJ (j : Json) : J :=
  match j with
  | .null => .null
  | _ =>
    match getField j "q" with
    | .str s => .num ((parseRat s).getD 0)
    | _ => match getField j "s" with
      | .str s => .str s
      | _ => match getField j "a" with
        | .arr a => .arr (a.toList.map asJ)
        | _ => match getField j "d" with
          | .arr a => .obj (a.toList.map (fun kv =>
              match asArr kv with
              | [k, v] => ((asStr? k).getD "", asJ v)
              | _ => ("", .null)))
          | _ => .opq ((asInt? (getField j "o")).getD 0).toNat

def bits (l : List Nat) : String := String.ofList (l.map (fun n => if n = 0 then '0' else '1'))

def jBlk : Blk → Json
  | .call fn args sr n =>
    Json.mkObj [("call", Json.mkObj [("fn", jFn fn), ("args", jList jVal args), ("SR", jRat sr), ("n", jNat n)])]
  | .raw xs => Json.mkObj [("raw", jList jRat xs)]

def jFlags (fl : Option (List Nat)) : Json := jOpt (jList jNat) fl

def jFilt (f : FiltCall) : Json :=
  Json.mkObj [("kind", Json.str f.kind), ("order", jInt f.order), ("fcut", jRat f.fcut), ("SR", jVal f.SR)]

def jChOut (o : Element.ChOut) (filt : Option FiltCall := none) : Json :=
  match o with
  | .forged f fl t =>
    Json.mkObj [("kind", Json.str "bp"), ("blocks", jList jBlk f.blocks), ("m1", Json.str (bits f.m1)),
      ("m2", Json.str (bits f.m2)), ("N", jNat f.N), ("SR", jRat f.SR),
      ("newdurations", jList jRat f.newdurations), ("flags", jFlags fl), ("time", Json.bool t),
      ("filt", jOpt jFilt filt)]
  | .arrays a fl t =>
    Json.mkObj [("kind", Json.str "arr"),
      ("arrays", jList (fun (k, xs) => Json.arr #[Json.str k, jList jRat xs]) a),
      ("flags", jFlags fl),
      ("time", jOpt (fun (n, s) => Json.arr #[jNat n, jRat s]) t),
      ("filt", jOpt jFilt filt)]

def jArrays (d : Dict Chan Element.ChOut) : Json :=
  jList (fun (ch, o) => Json.arr #[jChan ch, jChOut o]) d

def jArraysF (d : Dict Chan ChOutF) : Json :=
  jList (fun (ch, o) => Json.arr #[jChan ch, jChOut o.out o.filt]) d

def jSeqSet (q : SeqSet) : Json :=
  Json.mkObj [("twait", jInt q.twait), ("nrep", jInt q.nrep), ("jump_input", jInt q.jump_input),
    ("jump_target", jInt q.jump_target), ("goto", jInt q.goto)]

def jForged (l : List (Nat × ForgedPos)) : Json :=
  jList (fun (pos, fp) => Json.arr #[jNat pos, Json.mkObj
    [("sequencing", jSeqSet fp.sequencing), ("type", Json.str (if fp.isSub then "subsequence" else "element")),
     ("content", jList (fun (p2, d, q) => Json.arr #[jNat p2, jArraysF d, jOpt jSeqSet q]) fp.content)]]) l

def jWave (w : Sequence.Wave) : Json :=
  Json.mkObj [("blocks", jList jBlk w.blocks), ("filt", jOpt jFilt w.filt),
    ("resc", jOpt (fun (a, o) => Json.arr #[jRat a, jRat o]) w.resc)]

def jOb (o : Sequence.RangeOb) : Json :=
  Json.mkObj [("pos", jNat o.pos), ("chan", jChan o.chan), ("wave", jWave o.wave), ("lo", jRat o.lo), ("hi", jRat o.hi)]

def jDeferred {α} (f : α → Json) (d : Sequence.Deferred α) : Json :=
  Json.mkObj [("obligations", jList jOb d.obligations), ("thenErr", jOpt (fun e => Json.str e.pyName) d.thenErr),
    ("pkg", jOpt f d.pkg)]

def pick {α} (l : List α) (idx : List Nat) : List α := idx.filterMap (fun i => l[i]?)

/-- the 7-tuple `_AWGOutput.__getitem__` returns for the selected channel indices -/
def jAWG (p : Sequence.AWGPkg) (idx : List Nat) : Json :=
  Json.mkObj [("channels", jList jChan p.channels),
    ("wfms", jList (jList jWave) (pick p.wfms idx)),
    ("m1s", jList (jList (jList jRat)) (pick p.m1s idx)),
    ("m2s", jList (jList (jList jRat)) (pick p.m2s idx)),
    ("nreps", jList jInt p.nreps), ("trig_waits", jList jInt p.trig_waits),
    ("gotos", jList jInt p.gotos), ("jump_tos", jList jInt p.jump_tos)]

def jSEQX (p : Sequence.SEQXPkg) : Json :=
  Json.mkObj [("trig_waits", jList jInt p.trig_waits), ("nreps", jList jInt p.nreps),
    ("event_jumps", jList jInt p.event_jumps), ("event_jump_to", jList jInt p.event_jump_to),
    ("go_to", jList jInt p.go_to),
    ("wfms", jList (jList (fun (w, m1, m2) => Json.arr #[jWave w, jList jRat m1, jList jRat m2])) p.wfms),
    ("amplitudes", jList jRat p.amplitudes), ("seqname", Json.str p.seqname),
    ("flags", jOpt (jList (jList (jList jNat))) p.flags)]

end BB.Codec
