/-
  BB.Model.Num — numeric basics of the executable model (core Lean only).

  Times, durations, sample rates and voltages are core `Rat`.  A Python float is a dyadic
  rational; the harness sends `float.as_integer_ratio()`, so the model starts from the very
  numbers the implementation holds and computes exactly where the implementation rounds.
-/

namespace BB

/-- Round half to even (`round()` on Python floats and `numpy.round`), on exact rationals. -/
def rhe (x : Rat) : Int :=
  let f := x.floor
  let r := x - f
  if r < 1/2 then f else if 1/2 < r then f + 1 else if f % 2 = 0 then f else f + 1

/-- `numpy.abs(time - t).argmin()` for `time[k] = k/SR`, `k < N`: the first index of minimal
    distance to `x = t·SR`.  (For `N = 0` numpy raises; the model returns 0 and `forge` never
    calls it with `N = 0` because every segment has at least two samples.) -/
def nearestIdx (N : Nat) (x : Rat) : Nat :=
  if x ≤ 0 then 0
  else
    let f := x.floor.toNat
    -- candidates f and f+1; ties go to the lower index (first minimum)
    let k := if x - (f : Rat) ≤ ((f : Rat) + 1) - x then f else f + 1
    if N = 0 then 0 else min k (N - 1)

/-- sum of a list of rationals (Python's left-to-right `sum`) -/
def sumR : List Rat → Rat
  | [] => 0
  | x :: xs => x + sumR xs

def sumN : List Nat → Nat
  | [] => 0
  | x :: xs => x + sumN xs

def maxR : List Rat → Rat
  | [] => 0
  | [x] => x
  | x :: xs => let m := maxR xs; if m < x then x else m

def minR : List Rat → Rat
  | [] => 0
  | [x] => x
  | x :: xs => let m := minR xs; if x < m then x else m

def absR (x : Rat) : Rat := if x < 0 then -x else x

end BB
