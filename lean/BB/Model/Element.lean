/-
  BB.Model.Element — executable model of `broadbean.element.Element`.

  A Python `dict` is an association list in insertion order in which re-assigning an existing key
  keeps the key's place (`upsert`).
-/
import BB.Model.Forge

namespace BB

/-- channel identifiers: ints or strings -/
inductive Chan where
  | int (n : Int)
  | str (s : String)
  deriving DecidableEq, Repr, Inhabited

def Chan.toStr : Chan → String
  | .int n => toString n
  | .str s => s

/-- insertion-ordered dictionary -/
abbrev Dict (κ α : Type) := List (κ × α)

namespace Dict
variable {κ α : Type} [DecidableEq κ]

def get? (d : Dict κ α) (k : κ) : Option α := (d.find? (·.1 = k)).map (·.2)
def has (d : Dict κ α) (k : κ) : Bool := d.any (·.1 = k)
def keys (d : Dict κ α) : List κ := d.map (·.1)
def vals (d : Dict κ α) : List α := d.map (·.2)

/-- `d[k] = v` -/
def upsert : Dict κ α → κ → α → Dict κ α
  | [], k, v => [(k, v)]
  | (k', v') :: rest, k, v => if k' = k then (k, v) :: rest else (k', v') :: upsert rest k v

def erase (d : Dict κ α) (k : κ) : Dict κ α := d.filter (·.1 ≠ k)

/-- Python dict equality: same key set, equal values (order-insensitive) -/
def eqBy (f : α → α → Bool) (a b : Dict κ α) : Bool :=
  a.length == b.length &&
  a.all (fun (k, v) => match get? b k with | some w => f v w | none => false)

end Dict

/-- what sits on a channel -/
inductive ChData where
  | bp (b : BP)
  /-- `addArray`: the arrays in dict order (kwargs first, then 'wfm') and the SR -/
  | arr (arrays : Dict String (List Rat)) (SR : Val)
  /-- left behind by a refused `addArray` (no 'wfm', no 'SR') -/
  | broken
  deriving DecidableEq, Repr, Inhabited

structure ChEntry where
  data : ChData
  flags : Option (List Nat) := none
  deriving DecidableEq, Repr, Inhabited

structure Element where
  chans : Dict Chan ChEntry := []
  /-- the cache written by `validateDurations`: (SR, duration) -/
  cache : Option (Val × Rat) := none
  deriving DecidableEq, Repr, Inhabited

/-- one flag token given to `addFlags` -/
def flagToken? : Val → Option Nat
  | .num q =>
    if q.den = 1 ∧ Gen.flagAllowedInt.contains q.num then
      (Gen.flagAliasInt.lookup q.num).map Int.toNat
    else none
  | .str s =>
    if Gen.flagAllowedStr.contains s then (Gen.flagAliasStr.lookup s).map Int.toNat else none
  | _ => none

namespace Element

def channels (e : Element) : List Chan := Dict.keys e.chans

/-- `Element.addBluePrint(channel, blueprint)`; the channel entry is replaced (flags are lost) -/
def addBluePrint (e : Element) (ch : Chan) (b : BP) : Res Element :=
  if b.segs.isEmpty then ⟨e, some .value⟩
  else ⟨{ e with chans := Dict.upsert e.chans ch { data := .bp b.copy } }, none⟩

/-- `Element.addFlags(channel, flags)` -/
def addFlags (e : Element) (ch : Chan) (flags : List Val) : Res Element :=
  if Gen.flagsLenBad flags.length then ⟨e, some .value⟩
  else match flags.mapM flagToken? with
    | none => ⟨e, some .value⟩
    | some fl =>
      match Dict.get? e.chans ch with
      | none => ⟨e, some .key⟩
      | some ent => ⟨{ e with chans := Dict.upsert e.chans ch { ent with flags := some fl } }, none⟩

/-- `Element.addArray(channel, waveform, SR, **kwargs)`.  The channel is wiped before the
    marker lengths are checked, so a refused call leaves a broken entry behind. -/
def addArray (e : Element) (ch : Chan) (wfm : List Rat) (sr : Val)
    (kw : Dict String (List Rat)) : Res Element :=
  if kw.all (fun (_, a) => a.length == wfm.length) then
    let arrays : Dict String (List Rat) :=
      Dict.upsert (kw.foldl (fun d (k, a) => Dict.upsert d k a) ([] : Dict String (List Rat))) "wfm" wfm
    ⟨{ e with chans := Dict.upsert e.chans ch { data := .arr arrays sr } }, none⟩
  else ⟨{ e with chans := Dict.upsert e.chans ch { data := .broken } }, some .value⟩

def chanSR : ChEntry → Except Err Val
  | ⟨.bp b, _⟩ => .ok b.SR
  | ⟨.arr _ sr, _⟩ => .ok sr
  | ⟨.broken, _⟩ => .error .key

def arrLen (arrays : Dict String (List Rat)) : Nat := ((arrays.get? "wfm").getD []).length

def chanDuration : ChEntry → Except Err Rat
  | ⟨.bp b, _⟩ => b.duration
  | ⟨.arr a sr, _⟩ =>
    match sr with
    | .num s => if s = 0 then .error .value /- ZeroDivisionError -/ else .ok (((arrLen a : Nat) : Int) / s)
    | _ => .error .type
  | ⟨.broken, _⟩ => .error .key

def chanPoints : ChEntry → Except Err Int
  | ⟨.bp b, _⟩ => b.points
  | ⟨.arr a _, _⟩ => .ok (arrLen a)
  | ⟨.broken, _⟩ => .error .key

def allSame {α} [DecidableEq α] : List α → Bool
  | [] => true
  | x :: xs => xs.all (· = x)

/-- `numpy.allclose(ds, ds[0], atol=atol)` with the default `rtol = 1e-5` -/
def allClose (ds : List Rat) (atol : Rat) : Bool :=
  match ds with
  | [] => true
  | d0 :: _ => ds.all (fun d => absR (d - d0) ≤ atol + Gen.allcloseRtol * absR d0)

/-- the `atol` handed to `numpy.allclose`: `min(SRs)`, or 1e-9 when a sample rate is None -/
def atolOf (srs : List Val) : Except Err Rat :=
  if srs.contains .none then .ok Gen.atolNoSR
  else match srs.mapM (fun v => match v with | .num q => some q | _ => none) with
    | some qs => .ok (minR qs)
    | none => .error .type

/-- the three stages of `validateDurations`; returns the cache `(SR, duration)` -/
def validate (e : Element) : Except Err (Val × Rat) :=
  if (Dict.vals e.chans).isEmpty then .error .key else
  match (Dict.vals e.chans).mapM chanSR with
  | .error er => .error er
  | .ok srs =>
    if !allSame srs then .error .elemdur else
    match (Dict.vals e.chans).mapM chanDuration with
    | .error er => .error er
    | .ok durs =>
      match atolOf srs with
      | .error er => .error er
      | .ok atol =>
        if !allClose durs atol then .error .elemdur else
        match (Dict.vals e.chans).mapM chanPoints with
        | .error er => .error er
        | .ok npts =>
          if !allSame npts then .error .elemdur else .ok (srs.headD .none, durs.headD 0)

/-- `Element.validateDurations()` as a state transformer (it writes the cache) -/
def validateDurations (e : Element) : Res Element :=
  match e.validate with
  | .ok m => ⟨{ e with cache := some m }, none⟩
  | .error er => ⟨e, some er⟩

def getSR (e : Element) : Except Err Val := e.validate.map (·.1)
def duration (e : Element) : Except Err Rat := e.validate.map (·.2)
def points (e : Element) : Except Err Int := do
  let _ ← e.validate
  match (Dict.vals e.chans).head? with
  | some ent => chanPoints ent
  | none => throw .key

/-- what `getArrays` returns for one channel -/
inductive ChOut where
  | forged (f : Forged) (flags : Option (List Nat)) (withTime : Bool)
  /-- stored arrays in dict order, flags, optional time axis `linspace(0, N/SR, N)` (end point
      *included*, as coded): `(N, SR)` -/
  | arrays (a : Dict String (List Rat)) (flags : Option (List Nat)) (time : Option (Nat × Rat))
  deriving DecidableEq, Repr, Inhabited

/-- what `getArrays` delivers for one channel entry -/
def chanOut (includetime : Bool) (ent : ChEntry) : Except Err ChOut :=
  match ent.data with
  | .bp b => (forgeBP b).map (fun f => ChOut.forged f ent.flags includetime)
  | .arr a sr =>
    if includetime && !(Dict.has a "time") then
      match sr with
      | .num s => if s = 0 then .error .value else .ok (ChOut.arrays a ent.flags (some (arrLen a, s)))
      | _ => .error .type
    else .ok (ChOut.arrays a ent.flags none)
  | .broken => .error .key

/-- `Element.getArrays(includetime)` -/
def getArrays (e : Element) (includetime : Bool) : Except Err (Dict Chan ChOut) :=
  e.chans.mapM (fun (ch, ent) => (chanOut includetime ent).map (fun o => (ch, o)))

def copy (e : Element) : Element :=
  e   -- deepcopy: a value

/-- equality of two channel entries as `dict.__eq__` sees them: blueprints by `BluePrint.__eq__`
    (which does not look at the sample rate), raw arrays and flags by value -/
def entEq (x y : ChEntry) : Bool :=
  match x.data, y.data with
  | .bp p, .bp q => p.beq q && x.flags == y.flags
  | .arr p s, .arr q t => p == q && s == t && x.flags == y.flags
  | .broken, .broken => x.flags == y.flags
  | _, _ => false

/-- `Element.__eq__` (after the fix: the cache is not compared) -/
def beq (a b : Element) : Bool := Dict.eqBy entEq a.chans b.chans

def withBP (e : Element) (ch : Chan) (f : BP → Res BP) : Res Element :=
  match Dict.get? e.chans ch with
  | none => ⟨e, some .value⟩
  | some ent =>
    match ent.data with
    | .bp b =>
      let r := f b
      ⟨{ e with chans := Dict.upsert e.chans ch { ent with data := .bp r.st } }, r.err⟩
    | _ => ⟨e, some .value⟩

/-- `Element.changeArg(channel, name, arg, value, replaceeverywhere)` -/
def changeArg (e : Element) (ch : Chan) (name : String) (arg value : Val) (all : Bool) :=
  e.withBP ch (fun b => b.changeArg name arg value all)

/-- `Element.changeDuration(channel, name, newdur, replaceeverywhere)` -/
def changeDuration (e : Element) (ch : Chan) (name : String) (dur : Val) (all : Bool) :=
  e.withBP ch (fun b => b.changeDuration name dur all)

/-- zero padding of a raw array by whole samples -/
def padArr (pre post : Nat) (xs : List Rat) : List Rat :=
  List.replicate pre 0 ++ xs ++ List.replicate post 0

/-- `oldwait + delay` for every waituntil segment -/
def shiftWait (delay : Rat) (s : Seg) : Seg :=
  if s.fn.isWait then
    match s.args with
    | .num t :: _ => { s with args := [.num (t + delay)] }
    | _ => s
  else s

/-- the segments `_applyDelays` inserts: `insertSegment(0, "waituntil", (delay,), "waituntil")` and
    `insertSegment(-1, PulseAtoms.ramp, (0, 0), dur=maxdelay - delay)` -/
def delayHead (delay : Rat) : Seg :=
  { name := "waituntil", fn := Fn.waitSpecial, args := [.num delay], dur := .str "waituntil" }
def delayTail (d : Rat) : Seg :=
  { name := "ramp", fn := Fn.rampFn, args := [.num 0, .num 0], dur := .num d }

/-- the blueprint part of `_applyDelays` for one channel:
    shift every waituntil target, prepend a waituntil, append a zero ramp -/
def delayBP (b : BP) (delay maxdelay : Rat) : Res BP :=
  let b1 : BP := { b with segs := b.segs.map (shiftWait delay) }
  let r2 : Res BP :=
    if 0 < delay then b1.insertSegment 0 Fn.waitSpecial [.num delay] (.str "waituntil") .none
    else ⟨b1, none⟩
  match r2.err with
  | some er => ⟨r2.st, some er⟩
  | none =>
    if 0 < maxdelay - delay then
      r2.st.insertSegment (-1) Fn.rampFn [.num 0, .num 0] (.num (maxdelay - delay)) .none
    else r2

/-- `_applyDelays` for one channel entry: a blueprint gets its delay segments, raw arrays are
    zero-padded at the element's sample rate -/
def delayChan (sr maxdelay : Rat) (ent : ChEntry) (delay : Rat) : Except Err ChEntry :=
  match ent.data with
  | .bp b =>
    match (delayBP b delay maxdelay).toExcept with
    | .error er => .error er
    | .ok b' => .ok { ent with data := .bp b' }
  | .arr a s =>
    .ok { ent with data := .arr (a.map (fun (k, xs) =>
        (k, padArr (rhe (delay * sr)).toNat (rhe ((maxdelay - delay) * sr)).toNat xs))) s }
  | .broken => .error .key

/-- `Element._applyDelays(delays)` — `delays` are in the order of the element's own channels -/
def applyDelays (e : Element) (delays : List Rat) : Res Element :=
  if delays.length ≠ e.chans.length then ⟨e, some .value⟩
  else if delays.any (· < 0) then ⟨e, some .value⟩
  else match e.validate with
    | .error er => ⟨e, some er⟩
    | .ok m =>
      match m.1 with
      | .num sr =>
        match (e.chans.zip delays).mapM (fun p => (delayChan sr (maxR delays) p.1.2 p.2).map (fun y => (p.1.1, y))) with
        | .ok chans => ⟨{ chans := chans, cache := some m }, none⟩
        | .error er => ⟨{ e with cache := some m }, some er⟩
      | _ => ⟨{ e with cache := some m }, some .type⟩

end Element
end BB
