/-
  BB.Model.Ripasso — executable (IEEE-754 `Float`) model of `broadbean.ripasso`:
  `_rcFilter` on the `fftfreq` grid with the DC patch and the integer power, the pipeline
  `real(ifft(fft(signal) · H))` with a naive O(N²) DFT, and `applyCustomTransferFunction` with its
  axis validation, `np.interp` resampling and split/reassembly of the frequency axis.
  Core Lean only; compared numerically with the implementation by the correspondence check.
  (The theorems of C12/C13 are about the same pipeline over ℂ with the regenerated kernels.)
-/
import BB.Model.Blueprint

namespace BB.Rip

structure C where
  re : Float
  im : Float
  deriving Inhabited

instance : Add C := ⟨fun a b => ⟨a.re + b.re, a.im + b.im⟩⟩
instance : Mul C := ⟨fun a b => ⟨a.re * b.re - a.im * b.im, a.re * b.im + a.im * b.re⟩⟩
def C.inv (a : C) : C := let d := a.re * a.re + a.im * a.im; ⟨a.re / d, -a.im / d⟩
instance : Div C := ⟨fun a b => a * b.inv⟩
def C.ofF (x : Float) : C := ⟨x, 0⟩
def C.npow (a : C) : Nat → C
  | 0 => ⟨1, 0⟩
  | n + 1 => a * C.npow a n
/-- `tf ** order` for an integer order -/
def C.zpow (a : C) (z : Int) : C := if z ≥ 0 then a.npow z.toNat else (a.npow (-z).toNat).inv

def pi : Float := 3.141592653589793

/-- `exp(sign · 2πi · m / N)` -/
def twiddle (N m : Nat) (sign : Float) : C :=
  let th := sign * 2.0 * pi * (m % N).toFloat / N.toFloat
  ⟨Float.cos th, Float.sin th⟩

/-- the (unnormalised) discrete Fourier sum with kernel `exp(sign · 2πi jk/N)` -/
def dft (x : Array C) (sign : Float) : Array C :=
  let N := x.size
  (Array.range N).map fun k => (Array.range N).foldl (fun acc j => acc + twiddle N (j * k) sign * x[j]!) ⟨0, 0⟩

/-- `numpy.fft.fftfreq(N, 1/SR)[k] · N/SR` -/
def fftIdx (N k : Nat) : Int := if k < (N + 1) / 2 then (k : Int) else (k : Int) - N

def freq (N : Nat) (SR : Float) (k : Nat) : Float := Float.ofInt (fftIdx N k) * SR / N.toFloat

/-- `_rcFilter(SR, N, f_cut, kind, order, DCgain)[k]` -/
def rcTF (kind : String) (SR fcut : Float) (order : Int) (dc : Float) (N k : Nat) : C :=
  let f := freq N SR k
  let tau := 1.0 / fcut
  let iw : C := ⟨0, 2.0 * pi * tau * f⟩
  let one : C := ⟨1, 0⟩
  let h :=
    if kind == "HP" then
      (let t := iw / (one + iw); if t.re == 0 && t.im == 0 then C.ofF dc else t)
    else one / (one + iw)
  h.zpow order

/-- `np.real(ifft(fft(x) * H))` -/
def applyTF (x : Array Float) (H : Nat → C) : Array Float :=
  let N := x.size
  let X := dft (x.map C.ofF) (-1.0)
  let Y := (Array.range N).map fun k => X[k]! * H k
  (dft Y 1.0).map fun c => c.re / N.toFloat

/-- `applyRCFilter` / `applyInverseRCFilter` with their argument checks -/
def applyRC (inverse : Bool) (x : Array Float) (SR : Float) (kind : String) (fcut : Float) (order : Int) (dc : Float) :
    Except Err (Array Float) :=
  if kind != "HP" && kind != "LP" then .error .value
  else if inverse && !(dc > 0) then .error .value
  else .ok (applyTF x (rcTF kind SR fcut (if inverse then -order else order) dc x.size))

/-- `np.interp(x, xp, fp)` for increasing `xp`: clamped at both ends, piecewise linear inside -/
def interp (xp fp : Array Float) (x : Float) : Float :=
  if xp.size == 0 then 0.0
  else if x <= xp[0]! then fp[0]!
  else if x >= xp[xp.size - 1]! then fp[xp.size - 1]!
  else
    let i := (Array.range (xp.size - 1)).foldl (fun acc j => if xp[j]! <= x then j else acc) 0
    let slope := (fp[i + 1]! - fp[i]!) / (xp[i + 1]! - xp[i]!)
    slope * (x - xp[i]!) + fp[i]!

/-- `applyCustomTransferFunction(signal, SR, tf_freqs, tf_amp, invert)` -/
def applyCustom (x : Array Float) (SR : Float) (tfF tfA : Array Float) (invert : Bool) : Except Err (Array Float) :=
  let N := x.size
  let diffs := (Array.range (tfF.size - 1)).map fun i => Float.round ((tfF[i + 1]! - tfF[i]!) * 1e6) / 1e6
  if !(diffs.all (· > 0)) then .error .value
  else if tfF.size == 0 then .error .index
  else if !(tfF[tfF.size - 1]! >= SR / 2) then .error .missingfreq
  else
    let half := (N + 1) / 2
    let freqax := (Array.range N).map (freq N SR)
    let pos := (freqax.extract 0 half).map (interp tfF tfA)
    let negRev := ((freqax.extract half N).reverse.map (fun f => -f)).map (interp tfF tfA)
    let tf := pos ++ negRev.reverse
    let p : Int := if invert then -1 else 1
    .ok (applyTF x (fun k => (C.ofF tf[k]!).zpow p))

end BB.Rip
