/-
  BB.Model.Describe — `description` of blueprints / elements / sequences, and the inverse
  `*_from_description`, as coded.  `J` is an insertion-ordered JSON value; Python's `json`
  maps tuples to lists and keeps dict order, so writing to a file and reading back is the
  identity on `J` (that mapping is trusted, see DESIGN.md §6).
-/
import BB.Model.Sequence

namespace BB

inductive J where
  | null
  | num (q : Rat)
  | str (s : String)
  | arr (l : List J)
  | obj (l : List (String × J))
  | opq (id : Nat)
  deriving Repr, Inhabited, BEq

namespace J
def ofVal : Val → J
  | .num q => .num q
  | .str s => .str s
  | .none => .null
  | .opq i => .opq i
def toVal : J → Val
  | .num q => .num q
  | .str s => .str s
  | .null => .none
  | .opq i => .opq i
  | _ => .opq 0
def ofMark (m : Mark) : J := .arr [.num m.1, .num m.2]
def toMark? : J → Option Mark
  | .arr [.num a, .num b] => some (a, b)
  | _ => none
def get? (j : J) (k : String) : Option J :=
  match j with
  | .obj l => l.lookup k
  | _ => none
def ofInt (n : Int) : J := .num n
def toInt? : J → Option Int
  | .num q => if q.den = 1 then some q.num else none
  | _ => none
mutual
/-- `json.dump` succeeds (no opaque Python objects inside) -/
def serialisable : J → Bool
  | .opq _ => false
  | .arr l => serList l
  | .obj l => serFields l
  | _ => true
def serList : List J → Bool
  | [] => true
  | x :: xs => serialisable x && serList xs
def serFields : List (String × J) → Bool
  | [] => true
  | (_, v) :: xs => serialisable v && serFields xs
end
end J

/-- `f"segment_{n:02d}"` -/
def segKey (n : Nat) : String := "segment_" ++ (if n < 10 then "0" else "") ++ toString n

/-- the pulse functions `blueprint_from_description` knows: the static methods of `PulseAtoms`
    with the parameter names read from the source (`Gen.pulseSignatures`) -/
def builtinFns : List Fn :=
  Gen.pulseSignatures.map (fun (nm, ps) =>
    { special := false, name := nm, qual := "function PulseAtoms." ++ nm, params := ps,
      shape := if nm = "ramp" then .ramp else if nm = "waituntil" then .zeros else .call })

namespace BP

/-- `BluePrint.description` -/
def toDesc (b : BP) : J :=
  let segs := (b.segs.zip (List.range b.segs.length)).map (fun (s, i) =>
    (segKey (i + 1), J.obj
      [ ("name", .str s.name)
      , ("function", .str s.fn.qual)
      , ("durations", J.ofVal s.dur)
      , ("arguments",
          if s.fn.isWait then J.obj [("waittime", .arr (s.args.map J.ofVal))]
          else J.obj ((s.fn.params.zip s.args).map (fun (p, a) => (p, J.ofVal a)))) ]))
  J.obj (segs ++
    [ ("marker1_abs", .arr (b.marker1.map J.ofMark))
    , ("marker2_abs", .arr (b.marker2.map J.ofMark))
    , ("marker1_rel", .arr (b.segs.map (fun s => J.ofMark s.m1)))
    , ("marker2_rel", .arr (b.segs.map (fun s => J.ofMark s.m2))) ])

/-- Python `sub in s` on character lists -/
def isInfixL (sub : List Char) : List Char → Bool
  | [] => sub.isEmpty
  | c :: cs => sub.isPrefixOf (c :: cs) || isInfixL sub cs

def hasSub (s sub : String) : Bool := isInfixL sub.toList s.toList

/-- assign `_segmark1/_segmark2` wholesale from the description's lists -/
def setSegMarks (segs : List Seg) (l1 l2 : List Mark) : List Seg :=
  match segs, l1, l2 with
  | s :: ss, a :: as, b :: bs => { s with m1 := a, m2 := b } :: setSegMarks ss as bs
  | ss, _, _ => ss

/-- the one-segment blueprint `blueprint_from_description` builds for the `i`-th segment record -/
def segOfDesc (i : Nat) (sd : J) : Except Err BP :=
  match sd.get? "function" with
  | some (.str fnName) =>
    match sd.get? "arguments" with
    | some (.obj args) =>
      if fnName = "waituntil" then
        match args.head? with
        | some (_, .arr (x :: _)) =>
          (({} : BP).insertSegment i Fn.waitSpecial [J.toVal x] .none .none).toExcept
        | _ => .error .index
      else
        match builtinFns.find? (fun f => f.qual = fnName) with
        | none => .error .key
        | some fn =>
          match sd.get? "name" with
          | some (.str nm) =>
            match sd.get? "durations" with
            | some d =>
              (({} : BP).insertSegment i fn (args.map (fun (_, v) => J.toVal v)) (J.toVal d) (.str (basename nm))).toExcept
            | none => .error .key
          | _ => .error .key
    | _ => .error .key
  | _ => .error .key

/-- the loop `bp_sum = bp_sum + bp_seg` over the segment records -/
def sumSegs : List J → Nat → BP → Except Err BP
  | [], _, sum => .ok sum
  | sd :: rest, i, sum =>
    match segOfDesc i sd with
    | .error e => .error e
    | .ok seg => sumSegs rest (i + 1) (sum.add seg)

/-- a marker list of the description -/
def marksOf (j : J) (k : String) : Except Err (List Mark) :=
  match j.get? k with
  | some (.arr l) =>
    match l.mapM J.toMark? with
    | some ms => .ok ms
    | none => .error .type
  | _ => .error .key

/-- `BluePrint.blueprint_from_description` -/
def ofDesc (j : J) : Except Err BP :=
  match j with
  | .obj fields =>
    match sumSegs ((fields.filter (fun kv => hasSub kv.1 "segment")).map (·.2)) 0 {} with
    | .error e => .error e
    | .ok sum =>
      match marksOf j "marker1_abs", marksOf j "marker2_abs", marksOf j "marker1_rel", marksOf j "marker2_rel" with
      | .ok m1, .ok m2, .ok r1, .ok r2 =>
        .ok { sum with marker1 := m1, marker2 := m2, segs := setSegMarks sum.segs r1 r2 }
      | .error e, _, _, _ => .error e
      | _, .error e, _, _ => .error e
      | _, _, .error e, _ => .error e
      | _, _, _, .error e => .error e
  | _ => .error .attr

end BP

namespace Element

def flagsJ (fl : List Nat) : J := .arr (fl.map (fun (n : Nat) => J.num (n : Int)))

/-- the description of one channel entry (a raw-array channel with flags raises TypeError) -/
def chanDesc (ent : ChEntry) : Except Err J :=
  match ent.data with
  | .bp b =>
    match b.toDesc, ent.flags with
    | .obj l, some fl => pure (J.obj (l ++ [("flags", flagsJ fl)]))
    | d, _ => pure d
  | .arr _ _ =>
    match ent.flags with
    | some _ => throw Err.type
    | none => pure (J.str "array")
  | .broken =>
    match ent.flags with
    | some _ => throw Err.type
    | none => pure (J.str "array")

/-- one field of `Element.description` -/
def chanField (p : Chan × ChEntry) : Except Err (String × J) :=
  match chanDesc p.2 with
  | .error e => .error e
  | .ok d => .ok (p.1.toStr, d)

/-- `Element.description` -/
def toDesc (e : Element) : Except Err J :=
  match e.chans.mapM chanField with
  | .error er => .error er
  | .ok fields => .ok (J.obj fields)

def parseChan (k : String) : Except Err Chan :=
  match k.toInt? with
  | some n => .ok (.int n)
  | none => .error .value

/-- the blueprint read back from a channel description, at the sample rate the caller knows -/
def withSR (b : BP) (sr : Option Val) : BP :=
  match sr with
  | some v => { b with SR := v }
  | none => b

/-- build one channel from its description: blueprint, optional SR, flags -/
def chanOfDesc (e : Element) (k : String) (d : J) (sr : Option Val) : Except Err Element :=
  match parseChan k with
  | .error er => .error er
  | .ok ch =>
    match BP.ofDesc d with
    | .error er => .error er
    | .ok b =>
      match (e.addBluePrint ch (withSR b sr)).err with
      | some er => .error er
      | none =>
        match d.get? "flags" with
        | some (.arr fl) =>
          match ((e.addBluePrint ch (withSR b sr)).st.addFlags ch (fl.map J.toVal)).err with
          | some er => .error er
          | none => .ok ((e.addBluePrint ch (withSR b sr)).st.addFlags ch (fl.map J.toVal)).st
        | some _ => .error .value
        | none => .ok (e.addBluePrint ch (withSR b sr)).st

/-- `Element.element_from_description` -/
def ofDesc (j : J) : Except Err Element :=
  match j with
  | .obj fields => fields.foldlM (fun e kd => chanOfDesc e kd.1 kd.2 none) ({} : Element)
  | _ => .error .attr

end Element

namespace Sequence

def seqSetJ (q : SeqSet) : J :=
  .obj [ ("Wait trigger", J.ofInt q.twait), ("Repeat", J.ofInt q.nrep), ("jump_input", J.ofInt q.jump_input)
       , ("jump_target", J.ofInt q.jump_target), ("Go to", J.ofInt q.goto) ]

def specJ : Spec → J
  | .val v => J.ofVal v
  | .filt f => .obj [("kind", .str f.kind), ("order", J.ofInt f.order), ("f_cut", J.ofVal f.f_cut), ("tau", J.ofVal f.tau)]

def awgspecsJ (d : Dict String Spec) : J := .obj (d.map (fun (k, v) => (k, specJ v)))

def subToDesc (s : SubSeq) : Except Err J := do
  let fields ← s.data.mapM (fun (pos, e) => do
    let sq := match Dict.get? s.sequencing pos with | some q => seqSetJ q | none => J.str "Not set"
    pure (toString pos, J.obj [("channels", ← e.toDesc), ("sequencing", sq)]))
  pure (J.obj (fields ++ [("awgspecs", awgspecsJ s.awgspecs)]))

/-- the sequencing entry of a position as the description shows it -/
def seqnJ (s : Sequence) (pos : Int) : J :=
  match Dict.get? s.sequencing pos with
  | some q => seqSetJ q
  | none => J.str "Not set"

/-- one position of `Sequence.description` -/
def posField (s : Sequence) (pe : Int × Entry) : Except Err (String × J) :=
  match (match pe.2 with
         | .el e => e.toDesc
         | .sub sub => subToDesc sub) with
  | .error er => .error er
  | .ok ch => .ok (toString pe.1, J.obj [("channels", ch), ("sequencing", seqnJ s pe.1)])

/-- `Sequence.description` -/
def toDesc (s : Sequence) : Except Err J :=
  match s.data.mapM (posField s) with
  | .error er => .error er
  | .ok fields => .ok (J.obj (fields ++ [("awgspecs", awgspecsJ s.awgspecs)]))

def specOfJ : J → Spec
  | .obj l =>
    match l.lookup "kind", (l.lookup "order").bind J.toInt? with
    | some (.str k), some o =>
      .filt ⟨k, o, ((l.lookup "f_cut").map J.toVal).getD .none, ((l.lookup "tau").map J.toVal).getD .none⟩
    | _, _ => .val (.opq 0)
  | j => .val (J.toVal j)

/-- one channel of one position: the blueprint is read back at the sequence's sample rate, flags
    are restored, and the channel's amplitude and offset are carried over from the AWG settings -/
def chanStep (specs : List (String × J)) (sr : Val) (es : Element × Sequence) (ckcd : String × J) :
    Except Err (Element × Sequence) :=
  match Element.chanOfDesc es.1 ckcd.1 ckcd.2 (some sr) with
  | .error er => .error er
  | .ok e' =>
    match Element.parseChan ckcd.1 with
    | .error er => .error er
    | .ok ch =>
      match specs.lookup (keyOf ch "amplitude") with
      | none => .error .key
      | some a =>
        match specs.lookup (keyOf ch "offset") with
        | none => .error .key
        | some o => .ok (e', (es.2.setChannelAmplitude ch (J.toVal a)).setChannelOffset ch (J.toVal o))

/-- the five sequencing values of one position -/
def seqSetOfJ (sq : List (String × J)) : Except Err SeqSet :=
  match (sq.lookup "Wait trigger").bind J.toInt?, (sq.lookup "Repeat").bind J.toInt?, (sq.lookup "jump_input").bind J.toInt?,
        (sq.lookup "jump_target").bind J.toInt?, (sq.lookup "Go to").bind J.toInt? with
  | some w, some n, some ji, some jt, some g => .ok ⟨w, n, ji, jt, g⟩
  | _, _, _, _, _ => .error .key

/-- one position: build the element, add it, set its sequencing -/
def posStep (specs : List (String × J)) (sr : Val) (s : Sequence) (kd : String × J) : Except Err Sequence :=
  match kd.2.get? "channels" with
  | some (.obj chd) =>
    match chd.foldlM (chanStep specs sr) (({} : Element), s) with
    | .error er => .error er
    | .ok es =>
      match kd.1.toInt? with
      | none => .error .value
      | some pos =>
        match (es.2.addElement pos es.1).err with
        | some er => .error er
        | none =>
          match kd.2.get? "sequencing" with
          | some (.obj sq) =>
            match seqSetOfJ sq with
            | .error er => .error er
            | .ok q => .ok { (es.2.addElement pos es.1).st with sequencing := Dict.upsert (es.2.addElement pos es.1).st.sequencing pos q }
          | _ => .error .type
  | _ => .error .key

/-- the remaining AWG settings (delays, filter compensations): `setdefault` -/
def restSpecs (s : Sequence) (specs : List (String × J)) : Sequence :=
  specs.foldl (fun s kv => if Dict.has s.awgspecs kv.1 then s else s.setSpec kv.1 (specOfJ kv.2)) s

/-- `Sequence.sequence_from_description` -/
def ofDesc (j : J) : Except Err Sequence :=
  match j with
  | .obj fields =>
    match j.get? "awgspecs" with
    | some (.obj specs) =>
      match specs.lookup "SR" with
      | none => .error .key
      | some srj =>
        match fields.dropLast.foldlM (posStep specs (J.toVal srj)) ({} : Sequence) with
        | .error er => .error er
        | .ok s => .ok ((restSpecs s specs).setSR (J.toVal srj))
    | _ => .error .key
  | _ => .error .attr

end Sequence
end BB
