/-
  BB.Model.Blueprint — executable model of `broadbean.blueprint.BluePrint`.

  The implementation keeps six parallel per-segment lists; the model keeps one list of segment
  records (so "the lists stay parallel" is what the correspondence check establishes of the
  code, and "segment-bound data travels with its segment" is a theorem of the model).
  Names are a field that every structural operation recomputes with `makeNamesUnique`,
  exactly where the implementation does.
-/
import BB.Model.Num
import BB.Model.Names
import BB.Gen.K

namespace BB

/-- Python exception classes the model distinguishes. -/
inductive Err where
  | value | key | type | index | attr
  | segdur | elemdur | sequencing | consistency | compat | specincons | missingfreq
  deriving DecidableEq, Repr, Inhabited

def Err.pyName : Err → String
  | .value => "ValueError" | .key => "KeyError" | .type => "TypeError" | .index => "IndexError"
  | .attr => "AttributeError" | .segdur => "SegmentDurationError"
  | .elemdur => "ElementDurationError" | .sequencing => "SequencingError"
  | .consistency => "SequenceConsistencyError" | .compat => "SequenceCompatibilityError"
  | .specincons => "SpecificationInconsistencyError" | .missingfreq => "MissingFrequenciesError"

/-- A Python value as far as the model needs to tell values apart. -/
inductive Val where
  | num (q : Rat)        -- int or float (compared numerically, like Python's ==)
  | str (s : String)
  | none
  | opq (id : Nat)       -- any other object, passed through untouched (callables, dicts)
  deriving DecidableEq, Repr, Inhabited

/-- How the model can evaluate a pulse function exactly (everything else is a symbolic call). -/
inductive Shape where
  | ramp | zeros | call
  deriving DecidableEq, Repr, Inhabited

/-- A pulse function: either a callable or a special string such as 'waituntil'. -/
structure Fn where
  special : Bool          -- True: the entry of `_funlist` is a string
  name : String           -- `__name__` of the callable / the string itself
  qual : String           -- what `description` reports as "function"
  params : List String    -- `inspect.signature` parameter names (incl. the trailing SR, npts)
  shape : Shape
  deriving DecidableEq, Repr, Inhabited

def Fn.isWait (f : Fn) : Bool := f.special && f.name == "waituntil"

/-- `PulseAtoms.waituntil` the callable (what the forger substitutes for the string) -/
def Fn.waitCallable : Fn :=
  { special := false, name := "waituntil", qual := "function PulseAtoms.waituntil",
    params := (Gen.pulseSignatures.lookup "waituntil").getD [], shape := .zeros }

def Fn.waitSpecial : Fn :=
  { special := true, name := "waituntil", qual := "waituntil", params := [], shape := .zeros }

def Fn.rampFn : Fn :=
  { special := false, name := "ramp", qual := "function PulseAtoms.ramp",
    params := (Gen.pulseSignatures.lookup "ramp").getD [], shape := .ramp }

abbrev Mark := Rat × Rat   -- (t_on | delay, duration)

structure Seg where
  name : String
  fn : Fn
  args : List Val
  dur : Val
  m1 : Mark := (0, 0)
  m2 : Mark := (0, 0)
  deriving DecidableEq, Repr, Inhabited

structure BP where
  segs : List Seg := []
  marker1 : List Mark := []
  marker2 : List Mark := []
  SR : Val := .none
  deriving DecidableEq, Repr, Inhabited

/-- Result of a mutating operation: the new state and, if the call raised, the exception.
    (Most rejected calls return the old state; the few that do not are spelled out.) -/
structure Res (σ : Type) where
  st : σ
  err : Option Err := none

/-- lift a state-transforming call that may raise into `Except` -/
def Res.toExcept {σ : Type} (r : Res σ) : Except Err σ :=
  match r.err with
  | some er => .error er
  | none => .ok r.st

namespace BP

def names (b : BP) : List String := b.segs.map (·.name)

def setNames : List Seg → List String → List Seg
  | s :: ss, n :: ns => { s with name := n } :: setNames ss ns
  | ss, _ => ss

/-- re-run `_make_names_unique` over the name list -/
def renumber (segs : List Seg) : List Seg :=
  setNames segs (makeNamesUnique (segs.map (·.name)))

/-- Python `list.insert(pos, x)` for `pos ≥ 0` -/
def insertAt {α} (l : List α) (pos : Nat) (x : α) : List α :=
  l.take pos ++ x :: l.drop pos

/-- the name `insertSegment` gives the new segment (before uniquifying), or the rejection -/
def insertName (fn : Fn) (name : Val) : Except Err String :=
  if fn.special then .ok fn.name
  else match name with
    | .none => .ok fn.name
    | .str s => if s = "" then .ok fn.name
                else if endsInDigit s then .error .value else .ok s
    | _ => .error .value     -- non-string names blow up inside _basename

/-- Python `lst.insert(pos, x)` / `lst.append(x)` for `pos = -1` -/
def insertSegs (segs : List Seg) (pos : Int) (seg : Seg) : List Seg :=
  if pos = -1 then segs ++ [seg] else insertAt segs pos.toNat seg

/-- `BluePrint.insertSegment(pos, func, args, dur, name)` -/
def insertSegment (b : BP) (pos : Int) (fn : Fn) (args : List Val) (dur : Val) (name : Val) :
    Res BP :=
  if Gen.insertPosBad pos then ⟨b, some .value⟩ else
  match insertName fn name with
  | .error e => ⟨b, some e⟩
  | .ok nm =>
    ⟨{ b with segs := renumber (insertSegs b.segs pos { name := nm, fn := fn, args := args, dur := dur }) }, none⟩

def indexOf? (b : BP) (name : String) : Option Nat :=
  let i := b.names.idxOf name
  if i < b.segs.length then some i else none

/-- `BluePrint.removeSegment(name)` -/
def removeSegment (b : BP) (name : String) : Res BP :=
  match b.indexOf? name with
  | none => ⟨b, some .key⟩
  | some i => ⟨{ b with segs := renumber (b.segs.eraseIdx i) }, none⟩

/-- the segments addressed by `name` (all with the same base when `all`), as names;
    and the name the implementation then looks up for validation -/
def targets (b : BP) (name : String) (all : Bool) : String × List String :=
  if all then
    let base := basename name
    (base, b.names.filter (fun nm => basename nm == base))
  else (name, [name])

def modifySeg (b : BP) (i : Nat) (f : Seg → Seg) : BP :=
  { b with segs := b.segs.modify i f }

/-- resolve an argument given by name or by position against the segment's own signature -/
def argIndex (seg : Seg) (arg : Val) : Except Err Nat :=
  match arg with
  | .str a =>
    if seg.fn.params.contains a then .ok (seg.fn.params.idxOf a) else .error .value
  | .num q =>
    if q.den = 1 then
      (if 0 ≤ q.num ∧ q.num.toNat < seg.fn.params.length - 2 then .ok q.num.toNat else .error .value)
    else .error .type       -- a float index: list indices must be integers
  | _ => .error .type

def setArg (k : Nat) (value : Val) (s : Seg) : Seg := { s with args := s.args.set k value }

/-- one step of `changeArg`'s loop: resolve the argument of segment `nm` and store `value` -/
def changeArgOne (b : BP) (nm : String) (arg : Val) (value : Val) : Res BP :=
  match b.indexOf? nm with
  | none => ⟨b, some .value⟩    -- `.index(name)` raises ValueError
  | some i =>
    match b.segs[i]? with
    | none => ⟨b, some .value⟩
    | some seg =>
      if seg.fn.special then ⟨b, some .type⟩     -- signature('waituntil') is a TypeError
      else
        match argIndex seg arg with
        | .error e => ⟨b, some e⟩
        | .ok k =>
          if k < seg.args.length then ⟨b.modifySeg i (setArg k value), none⟩
          else ⟨b, some .index⟩

def changeArgLoop (b : BP) : List String → Val → Val → Res BP
  | [], _, _ => ⟨b, none⟩
  | nm :: rest, arg, value =>
    match changeArgOne b nm arg value with
    | ⟨b', none⟩ => changeArgLoop b' rest arg value
    | r => r            -- raised: earlier segments of the loop stay changed

/-- `BluePrint.changeArg(name, arg, value, replaceeverywhere)` -/
def changeArg (b : BP) (name : String) (arg : Val) (value : Val) (all : Bool) : Res BP :=
  if ¬ b.names.contains (b.targets name all).1 then ⟨b, some .value⟩
  else changeArgLoop b (b.targets name all).2 arg value

/-- `if self.SR is not None: if dur * self.SR < 1` -/
def durTooShort (sr : Val) (d : Rat) : Bool :=
  match sr with
  | .num r => Gen.durSubSample d r
  | _ => false

def setDur (tgts : List String) (d : Rat) (s : Seg) : Seg :=
  if tgts.contains s.name then { s with dur := .num d } else s

/-- `BluePrint.changeDuration(name, dur, replaceeverywhere)` -/
def changeDuration (b : BP) (name : String) (dur : Val) (all : Bool) : Res BP :=
  match dur with
  | .num d =>
    if ¬ b.names.contains (b.targets name all).1 then ⟨b, some .value⟩
    else if Gen.durNonPositive d then ⟨b, some .value⟩
    else if durTooShort b.SR d then ⟨b, some .value⟩
    else ⟨{ b with segs := b.segs.map (setDur (b.targets name all).2 d) }, none⟩
  | _ => ⟨b, some .value⟩

def setMark (mid : Int) (specs : Mark) (s : Seg) : Seg :=
  if mid = 1 then { s with m1 := specs } else { s with m2 := specs }

/-- `BluePrint.setSegmentMarker(name, specs, markerID)` -/
def setSegmentMarker (b : BP) (name : String) (specs : Mark) (mid : Int) : Res BP :=
  if mid ≠ 1 ∧ mid ≠ 2 then ⟨b, some .value⟩ else
  match b.indexOf? name with
  | none => ⟨b, some .value⟩
  | some i =>
    ⟨b.modifySeg i (setMark mid specs), none⟩

/-- `BluePrint.removeSegmentMarker(name, markerID)` -/
def removeSegmentMarker (b : BP) (name : String) (mid : Int) : Res BP :=
  if mid ≠ 1 ∧ mid ≠ 2 then ⟨b, some .value⟩ else
  match b.indexOf? name with
  | none => ⟨b, some .key⟩
  | some i =>
    ⟨b.modifySeg i (setMark mid (0, 0)), none⟩

/-- the name `BluePrint.__init__` gives a segment whose incoming (base) name is `nm` -/
def initName (s : Seg) (nm : String) : String :=
  if s.fn.special then s.fn.name else if nm = "" then s.fn.name else nm

/-- `BluePrint.copy()`: base names through `__init__` (special segments take their protected
    name, empty names the function's) and `_make_names_unique` -/
def copy (b : BP) : BP :=
  { b with segs := renumber (b.segs.map (fun s => { s with name := initName s (basename s.name) })) }

/-- `BluePrint.__add__` -/
def add (a b : BP) : BP :=
  { segs := renumber ((a.segs ++ b.segs).map (fun s => { s with name := basename s.name }))
    marker1 := a.marker1 ++ b.marker1
    marker2 := a.marker2 ++ b.marker2
    SR := a.SR }

/-- `BluePrint.__eq__`: all lists, not the sample rate -/
def beq (a b : BP) : Bool :=
  a.names == b.names && a.segs.map (·.fn) == b.segs.map (·.fn)
    && a.segs.map (·.args) == b.segs.map (·.args)
    && a.marker1 == b.marker1 && a.marker2 == b.marker2
    && a.segs.map (·.m1) == b.segs.map (·.m1) && a.segs.map (·.m2) == b.segs.map (·.m2)
    && a.segs.map (·.dur) == b.segs.map (·.dur)

def hasWait (b : BP) : Bool := b.segs.any (·.fn.isWait)

/-- `_makeWaitDurations` / the same loop inside the forger: every 'waituntil' segment gets the
    duration `t - elapsed`, where `elapsed` already contains the earlier resolved waits. -/
def consOk (d : Rat) : Except Err (List Rat) → Except Err (List Rat)
  | .ok ds => .ok (d :: ds)
  | .error e => .error e

def resolveGo : List Seg → Rat → Except Err (List Rat)
  | [], _ => .ok []
  | s :: rest, elapsed =>
    if s.fn.isWait then
      match s.args with
      | .num t :: _ =>
        if t - elapsed < 0 then .error .value
        else consOk (t - elapsed) (resolveGo rest t)
      | _ => .error .type
    else
      match s.dur with
      | .num d => consOk d (resolveGo rest (elapsed + d))
      | _ => .error .type      -- None / string durations cannot be summed

def resolveWaits (b : BP) : Except Err (List Rat) := resolveGo b.segs 0

/-- `BluePrint.duration` -/
def duration (b : BP) : Except Err Rat := (b.resolveWaits).map sumR

/-- `BluePrint.points` -/
def points (b : BP) : Except Err Int :=
  match b.SR with
  | .num sr => (b.resolveWaits).map (fun ds => rhe (sumR ds * sr))
  | .none => .error .value
  | _ => .error .type

end BP
end BB
