/-
  BB.Model.Names — `BluePrint._basename` and `BluePrint._make_names_unique`.

  The implementation loops over the sorted unique base names and renumbers the occurrences of
  each in list order.  The model is the equivalent single pass: the r-th earlier occurrence of a
  base decides the suffix.  (Equivalence of the two formulations is carried by the
  correspondence check; the theorems are about this formulation.)
-/

namespace BB

/-- strip trailing ASCII digits -/
def basenameL (s : List Char) : List Char := (s.reverse.dropWhile Char.isDigit).reverse

def basename (s : String) : String := String.ofList (basenameL s.toList)

/-- the name of the r-th (0-based) segment sharing base `b` -/
def renderL (b : List Char) (r : Nat) : List Char :=
  if r = 0 then b else b ++ (Nat.repr (r + 1)).toList

def mnuGo : List (List Char) → List (List Char) → List (List Char)
  | [], _ => []
  | n :: ns, seen =>
    let b := basenameL n
    renderL b (seen.count b) :: mnuGo ns (b :: seen)

def makeNamesUniqueL (names : List (List Char)) : List (List Char) := mnuGo names []

def makeNamesUnique (names : List String) : List String :=
  (makeNamesUniqueL (names.map String.toList)).map String.ofList

/-- Python `name[-1].isdigit()` for a non-empty name -/
def endsInDigit (s : String) : Bool :=
  match s.toList.getLast? with
  | some c => c.isDigit
  | none => false

end BB
