/-
  BB.Model.Forge — executable model of `_subelementBuilder` (the forger).

  A forged waveform is a list of *blocks*, one per segment, in order.  A block is symbolic:
  `call fn args SR n` stands for "the pulse function's own n-point evaluation"
  (`functools.partial(fn, *args)(SR, n)`), which is literally what property C01 speaks about;
  the harness evaluates it by calling the implementation's pulse function separately.
  Marker arrays are concrete lists of 0/1.
-/
import BB.Model.Blueprint

namespace BB

inductive Blk where
  | call (fn : Fn) (args : List Val) (SR : Rat) (n : Nat)
  | raw (xs : List Rat)
  deriving DecidableEq, Repr, Inhabited

def Blk.len : Blk → Nat
  | .call _ _ _ n => n
  | .raw xs => xs.length

/-- exact evaluation of a block where the model can do it (ramp, zeros, raw) -/
def Blk.eval? : Blk → Option (List Rat)
  | .raw xs => some xs
  | .call fn args sr n =>
    match fn.shape, args with
    | .ramp, [.num a, .num b] => some ((List.range n).map (fun k => Gen.ramp a b sr ((n : Int) : Rat) k))
    | .zeros, _ => some ((List.range n).map (fun k => Gen.waituntil 0 sr ((n : Int) : Rat) k))
    | _, _ => none

/-- the per-channel result of forging -/
structure Forged where
  blocks : List Blk
  m1 : List Nat
  m2 : List Nat
  N : Nat                      -- number of samples; the time axis is k/SR for k < N
  SR : Rat
  newdurations : List Rat      -- n_i / SR
  deriving DecidableEq, Repr, Inhabited

/-- number of samples of a segment of duration `d` at sample rate `sr` -/
def segCount (d sr : Rat) : Int := rhe (d * sr)

/-- the rounding loop: fails with SegmentDurationError at the first segment with < 2 samples -/
def countsGo (sr : Rat) : List Rat → Except Err (List Nat)
  | [] => .ok []
  | d :: ds =>
    if Gen.segTooShort (segCount d sr) then .error .segdur
    else match countsGo sr ds with
      | .error e => .error e
      | .ok ns => .ok ((segCount d sr).toNat :: ns)

/-- Python slice assignment `marker[ind : ind + chunk] = 1` on an array of length `N`
    (`0 ≤ ind < N`); a negative stop counts from the end, as in Python. -/
def sliceStop (N : Nat) (stop : Int) : Nat :=
  if stop < 0 then (stop + N).toNat else min stop.toNat N

/-- one ON-window: start index and (clipped) stop index -/
def window (N : Nat) (sr : Rat) (m : Mark) : Nat × Nat :=
  let ind := nearestIdx N (m.1 * sr)
  let chunk := rhe (m.2 * sr)
  (ind, sliceStop N ((ind : Int) + chunk))

def inWindow (k : Nat) (w : Nat × Nat) : Bool := w.1 ≤ k && k < w.2

/-- the marker array: 1 exactly on the union of the windows -/
def paint (N : Nat) (ws : List (Nat × Nat)) : List Nat :=
  (List.range N).map (fun k => if ws.any (inWindow k) then 1 else 0)

/-- start sample of every segment (`cumsum` of the rounded counts) -/
def starts : List Nat → Nat → List Nat
  | [], _ => []
  | n :: ns, acc => acc :: starts ns (acc + n)

/-- segment-bound marker specs converted to absolute time, as the forger does:
    `(elapsed_times[pos] + delay, len)` for every segment whose `len ≠ 0` -/
def segMarks (sr : Rat) (sel : Seg → Mark) : List Seg → List Nat → List Mark
  | s :: ss, st :: sts =>
    let rest := segMarks sr sel ss sts
    if (sel s).2 ≠ 0 then (((st : Int) : Rat) / sr + (sel s).1, (sel s).2) :: rest else rest
  | _, _ => []

/-- the callable the forger runs for a segment -/
def forgeFn (f : Fn) : Fn := if f.isWait then Fn.waitCallable else f

def mkBlocks (sr : Rat) : List Seg → List Nat → List Blk
  | s :: ss, n :: ns => Blk.call (forgeFn s.fn) s.args sr n :: mkBlocks sr ss ns
  | _, _ => []

/-- put the forged channel together from the resolved sample counts -/
def assemble (b : BP) (sr : Rat) (ns : List Nat) : Forged :=
  let N := sumN ns
  let sts := starts ns 0
  { blocks := mkBlocks sr b.segs ns
    m1 := paint N ((b.marker1 ++ segMarks sr (·.m1) b.segs sts).map (window N sr))
    m2 := paint N ((b.marker2 ++ segMarks sr (·.m2) b.segs sts).map (window N sr))
    N := N, SR := sr
    newdurations := ns.map (fun (n : Nat) => ((n : Int) : Rat) / sr) }

/-- calling a special string other than 'waituntil' is a TypeError -/
def badSpecial (b : BP) : Bool := b.segs.any (fun s => s.fn.special && !s.fn.isWait)

/-- `_subelementBuilder(blueprint, SR, durs)` with `SR = blueprint.SR`, `durs = blueprint.durations` -/
def forgeBP (b : BP) : Except Err Forged :=
  match b.SR with
  | .num sr =>
    match b.resolveWaits with
    | .error e => .error e
    | .ok durs =>
      match countsGo sr durs with
      | .error e => .error e
      | .ok ns => if badSpecial b then .error .type else .ok (assemble b sr ns)
  | _ => .error .type

end BB
