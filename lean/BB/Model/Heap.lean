/-
  BB.Model.Heap — a reference-level model of broadbean's objects: who owns which mutable
  container, what every storing / deriving / mutating method allocates, copies (deep or
  shallow) and writes in place.

  The value model (Blueprint/Element/Sequence.lean) has value semantics: aliasing cannot be
  expressed there.  Here the contents are abstracted to tokens and only the object graph is
  kept: cells (Python objects / lists / dicts / arrays) with keyed slots that hold either an
  immutable value (a token) or a reference.  Every cell carries a ghost owner: the root object
  (a user-held BluePrint / Element / Sequence) it belongs to.

  Library methods are programs over two checked primitives, `alloc` and `write`, for one owner
  `r`: a write is only possible into a non-frozen cell of `r` (or into a validation cache), and
  a stored reference must point to a cell of `r` or to a frozen cell (a kind no method ever
  writes into: the nested filter-compensation dicts and numpy arrays).  A program that breaks
  that discipline *faults*.  What the discipline buys is proved in BB/Proofs/Heap.lean; that
  the programs below describe what the Python methods do (same sharing between any two
  user-held objects after every call, no fault) is checked by the correspondence harness,
  which walks the real objects with `id()`.
-/
namespace BB.Heap

abbrev Addr := Nat
abbrev Owner := Nat

inductive Kind where
  | bpObj | bpList
  | elObj | elData | elChan | flags | arrDict | ndarray | cache
  | sqObj | sqData | sqSeqn | seqSetting | awgspecs | filterDict
  deriving DecidableEq, Repr, Inhabited

/-- kinds that no library method writes into once they exist -/
def Kind.frozen : Kind → Bool
  | .filterDict => true
  | .ndarray => true
  | _ => false

inductive Slot where
  | imm (tok : Nat)
  | ref (a : Addr)
  deriving DecidableEq, Repr, Inhabited

structure Cell where
  kind : Kind
  owner : Owner
  /-- keyed slots (dict entries, attributes; list items have the key "") -/
  slots : List (String × Slot)
  deriving DecidableEq, Repr, Inhabited

abbrev Heap := List Cell

/-- a reference a cell of owner `r` may hold: to a cell of `r`, or to a frozen cell -/
def refOk (h : Heap) (r : Owner) : Slot → Bool
  | .imm _ => true
  | .ref b =>
    match h[b]? with
    | some c => c.kind.frozen || c.owner == r
    | none => false

/-- a reference a frozen cell may hold: to frozen cells only -/
def refOkFrozen (h : Heap) : Slot → Bool
  | .imm _ => true
  | .ref b =>
    match h[b]? with
    | some c => c.kind.frozen
    | none => false

def slotsOk (h : Heap) (k : Kind) (r : Owner) (slots : List (String × Slot)) : Bool :=
  if k.frozen then slots.all (fun s => refOkFrozen h s.2) else slots.all (fun s => refOk h r s.2)

/-- may a program running for owner `r` write into this cell?  Its own non-frozen cells, and
    the validation cache (`_meta`) of any object. -/
def writable (r : Owner) (c : Cell) : Bool :=
  !c.kind.frozen && (c.owner == r || c.kind == .cache)

/-! ### programs -/

/-- a library method as a program for owner `r` -/
inductive Prog (α : Type) : Type where
  | pure (a : α)
  | alloc (k : Kind) (slots : List (String × Slot)) (cont : Addr → Prog α)
  | write (a : Addr) (slots : List (String × Slot)) (cont : Unit → Prog α)
  | read (a : Addr) (cont : Option Cell → Prog α)
  | fail

def Prog.bind {α β : Type} : Prog α → (α → Prog β) → Prog β
  | .pure a, f => f a
  | .alloc k s c, f => .alloc k s (fun a => (c a).bind f)
  | .write a s c, f => .write a s (fun u => (c u).bind f)
  | .read a c, f => .read a (fun x => (c x).bind f)
  | .fail, _ => .fail

instance : Monad Prog where
  pure := Prog.pure
  bind := Prog.bind

/-- run a program for owner `r`; `none` = fault (the ownership discipline was broken).
    `base`: cells below this address may not be written at all, their validation caches
    excepted (`base = 0`: no such restriction; `base = h.length` at the start of a call: the
    call is read-only). -/
def execB {α : Type} (base : Nat) (r : Owner) : Prog α → Heap → Option (α × Heap)
  | .pure a, h => some (a, h)
  | .alloc k slots cont, h =>
    if slotsOk h k r slots then execB base r (cont h.length) (h ++ [⟨k, r, slots⟩]) else none
  | .write a slots cont, h =>
    match h[a]? with
    | some c =>
      if writable r c && (decide (base ≤ a) || c.kind == .cache) && slotsOk h c.kind c.owner slots then
        execB base r (cont ()) (h.set a { c with slots := slots })
      else none
    | none => none
  | .read a cont, h => execB base r (cont h[a]?) h
  | .fail, _ => none

def exec {α : Type} (r : Owner) (p : Prog α) (h : Heap) : Option (α × Heap) := execB 0 r p h

/-! ### what can be observed of an object: the tree hanging from it (validation caches cut off) -/

inductive Tree where
  | leaf (tok : Nat)
  | cut
  | node (k : Kind) (kids : List (String × Tree))
  deriving Repr, Inhabited

def unfold : Nat → Heap → Addr → Tree
  | 0, _, _ => .cut
  | n + 1, h, a =>
    match h[a]? with
    | none => .cut
    | some c =>
      if c.kind = .cache then .node .cache []
      else .node c.kind (c.slots.map (fun ks => (ks.1, match ks.2 with
                                                      | .imm t => Tree.leaf t
                                                      | .ref b => unfold n h b)))

/-- every cell reachable from `a` (with repetitions) -/
def reach : Nat → Heap → Addr → List Addr
  | 0, _, _ => []
  | n + 1, h, a =>
    match h[a]? with
    | none => []
    | some c => a :: (c.slots.map (fun ks => match ks.2 with
                                          | .imm _ => []
                                          | .ref b => reach n h b)).flatten

/-! ### small vocabulary -/

def palloc (k : Kind) (slots : List (String × Slot)) : Prog Addr := .alloc k slots .pure
def pwrite (a : Addr) (slots : List (String × Slot)) : Prog Unit := .write a slots .pure
def pread (a : Addr) : Prog (Option Cell) := .read a .pure
def pfail {α : Type} : Prog α := .fail

/-- the cell at `a`, which must exist -/
def cellAt (a : Addr) : Prog Cell := do
  match ← pread a with
  | some c => pure c
  | none => pfail

def lookupSlot (slots : List (String × Slot)) (k : String) : Option Slot := slots.lookup k

/-- `d[k] = v` on keyed slots -/
def upsertSlot : List (String × Slot) → String → Slot → List (String × Slot)
  | [], k, v => [(k, v)]
  | (k', v') :: rest, k, v => if k' = k then (k, v) :: rest else (k', v') :: upsertSlot rest k v

/-- the address stored under key `k` of cell `a` -/
def refAt (a : Addr) (k : String) : Prog Addr := do
  let c ← cellAt a
  match lookupSlot c.slots k with
  | some (.ref b) => pure b
  | _ => pfail

/-- `cell[k] = v` in place -/
def setKey (a : Addr) (k : String) (v : Slot) : Prog Unit := do
  let c ← cellAt a
  pwrite a (upsertSlot c.slots k v)

/-- deep copy of everything reachable from `a` (Python `deepcopy`: containers, nested dicts and
    arrays alike; functions and numbers are atoms).  `n` bounds the depth. -/
def deepCopy : Nat → Addr → Prog Slot
  | 0, _ => pfail
  | n + 1, a => do
    let c ← cellAt a
    let slots ← c.slots.foldlM (fun (acc : List (String × Slot)) (ks : String × Slot) =>
      match ks.2 with
      | .imm t => (pure (acc ++ [(ks.1, Slot.imm t)]) : Prog _)
      | .ref b => do
        let s ← deepCopy n b
        pure (acc ++ [(ks.1, s)])) []
    let a' ← palloc c.kind slots
    pure (.ref a')

/-- depth that suffices for every broadbean object (sequence → subsequence → element → channel →
    blueprint → list) -/
def depth : Nat := 12

def deepCopyAddr (a : Addr) : Prog Addr := do
  match ← deepCopy depth a with
  | .ref b => pure b
  | .imm _ => pfail

/-- shallow copy (`list.copy()`, `dict.copy()`): a new container with the same items -/
def shallowCopy (a : Addr) : Prog Addr := do
  let c ← cellAt a
  palloc c.kind c.slots

/-- new tokens in every immediate slot of a cell (an in-place change of its contents) -/
def retoken (tok : Nat) (slots : List (String × Slot)) : List (String × Slot) :=
  slots.map (fun ks => match ks.2 with | .imm _ => (ks.1, Slot.imm tok) | .ref b => (ks.1, Slot.ref b))

/-! ### BluePrint -/

def bpListKeys : List String :=
  ["_funlist", "_argslist", "_namelist", "marker1", "marker2", "_segmark1", "_segmark2", "_durslist"]

/-- `BluePrint()` -/
def bpNew : Prog Addr := do
  let lists ← bpListKeys.foldlM (fun (acc : List (String × Slot)) k => do
    let l ← palloc .bpList []
    pure (acc ++ [(k, Slot.ref l)])) []
  palloc .bpObj (lists ++ [("_SR", .imm 0)])

/-- `BluePrint.copy()` / the constructor called with `.copy()` of every list: eight new lists
    with the same items, a new object -/
def bpCopy (b : Addr) : Prog Addr := do
  let c ← cellAt b
  let slots ← c.slots.foldlM (fun (acc : List (String × Slot)) (ks : String × Slot) =>
    match ks.2 with
    | .imm t => (pure (acc ++ [(ks.1, Slot.imm t)]) : Prog _)
    | .ref l => do
      let l' ← shallowCopy l
      pure (acc ++ [(ks.1, Slot.ref l')])) []
  palloc .bpObj slots

/-- `a + b` on blueprints: new lists holding the items of both -/
def bpAdd (a b : Addr) : Prog Addr := do
  let ca ← cellAt a
  let cb ← cellAt b
  let slots ← ca.slots.foldlM (fun (acc : List (String × Slot)) (ks : String × Slot) =>
    match ks.2, lookupSlot cb.slots ks.1 with
    | .ref la, some (.ref lb) => do
      let xa ← cellAt la
      let xb ← cellAt lb
      let l' ← palloc .bpList (xa.slots ++ xb.slots)
      pure (acc ++ [(ks.1, Slot.ref l')])
    | s, _ => (pure (acc ++ [(ks.1, s)]) : Prog _)) []
  palloc .bpObj slots

/-- any public mutator of a blueprint (insertSegment, removeSegment, changeArg, changeDuration,
    setSegmentMarker, removeSegmentMarker, marker list assignment / append, setSR): the lists it
    touches are changed in place or replaced by new lists of the same blueprint; over-approximated
    as "every list gets one more item, the object's own fields change" -/
def bpMutate (tok : Nat) (b : Addr) : Prog Unit := do
  let c ← cellAt b
  for ks in c.slots do
    match ks.2 with
    | .ref l => do
      let x ← cellAt l
      pwrite l (x.slots ++ [("", .imm tok)])
    | .imm _ => pure ()
  pwrite b (retoken tok c.slots)

/-- marker list assignment `bp.marker1 = [...]`: a list made by the caller becomes the
    blueprint's -/
def bpSetMarker (tok : Nat) (b : Addr) (which : String) : Prog Unit := do
  let l ← palloc .bpList [("", .imm tok)]
  setKey b which (.ref l)

/-! ### Element -/

/-- `Element()` -/
def elNew : Prog Addr := do
  let d ← palloc .elData []
  let m ← palloc .cache []
  palloc .elObj [("_data", .ref d), ("_meta", .ref m)]

/-- `Element.addBluePrint(ch, bp)`: stores `bp.copy()` in a new channel dict -/
def elAddBP (e : Addr) (ch : String) (b : Addr) : Prog Unit := do
  let b' ← bpCopy b
  let chan ← palloc .elChan [("blueprint", .ref b')]
  let d ← refAt e "_data"
  setKey d ch (.ref chan)

/-- `Element.addArray(ch, wfm, SR, **kw)`: a new channel dict holding the caller's arrays
    (`n` of them) by reference -/
def elAddArray (tok : Nat) (e : Addr) (ch : String) (names : List String) : Prog Unit := do
  let arrs ← names.foldlM (fun (acc : List (String × Slot)) nm => do
    let a ← palloc .ndarray [("", .imm tok)]
    pure (acc ++ [(nm, Slot.ref a)])) []
  let ad ← palloc .arrDict arrs
  let chan ← palloc .elChan [("array", .ref ad), ("SR", .imm tok)]
  let d ← refAt e "_data"
  setKey d ch (.ref chan)

/-- a refused `addArray` (marker of another length): the channel was wiped before the check -/
def elAddArrayBroken (e : Addr) (ch : String) : Prog Unit := do
  let ad ← palloc .arrDict []
  let chan ← palloc .elChan [("array", .ref ad)]
  let d ← refAt e "_data"
  setKey d ch (.ref chan)

/-- `Element.addFlags(ch, flags)`: a new list of integers in the channel dict -/
def elAddFlags (tok : Nat) (e : Addr) (ch : String) : Prog Unit := do
  let d ← refAt e "_data"
  let chan ← refAt d ch
  let fl ← palloc .flags [("", .imm tok)]
  setKey chan "flags" (.ref fl)

/-- `Element.copy()`: a new element with deep copies of `_data` and `_meta` -/
def elCopy (e : Addr) : Prog Addr := do
  let d ← refAt e "_data"
  let m ← refAt e "_meta"
  let d' ← deepCopyAddr d
  let m' ← deepCopyAddr m
  palloc .elObj [("_data", .ref d'), ("_meta", .ref m')]

/-- `Element.changeArg / changeDuration(ch, ...)`: the stored blueprint's mutator -/
def elMutateBP (tok : Nat) (e : Addr) (ch : String) : Prog Unit := do
  let d ← refAt e "_data"
  let chan ← refAt d ch
  let b ← refAt chan "blueprint"
  bpMutate tok b

/-- `validateDurations()` (and everything that calls it): the cache `_meta` is written -/
def elValidate (tok : Nat) (e : Addr) : Prog Unit := do
  let m ← refAt e "_meta"
  pwrite m [("SR", .imm tok), ("duration", .imm tok)]

/-! ### Sequence -/

/-- `Sequence()` -/
def sqNew : Prog Addr := do
  let d ← palloc .sqData []
  let q ← palloc .sqSeqn []
  let w ← palloc .awgspecs []
  let m ← palloc .cache []
  palloc .sqObj [("_data", .ref d), ("_sequencing", .ref q), ("_awgspecs", .ref w), ("_meta", .ref m), ("_name", .imm 0)]

/-- `self._awgspecs[key] = number` -/
def sqSetSpec (tok : Nat) (s : Addr) (key : String) : Prog Unit := do
  let w ← refAt s "_awgspecs"
  setKey w key (.imm tok)

/-- `setChannelFilterCompensation`: a *new* nested dict replaces the old entry -/
def sqSetFilter (tok : Nat) (s : Addr) (key : String) : Prog Unit := do
  let f ← palloc .filterDict [("kind", .imm tok), ("order", .imm tok), ("f_cut", .imm tok), ("tau", .imm tok)]
  let w ← refAt s "_awgspecs"
  setKey w key (.ref f)

/-- the five sequencing setters: `self._sequencing[pos][field] = v` in place -/
def sqSetSeq (tok : Nat) (s : Addr) (pos field : String) : Prog Unit := do
  let q ← refAt s "_sequencing"
  let st ← refAt q pos
  setKey st field (.imm tok)

/-- the deprecated `setSequenceSettings(pos, ...)`: a new settings dict for `pos` -/
def sqSetSeqSettings (tok : Nat) (s : Addr) (pos : String) : Prog Unit := do
  let st ← palloc .seqSetting [("twait", .imm tok), ("nrep", .imm tok), ("jump_input", .imm tok), ("jump_target", .imm tok), ("goto", .imm tok)]
  let q ← refAt s "_sequencing"
  setKey q pos (.ref st)

def defaultSetting : List (String × Slot) :=
  [("twait", .imm 0), ("nrep", .imm 1), ("jump_input", .imm 0), ("jump_target", .imm 0), ("goto", .imm 0)]

/-- store an object under `pos` and give the position default sequencing -/
def sqStore (s : Addr) (pos : String) (obj : Addr) : Prog Unit := do
  let d ← refAt s "_data"
  setKey d pos (.ref obj)
  let st ← palloc .seqSetting defaultSetting
  let q ← refAt s "_sequencing"
  setKey q pos (.ref st)

/-- `Sequence.addElement(pos, e)`: validates `e` (its cache is written), stores `e.copy()` -/
def sqAddElement (tok : Nat) (s : Addr) (pos : String) (e : Addr) : Prog Unit := do
  elValidate tok e
  let e' ← elCopy e
  sqStore s pos e'

/-- `Sequence.copy()`: deep copies of the four stores (the name is not copied) -/
def sqCopy (s : Addr) : Prog Addr := do
  let d ← deepCopyAddr (← refAt s "_data")
  let q ← deepCopyAddr (← refAt s "_sequencing")
  let w ← deepCopyAddr (← refAt s "_awgspecs")
  let m ← deepCopyAddr (← refAt s "_meta")
  palloc .sqObj [("_data", .ref d), ("_sequencing", .ref q), ("_awgspecs", .ref w), ("_meta", .ref m), ("_name", .imm 0)]

/-- `Sequence.addSubSequence(pos, sub)`: stores `sub.copy()` -/
def sqAddSub (s : Addr) (pos : String) (sub : Addr) : Prog Unit := do
  let sub' ← sqCopy sub
  sqStore s pos sub'

/-- the copy `__add__` makes of one stored entry: `self.element(key).copy()` -/
def entryCopy (x : Addr) : Prog Addr := do
  let c ← cellAt x
  if c.kind = .sqObj then sqCopy x else elCopy x

/-- `a + b`: copies of all stored entries of both, shallow copies of every sequencing dict, and a
    *shallow* copy of `b`'s AWG settings — the nested filter dicts stay shared with `b`.
    The entries of `b` move to `key + N`, `N = len(a._data)`. -/
def sqAdd (a b : Addr) : Prog Addr := do
  let da ← cellAt (← refAt a "_data")
  let db ← cellAt (← refAt b "_data")
  let qa ← cellAt (← refAt a "_sequencing")
  let qb ← cellAt (← refAt b "_sequencing")
  let n : Int := da.slots.length
  let shift (k : String) : String := toString (k.toInt?.getD 0 + n)
  let copyEntries (src : List (String × Slot)) (rekey : String → String) (shallow : Bool) : Prog (List (String × Slot)) :=
    src.foldlM (fun (acc : List (String × Slot)) (ks : String × Slot) =>
      match ks.2 with
      | .ref x => do
        let x' ← if shallow then shallowCopy x else entryCopy x
        pure (acc ++ [(rekey ks.1, Slot.ref x')])
      | .imm t => (pure (acc ++ [(rekey ks.1, Slot.imm t)]) : Prog _)) []
  let d1 ← copyEntries da.slots id false
  let d2 ← copyEntries db.slots shift false
  let q1 ← copyEntries qa.slots id true
  let q2 ← copyEntries qb.slots shift true
  let d ← palloc .sqData (d1 ++ d2)
  let q ← palloc .sqSeqn (q1 ++ q2)
  let w ← shallowCopy (← refAt b "_awgspecs")
  let m ← palloc .cache []
  palloc .sqObj [("_data", .ref d), ("_sequencing", .ref q), ("_awgspecs", .ref w), ("_meta", .ref m), ("_name", .imm 0)]

/-- `seq.element(pos).changeArg / changeDuration(ch, ...)`: the stored element itself -/
def sqElMutate (tok : Nat) (s : Addr) (pos ch : String) : Prog Unit := do
  let d ← refAt s "_data"
  let e ← refAt d pos
  elMutateBP tok e ch

/-- `Sequence.setName` / any write to the object's own fields -/
def sqSetName (tok : Nat) (s : Addr) : Prog Unit := do
  let c ← cellAt s
  pwrite s (upsertSlot c.slots "_name" (.imm tok))

/-- `forge()` and the output methods: a deep copy of the element store is taken and only that
    copy is edited (delays, filters); nothing that existed before is written -/
def sqForge (tok : Nat) (s : Addr) : Prog Unit := do
  let d ← deepCopyAddr (← refAt s "_data")
  let c ← cellAt d
  pwrite d (retoken tok c.slots)

/-! ### broadbean.tools -/

/-- `makeLinearlyVaryingSequence`: per value a copy of the base element is edited and added -/
def tlLinVary (tok : Nat) (base : Addr) (ch : String) (poss : List String) : Prog Addr := do
  let s ← sqNew
  sqSetSpec tok s "SR"
  for pos in poss do
    let e ← elCopy base
    elMutateBP tok e ch
    sqAddElement tok s pos e
  pure s

/-- `makeVaryingSequence`: copies of the base element are added first and then edited in place
    through `sequence.element(pos)` -/
def tlVary (tok : Nat) (base : Addr) (poss : List String) (edits : List (String × String)) : Prog Addr := do
  elValidate tok base
  let s ← sqNew
  sqSetSpec tok s "SR"
  for pos in poss do
    let e ← elCopy base
    sqAddElement tok s pos e
  for pe in edits do
    sqElMutate tok s pe.1 pe.2
  pure s

/-- `repeatAndVarySequence`: starts from an empty sequence holding a deep copy of the input's AWG
    settings; per step a copy of the input is edited and appended with `+` -/
def tlRepVary (tok : Nat) (seq : Addr) (steps : Nat) (edits : List (String × String)) : Prog Addr := do
  let s0 ← sqNew
  let w ← deepCopyAddr (← refAt seq "_awgspecs")
  setKey s0 "_awgspecs" (.ref w)
  (List.range steps).foldlM (fun (acc : Addr) _ => do
    let t ← sqCopy seq
    for pe in edits do
      sqElMutate tok t pe.1 pe.2
    sqAdd acc t) s0

/-! ### user-held objects -/

/-- the heap together with the objects the user holds (variable name ↦ root cell) -/
structure State where
  heap : Heap := []
  /-- owners handed out so far -/
  nroots : Nat := 0
  vars : List (String × Addr) := []
  fault : Bool := false
  deriving Repr, Inhabited

/-- (re)bind a variable name -/
def setVar (vars : List (String × Addr)) (k : String) (v : Addr) : List (String × Addr) :=
  vars.filter (fun p => p.1 ≠ k) ++ [(k, v)]

/-- a method that returns a new object (constructor, `copy()`, `+`, a sweep tool): its program
    runs for a fresh owner and the result is bound to `name` -/
def State.derive (st : State) (name : String) (p : Prog Addr) : State :=
  match exec st.nroots p st.heap with
  | some (a, h') =>
    -- the returned object must be one the program made
    if st.heap.length ≤ a ∧ a < h'.length then { st with heap := h', nroots := st.nroots + 1, vars := setVar st.vars name a }
    else { st with fault := true }
  | none => { st with fault := true }

/-- a method called on the user-held object at `x` (mutator or read-only): its program runs for
    the owner of `x` -/
def State.act (st : State) (x : Addr) (p : Prog Unit) : State :=
  match st.heap[x]? with
  | some c =>
    match exec c.owner p st.heap with
    | some (_, h') => { st with heap := h' }
    | none => { st with fault := true }
  | none => { st with fault := true }

/-- a read-only method called on the object at `x` (forge, output, description, queries, ==): its
    program may allocate and write what it allocated, and fill validation caches; nothing else -/
def State.query (st : State) (x : Addr) (p : Prog Unit) : State :=
  match st.heap[x]? with
  | some c =>
    match execB st.heap.length c.owner p st.heap with
    | some (_, h') => { st with heap := h' }
    | none => { st with fault := true }
  | none => { st with fault := true }

/-- one public call: which object it is made on / which name its result gets, and its program -/
inductive Call where
  | derive (name : String) (p : Prog Addr)
  | act (target : String) (p : Addr → Prog Unit)
  | query (target : String) (p : Addr → Prog Unit)

def State.call (st : State) : Call → State
  | .derive name p => st.derive name p
  | .act target p =>
    match st.vars.lookup target with
    | some x => st.act x (p x)
    | none => { st with fault := true }
  | .query target p =>
    match st.vars.lookup target with
    | some x => st.query x (p x)
    | none => { st with fault := true }

end BB.Heap
