/-
  BB.Model.Tools — `broadbean.tools`: makeVaryingSequence, makeLinearlyVaryingSequence,
  repeatAndVarySequence, as coded.
-/
import BB.Model.Sequence

namespace BB
namespace Tools

/-- one variation: channel, segment name, argument (`.str "duration"` sweeps the duration) -/
structure Variation where
  chan : Chan
  name : String
  arg : Val
  vals : List Val
  deriving Repr, Inhabited

def applyChange (e : Element) (ch : Chan) (name : String) (arg val : Val) : Res Element :=
  if arg = .str "duration" then e.changeDuration ch name val false
  else e.changeArg ch name arg val false

/-- `numpy.linspace(start, stop, n)` (end point included) -/
def linspace (start stop : Rat) (n : Nat) : List Rat :=
  if n = 1 then [start]
  else (List.range n).map (fun (i : Nat) => start + ((i : Int) : Rat) * ((stop - start) / (((n - 1 : Nat) : Int) : Rat)))

/-- number of steps of `makeLinearlyVaryingSequence` -/
def linCount (start stop step : Rat) : Int := Gen.linCount start stop step

/-- `makeLinearlyVaryingSequence(baseelement, channel, name, arg, start, stop, step)` -/
def makeLinearlyVaryingSequence (base : Element) (ch : Chan) (name : String) (arg : Val)
    (start stop step : Rat) : Except Err Sequence := do
  let sr ← base.getSR
  let mut s : Sequence := ({} : Sequence).setSR sr
  if step = 0 then throw Err.value     -- ZeroDivisionError
  let n := linCount start stop step
  if n < 0 then throw Err.value        -- linspace refuses a negative count
  let mut ind : Nat := 0
  for v in linspace start stop n.toNat do
    ind := ind + 1
    let r := applyChange base ch name arg (.num v)
    match r.err with
    | some er => throw er
    | none =>
      let r2 := s.addElement (ind : Int) r.st
      match r2.err with
      | some er => throw er
      | none => s := r2.st
  pure s

def allSameLen (ls : List Nat) : Bool :=
  match ls with
  | [] => true
  | x :: xs => xs.all (· = x)

/-- modify the element at `pos` of a sequence in place (what `seq.element(pos).changeArg` does) -/
def modifyElement (s : Sequence) (pos : Int) (f : Element → Res Element) : Res Sequence :=
  match Dict.get? s.data pos with
  | some (.el e) =>
    let r := f e
    ⟨{ s with data := Dict.upsert s.data pos (.el r.st) }, r.err⟩
  | some (.sub _) => ⟨s, some .attr⟩
  | none => ⟨s, some .key⟩

/-- `makeVaryingSequence(baseelement, channels, names, args, iters)`;
    the four lists arrive as their lengths plus the zipped variations -/
def makeVaryingSequence (base : Element) (lens : List Nat) (vars : List Variation) :
    Except Err Sequence := do
  let m ← base.validate
  if !allSameLen lens then throw Err.value
  let noofvals := vars.map (fun v => v.vals.length)
  let n0 ← match noofvals.head? with | some n => pure n | none => throw Err.index
  if noofvals.any (· ≠ n0) then throw Err.value
  let mut s : Sequence := ({} : Sequence).setSR m.1
  for i in List.range n0 do
    let r := s.addElement ((i + 1 : Nat) : Int) base
    match r.err with
    | some er => throw er
    | none => s := r.st
  for v in vars do
    let mut mpos : Nat := 0
    for val in v.vals do
      mpos := mpos + 1
      let r := modifyElement s (mpos : Int) (fun e => applyChange e v.chan v.name v.arg val)
      match r.err with
      | some er => throw er
      | none => s := r.st
  if !(← s.checkConsistency) then throw Err.consistency
  pure s

/-- `repeatAndVarySequence(seq, poss, channels, names, args, iters)` -/
def repeatAndVarySequence (seq : Sequence) (lens : List Nat) (poss : List Int)
    (vars : List Variation) : Except Err Sequence := do
  if !(← seq.checkConsistency) then throw Err.consistency
  if !allSameLen lens then throw Err.value
  let noofvals := vars.map (fun v => v.vals.length)
  let n0 ← match noofvals.head? with | some n => pure n | none => throw Err.index
  if noofvals.any (· ≠ n0) then throw Err.value
  let mut newseq : Sequence := { awgspecs := seq.awgspecs }
  for step in List.range n0 do
    let mut temp := seq.copy
    for (pos, v) in poss.zip vars do
      let val ← match v.vals[step]? with | some x => pure x | none => throw Err.index
      let r := modifyElement temp pos (fun e => applyChange e v.chan v.name v.arg val)
      match r.err with
      | some er => throw er
      | none => temp := r.st
    newseq ← newseq.add temp
  pure newseq

end Tools
end BB
