/-
  BB.Model.Tools — `broadbean.tools`: makeVaryingSequence, makeLinearlyVaryingSequence,
  repeatAndVarySequence, as coded.
-/
import BB.Model.Sequence

namespace BB
namespace Tools

/-- one variation: channel, segment name, argument (`.str "duration"` sweeps the duration) -/
structure Variation where
  chan : Chan
  name : String
  arg : Val
  vals : List Val
  deriving Repr, Inhabited

def applyChange (e : Element) (ch : Chan) (name : String) (arg val : Val) : Res Element :=
  if arg = .str "duration" then e.changeDuration ch name val false
  else e.changeArg ch name arg val false

/-- `numpy.linspace(start, stop, n)` (end point included) -/
def linspace (start stop : Rat) (n : Nat) : List Rat :=
  if n = 1 then [start]
  else (List.range n).map (fun (i : Nat) => start + ((i : Int) : Rat) * ((stop - start) / (((n - 1 : Nat) : Int) : Rat)))

/-- number of steps of `makeLinearlyVaryingSequence` -/
def linCount (start stop step : Rat) : Int := Gen.linCount start stop step

/-- the loop of `makeLinearlyVaryingSequence`: for the `ind`-th value, copy the base element,
    apply the change, add it at position `ind` -/
def linLoop (base : Element) (ch : Chan) (name : String) (arg : Val) :
    List Rat → Nat → Sequence → Except Err Sequence
  | [], _, s => .ok s
  | v :: vs, ind, s =>
    match (applyChange base ch name arg (.num v)).toExcept with
    | .error er => .error er
    | .ok e =>
      match (s.addElement ((ind + 1 : Nat) : Int) e).toExcept with
      | .error er => .error er
      | .ok s' => linLoop base ch name arg vs (ind + 1) s'

/-- `makeLinearlyVaryingSequence(baseelement, channel, name, arg, start, stop, step)` -/
def makeLinearlyVaryingSequence (base : Element) (ch : Chan) (name : String) (arg : Val)
    (start stop step : Rat) : Except Err Sequence :=
  match base.getSR with
  | .error er => .error er
  | .ok sr =>
    if step = 0 then .error .value        -- ZeroDivisionError
    else if linCount start stop step < 0 then .error .value   -- linspace refuses a negative count
    else linLoop base ch name arg (linspace start stop (linCount start stop step).toNat) 0 (({} : Sequence).setSR sr)

def allSameLen (ls : List Nat) : Bool :=
  match ls with
  | [] => true
  | x :: xs => xs.all (· = x)

/-- modify the element at `pos` of a sequence in place (what `seq.element(pos).changeArg` does) -/
def modifyElement (s : Sequence) (pos : Int) (f : Element → Res Element) : Res Sequence :=
  match Dict.get? s.data pos with
  | some (.el e) =>
    let r := f e
    ⟨{ s with data := Dict.upsert s.data pos (.el r.st) }, r.err⟩
  | some (.sub _) => ⟨s, some .attr⟩
  | none => ⟨s, some .key⟩

/-- add the base element at positions `k+1 .. k+n` -/
def addCopies (base : Element) : Nat → Nat → Sequence → Except Err Sequence
  | 0, _, s => .ok s
  | n + 1, k, s =>
    match (s.addElement ((k + 1 : Nat) : Int) base).toExcept with
    | .error er => .error er
    | .ok s' => addCopies base n (k + 1) s'

/-- the inner loop over the values of one variation: the value with index `m` goes to the
    element at position `m + 1` -/
def applyVals (v : Variation) : List Val → Nat → Sequence → Except Err Sequence
  | [], _, s => .ok s
  | val :: rest, m, s =>
    match (modifyElement s ((m + 1 : Nat) : Int) (fun e => applyChange e v.chan v.name v.arg val)).toExcept with
    | .error er => .error er
    | .ok s' => applyVals v rest (m + 1) s'

/-- the outer loop over the variations -/
def applyVars : List Variation → Sequence → Except Err Sequence
  | [], s => .ok s
  | v :: vs, s =>
    match applyVals v v.vals 0 s with
    | .error er => .error er
    | .ok s' => applyVars vs s'

/-- the input validation shared by the two sweep tools: equal list lengths, equal numbers of values;
    returns the number of steps -/
def sweepSteps (lens : List Nat) (vars : List Variation) : Except Err Nat :=
  if !allSameLen lens then .error .value
  else match vars with
    | [] => .error .index            -- `noofvals[0]` of an empty list
    | v :: rest => if rest.any (fun w => w.vals.length ≠ v.vals.length) then .error .value else .ok v.vals.length

/-- `makeVaryingSequence(baseelement, channels, names, args, iters)`;
    the four lists arrive as their lengths plus the zipped variations -/
def makeVaryingSequence (base : Element) (lens : List Nat) (vars : List Variation) :
    Except Err Sequence :=
  match base.validate with
  | .error er => .error er
  | .ok m =>
    match sweepSteps lens vars with
    | .error er => .error er
    | .ok n0 =>
      match addCopies base n0 0 (({} : Sequence).setSR m.1) with
      | .error er => .error er
      | .ok s0 =>
        match applyVars vars s0 with
        | .error er => .error er
        | .ok s1 =>
          match s1.checkConsistency with
          | .error er => .error er
          | .ok false => .error .consistency
          | .ok true => .ok s1

/-- the changes of one step of `repeatAndVarySequence`, applied to a copy of the sequence -/
def applyStep (step : Nat) : List (Int × Variation) → Sequence → Except Err Sequence
  | [], s => .ok s
  | (pos, v) :: rest, s =>
    match v.vals[step]? with
    | none => .error .index
    | some val =>
      match (modifyElement s pos (fun e => applyChange e v.chan v.name v.arg val)).toExcept with
      | .error er => .error er
      | .ok s' => applyStep step rest s'

/-- the loop over the steps: vary a copy, append it -/
def repeatLoop (seq : Sequence) (pv : List (Int × Variation)) : List Nat → Sequence → Except Err Sequence
  | [], acc => .ok acc
  | step :: rest, acc =>
    match applyStep step pv seq.copy with
    | .error er => .error er
    | .ok temp =>
      match acc.add temp with
      | .error er => .error er
      | .ok acc' => repeatLoop seq pv rest acc'

/-- `repeatAndVarySequence(seq, poss, channels, names, args, iters)` -/
def repeatAndVarySequence (seq : Sequence) (lens : List Nat) (poss : List Int)
    (vars : List Variation) : Except Err Sequence :=
  match seq.checkConsistency with
  | .error er => .error er
  | .ok false => .error .consistency
  | .ok true =>
    match sweepSteps lens vars with
    | .error er => .error er
    | .ok n0 => repeatLoop seq (poss.zip vars) (List.range n0) { awgspecs := seq.awgspecs }

end Tools
end BB
