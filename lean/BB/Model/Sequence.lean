/-
  BB.Model.Sequence — executable model of `broadbean.sequence.Sequence` and
  `broadbean.broadbean._AWGOutput`.

  `forge` and `_prepareForOutputting` are two independent implementations of
  "copy, delay, forge, compensate" in the code; the model keeps both.
-/
import BB.Model.Element

namespace BB

structure SeqSet where
  twait : Int
  nrep : Int
  jump_input : Int
  jump_target : Int
  goto : Int
  deriving DecidableEq, Repr, Inhabited

def lookupD (l : List (String × Int)) (k : String) : Int := (l.lookup k).getD 0

def SeqSet.ofTable (t : List (String × Int)) : SeqSet :=
  ⟨lookupD t "twait", lookupD t "nrep", lookupD t "jump_input", lookupD t "jump_target", lookupD t "goto"⟩

structure FilterSpec where
  kind : String
  order : Int
  f_cut : Val
  tau : Val
  deriving DecidableEq, Repr, Inhabited

inductive Spec where
  | val (v : Val)
  | filt (f : FilterSpec)
  deriving DecidableEq, Repr, Inhabited

structure SeqCore (E : Type) where
  data : Dict Int E := []
  sequencing : Dict Int SeqSet := []
  awgspecs : Dict String Spec := []
  name : String := ""
  deriving Repr, Inhabited

abbrev SubSeq := SeqCore Element

inductive Entry where
  | el (e : Element)
  | sub (s : SubSeq)
  deriving Repr, Inhabited

abbrev Sequence := SeqCore Entry

/-- one call of `ripasso.applyInverseRCFilter(wfm, SR, kind, f_cut, order, DCgain=1)` -/
structure FiltCall where
  kind : String
  order : Int
  fcut : Rat
  SR : Val
  deriving DecidableEq, Repr, Inhabited

/-- a channel of a forged element, with the filter the sequence applied to its 'wfm' -/
structure ChOutF where
  out : Element.ChOut
  filt : Option FiltCall := none
  deriving DecidableEq, Repr, Inhabited

structure ForgedPos where
  sequencing : SeqSet
  isSub : Bool
  /-- (inner position, per-channel arrays, inner sequencing for subsequences) -/
  content : List (Nat × Dict Chan ChOutF × Option SeqSet)
  deriving Repr, Inhabited

def keyOf (ch : Chan) (what : String) : String := "channel" ++ ch.toStr ++ "_" ++ what

/-- `_channelListSorter`: ints (sorted) before strings (sorted) -/
def insertSorted {α} (lt : α → α → Bool) (x : α) : List α → List α
  | [] => [x]
  | y :: ys => if lt x y then x :: y :: ys else y :: insertSorted lt x ys
def sortBy {α} (lt : α → α → Bool) (l : List α) : List α := l.foldr (insertSorted lt) []

def channelListSorter (chs : List Chan) : List Chan :=
  let ints := chs.filterMap (fun c => match c with | .int n => some n | _ => none)
  let strs := chs.filterMap (fun c => match c with | .str s => some s | _ => none)
  (sortBy (fun a b => decide (a ≤ b)) ints).map Chan.int ++ (sortBy (fun a b => decide (a ≤ b)) strs).map Chan.str

/-- positions 1..N all filled, in whatever order they were added (an empty store counts as [1]) -/
def oneTo (n : Nat) : List Int := (List.range n).map (fun (i : Nat) => (i : Int) + 1)

def gapFree (keys : List Int) : Bool :=
  let positions := sortBy (fun a b => decide (a ≤ b)) keys
  let positions := if positions.isEmpty then [1] else positions
  positions == oneTo positions.length

/-- all entries of a list equal its last entry -/
def allEqLast {α} [DecidableEq α] (l : List α) : Bool :=
  match l.getLast? with
  | some last => l.all (· = last)
  | none => true

namespace SeqCore
variable {E : Type}

def getSR (s : SeqCore E) : Val :=
  match Dict.get? s.awgspecs "SR" with
  | some (.val v) => v
  | some _ => .opq 0
  | none => .num (-1)

def specNum (s : SeqCore E) (k : String) : Option Rat :=
  match Dict.get? s.awgspecs k with
  | some (.val (.num q)) => some q
  | _ => none

def setSpec (s : SeqCore E) (k : String) (v : Spec) : SeqCore E :=
  { s with awgspecs := Dict.upsert s.awgspecs k v }

def setSR (s : SeqCore E) (v : Val) : SeqCore E := s.setSpec "SR" (.val v)
def setChannelAmplitude (s : SeqCore E) (ch : Chan) (v : Val) := s.setSpec (keyOf ch "amplitude") (.val v)
def setChannelOffset (s : SeqCore E) (ch : Chan) (v : Val) := s.setSpec (keyOf ch "offset") (.val v)
def setChannelDelay (s : SeqCore E) (ch : Chan) (v : Val) := s.setSpec (keyOf ch "delay") (.val v)

/-- `setChannelFilterCompensation(channel, kind, order, f_cut, tau)`;
    `orderIsInt` is Python's `isinstance(order, int)` -/
def setChannelFilterCompensation (s : SeqCore E) (ch : Chan) (kind : String) (order : Int)
    (orderIsInt : Bool) (f_cut tau : Val) : Res (SeqCore E) :=
  if ¬ Gen.filterKinds.contains kind then ⟨s, some .value⟩
  else if ¬ orderIsInt then ⟨s, some .value⟩
  else if f_cut ≠ .none ∧ tau ≠ .none then ⟨s, some .specincons⟩
  else ⟨s.setSpec (keyOf ch "filtercompensation") (.filt ⟨kind, order, f_cut, tau⟩), none⟩

/-- the five `setSequencingXXX(pos, v)` setters: KeyError when the position has no entry -/
def setSequencing (s : SeqCore E) (pos : Int) (f : SeqSet → SeqSet) : Res (SeqCore E) :=
  match Dict.get? s.sequencing pos with
  | none => ⟨s, some .key⟩
  | some q => ⟨{ s with sequencing := Dict.upsert s.sequencing pos (f q) }, none⟩

def delayOf (s : SeqCore E) (ch : Chan) : Except Err Rat :=
  match Dict.get? s.awgspecs (keyOf ch "delay") with
  | none => .ok 0
  | some (.val (.num q)) => .ok q
  | some _ => .error .type

def filterOf (s : SeqCore E) (ch : Chan) : Except Err (Option FiltCall) :=
  match Dict.get? s.awgspecs (keyOf ch "filtercompensation") with
  | none => .ok none
  | some (.filt f) =>
    let fc : Except Err Rat :=
      match f.f_cut with
      | .num q => .ok q
      | .none => match f.tau with
        | .num t => if t = 0 then .error .value else .ok (1 / t)
        | _ => .error .type
      | _ => .error .type
    fc.map (fun q => some ⟨f.kind, f.order, q, s.getSR⟩)
  | some _ => .error .type

end SeqCore

/-! ### the element-only sequence (also: a subsequence) -/
namespace SubSeq

/-- `checkConsistency` of a sequence holding elements only -/
def checkConsistency (s : SubSeq) : Except Err Bool :=
  if !(Dict.has s.awgspecs "SR") then .error .key else
  match (Dict.vals s.data).mapM (fun e => e.getSR) with
  | .error er => .error er
  | .ok srs =>
    if !Element.allSame srs then .ok false
    else if !allEqLast ((Dict.vals s.data).map (fun e => channelListSorter e.channels)) then .ok false
    else .ok (gapFree (Dict.keys s.data))

def channels (s : SubSeq) : Except Err (List Chan) := do
  if !(← s.checkConsistency) then throw .consistency
  match Dict.get? s.data 1 with
  | some e => pure e.channels
  | none => throw .key

def points (s : SubSeq) : Except Err Int :=
  (Dict.vals s.data).foldlM (fun acc e => do pure (acc + (← e.points))) 0

def duration (s : SubSeq) : Except Err Rat :=
  s.data.foldlM (fun acc (pos, e) => do
    match Dict.get? s.sequencing pos with
    | none => throw .key
    | some q => pure (acc + (q.nrep : Rat) * (← e.duration))) 0

end SubSeq

namespace Entry
def getSR : Entry → Except Err Val
  | .el e => e.getSR
  | .sub s => .ok s.getSR
def channels : Entry → Except Err (List Chan)
  | .el e => .ok e.channels
  | .sub s => s.channels
def points : Entry → Except Err Int
  | .el e => e.points
  | .sub s => s.points
def duration : Entry → Except Err Rat
  | .el e => e.duration
  | .sub s => s.duration
def beq : Entry → Entry → Bool
  | .el a, .el b => a.beq b
  | .sub a, .sub b =>
    Dict.eqBy Element.beq a.data b.data && Dict.eqBy (· == ·) a.awgspecs b.awgspecs
      && Dict.eqBy (· == ·) a.sequencing b.sequencing
  | _, _ => false
end Entry

namespace Sequence

def defaultSeqEl : SeqSet := SeqSet.ofTable Gen.defaultSequencingElement
def defaultSeqSub : SeqSet := SeqSet.ofTable Gen.defaultSequencingSubSequence

/-- `Sequence.addElement(position, element)` -/
def addElement (s : Sequence) (pos : Int) (e : Element) : Res Sequence :=
  match e.validate with
  | .error er => ⟨s, some er⟩
  | .ok m =>
    ⟨{ s with data := Dict.upsert s.data pos (.el { e with cache := some m })
              sequencing := Dict.upsert s.sequencing pos defaultSeqEl }, none⟩

/-- the store of a sequence that holds elements only (`none` if it holds a subsequence) -/
def elementsOnly : Dict Int Entry → Option (Dict Int Element)
  | [] => some []
  | (p, .el e) :: rest => (elementsOnly rest).map (fun d => (p, e) :: d)
  | (_, .sub _) :: _ => none

/-- what `addSubSequence` stores: `subsequence.copy()` (elements, sequencing, settings; the copy
    does not carry the name) -/
def storedSub (sub : Sequence) (d : Dict Int Element) : SubSeq :=
  { data := d, sequencing := sub.sequencing, awgspecs := sub.awgspecs, name := "" }

/-- `Sequence.addSubSequence(position, subsequence)`: an argument that itself holds a subsequence
    (nesting) or has another sample rate is refused -/
def addSubSequence (s : Sequence) (pos : Int) (sub : Sequence) : Res Sequence :=
  match elementsOnly sub.data with
  | none => ⟨s, some .value⟩
  | some d =>
    if sub.getSR ≠ s.getSR then ⟨s, some .value⟩
    else
      ⟨{ s with data := Dict.upsert s.data pos (.sub (storedSub sub d))
                sequencing := Dict.upsert s.sequencing pos defaultSeqSub }, none⟩

/-- `Sequence.checkConsistency()`; raises KeyError without a sample rate.  A stored subsequence
    whose own `channels` query raises SequenceConsistencyError (it is inconsistent itself) or KeyError
    (it holds no element, or has no sample rate) makes the answer False (D27, D28); any other
    exception of that query propagates. -/
def checkConsistency (s : Sequence) : Except Err Bool :=
  if !(Dict.has s.awgspecs "SR") then .error .key else
  match (Dict.vals s.data).mapM Entry.getSR with
  | .error er => .error er
  | .ok srs =>
    if !Element.allSame srs then .ok false else
    match (Dict.vals s.data).mapM Entry.channels with
    | .error er => if er = .consistency ∨ er = .key then .ok false else .error er
    | .ok chans =>
      if !allEqLast (chans.map channelListSorter) then .ok false
      else .ok (gapFree (Dict.keys s.data))

/-- `Sequence.channels` -/
def channels (s : Sequence) : Except Err (List Chan) := do
  if !(← s.checkConsistency) then throw .consistency
  match Dict.get? s.data 1 with
  | some en => en.channels
  | none => throw .key

def points (s : Sequence) : Except Err Int :=
  (Dict.vals s.data).foldlM (fun acc en => do pure (acc + (← en.points))) 0

/-- the contribution of one position to `Sequence.duration`: repetitions × duration of the entry
    (for a subsequence: its own repetition-weighted duration); KeyError without a sequencing entry -/
def posDuration (s : Sequence) (x : Int × Entry) : Except Err Rat :=
  match Dict.get? s.sequencing x.1 with
  | none => .error .key
  | some q => x.2.duration.map (fun d => (q.nrep : Rat) * d)

def duration (s : Sequence) : Except Err Rat :=
  s.data.foldlM (fun acc x => (posDuration s x).map (fun v => acc + v)) 0

/-- `Sequence.copy()` (deep; the name is not carried over) -/
def copy (s : Sequence) : Sequence := { s with name := "" }

/-- `Sequence.__eq__`: store, AWG settings, sequencing (dict equality) -/
def beq (a b : Sequence) : Bool :=
  Dict.eqBy Entry.beq a.data b.data && Dict.eqBy (· == ·) a.awgspecs b.awgspecs
    && Dict.eqBy (· == ·) a.sequencing b.sequencing

/-- `element.copy()` / `subsequence.copy()` of a stored entry (a subsequence copy drops its name) -/
def copyEntry : Entry → Entry
  | .el e => .el e
  | .sub s => .sub { s with name := "" }

/-- the sequencing entry of the right operand moved behind `N` positions -/
def retargetSeq (N : Int) (q : SeqSet) : SeqSet :=
  { q with goto := Gen.retargetGoto q.goto N, jump_target := Gen.retargetJump q.jump_target N }

/-- what `__add__` builds once its checks have passed: copies of `a`'s entries under their own
    positions, copies of `b`'s entries under `position + len(a)`, `a`'s sequencing entries as they
    are, `b`'s re-keyed and retargeted, the (common) AWG settings -/
def addCore (a b : Sequence) : Sequence :=
  let N : Int := a.data.length
  { data := b.data.foldl (fun d (k, en) => Dict.upsert d (k + N) (copyEntry en))
              (a.data.map (fun (k, en) => (k, copyEntry en)))
    sequencing := b.sequencing.foldl (fun d (k, q) => Dict.upsert d (k + N) (retargetSeq N q)) a.sequencing
    awgspecs := b.awgspecs
    name := "" }

/-- `Sequence.__add__`: both operands must be consistent and carry equal AWG settings -/
def add (a b : Sequence) : Except Err Sequence :=
  match a.checkConsistency with
  | .error e => .error e
  | .ok false => .error .consistency
  | .ok true =>
    match b.checkConsistency with
    | .error e => .error e
    | .ok false => .error .consistency
    | .ok true =>
      if Dict.eqBy (· == ·) a.awgspecs b.awgspecs then .ok (addCore a b) else .error .compat

/-- delays for an element, looked up per channel of that element -/
def delaysFor (s : Sequence) (e : Element) : Except Err (List Rat) :=
  e.channels.mapM s.delayOf

def delayElement (s : Sequence) (e : Element) : Except Err Element := do
  let ds ← s.delaysFor e
  let r := e.applyDelays ds
  match r.err with
  | some er => throw er
  | none => pure r.st

/-- attach the declared filter (if filters are applied and the channel has one) to one channel -/
def attach (s : Sequence) (apply : Bool) (x : Chan × Element.ChOut) : Except Err (Chan × ChOutF) :=
  if apply then
    match s.filterOf x.1 with
    | .ok f => .ok (x.1, { out := x.2, filt := f })
    | .error e => .error e
  else .ok (x.1, { out := x.2, filt := none })

/-- attach the declared filters to the forged channels -/
def withFilters (s : Sequence) (apply : Bool) (d : Dict Chan Element.ChOut) :
    Except Err (Dict Chan ChOutF) :=
  d.mapM (s.attach apply)

/-- the entry at every position 1..N, in order (KeyError if one is missing) -/
def entriesInOrder (s : Sequence) : Except Err (List (Nat × Entry)) :=
  (List.range s.data.length).mapM (fun (i : Nat) =>
    match Dict.get? s.data ((i + 1 : Nat) : Int) with
    | none => .error .key
    | some en => .ok (i + 1, en))

/-- phase 1 of `forge`: the channel delays applied to (a deep copy of) one entry; for a
    subsequence, to every one of its elements -/
def delayEntry (s : Sequence) (apply : Bool) : Entry → Except Err Entry
  | .el e => if apply then (s.delayElement e).map Entry.el else .ok (.el e)
  | .sub sub =>
    if apply then
      (sub.data.mapM (fun pe => (s.delayElement pe.2).map (fun e' => (pe.1, e')))).map
        (fun d => Entry.sub { sub with data := d })
    else .ok (.sub sub)

/-- per inner position: (position, per-channel arrays, own sequencing for subsequence positions) -/
abbrev RawContent := List (Nat × Dict Chan Element.ChOut × Option SeqSet)

/-- phase 2 for a subsequence: arrays and own sequencing of its positions 1..n -/
def forgeInner (t : Bool) (sub : SubSeq) : Except Err RawContent :=
  (List.range sub.data.length).mapM (fun (j : Nat) =>
    match Dict.get? sub.data ((j + 1 : Nat) : Int) with
    | none => .error .key
    | some e =>
      match e.getArrays t with
      | .error er => .error er
      | .ok arr =>
        match Dict.get? sub.sequencing ((j + 1 : Nat) : Int) with
        | none => .error .key
        | some q2 => .ok (j + 1, arr, some q2))

/-- phase 2: the arrays of one (delayed) entry together with the position's sequencing entry -/
def forgeEntry (s : Sequence) (t : Bool) (x : Nat × Entry) : Except Err (Nat × SeqSet × Bool × RawContent) :=
  match Dict.get? s.sequencing (x.1 : Int) with
  | none => .error .key
  | some sq =>
    match x.2 with
    | .el e => (e.getArrays t).map (fun arr => (x.1, sq, false, [(1, arr, none)]))
    | .sub sub => (forgeInner t sub).map (fun inner => (x.1, sq, true, inner))

/-- phase 3: the declared filters attached to every forged channel -/
def filterEntry (s : Sequence) (f : Bool) (x : Nat × SeqSet × Bool × RawContent) : Except Err (Nat × ForgedPos) :=
  (x.2.2.2.mapM (fun c => (s.withFilters f c.2.1).map (fun a => (c.1, a, c.2.2)))).map
    (fun content => (x.1, { sequencing := x.2.1, isSub := x.2.2.1, content := content }))

/-- `Sequence.forge(apply_delays, apply_filters, includetime)`: consistency gate, then three
    passes over the positions 1..N — delays, arrays, filters -/
def forge (s : Sequence) (applyDelays applyFilters includetime : Bool) :
    Except Err (List (Nat × ForgedPos)) :=
  match s.checkConsistency with
  | .error e => .error e
  | .ok false => .error .value
  | .ok true =>
    match s.channels with
    | .error e => .error e
    | .ok _ =>
      match s.entriesInOrder with
      | .error e => .error e
      | .ok ents =>
        match ents.mapM (fun x => (s.delayEntry applyDelays x.2).map (fun en => (x.1, en))) with
        | .error e => .error e
        | .ok delayed =>
          match delayed.mapM (s.forgeEntry includetime) with
          | .error e => .error e
          | .ok forged => forged.mapM (s.filterEntry applyFilters)

/-- one step of the delay loop of `_prepareForOutputting`: channel `x.1` of the element (a copy)
    gets delay `x.2`.  A blueprint is delayed in place and stored again with `addBluePrint` (which
    stores a copy and wipes the flags, which are then re-added); raw arrays are zero-padded at the
    element's sample rate `sr`. -/
def prepStep (sr : Val) (maxdelay : Rat) (cs : Dict Chan ChEntry) (x : Chan × Rat) : Except Err (Dict Chan ChEntry) :=
  match Dict.get? cs x.1 with
  | none => .error .key
  | some ent =>
    match ent.data with
    | .bp b =>
      match (Element.delayBP b x.2 maxdelay).toExcept with
      | .error er => .error er
      | .ok b' =>
        if b'.segs.isEmpty then .error .value
        else .ok (Dict.upsert cs x.1 { data := .bp b'.copy, flags := ent.flags })
    | .arr a s =>
      match sr with
      | .num srq =>
        .ok (Dict.upsert cs x.1 { ent with data := .arr (a.map (fun (k, xs) =>
          (k, Element.padArr (rhe (x.2 * srq)).toNat (rhe ((maxdelay - x.2) * srq)).toNat xs))) s })
      | _ => .error .type
    | .broken => .error .key

/-- the delay part of `_prepareForOutputting` for one element; `chans` is element(1)'s channel
    list, `delays` the matching delays -/
def prepDelayElement (sr : Val) (e : Element) (chans : List Chan) (delays : List Rat) :
    Except Err Element :=
  ((chans.zip delays).foldlM (prepStep sr (maxR delays)) e.chans).map (fun c => { e with chans := c })

/-- the delayed copy of the element at every position (a subsequence has no channel store:
    KeyError / AttributeError) -/
def prepElements (s : Sequence) (chans : List Chan) (delays : List Rat) : Except Err (List Element) :=
  (List.range s.data.length).mapM (fun (i : Nat) =>
    match Dict.get? s.data ((i + 1 : Nat) : Int) with
    | some (.el e) =>
      -- raw arrays are padded at the element's own sample rate (`data[pos].SR`), as `_applyDelays` does
      match e.getSR with
      | .error er => .error er
      | .ok sr => prepDelayElement sr e chans delays
    | some (.sub _) => .error .key
    | none => .error .key)

/-- the filter loop of `_prepareForOutputting`: looked up for the channels of element(1) -/
def prepFilters (s : Sequence) (chans : List Chan) (d : Dict Chan Element.ChOut) : Except Err (Dict Chan ChOutF) :=
  d.mapM (fun x =>
    if chans.contains x.1 then (s.filterOf x.1).map (fun f => (x.1, ({ out := x.2, filt := f } : ChOutF)))
    else .ok (x.1, ({ out := x.2, filt := none } : ChOutF)))

/-- `Sequence._prepareForOutputting()`: per position the forged, delayed, filter-annotated channels -/
def prepareForOutputting (s : Sequence) : Except Err (List (Dict Chan ChOutF)) :=
  match s.checkConsistency with
  | .error e => .error e
  | .ok false => .error .value
  | .ok true =>
    match Dict.get? s.data 1 with
    | none => .error .key
    | some en =>
      match en.channels with
      | .error e => .error e
      | .ok chans =>
        if sortBy (fun a b => decide (a ≤ b)) (Dict.keys s.sequencing) ≠ oneTo s.data.length then .error .value
        else if chans.any (fun ch => !(Dict.has s.awgspecs (keyOf ch "amplitude"))) then .error .key
        else
          match chans.mapM s.delayOf with
          | .error e => .error e
          | .ok delays =>
            match s.prepElements chans delays with
            | .error e => .error e
            | .ok els =>
              match els.mapM (fun (e : Element) => e.getArrays false) with
              | .error e => .error e
              | .ok forged => forged.mapM (s.prepFilters chans)

/-! #### waveforms as delivered by the output methods -/

structure Wave where
  blocks : List Blk
  filt : Option FiltCall := none
  /-- (amplitude, offset) when the AWG5014 rescaling was applied -/
  resc : Option (Rat × Rat) := none
  deriving DecidableEq, Repr, Inhabited

def Wave.len (w : Wave) : Nat := sumN (w.blocks.map Blk.len)

def Wave.eval? (w : Wave) : Option (List Rat) :=
  match w.filt with
  | some _ => none
  | none => (w.blocks.mapM Blk.eval?).map List.flatten

def chWave (c : ChOutF) : Except Err Wave :=
  match c.out with
  | .forged f _ _ => .ok { blocks := f.blocks, filt := c.filt }
  | .arrays a _ _ =>
    match Dict.get? a "wfm" with
    | some xs => .ok { blocks := [.raw xs], filt := c.filt }
    | none => .error .key

def chMarker (c : ChOutF) (which : Nat) : Except Err (List Rat) :=
  match c.out with
  | .forged f _ _ => .ok ((if which = 1 then f.m1 else f.m2).map (fun (n : Nat) => ((n : Int) : Rat)))
  | .arrays a _ _ =>
    match Dict.get? a (if which = 1 then "m1" else "m2") with
    | some xs => .ok xs
    | none => .error .key

def chFlags (c : ChOutF) : Option (List Nat) :=
  match c.out with
  | .forged _ fl _ => fl
  | .arrays _ fl _ => fl

/-- A voltage-range obligation the model could not decide itself (symbolic or filtered
    waveform): the harness evaluates the wave and checks `lo ≤ min`, `max ≤ hi`. -/
structure RangeOb where
  pos : Nat
  chan : Chan
  wave : Wave
  lo : Rat
  hi : Rat
  deriving Repr, Inhabited

/-- result of an output method: either a definite exception, or a package that is delivered
    provided the deferred range obligations hold (else ValueError), followed — if `thenErr` is
    set — by that later exception. -/
structure Deferred (α : Type) where
  obligations : List RangeOb
  thenErr : Option Err
  pkg : Option α

structure AWGPkg where
  channels : List Chan
  /-- per channel, per position -/
  wfms : List (List Wave)
  m1s : List (List (List Rat))
  m2s : List (List (List Rat))
  nreps : List Int
  trig_waits : List Int
  gotos : List Int
  jump_tos : List Int
  deriving Repr, Inhabited

def lookupCh (d : Dict Chan ChOutF) (ch : Chan) : Except Err ChOutF :=
  match Dict.get? d ch with
  | some c => .ok c
  | none => .error .key

def transpose {α} (nCh : Nat) (rows : List (List α)) : List (List α) :=
  (List.range nCh).map (fun i => rows.filterMap (fun r => r[i]?))

/-- the AWG5014 sequencing checks of one position, in source order -/
def awgSeqCheck (q : SeqSet) (seqlen : Int) : Except Err Unit :=
  if Gen.awgTwaitBad q.twait then .error .sequencing
  else if Gen.awgNrepBad q.nrep then .error .sequencing
  else if Gen.awgJumpBad q.jump_target seqlen then .error .sequencing
  else if Gen.awgGotoBad q.goto seqlen then .error .sequencing
  else .ok ()

/-- the AWG5014 voltage check of one waveform -/
def awgRangeCheck (xs : List Rat) (ampl off : Rat) : Except Err Unit :=
  if Gen.awgMaxBad (maxR xs) ampl off then .error .value
  else if Gen.awgMinBad (minR xs) ampl off then .error .value
  else .ok ()

/-- the AWG70000A sequencing checks of one position, in source order -/
def seqxSeqCheck (q : SeqSet) (seqlen : Int) : Except Err Unit :=
  if Gen.seqxTwaitBad q.twait then .error .sequencing
  else if Gen.seqxJumpStateBad q.jump_input then .error .sequencing
  else if Gen.seqxNrepBad q.nrep then .error .sequencing
  else if Gen.seqxJumpBad q.jump_target seqlen then .error .sequencing
  else if Gen.seqxGotoBad q.goto seqlen then .error .sequencing
  else .ok ()

/-- the AWG70000A voltage check of one waveform -/
def seqxRangeCheck (xs : List Rat) (ampl : Rat) : Except Err Unit :=
  if Gen.seqxMaxBad (maxR xs) ampl then .error .value
  else if Gen.seqxMinBad (minR xs) ampl then .error .value
  else .ok ()

/-- `amplitudes` of the SEQX package: one 0 appended for a single channel -/
def padAmplitudes (amps : List Rat) : List Rat := if amps.length = 1 then amps ++ [0] else amps

/-- AWG5014 phase 1 for one waveform: voltage check (or a range obligation when the model cannot
    evaluate the waveform) and the rescaled waveform -/
def awgCheckWave (s : Sequence) (pos : Nat) (el : Dict Chan ChOutF) (ch : Chan) : Except Err (List RangeOb × Wave) :=
  match s.specNum (keyOf ch "amplitude") with
  | none => .error .type
  | some ampl =>
    match s.specNum (keyOf ch "offset") with
    | none => .error .type
    | some off =>
      match lookupCh el ch with
      | .error e => .error e
      | .ok c =>
        match chWave c with
        | .error e => .error e
        | .ok w =>
          match w.eval? with
          | some xs =>
            -- every voltage failure is a ValueError, so a decidable one can be raised at once
            (awgRangeCheck xs ampl off).map (fun _ => ([], { w with resc := some (ampl, off) }))
          | none => .ok ([⟨pos, ch, w, -ampl / 2 + off, ampl / 2 + off⟩], { w with resc := some (ampl, off) })

/-- AWG5014 phase 2 for one position: both marker rows and the validated sequencing entry -/
def awgRow (s : Sequence) (chans : List Chan) (seqlen : Int) (p : Dict Chan ChOutF × Nat) :
    Except Err (List (List Rat) × List (List Rat) × SeqSet) :=
  match chans.mapM (fun ch => match lookupCh p.1 ch with | .error e => Except.error e | .ok c => chMarker c 1) with
  | .error e => .error e
  | .ok m1 =>
    match chans.mapM (fun ch => match lookupCh p.1 ch with | .error e => Except.error e | .ok c => chMarker c 2) with
    | .error e => .error e
    | .ok m2 =>
      match Dict.get? s.sequencing ((p.2 + 1 : Nat) : Int) with
      | none => .error .key
      | some q =>
        match awgSeqCheck q seqlen with
        | .error e => .error e
        | .ok _ => .ok (m1, m2, q)

/-- the AWG5014 package assembled from the two phases -/
def awgPackage (chs : List Chan) (nCh : Nat) (waves : List (List Wave))
    (rows : List (List (List Rat) × List (List Rat) × SeqSet)) : AWGPkg :=
  { channels := chs, wfms := transpose nCh waves, m1s := transpose nCh (rows.map (·.1)),
    m2s := transpose nCh (rows.map (·.2.1)), nreps := rows.map (·.2.2.nrep), trig_waits := rows.map (·.2.2.twait),
    gotos := rows.map (·.2.2.goto), jump_tos := rows.map (·.2.2.jump_target) }

/-- `Sequence.outputForAWGFile()` -/
def outputForAWGFile (s : Sequence) : Except Err (Deferred AWGPkg) :=
  match s.prepareForOutputting with
  | .error e => .error e
  | .ok elements =>
    match Dict.get? s.data 1 with
    | none => .error .key
    | some en =>
      match en.channels with
      | .error e => .error e
      | .ok chans =>
        if chans.any (fun ch => !(Dict.has s.awgspecs (keyOf ch "offset"))) then .error .value
        else
          -- range check and rescaling, position by position, channel by channel
          match (elements.zip (List.range elements.length)).mapM (fun p => chans.mapM (awgCheckWave s (p.2 + 1) p.1)) with
          | .error e => .error e
          | .ok checked =>
            let obs := (checked.map (fun row => (row.map (·.1)).flatten)).flatten
            let waves := checked.map (fun row => row.map (·.2))
            -- collect markers and validate sequencing, position by position
            match (elements.zip (List.range elements.length)).mapM (awgRow s chans (elements.length : Int)) with
            | .error er => if obs.isEmpty then .error er else .ok ⟨obs, some er, none⟩
            | .ok rows =>
              match s.channels with
              | .error e => .error e
              | .ok chs => .ok ⟨obs, none, some (awgPackage chs chans.length waves rows)⟩

/-- Python `range(start, stop, step)` -/
def pyRange (start stop step : Int) : List Int :=
  if step > 0 then
    (List.range ((stop - start + step - 1) / step).toNat).map (fun (i : Nat) => start + step * (i : Int))
  else if step < 0 then
    (List.range ((start - stop - step - 1) / (-step)).toNat).map (fun (i : Nat) => start + step * (i : Int))
  else []

/-- `_AWGOutput.__getitem__` with an int key: the selected channel index -/
def awgIndex (nCh : Nat) (key : Int) : Except Err (List Nat) :=
  if 0 ≤ key ∧ key < nCh then .ok [key.toNat] else .error .key

/-- `_AWGOutput.__getitem__` with a slice (`none` = omitted bound): the selected channel indices -/
def awgSlice (nCh : Nat) (start stop step : Option Int) : Except Err (List Nat) :=
  let st := start.getD 0
  let sp := stop.getD nCh
  let se := step.getD 1
  if se = 0 then .error .value
  else (pyRange st sp se).mapM (fun (i : Int) => if 0 ≤ i ∧ i < nCh then .ok i.toNat else .error .key)

structure SEQXPkg where
  trig_waits : List Int
  nreps : List Int
  event_jumps : List Int
  event_jump_to : List Int
  go_to : List Int
  /-- per channel, per position: (wfm, m1, m2) -/
  wfms : List (List (Wave × List Rat × List Rat))
  amplitudes : List Rat
  seqname : String
  flags : Option (List (List (List Nat)))
  deriving Repr, Inhabited

/-- SEQX phase 1 for one waveform: length and voltage check; a waveform the model cannot evaluate
    (symbolic pulse, filtered) leaves a range obligation for the harness -/
def seqxCheckWave (pos : Nat) (el : Dict Chan ChOutF) (x : Chan × Rat) : Except Err (List RangeOb) :=
  match lookupCh el x.1 with
  | .error e => .error e
  | .ok c =>
    match chWave c with
    | .error e => .error e
    | .ok w =>
      -- length and voltage failures are all ValueErrors: decidable ones are raised at once
      if Gen.seqxLenBad w.len then .error .value
      else match w.eval? with
        | some xs => (seqxRangeCheck xs x.2).map (fun _ => [])
        | none => .ok [⟨pos, x.1, w, -x.2 / 2, x.2 / 2⟩]

/-- SEQX phase 1: every position, every channel -/
def seqxPhase1 (elements : List (Dict Chan ChOutF)) (chans : List Chan) (amps : List Rat) : Except Err (List RangeOb) :=
  ((elements.zip (List.range elements.length)).mapM (fun p =>
      ((chans.zip amps).mapM (seqxCheckWave (p.2 + 1) p.1)).map List.flatten)).map List.flatten

/-- (waveform, m1, m2) of one channel of one forged element -/
def seqxCell (el : Dict Chan ChOutF) (ch : Chan) : Except Err (Wave × List Rat × List Rat) :=
  match lookupCh el ch with
  | .error e => .error e
  | .ok c =>
    match chWave c with
    | .error e => .error e
    | .ok w =>
      match chMarker c 1 with
      | .error e => .error e
      | .ok m1 =>
        match chMarker c 2 with
        | .error e => .error e
        | .ok m2 => .ok (w, m1, m2)

/-- SEQX phase 2 for one position: (waveform, m1, m2) of every channel, and the validated
    sequencing entry -/
def seqxRow (s : Sequence) (chans : List Chan) (seqlen : Int) (p : Dict Chan ChOutF × Nat) :
    Except Err (List (Wave × List Rat × List Rat) × SeqSet) :=
  match chans.mapM (seqxCell p.1) with
  | .error e => .error e
  | .ok row =>
    match Dict.get? s.sequencing ((p.2 + 1 : Nat) : Int) with
    | none => .error .key
    | some q =>
      match seqxSeqCheck q seqlen with
      | .error e => .error e
      | .ok _ => .ok (row, q)

/-- the package assembled from the rows of phase 2 -/
def seqxPackage (s : Sequence) (nCh : Nat) (amps : List Rat) (rows : List (List (Wave × List Rat × List Rat) × SeqSet)) : SEQXPkg :=
  { trig_waits := rows.map (·.2.twait), nreps := rows.map (·.2.nrep), event_jumps := rows.map (·.2.jump_input),
    event_jump_to := rows.map (·.2.jump_target), go_to := rows.map (·.2.goto),
    wfms := transpose nCh (rows.map (·.1)), amplitudes := padAmplitudes amps, seqname := s.name, flags := none }

/-- `Sequence.outputForSEQXFile()` -/
def outputForSEQXFile (s : Sequence) : Except Err (Deferred SEQXPkg) :=
  match s.prepareForOutputting with
  | .error e => .error e
  | .ok elements =>
    match Dict.get? s.data 1 with
    | none => .error .key
    | some en =>
      match en.channels with
      | .error e => .error e
      | .ok chans =>
        match chans.mapM (fun ch => match s.specNum (keyOf ch "amplitude") with | some q => Except.ok q | none => .error Err.type) with
        | .error e => .error e
        | .ok amps =>
          match seqxPhase1 elements chans amps with
          | .error e => .error e
          | .ok obs =>
            match (elements.zip (List.range elements.length)).mapM (seqxRow s chans (elements.length : Int)) with
            | .error er => if obs.isEmpty then .error er else .ok ⟨obs, some er, none⟩
            | .ok rows => .ok ⟨obs, none, some (seqxPackage s chans.length amps rows)⟩

/-- the flags of one channel of one forged element; `[0, 0, 0, 0]` where none were set -/
def seqxFlagCell (el : Dict Chan ChOutF) (ch : Chan) : Except Err (List Nat) :=
  match lookupCh el ch with
  | .error e => .error e
  | .ok c => .ok ((chFlags c).getD [0, 0, 0, 0])

/-- `Sequence.outputForSEQXFileWithFlags()` -/
def outputForSEQXFileWithFlags (s : Sequence) : Except Err (Deferred SEQXPkg) :=
  match s.prepareForOutputting with
  | .error e => .error e
  | .ok elements =>
    match Dict.get? s.data 1 with
    | none => .error .key
    | some en =>
      match en.channels with
      | .error e => .error e
      | .ok chans =>
        match chans.mapM (fun ch => elements.mapM (fun el => seqxFlagCell el ch)) with
        | .error e => .error e
        | .ok flags =>
          match s.outputForSEQXFile with
          | .error e => .error e
          | .ok d => .ok { d with pkg := d.pkg.map (fun p => { p with flags := some flags }) }

end Sequence
end BB
