/-
  Property C02 — built-in pulse shapes equal their documented closed forms.

  `BB.Gen.Real.ramp/sine/gaussian/gaussian_smooth_cutoff/waituntil` are regenerated from the
  bodies of `PulseAtoms.*` in /repo/src/broadbean/broadbean.py on every run (harness/py2lean.py),
  so these theorems are about the formulas the code contains now.  They are stated over ℝ: the
  implementation evaluates the same expressions in IEEE-754 doubles, and that numeric evaluation
  is compared with the closed forms by the correspondence check (partial w.r.t. floating point).

  Translation conventions (trusted, DESIGN.md §6): `np.linspace(0, X, int(npts), endpoint=False)`
  is the array whose k-th entry (k < npts) is `0 + k·((X − 0)/npts)`; numpy arithmetic is
  elementwise, so a shape's k-th sample is the body evaluated at the k-th time.
-/
import Mathlib.Tactic.FieldSimp
import Mathlib.Tactic.Ring
import Mathlib.Tactic.Linarith
import Mathlib.Analysis.SpecialFunctions.Exp
import BB.Gen.KReal
import BB.Gen.K
import BB.Model.Forge
import BB.Properties.C01
import BB.Proofs.G12Calls

namespace BB.C02
open BB.Gen.Real

/-! ### the time grid: t_k = k / SR, end point excluded -/

/-- the k-th point of `linspace(0, npts/SR, npts, endpoint=False)` is `k / SR` -/
theorem time_grid (SR npts : ℝ) (k : ℕ) (hSR : SR ≠ 0) (hn : npts ≠ 0) :
    (0 : ℝ) + (k : ℝ) * ((npts / SR - 0) / npts) = k / SR := by
  field_simp
  ring

/-- the end point `npts/SR` is excluded: every sample time is strictly before it -/
theorem time_before_end (SR : ℝ) (n k : ℕ) (hSR : 0 < SR) (hk : k < n) : (k : ℝ) / SR < (n : ℝ) / SR := by
  apply div_lt_div_of_pos_right _ hSR
  exact_mod_cast hk

/-! ### ramp -/

/-- ramp runs linearly from `start` towards `stop`: sample k is `start + (stop − start)·k/n` -/
theorem ramp_closed (start stop SR npts : ℝ) (k : ℕ) (hSR : SR ≠ 0) (hn : npts ≠ 0) :
    ramp start stop SR npts k = start + (stop - start) * (k / npts) := by
  unfold ramp
  field_simp
  ring

/-- in terms of time: `start + slope · t_k` with `slope = (stop − start)/(npts/SR)` -/
theorem ramp_time (start stop SR npts : ℝ) (k : ℕ) (hSR : SR ≠ 0) (hn : npts ≠ 0) :
    ramp start stop SR npts k = start + (stop - start) / (npts / SR) * (k / SR) := by
  unfold ramp
  field_simp
  ring

/-- the first sample is exactly `start` -/
theorem ramp_first (start stop SR npts : ℝ) : ramp start stop SR npts 0 = start := by
  unfold ramp; simp

/-- consecutive samples differ by the constant `(stop − start)/n` -/
theorem ramp_step (start stop SR npts : ℝ) (k : ℕ) (hSR : SR ≠ 0) (hn : npts ≠ 0) :
    ramp start stop SR npts (k + 1) - ramp start stop SR npts k = (stop - start) / npts := by
  rw [ramp_closed _ _ _ _ _ hSR hn, ramp_closed _ _ _ _ _ hSR hn]
  push_cast
  field_simp
  ring

/-- the end point is excluded: no sample k < n equals `stop` unless the ramp is constant -/
theorem ramp_never_stop (start stop SR : ℝ) (n k : ℕ) (hSR : SR ≠ 0) (hk : k < n) (hne : start ≠ stop) :
    ramp start stop SR n k ≠ stop := by
  have hn : (n : ℝ) ≠ 0 := by
    have : 0 < n := by omega
    exact_mod_cast this.ne'
  rw [ramp_closed _ _ _ _ _ hSR hn]
  intro h
  have h1 : (stop - start) * ((k : ℝ) / n - 1) = 0 := by linarith
  rcases mul_eq_zero.mp h1 with h2 | h2
  · exact hne (by linarith)
  · have : (k : ℝ) / n = 1 := by linarith
    rw [div_eq_one_iff_eq hn] at this
    have : k = n := by exact_mod_cast this
    omega

/-- a constant ramp is constant -/
theorem ramp_const (c SR npts : ℝ) (k : ℕ) : ramp c c SR npts k = c := by
  unfold ramp; simp

/-! ### sine -/

/-- sine is `ampl · sin(2π · freq · t_k + phase) + off` at `t_k = k/SR` -/
theorem sine_closed (freq ampl off phase SR npts : ℝ) (k : ℕ) (hSR : SR ≠ 0) (hn : npts ≠ 0) :
    sine freq ampl off phase SR npts k = ampl * Real.sin (2 * Real.pi * freq * (k / SR) + phase) + off := by
  unfold sine
  simp only
  rw [time_grid SR npts k hSR hn]
  ring_nf

/-- the first sample is `ampl · sin(phase) + off` -/
theorem sine_first (freq ampl off phase SR npts : ℝ) :
    sine freq ampl off phase SR npts 0 = ampl * Real.sin phase + off := by
  unfold sine; simp

/-- sine stays within `off ± |ampl|` -/
theorem sine_bounds (freq ampl off phase SR npts : ℝ) (k : ℕ) :
    |sine freq ampl off phase SR npts k - off| ≤ |ampl| := by
  unfold sine
  simp only [add_sub_cancel_right, abs_mul]
  exact mul_le_of_le_one_right (abs_nonneg _) (Real.abs_sin_le_one _)

/-! ### gaussian -/

/-- gaussian is `ampl · exp(−(t_k − μ − dur/2)² / (2σ²)) + offset`, `dur = npts/SR` -/
theorem gaussian_closed (ampl sigma mu offset SR npts : ℝ) (k : ℕ) (hSR : SR ≠ 0) (hn : npts ≠ 0) :
    gaussian ampl sigma mu offset SR npts k =
      ampl * Real.exp (-((k / SR - mu - npts / SR / 2) ^ 2) / (2 * sigma ^ 2)) + offset := by
  unfold gaussian
  simp only
  rw [time_grid SR npts k hSR hn]

/-- it peaks at `ampl + offset` at the segment centre shifted by μ -/
theorem gaussian_peak (ampl sigma mu offset SR npts : ℝ) (k : ℕ) (hSR : SR ≠ 0) (hn : npts ≠ 0)
    (hk : (k : ℝ) / SR = npts / SR / 2 + mu) :
    gaussian ampl sigma mu offset SR npts k = ampl + offset := by
  rw [gaussian_closed _ _ _ _ _ _ _ hSR hn, hk]
  have : npts / SR / 2 + mu - mu - npts / SR / 2 = 0 := by ring
  rw [this]
  simp

/-- for a non-negative amplitude no sample exceeds the peak value, and none goes below offset -/
theorem gaussian_le_peak (ampl sigma mu offset SR npts : ℝ) (k : ℕ) (hSR : SR ≠ 0) (hn : npts ≠ 0) (ha : 0 ≤ ampl) :
    offset ≤ gaussian ampl sigma mu offset SR npts k ∧ gaussian ampl sigma mu offset SR npts k ≤ ampl + offset := by
  rw [gaussian_closed _ _ _ _ _ _ _ hSR hn]
  have hle : Real.exp (-((k / SR - mu - npts / SR / 2) ^ 2) / (2 * sigma ^ 2)) ≤ 1 := by
    rw [Real.exp_le_one_iff]
    apply div_nonpos_of_nonpos_of_nonneg
    · have := sq_nonneg ((k : ℝ) / SR - mu - npts / SR / 2); linarith
    · have := sq_nonneg sigma; linarith
  have hpos := Real.exp_pos (-((k / SR - mu - npts / SR / 2) ^ 2) / (2 * sigma ^ 2))
  constructor
  · have := mul_nonneg ha hpos.le; linarith
  · have := mul_le_mul_of_nonneg_left hle ha; linarith

/-- symmetric about the centre: samples at `centre + μ ± δ` are equal -/
theorem gaussian_symmetric (ampl sigma mu offset SR npts : ℝ) (k j : ℕ) (hSR : SR ≠ 0) (hn : npts ≠ 0)
    (h : (k : ℝ) / SR - mu - npts / SR / 2 = -((j : ℝ) / SR - mu - npts / SR / 2)) :
    gaussian ampl sigma mu offset SR npts k = gaussian ampl sigma mu offset SR npts j := by
  rw [gaussian_closed _ _ _ _ _ _ _ hSR hn, gaussian_closed _ _ _ _ _ _ _ hSR hn, h]
  ring_nf

/-! ### gaussian_smooth_cutoff -/

/-- the value subtracted so that the curve starts at zero: the bare Gaussian at t = 0 -/
noncomputable def e0 (sigma mu SR npts : ℝ) : ℝ :=
  Real.exp (-((0 - mu - npts / SR / 2) ^ 2) / (2 * sigma ^ 2))

/-- closed form: `ampl · (g(t_k) − g(0)) / (1 − g(0)) + offset` with `g` the bare Gaussian -/
theorem gsc_closed (ampl sigma mu offset SR npts : ℝ) (k : ℕ) (hSR : SR ≠ 0) (hn : npts ≠ 0) :
    gaussian_smooth_cutoff ampl sigma mu offset SR npts k =
      ampl * (Real.exp (-((k / SR - mu - npts / SR / 2) ^ 2) / (2 * sigma ^ 2)) - e0 sigma mu SR npts)
        * (1 / (1 - e0 sigma mu SR npts)) + offset := by
  unfold gaussian_smooth_cutoff e0
  simp only
  rw [time_grid SR npts k hSR hn]

/-- it starts exactly at `offset` -/
theorem gsc_first (ampl sigma mu offset SR npts : ℝ) :
    gaussian_smooth_cutoff ampl sigma mu offset SR npts 0 = offset := by
  unfold gaussian_smooth_cutoff
  simp

/-- it peaks at `ampl + offset` at the centre shifted by μ (whenever that is not t = 0) -/
theorem gsc_peak (ampl sigma mu offset SR npts : ℝ) (k : ℕ) (hSR : SR ≠ 0) (hn : npts ≠ 0)
    (hk : (k : ℝ) / SR = npts / SR / 2 + mu) (hne : e0 sigma mu SR npts ≠ 1) :
    gaussian_smooth_cutoff ampl sigma mu offset SR npts k = ampl + offset := by
  rw [gsc_closed _ _ _ _ _ _ _ hSR hn, hk]
  have : npts / SR / 2 + mu - mu - npts / SR / 2 = 0 := by ring
  rw [this]
  have h1 : (1 : ℝ) - e0 sigma mu SR npts ≠ 0 := sub_ne_zero.mpr (Ne.symm hne)
  simp only [ne_eq, OfNat.ofNat_ne_zero, not_false_eq_true, zero_pow, neg_zero, zero_div, Real.exp_zero]
  field_simp

/-- `g(0) < 1` — hence the normalisation is well defined — as soon as the peak is not at t = 0
    and σ ≠ 0 -/
theorem e0_lt_one (sigma mu SR npts : ℝ) (hs : sigma ≠ 0) (hc : mu + npts / SR / 2 ≠ 0) :
    e0 sigma mu SR npts < 1 := by
  unfold e0
  rw [Real.exp_lt_one_iff]
  apply div_neg_of_neg_of_pos
  · have : 0 < (0 - mu - npts / SR / 2) ^ 2 := by
      apply sq_pos_of_ne_zero
      intro h; apply hc; linarith
    linarith
  · have := sq_pos_of_ne_zero hs; linarith

/-- for a non-negative amplitude no sample exceeds `ampl + offset` -/
theorem gsc_le_peak (ampl sigma mu offset SR npts : ℝ) (k : ℕ) (hSR : SR ≠ 0) (hn : npts ≠ 0) (ha : 0 ≤ ampl)
    (hlt : e0 sigma mu SR npts < 1) :
    gaussian_smooth_cutoff ampl sigma mu offset SR npts k ≤ ampl + offset := by
  rw [gsc_closed _ _ _ _ _ _ _ hSR hn]
  have hpos : 0 < 1 - e0 sigma mu SR npts := by linarith
  have hle : Real.exp (-((k / SR - mu - npts / SR / 2) ^ 2) / (2 * sigma ^ 2)) ≤ 1 := by
    rw [Real.exp_le_one_iff]
    apply div_nonpos_of_nonpos_of_nonneg
    · have := sq_nonneg ((k : ℝ) / SR - mu - npts / SR / 2); linarith
    · have := sq_nonneg sigma; linarith
  have h2 : (Real.exp (-((k / SR - mu - npts / SR / 2) ^ 2) / (2 * sigma ^ 2)) - e0 sigma mu SR npts) * (1 / (1 - e0 sigma mu SR npts)) ≤ 1 := by
    rw [mul_one_div, div_le_one hpos]; linarith
  have := mul_le_mul_of_nonneg_left h2 ha
  nlinarith [this]

/-! ### waituntil -/

/-- waituntil is all zeros -/
theorem waituntil_zero (dummy SR npts : ℝ) (k : ℕ) : waituntil dummy SR npts k = 0 := rfl

/-! ## round 8

### bridge: the model's rational evaluator of a ramp / wait block is the real closed form -/

/-- the kernel the executable model evaluates ramp blocks with (`BB.Gen.ramp`, over ℚ, generated
    from the same Python body) is, cast to ℝ, the kernel the theorems of this file are about -/
theorem ramp_bridge (a b sr n : ℚ) (k : ℕ) :
    ((BB.Gen.ramp a b sr n k : ℚ) : ℝ) = ramp (a : ℝ) (b : ℝ) (sr : ℝ) (n : ℝ) k := by
  unfold BB.Gen.ramp ramp
  push_cast
  rfl

theorem waituntil_bridge (d sr n : ℚ) (k : ℕ) :
    ((BB.Gen.waituntil d sr n k : ℚ) : ℝ) = waituntil (d : ℝ) (sr : ℝ) (n : ℝ) k := by
  unfold BB.Gen.waituntil waituntil
  simp

/-- **ramp block of the model** (`Blk.eval?`, what `Element.getArrays` / `Wave.eval?` evaluate a
    forged ramp segment with): exactly `n` samples, sample `k` is — as a real number — the closed
    form `start + (stop − start)·k/n` -/
theorem eval_ramp_block (fn : BB.Fn) (hf : fn.shape = .ramp) (a b sr : ℚ) (n : ℕ) (hsr : sr ≠ 0) (hn : n ≠ 0) :
    ∃ w, (BB.Blk.call fn [.num a, .num b] sr n).eval? = some w ∧ w.length = n ∧
      ∀ k, k < n → ∃ q, w[k]? = some q ∧ (q : ℝ) = ramp a b sr n k ∧
        (q : ℝ) = (a : ℝ) + ((b : ℝ) - a) * ((k : ℝ) / n) := by
  refine ⟨(List.range n).map (fun k => BB.Gen.ramp a b sr ((n : ℤ) : ℚ) k), ?_, by simp, fun k hk => ?_⟩
  · simp [BB.Blk.eval?, hf]
  · refine ⟨BB.Gen.ramp a b sr ((n : ℤ) : ℚ) k, by simp [hk], ?_, ?_⟩
    · rw [ramp_bridge]; push_cast; rfl
    · rw [ramp_bridge]
      have h1 : ((sr : ℚ) : ℝ) ≠ 0 := by exact_mod_cast hsr
      have h2 : ((((n : ℤ) : ℚ)) : ℝ) ≠ 0 := by
        have : (n : ℝ) ≠ 0 := by exact_mod_cast hn
        simpa using this
      rw [ramp_closed _ _ _ _ _ h1 h2]
      push_cast
      rfl

example : (BB.Blk.call ⟨false, "ramp", "ramp", [], .ramp⟩ [.num 0, .num 1] 10 4).eval? =
    some [0, 1/4, 1/2, 3/4] := by decide +kernel

/-- **wait block of the model**: exactly `n` zeros -/
theorem eval_zeros_block (fn : BB.Fn) (hf : fn.shape = .zeros) (args : List BB.Val) (sr : ℚ) (n : ℕ) :
    (BB.Blk.call fn args sr n).eval? = some (List.replicate n 0) := by
  have : (BB.Blk.call fn args sr n).eval? =
      some ((List.range n).map (fun k => BB.Gen.waituntil 0 sr ((n : ℤ) : ℚ) k)) := by
    unfold BB.Blk.eval?
    simp only [hf]
  rw [this]
  congr 1
  apply List.ext_getElem <;> simp [BB.Gen.waituntil]

/-! ### the sample list: exactly `n` points at `t_k = k/SR`, end point excluded -/

/-- `time = linspace(0, n/SR, n, endpoint=False)` -/
noncomputable def timeAxis (SR : ℝ) (n : ℕ) : List ℝ := (List.range n).map (fun (k : ℕ) => (k : ℝ) / SR)

/-- the time axis has exactly `n` points, the `k`-th is `k/SR`, it starts at 0, consecutive points
    are `1/SR` apart and every point lies strictly before the end `n/SR` -/
theorem timeAxis_spec (SR : ℝ) (n : ℕ) (hSR : 0 < SR) :
    (timeAxis SR n).length = n ∧
    (∀ k, k < n → (timeAxis SR n)[k]? = some ((k : ℝ) / SR)) ∧
    (∀ t ∈ timeAxis SR n, 0 ≤ t ∧ t < (n : ℝ) / SR) := by
  refine ⟨by simp [timeAxis], fun k hk => by simp [timeAxis, hk], fun t ht => ?_⟩
  simp only [timeAxis, List.mem_map, List.mem_range] at ht
  obtain ⟨k, hk, rfl⟩ := ht
  exact ⟨by positivity, time_before_end SR n k hSR hk⟩

/-- ramp: the `n` samples are `start + slope·t` on the time axis, `slope = (stop−start)/(n/SR)` -/
theorem ramp_samples (start stop SR : ℝ) (n : ℕ) (hSR : SR ≠ 0) (hn : n ≠ 0) :
    (List.range n).map (ramp start stop SR n) =
      (timeAxis SR n).map (fun t => start + (stop - start) / ((n : ℝ) / SR) * t) := by
  have hn2 : (n : ℝ) ≠ 0 := by exact_mod_cast hn
  simp only [timeAxis, List.map_map]
  exact List.map_congr_left (fun k _ => ramp_time start stop SR n k hSR hn2)

/-- sine: the `n` samples are `ampl·sin(2π·freq·t + phase) + off` on the time axis -/
theorem sine_samples (freq ampl off phase SR : ℝ) (n : ℕ) (hSR : SR ≠ 0) (hn : n ≠ 0) :
    (List.range n).map (sine freq ampl off phase SR n) =
      (timeAxis SR n).map (fun t => ampl * Real.sin (2 * Real.pi * freq * t + phase) + off) := by
  have hn2 : (n : ℝ) ≠ 0 := by exact_mod_cast hn
  simp only [timeAxis, List.map_map]
  exact List.map_congr_left (fun k _ => sine_closed freq ampl off phase SR n k hSR hn2)

/-- gaussian: the `n` samples are `ampl·exp(−(t − μ − dur/2)²/(2σ²)) + offset` on the time axis -/
theorem gaussian_samples (ampl sigma mu offset SR : ℝ) (n : ℕ) (hSR : SR ≠ 0) (hn : n ≠ 0) :
    (List.range n).map (gaussian ampl sigma mu offset SR n) =
      (timeAxis SR n).map (fun t => ampl * Real.exp (-((t - mu - (n : ℝ) / SR / 2) ^ 2) / (2 * sigma ^ 2)) + offset) := by
  have hn2 : (n : ℝ) ≠ 0 := by exact_mod_cast hn
  simp only [timeAxis, List.map_map]
  exact List.map_congr_left (fun k _ => gaussian_closed ampl sigma mu offset SR n k hSR hn2)

/-- gaussian_smooth_cutoff: the `n` samples are `ampl·(g(t) − g(0))/(1 − g(0)) + offset` -/
theorem gsc_samples (ampl sigma mu offset SR : ℝ) (n : ℕ) (hSR : SR ≠ 0) (hn : n ≠ 0) :
    (List.range n).map (gaussian_smooth_cutoff ampl sigma mu offset SR n) =
      (timeAxis SR n).map (fun t =>
        ampl * (Real.exp (-((t - mu - (n : ℝ) / SR / 2) ^ 2) / (2 * sigma ^ 2)) - e0 sigma mu SR n)
          * (1 / (1 - e0 sigma mu SR n)) + offset) := by
  have hn2 : (n : ℝ) ≠ 0 := by exact_mod_cast hn
  simp only [timeAxis, List.map_map]
  exact List.map_congr_left (fun k _ => gsc_closed ampl sigma mu offset SR n k hSR hn2)

/-- waituntil: `n` zeros -/
theorem waituntil_samples (dummy SR : ℝ) (n : ℕ) :
    (List.range n).map (waituntil dummy SR n) = List.replicate n 0 := by
  apply List.ext_getElem <;> simp [waituntil]

/-- every shape returns exactly the requested number of points -/
theorem samples_length (f : ℕ → ℝ) (n : ℕ) : ((List.range n).map f).length = n := by simp

example : (2 : ℝ) ≠ 0 ∧ (3 : ℕ) ≠ 0 := ⟨by norm_num, by decide⟩

/-! ### division by zero: what Lean's `x / 0 = 0` would hide -/

/-- **σ = 0 is outside the theorems' domain.**  numpy evaluates `−(t−μ−c)²/(2·0²)` to `−inf`
    (`nan` on the centre), so `gaussian(…, sigma=0)` is `offset` (resp. `nan`); Lean's `x/0 = 0`
    makes the kernel the constant `ampl + offset` instead — an artefact, not a statement about the
    code.  All value theorems below therefore carry `σ ≠ 0`. -/
theorem gaussian_sigma_zero_artifact (ampl mu offset SR npts : ℝ) (k : ℕ) :
    gaussian ampl 0 mu offset SR npts k = ampl + offset := by
  unfold gaussian; simp

/-- the normalisation of `gaussian_smooth_cutoff` divides by `1 − g(0)`; `g(0) = 1` exactly when
    the peak sits on `t = 0` (for `σ ≠ 0`) … -/
theorem e0_eq_one_iff (sigma mu SR npts : ℝ) (hs : sigma ≠ 0) :
    e0 sigma mu SR npts = 1 ↔ mu + npts / SR / 2 = 0 := by
  constructor
  · intro h
    by_contra hc
    exact (ne_of_lt (e0_lt_one sigma mu SR npts hs hc)) h
  · intro h
    unfold e0
    have : (0 : ℝ) - mu - npts / SR / 2 = 0 := by linarith
    rw [this]; simp

/-- … and then numpy computes `ampl·0·(1/0) + offset = nan` for every sample, while Lean's
    `1/0 = 0` gives the constant `offset` — an artefact.  (Also for `σ = 0`, where Lean has
    `g(0) = exp(0) = 1`.) -/
theorem gsc_e0_one_artifact (ampl sigma mu offset SR npts : ℝ) (k : ℕ) (hSR : SR ≠ 0) (hn : npts ≠ 0)
    (h : e0 sigma mu SR npts = 1) : gaussian_smooth_cutoff ampl sigma mu offset SR npts k = offset := by
  rw [gsc_closed _ _ _ _ _ _ _ hSR hn, h]; simp

theorem e0_sigma_zero (mu SR npts : ℝ) : e0 0 mu SR npts = 1 := by unfold e0; simp

/-- **`gaussian_smooth_cutoff` starts exactly at `offset`**, stated with the guards under which
    the code divides by non-zero numbers only: `σ ≠ 0` and the peak not on `t = 0` -/
theorem gsc_first_guarded (ampl sigma mu offset SR npts : ℝ) (hs : sigma ≠ 0) (hc : mu + npts / SR / 2 ≠ 0) :
    2 * sigma ^ 2 ≠ 0 ∧ 1 - e0 sigma mu SR npts ≠ 0 ∧
      gaussian_smooth_cutoff ampl sigma mu offset SR npts 0 = offset := by
  refine ⟨by positivity, ?_, gsc_first ampl sigma mu offset SR npts⟩
  have := e0_lt_one sigma mu SR npts hs hc
  linarith

example : (1 : ℝ) ≠ 0 ∧ (0 : ℝ) + 4 / 2 / 2 ≠ 0 := by norm_num

/-! ### gaussian: two-sided bound for either sign of the amplitude; where the peak is attained -/

theorem bare_le_one (d sigma : ℝ) : Real.exp (-(d ^ 2) / (2 * sigma ^ 2)) ≤ 1 := by
  rw [Real.exp_le_one_iff]
  apply div_nonpos_of_nonpos_of_nonneg
  · have := sq_nonneg d; linarith
  · have := sq_nonneg sigma; linarith

/-- for `σ ≠ 0` the bare Gaussian is 1 exactly on the centre -/
theorem bare_eq_one_iff (d sigma : ℝ) (hs : sigma ≠ 0) : Real.exp (-(d ^ 2) / (2 * sigma ^ 2)) = 1 ↔ d = 0 := by
  have hpos : 0 < 2 * sigma ^ 2 := by positivity
  rw [Real.exp_eq_one_iff, div_eq_zero_iff]
  constructor
  · rintro (h | h)
    · have : d ^ 2 = 0 := by linarith
      exact pow_eq_zero_iff (by norm_num) |>.mp this
    · exact absurd h hpos.ne'
  · intro h; left; rw [h]; simp

/-- for a non-positive amplitude the "peak" `ampl + offset` is a **lower** bound and `offset` an
    upper bound -/
theorem gaussian_ge_peak (ampl sigma mu offset SR npts : ℝ) (k : ℕ) (hSR : SR ≠ 0) (hn : npts ≠ 0) (ha : ampl ≤ 0) :
    ampl + offset ≤ gaussian ampl sigma mu offset SR npts k ∧ gaussian ampl sigma mu offset SR npts k ≤ offset := by
  rw [gaussian_closed _ _ _ _ _ _ _ hSR hn]
  have hle := bare_le_one ((k : ℝ) / SR - mu - npts / SR / 2) sigma
  have hpos := Real.exp_pos (-((k / SR - mu - npts / SR / 2) ^ 2) / (2 * sigma ^ 2))
  constructor
  · nlinarith
  · nlinarith

/-- either sign: every sample lies between `offset` and `ampl + offset` -/
theorem gaussian_abs_bound (ampl sigma mu offset SR npts : ℝ) (k : ℕ) (hSR : SR ≠ 0) (hn : npts ≠ 0) :
    |gaussian ampl sigma mu offset SR npts k - offset| ≤ |ampl| := by
  rw [gaussian_closed _ _ _ _ _ _ _ hSR hn]
  have hle := bare_le_one ((k : ℝ) / SR - mu - npts / SR / 2) sigma
  have hpos := Real.exp_pos (-((k / SR - mu - npts / SR / 2) ^ 2) / (2 * sigma ^ 2))
  simp only [add_sub_cancel_right, abs_mul, abs_of_pos hpos]
  exact mul_le_of_le_one_right (abs_nonneg _) hle

/-- **the peak value is attained exactly on the centre**: for `σ ≠ 0`, `ampl ≠ 0` sample `k`
    equals `ampl + offset` iff `t_k = dur/2 + μ` (so a mis-centred Gaussian never shows the peak
    value at that sample, and if no sample sits on the centre the peak value is not attained) -/
theorem gaussian_peak_iff (ampl sigma mu offset SR npts : ℝ) (k : ℕ) (hSR : SR ≠ 0) (hn : npts ≠ 0)
    (hs : sigma ≠ 0) (ha : ampl ≠ 0) :
    gaussian ampl sigma mu offset SR npts k = ampl + offset ↔ (k : ℝ) / SR = npts / SR / 2 + mu := by
  rw [gaussian_closed _ _ _ _ _ _ _ hSR hn]
  constructor
  · intro h
    have h1 : ampl * (Real.exp (-((k / SR - mu - npts / SR / 2) ^ 2) / (2 * sigma ^ 2)) - 1) = 0 := by
      have h0 := add_right_cancel h
      rw [mul_sub, mul_one, sub_eq_zero]
      exact h0
    rcases mul_eq_zero.mp h1 with h2 | h2
    · exact absurd h2 ha
    · have := (bare_eq_one_iff _ sigma hs).mp (sub_eq_zero.mp h2)
      linarith
  · intro h
    have : (k : ℝ) / SR - mu - npts / SR / 2 = 0 := by linarith
    rw [this]; simp

example : ((2 : ℕ) : ℝ) / 1 = 4 / 1 / 2 + 0 := by norm_num

/-! ### gaussian_smooth_cutoff: lower bound for a non-positive amplitude; where the peak is attained -/

/-- for a non-positive amplitude no sample goes below `ampl + offset` -/
theorem gsc_ge_peak (ampl sigma mu offset SR npts : ℝ) (k : ℕ) (hSR : SR ≠ 0) (hn : npts ≠ 0) (ha : ampl ≤ 0)
    (hlt : e0 sigma mu SR npts < 1) :
    ampl + offset ≤ gaussian_smooth_cutoff ampl sigma mu offset SR npts k := by
  rw [gsc_closed _ _ _ _ _ _ _ hSR hn]
  have hpos : 0 < 1 - e0 sigma mu SR npts := by linarith
  have hle := bare_le_one ((k : ℝ) / SR - mu - npts / SR / 2) sigma
  have h2 : (Real.exp (-((k / SR - mu - npts / SR / 2) ^ 2) / (2 * sigma ^ 2)) - e0 sigma mu SR npts) * (1 / (1 - e0 sigma mu SR npts)) ≤ 1 := by
    rw [mul_one_div, div_le_one hpos]; linarith
  have := mul_le_mul_of_nonpos_left h2 ha
  nlinarith [this]

/-- **the peak value is attained exactly on the centre**: for `σ ≠ 0`, `ampl ≠ 0` and the centre
    not on `t = 0`, sample `k` equals `ampl + offset` iff `t_k = dur/2 + μ` -/
theorem gsc_peak_iff (ampl sigma mu offset SR npts : ℝ) (k : ℕ) (hSR : SR ≠ 0) (hn : npts ≠ 0)
    (hs : sigma ≠ 0) (ha : ampl ≠ 0) (hc : mu + npts / SR / 2 ≠ 0) :
    gaussian_smooth_cutoff ampl sigma mu offset SR npts k = ampl + offset ↔ (k : ℝ) / SR = npts / SR / 2 + mu := by
  have hlt := e0_lt_one sigma mu SR npts hs hc
  constructor
  · intro h
    rw [gsc_closed _ _ _ _ _ _ _ hSR hn] at h
    have h1 : (1 : ℝ) - e0 sigma mu SR npts ≠ 0 := by linarith
    have h3 : ampl * ((Real.exp (-((k / SR - mu - npts / SR / 2) ^ 2) / (2 * sigma ^ 2)) - e0 sigma mu SR npts)
        * (1 / (1 - e0 sigma mu SR npts)) - 1) = 0 := by
      have h2 := add_right_cancel h
      rw [mul_sub, mul_one, sub_eq_zero, ← mul_assoc]
      exact h2
    rcases mul_eq_zero.mp h3 with h4 | h4
    · exact absurd h4 ha
    · have h5 : Real.exp (-((k / SR - mu - npts / SR / 2) ^ 2) / (2 * sigma ^ 2)) = 1 := by
        have h6 := sub_eq_zero.mp h4
        rw [mul_one_div, div_eq_one_iff_eq h1] at h6
        linarith
      have := (bare_eq_one_iff _ sigma hs).mp h5
      linarith
  · intro h
    exact gsc_peak ampl sigma mu offset SR npts k hSR hn h (ne_of_lt hlt)

/-! ### arb_func (regenerated from `PulseAtoms.arb_func`) -/

/-- **"arb_func passes the time axis and its keyword arguments unchanged to the user function"**: for every user function
    `func` and every keyword value `kwargs`, sample `k` of `PulseAtoms.arb_func(func, kwargs, SR, npts)` is sample `k` of
    `func` applied to the time axis `t_j = j / SR` and to `kwargs` itself (nothing added, nothing replaced). -/
theorem arb_func_passes_time_and_kwargs {κ : Type} (func : (ℕ → ℝ) → κ → ℕ → ℝ) (kwargs : κ) (SR npts : ℝ) (k : ℕ)
    (hSR : SR ≠ 0) (hn : npts ≠ 0) :
    arb_func func kwargs SR npts k = func (fun j => (j : ℝ) / SR) kwargs k := by
  unfold arb_func
  simp only
  congr 1
  funext j
  exact time_grid SR npts j hSR hn

/-- in particular the result does not depend on anything but `func`, the time axis and `kwargs`: two calls with the same
    sample rate agree whatever the (non-zero) point counts, sample by sample -/
theorem arb_func_independent_of_count {κ : Type} (func : (ℕ → ℝ) → κ → ℕ → ℝ) (kwargs : κ) (SR n m : ℝ) (k : ℕ)
    (hSR : SR ≠ 0) (hn : n ≠ 0) (hm : m ≠ 0) :
    arb_func func kwargs SR n k = arb_func func kwargs SR m k := by
  rw [arb_func_passes_time_and_kwargs func kwargs SR n k hSR hn, arb_func_passes_time_and_kwargs func kwargs SR m k hSR hm]

/-- non-vacuity: a linear user function `a·t + b` with keyword record `(a, b)`, at 10 Sa/s -/
example : arb_func (fun t (kw : ℝ × ℝ) k => kw.1 * t k + kw.2) ((2 : ℝ), (1 : ℝ)) 10 5 3 = 2 * (3 / 10) + 1 := by
  rw [arb_func_passes_time_and_kwargs _ _ _ _ _ (by norm_num) (by norm_num)]
  norm_num

end BB.C02

/-! ## G12: the call convention `(args..., SR, npts)`, at the level of `Element.getArrays` -/

namespace BB.C02
open BB
open BB.G12 (callsOf)

/-- **one call per segment per forge** (last clause: "A user-supplied shape following the (args...,
    SR, npts) convention is called once per forge with exactly the segment's stored arguments, the
    blueprint's sample rate and the segment's integer sample count"), stated on
    `Element.getArrays`.  For every element on which `getArrays` returns, and every channel `i`
    holding a blueprint `b`: the channel's output is `forgeBP b`; the blueprint's sample rate is a
    number `sr`, its durations resolve to `durs` (one per segment); the waveform consists of call
    blocks only (`f.blocks` has no raw block), and the list of calls it stands for (`callsOf f`:
    one `functools.partial(fn, *args)(SR, n)` per block, in order) is *exactly*
    `(forgeFn seg.fn, seg.args, sr, round(d·sr))` for the segments in blueprint order with their
    resolved durations - one call per segment, nothing twice, nothing else; every count is an
    integer ≥ 2 (so the natural number in the block is the rounded value itself), and every function
    run is a callable. -/
theorem getArrays_calls_each_shape_once (e : Element) (t : Bool) (out : Dict Chan Element.ChOut)
    (h : e.getArrays t = .ok out) (i : ℕ) (hi : i < e.chans.length) (ho : i < out.length) (b : BP)
    (hb : (e.chans[i]).2.data = .bp b) :
    ∃ f sr durs, out[i] = ((e.chans[i]).1, Element.ChOut.forged f (e.chans[i]).2.flags t) ∧
      forgeBP b = .ok f ∧ b.SR = .num sr ∧ b.resolveWaits = .ok durs ∧ durs.length = b.segs.length ∧
      f.blocks = (b.segs.zip durs).map (fun p => Blk.call (forgeFn p.1.fn) p.1.args sr (rhe (p.2 * sr)).toNat) ∧
      callsOf f = (b.segs.zip durs).map (fun p => (forgeFn p.1.fn, p.1.args, sr, (rhe (p.2 * sr)).toNat)) ∧
      (callsOf f).length = b.segs.length ∧ f.blocks.length = b.segs.length ∧
      (∀ d ∈ durs, 2 ≤ rhe (d * sr) ∧ (((rhe (d * sr)).toNat : ℕ) : ℤ) = rhe (d * sr)) ∧
      (∀ s ∈ b.segs, (forgeFn s.fn).special = false) := by
  obtain ⟨_, hall⟩ := C01.getArrays_delivers_forge e t out h
  obtain ⟨f, hf, hout⟩ := hall i hi ho b hb
  obtain ⟨sr, durs, hsr, hd, hlen, h2, hfa⟩ := C01.forge_counts b f hf
  obtain ⟨_, _, _, _, _, _, hbad, _⟩ := (forge_ok_iff b f).mp hf
  have hblocks : f.blocks =
      (b.segs.zip durs).map (fun p => Blk.call (forgeFn p.1.fn) p.1.args sr (rhe (p.2 * sr)).toNat) := by
    rw [hfa]
    simp only [assemble]
    rw [G12.mkBlocks_eq_zip, List.zip_map_right, List.map_map]
    rfl
  have hcalls : callsOf f =
      (b.segs.zip durs).map (fun p => (forgeFn p.1.fn, p.1.args, sr, (rhe (p.2 * sr)).toNat)) := by
    unfold callsOf
    rw [hblocks]
    exact G12.filterMap_calls (b.segs.zip durs)
      (fun p => (forgeFn p.1.fn, p.1.args, sr, (rhe (p.2 * sr)).toNat))
  refine ⟨f, sr, durs, hout, hf, hsr, hd, hlen, hblocks, hcalls, ?_, ?_, ?_, ?_⟩
  · rw [hcalls]; simp [hlen]
  · rw [hblocks]; simp [hlen]
  · intro d hdm
    have := h2 d hdm
    exact ⟨this, Int.toNat_of_nonneg (by omega)⟩
  · exact fun s hs => G12.forgeFn_not_special b hbad s hs

/-- the same, call by call: the `j`-th call of channel `i` is segment `j`'s function on segment
    `j`'s stored argument tuple, the blueprint's sample rate and `round(durs[j]·SR)` samples; for a
    segment that is not a 'waituntil' the function is the stored one (the user's) and `durs[j]` is
    the segment's stored duration -/
theorem getArrays_call_of_segment (e : Element) (t : Bool) (out : Dict Chan Element.ChOut)
    (h : e.getArrays t = .ok out) (i : ℕ) (hi : i < e.chans.length) (ho : i < out.length) (b : BP)
    (hb : (e.chans[i]).2.data = .bp b) (j : ℕ) (hj : j < b.segs.length) :
    ∃ f sr durs, out[i] = ((e.chans[i]).1, Element.ChOut.forged f (e.chans[i]).2.flags t) ∧
      b.SR = .num sr ∧ b.resolveWaits = .ok durs ∧
      ∃ (hd : j < durs.length) (hc : j < (callsOf f).length),
        (callsOf f)[j] = (forgeFn (b.segs[j]).fn, (b.segs[j]).args, sr, (rhe (durs[j] * sr)).toNat) ∧
        2 ≤ rhe (durs[j] * sr) ∧
        ((b.segs[j]).fn.isWait = false →
          forgeFn (b.segs[j]).fn = (b.segs[j]).fn ∧ (b.segs[j]).dur = .num durs[j]) := by
  obtain ⟨f, sr, durs, hout, _, hsr, hd, hlen, _, hcalls, hcl, _, h2, _⟩ :=
    getArrays_calls_each_shape_once e t out h i hi ho b hb
  have hdj : j < durs.length := by omega
  refine ⟨f, sr, durs, hout, hsr, hd, hdj, by omega, ?_, (h2 _ (List.getElem_mem hdj)).1, ?_⟩
  · simp only [hcalls, List.getElem_map, List.getElem_zip]
  · intro hw
    refine ⟨by simp [forgeFn, hw], ?_⟩
    exact G12.resolveGo_plain_getElem b.segs 0 durs hd j hj hdj hw

/-- a user-supplied shape: a callable the model cannot evaluate itself (`Shape.call`) with two
    arguments of its own before `SR, npts` -/
def g12UserFn : Fn :=
  { special := false, name := "myshape", qual := "function myshape", params := ["a", "b", "SR", "npts"],
    shape := .call }

/-- user shape (1.2 s), a wait until 2 s, user shape again (0.5 s) with other arguments, at 10 Sa/s -/
def g12UserBP : BP :=
  { segs := [ { name := "myshape", fn := g12UserFn, args := [.num 3, .str "x"], dur := .num (6/5) },
              { name := "waituntil", fn := Fn.waitSpecial, args := [.num 2], dur := .none },
              { name := "myshape2", fn := g12UserFn, args := [.num 4, .opq 7], dur := .num (1/2) } ],
    SR := .num 10 }

def g12UserEl : Element := (({} : Element).addBluePrint (.int 1) g12UserBP).st

/-- non-vacuity of `getArrays_calls_each_shape_once` / `getArrays_call_of_segment`: `getArrays`
    returns on the element above, channel 0 holds (the copy of) the blueprint, and the calls are the
    user shape on `(3, "x", 10, 12)`, `PulseAtoms.waituntil` on `(2, 10, 8)`, the user shape on
    `(4, <object 7>, 10, 5)` -/
example : (g12UserEl.getArrays false).toOption.isSome = true ∧
    (g12UserEl.chans[0]!).2.data = .bp g12UserBP.copy ∧
    (((g12UserEl.getArrays false).toOption.getD []).map (fun p => match p.2 with
        | .forged f _ _ => callsOf f
        | _ => [])).flatten =
      [(g12UserFn, [.num 3, .str "x"], 10, 12), (Fn.waitCallable, [.num 2], 10, 8),
       (g12UserFn, [.num 4, .opq 7], 10, 5)] := by
  refine ⟨by decide +kernel, by decide +kernel, by decide +kernel⟩

end BB.C02
