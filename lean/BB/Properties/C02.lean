/-
  Property C02 — built-in pulse shapes equal their documented closed forms.

  `BB.Gen.Real.ramp/sine/gaussian/gaussian_smooth_cutoff/waituntil` are regenerated from the
  bodies of `PulseAtoms.*` in /repo/src/broadbean/broadbean.py on every run (harness/py2lean.py),
  so these theorems are about the formulas the code contains now.  They are stated over ℝ: the
  implementation evaluates the same expressions in IEEE-754 doubles, and that numeric evaluation
  is compared with the closed forms by the correspondence check (partial w.r.t. floating point).

  Translation conventions (trusted, DESIGN.md §6): `np.linspace(0, X, int(npts), endpoint=False)`
  is the array whose k-th entry (k < npts) is `0 + k·((X − 0)/npts)`; numpy arithmetic is
  elementwise, so a shape's k-th sample is the body evaluated at the k-th time.
-/
import Mathlib.Tactic.FieldSimp
import Mathlib.Tactic.Ring
import Mathlib.Tactic.Linarith
import Mathlib.Analysis.SpecialFunctions.Exp
import BB.Gen.KReal

namespace BB.C02
open BB.Gen.Real

/-! ### the time grid: t_k = k / SR, end point excluded -/

/-- the k-th point of `linspace(0, npts/SR, npts, endpoint=False)` is `k / SR` -/
theorem time_grid (SR npts : ℝ) (k : ℕ) (hSR : SR ≠ 0) (hn : npts ≠ 0) :
    (0 : ℝ) + (k : ℝ) * ((npts / SR - 0) / npts) = k / SR := by
  field_simp
  ring

/-- the end point `npts/SR` is excluded: every sample time is strictly before it -/
theorem time_before_end (SR : ℝ) (n k : ℕ) (hSR : 0 < SR) (hk : k < n) : (k : ℝ) / SR < (n : ℝ) / SR := by
  apply div_lt_div_of_pos_right _ hSR
  exact_mod_cast hk

/-! ### ramp -/

/-- ramp runs linearly from `start` towards `stop`: sample k is `start + (stop − start)·k/n` -/
theorem ramp_closed (start stop SR npts : ℝ) (k : ℕ) (hSR : SR ≠ 0) (hn : npts ≠ 0) :
    ramp start stop SR npts k = start + (stop - start) * (k / npts) := by
  unfold ramp
  field_simp
  ring

/-- in terms of time: `start + slope · t_k` with `slope = (stop − start)/(npts/SR)` -/
theorem ramp_time (start stop SR npts : ℝ) (k : ℕ) (hSR : SR ≠ 0) (hn : npts ≠ 0) :
    ramp start stop SR npts k = start + (stop - start) / (npts / SR) * (k / SR) := by
  unfold ramp
  field_simp
  ring

/-- the first sample is exactly `start` -/
theorem ramp_first (start stop SR npts : ℝ) : ramp start stop SR npts 0 = start := by
  unfold ramp; simp

/-- consecutive samples differ by the constant `(stop − start)/n` -/
theorem ramp_step (start stop SR npts : ℝ) (k : ℕ) (hSR : SR ≠ 0) (hn : npts ≠ 0) :
    ramp start stop SR npts (k + 1) - ramp start stop SR npts k = (stop - start) / npts := by
  rw [ramp_closed _ _ _ _ _ hSR hn, ramp_closed _ _ _ _ _ hSR hn]
  push_cast
  field_simp
  ring

/-- the end point is excluded: no sample k < n equals `stop` unless the ramp is constant -/
theorem ramp_never_stop (start stop SR : ℝ) (n k : ℕ) (hSR : SR ≠ 0) (hk : k < n) (hne : start ≠ stop) :
    ramp start stop SR n k ≠ stop := by
  have hn : (n : ℝ) ≠ 0 := by
    have : 0 < n := by omega
    exact_mod_cast this.ne'
  rw [ramp_closed _ _ _ _ _ hSR hn]
  intro h
  have h1 : (stop - start) * ((k : ℝ) / n - 1) = 0 := by linarith
  rcases mul_eq_zero.mp h1 with h2 | h2
  · exact hne (by linarith)
  · have : (k : ℝ) / n = 1 := by linarith
    rw [div_eq_one_iff_eq hn] at this
    have : k = n := by exact_mod_cast this
    omega

/-- a constant ramp is constant -/
theorem ramp_const (c SR npts : ℝ) (k : ℕ) : ramp c c SR npts k = c := by
  unfold ramp; simp

/-! ### sine -/

/-- sine is `ampl · sin(2π · freq · t_k + phase) + off` at `t_k = k/SR` -/
theorem sine_closed (freq ampl off phase SR npts : ℝ) (k : ℕ) (hSR : SR ≠ 0) (hn : npts ≠ 0) :
    sine freq ampl off phase SR npts k = ampl * Real.sin (2 * Real.pi * freq * (k / SR) + phase) + off := by
  unfold sine
  simp only
  rw [time_grid SR npts k hSR hn]
  ring_nf

/-- the first sample is `ampl · sin(phase) + off` -/
theorem sine_first (freq ampl off phase SR npts : ℝ) :
    sine freq ampl off phase SR npts 0 = ampl * Real.sin phase + off := by
  unfold sine; simp

/-- sine stays within `off ± |ampl|` -/
theorem sine_bounds (freq ampl off phase SR npts : ℝ) (k : ℕ) :
    |sine freq ampl off phase SR npts k - off| ≤ |ampl| := by
  unfold sine
  simp only [add_sub_cancel_right, abs_mul]
  exact mul_le_of_le_one_right (abs_nonneg _) (Real.abs_sin_le_one _)

/-! ### gaussian -/

/-- gaussian is `ampl · exp(−(t_k − μ − dur/2)² / (2σ²)) + offset`, `dur = npts/SR` -/
theorem gaussian_closed (ampl sigma mu offset SR npts : ℝ) (k : ℕ) (hSR : SR ≠ 0) (hn : npts ≠ 0) :
    gaussian ampl sigma mu offset SR npts k =
      ampl * Real.exp (-((k / SR - mu - npts / SR / 2) ^ 2) / (2 * sigma ^ 2)) + offset := by
  unfold gaussian
  simp only
  rw [time_grid SR npts k hSR hn]

/-- it peaks at `ampl + offset` at the segment centre shifted by μ -/
theorem gaussian_peak (ampl sigma mu offset SR npts : ℝ) (k : ℕ) (hSR : SR ≠ 0) (hn : npts ≠ 0)
    (hk : (k : ℝ) / SR = npts / SR / 2 + mu) :
    gaussian ampl sigma mu offset SR npts k = ampl + offset := by
  rw [gaussian_closed _ _ _ _ _ _ _ hSR hn, hk]
  have : npts / SR / 2 + mu - mu - npts / SR / 2 = 0 := by ring
  rw [this]
  simp

/-- for a non-negative amplitude no sample exceeds the peak value, and none goes below offset -/
theorem gaussian_le_peak (ampl sigma mu offset SR npts : ℝ) (k : ℕ) (hSR : SR ≠ 0) (hn : npts ≠ 0) (ha : 0 ≤ ampl) :
    offset ≤ gaussian ampl sigma mu offset SR npts k ∧ gaussian ampl sigma mu offset SR npts k ≤ ampl + offset := by
  rw [gaussian_closed _ _ _ _ _ _ _ hSR hn]
  have hle : Real.exp (-((k / SR - mu - npts / SR / 2) ^ 2) / (2 * sigma ^ 2)) ≤ 1 := by
    rw [Real.exp_le_one_iff]
    apply div_nonpos_of_nonpos_of_nonneg
    · have := sq_nonneg ((k : ℝ) / SR - mu - npts / SR / 2); linarith
    · have := sq_nonneg sigma; linarith
  have hpos := Real.exp_pos (-((k / SR - mu - npts / SR / 2) ^ 2) / (2 * sigma ^ 2))
  constructor
  · have := mul_nonneg ha hpos.le; linarith
  · have := mul_le_mul_of_nonneg_left hle ha; linarith

/-- symmetric about the centre: samples at `centre + μ ± δ` are equal -/
theorem gaussian_symmetric (ampl sigma mu offset SR npts : ℝ) (k j : ℕ) (hSR : SR ≠ 0) (hn : npts ≠ 0)
    (h : (k : ℝ) / SR - mu - npts / SR / 2 = -((j : ℝ) / SR - mu - npts / SR / 2)) :
    gaussian ampl sigma mu offset SR npts k = gaussian ampl sigma mu offset SR npts j := by
  rw [gaussian_closed _ _ _ _ _ _ _ hSR hn, gaussian_closed _ _ _ _ _ _ _ hSR hn, h]
  ring_nf

/-! ### gaussian_smooth_cutoff -/

/-- the value subtracted so that the curve starts at zero: the bare Gaussian at t = 0 -/
noncomputable def e0 (sigma mu SR npts : ℝ) : ℝ :=
  Real.exp (-((0 - mu - npts / SR / 2) ^ 2) / (2 * sigma ^ 2))

/-- closed form: `ampl · (g(t_k) − g(0)) / (1 − g(0)) + offset` with `g` the bare Gaussian -/
theorem gsc_closed (ampl sigma mu offset SR npts : ℝ) (k : ℕ) (hSR : SR ≠ 0) (hn : npts ≠ 0) :
    gaussian_smooth_cutoff ampl sigma mu offset SR npts k =
      ampl * (Real.exp (-((k / SR - mu - npts / SR / 2) ^ 2) / (2 * sigma ^ 2)) - e0 sigma mu SR npts)
        * (1 / (1 - e0 sigma mu SR npts)) + offset := by
  unfold gaussian_smooth_cutoff e0
  simp only
  rw [time_grid SR npts k hSR hn]

/-- it starts exactly at `offset` -/
theorem gsc_first (ampl sigma mu offset SR npts : ℝ) :
    gaussian_smooth_cutoff ampl sigma mu offset SR npts 0 = offset := by
  unfold gaussian_smooth_cutoff
  simp

/-- it peaks at `ampl + offset` at the centre shifted by μ (whenever that is not t = 0) -/
theorem gsc_peak (ampl sigma mu offset SR npts : ℝ) (k : ℕ) (hSR : SR ≠ 0) (hn : npts ≠ 0)
    (hk : (k : ℝ) / SR = npts / SR / 2 + mu) (hne : e0 sigma mu SR npts ≠ 1) :
    gaussian_smooth_cutoff ampl sigma mu offset SR npts k = ampl + offset := by
  rw [gsc_closed _ _ _ _ _ _ _ hSR hn, hk]
  have : npts / SR / 2 + mu - mu - npts / SR / 2 = 0 := by ring
  rw [this]
  have h1 : (1 : ℝ) - e0 sigma mu SR npts ≠ 0 := sub_ne_zero.mpr (Ne.symm hne)
  simp only [ne_eq, OfNat.ofNat_ne_zero, not_false_eq_true, zero_pow, neg_zero, zero_div, Real.exp_zero]
  field_simp

/-- `g(0) < 1` — hence the normalisation is well defined — as soon as the peak is not at t = 0
    and σ ≠ 0 -/
theorem e0_lt_one (sigma mu SR npts : ℝ) (hs : sigma ≠ 0) (hc : mu + npts / SR / 2 ≠ 0) :
    e0 sigma mu SR npts < 1 := by
  unfold e0
  rw [Real.exp_lt_one_iff]
  apply div_neg_of_neg_of_pos
  · have : 0 < (0 - mu - npts / SR / 2) ^ 2 := by
      apply sq_pos_of_ne_zero
      intro h; apply hc; linarith
    linarith
  · have := sq_pos_of_ne_zero hs; linarith

/-- for a non-negative amplitude no sample exceeds `ampl + offset` -/
theorem gsc_le_peak (ampl sigma mu offset SR npts : ℝ) (k : ℕ) (hSR : SR ≠ 0) (hn : npts ≠ 0) (ha : 0 ≤ ampl)
    (hlt : e0 sigma mu SR npts < 1) :
    gaussian_smooth_cutoff ampl sigma mu offset SR npts k ≤ ampl + offset := by
  rw [gsc_closed _ _ _ _ _ _ _ hSR hn]
  have hpos : 0 < 1 - e0 sigma mu SR npts := by linarith
  have hle : Real.exp (-((k / SR - mu - npts / SR / 2) ^ 2) / (2 * sigma ^ 2)) ≤ 1 := by
    rw [Real.exp_le_one_iff]
    apply div_nonpos_of_nonpos_of_nonneg
    · have := sq_nonneg ((k : ℝ) / SR - mu - npts / SR / 2); linarith
    · have := sq_nonneg sigma; linarith
  have h2 : (Real.exp (-((k / SR - mu - npts / SR / 2) ^ 2) / (2 * sigma ^ 2)) - e0 sigma mu SR npts) * (1 / (1 - e0 sigma mu SR npts)) ≤ 1 := by
    rw [mul_one_div, div_le_one hpos]; linarith
  have := mul_le_mul_of_nonneg_left h2 ha
  nlinarith [this]

/-! ### waituntil -/

/-- waituntil is all zeros -/
theorem waituntil_zero (dummy SR npts : ℝ) (k : ℕ) : waituntil dummy SR npts k = 0 := rfl

end BB.C02
