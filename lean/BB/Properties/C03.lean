/-
  Property C03 — markers are 0/1 and ON exactly on the union of their windows.

  A window of a marker `(t, len)` at sample rate `SR` on a waveform of `N` samples is
  `[ind, min(ind + chunk, N))` with `ind` the sample nearest `t` and `chunk = round(len·SR)`
  (`window`); a segment-bound marker `(delay, len)` of segment `i` is the absolute marker
  `(start_i/SR + delay, len)` with `start_i` the *post-rounding* start sample (`segMarks`).
-/
import BB.Proofs.Forge
import BB.Proofs.G1Markers

namespace BB.C03
open BB

/-- Both forged marker arrays have the waveform's length, contain only 0 and 1, and sample `k`
    is 1 exactly when `k` lies in the window of one of the absolute markers or of a segment-bound
    marker with non-zero length. -/
theorem markers_spec (b : BP) (f : Forged) (h : forgeBP b = .ok f) :
    ∃ sr ns, b.SR = .num sr ∧ f.N = sumN ns ∧
      f.m1.length = f.N ∧ f.m2.length = f.N ∧
      (∀ x ∈ f.m1, x = 0 ∨ x = 1) ∧ (∀ x ∈ f.m2, x = 0 ∨ x = 1) ∧
      (∀ k (hk : k < f.m1.length), f.m1[k] = 1 ↔
        ∃ m ∈ b.marker1 ++ segMarks sr (·.m1) b.segs (starts ns 0),
          (window f.N sr m).1 ≤ k ∧ k < (window f.N sr m).2) ∧
      (∀ k (hk : k < f.m2.length), f.m2[k] = 1 ↔
        ∃ m ∈ b.marker2 ++ segMarks sr (·.m2) b.segs (starts ns 0),
          (window f.N sr m).1 ≤ k ∧ k < (window f.N sr m).2) := by
  obtain ⟨sr, durs, ns, hsr, _, _, _, rfl⟩ := (forge_ok_iff b f).mp h
  refine ⟨sr, ns, hsr, rfl, paint_length _ _, paint_length _ _, paint_bool _ _, paint_bool _ _, ?_, ?_⟩
  · intro k hk
    simp only [assemble] at hk ⊢
    rw [paint_on_iff]
    constructor
    · rintro ⟨w, hw, h1, h2⟩
      obtain ⟨m, hm, rfl⟩ := List.mem_map.mp hw
      exact ⟨m, hm, h1, h2⟩
    · rintro ⟨m, hm, h1, h2⟩
      exact ⟨_, List.mem_map.mpr ⟨m, hm, rfl⟩, h1, h2⟩
  · intro k hk
    simp only [assemble] at hk ⊢
    rw [paint_on_iff]
    constructor
    · rintro ⟨w, hw, h1, h2⟩
      obtain ⟨m, hm, rfl⟩ := List.mem_map.mp hw
      exact ⟨m, hm, h1, h2⟩
    · rintro ⟨m, hm, h1, h2⟩
      exact ⟨_, List.mem_map.mpr ⟨m, hm, rfl⟩, h1, h2⟩

/-- The window of a marker `(t, len)`: it starts at the sample nearest `t`, covers `round(len·SR)`
    samples (for a non-negative rounded length) and is clipped at the end of the waveform. -/
theorem window_spec (N : Nat) (sr : Rat) (t len : Rat) (n : Nat) (hn : n < N) (ht : |t * sr - n| < 1/2)
    (hc : 0 ≤ rhe (len * sr)) :
    window N sr (t, len) = (n, min (n + (rhe (len * sr)).toNat) N) := by
  unfold window
  simp only
  rw [nearestIdx_spec N (t * sr) n hn ht]
  unfold sliceStop
  have : ¬ ((n : Int) + rhe (len * sr) < 0) := by omega
  simp only [this, if_false]
  congr 2
  omega

/-- on the property's domain (`t·SR` within 0.4 of a sample index) the start is `round(t·SR)` -/
theorem window_start_is_round (N : Nat) (sr t len : Rat) (n : Nat) (hn : n < N) (ht : |t * sr - n| ≤ 2/5) :
    (window N sr (t, len)).1 = n ∧ rhe (t * sr) = n := by
  have h2 : |t * sr - n| < 1/2 := lt_of_le_of_lt ht (by norm_num)
  refine ⟨?_, rhe_near _ n (by simpa using ht)⟩
  unfold window
  simp only
  exact nearestIdx_spec N (t * sr) n hn h2

/-- windows never reach beyond the waveform -/
theorem window_clipped (N : Nat) (sr : Rat) (m : Mark) : (window N sr m).2 ≤ N := BB.window_clipped N sr m

/-- Segment-bound markers: segment `i` with marker `(delay, len)`, `len ≠ 0`, contributes the
    absolute marker whose ON time is the actual (post-rounding) start of the segment plus `delay`;
    the start sample is the sum of the rounded sample counts of the earlier segments. -/
theorem segment_marker_absolute (sr : Rat) (sel : Seg → Mark) (segs : List Seg) (ns : List Nat)
    (hl : ns.length = segs.length) (m : Mark) :
    m ∈ segMarks sr sel segs (starts ns 0) ↔
      ∃ (i : Nat) (_ : i < segs.length), (sel segs[i]).2 ≠ 0 ∧
        m = ((((sumN (ns.take i) : Nat) : Int) : Rat) / sr + (sel segs[i]).1, (sel segs[i]).2) := by
  have hsl : (starts ns 0).length = segs.length := by rw [starts_length, hl]
  rw [segMarks_mem sr sel segs (starts ns 0) hsl]
  constructor
  · rintro ⟨i, h1, h2, h3, h4⟩
    refine ⟨i, h1, h3, ?_⟩
    rw [h4, starts_getElem]; simp
  · rintro ⟨i, h1, h3, h4⟩
    refine ⟨i, h1, by omega, h3, ?_⟩
    rw [h4, starts_getElem]; simp

/-- a zero-length marker, or one removed with `removeSegmentMarker` (which stores `(0, 0)`),
    contributes nothing -/
theorem zero_length_contributes_nothing (sr : Rat) (sel : Seg → Mark) (segs : List Seg) (sts : List Nat)
    (h : ∀ s ∈ segs, (sel s).2 = 0) : segMarks sr sel segs sts = [] :=
  segMarks_all_zero sr sel segs sts h

/-- and a window whose rounded length is 0 paints no sample -/
theorem zero_chunk_paints_nothing (N : Nat) (sr : Rat) (m : Mark) (k : Nat) (h : rhe (m.2 * sr) = 0) :
    inWindow k (window N sr m) = false := window_empty_of_zero_chunk N sr m k h

/-! ### markers stay attached to their segment -/

/-- Inserting a segment leaves every existing segment record (function, arguments, duration and
    both segment-bound markers) as it was: the new list of records is the old one with the new
    record inserted; only names are renumbered. -/
theorem insert_keeps_markers (b : BP) (pos : Int) (fn : Fn) (args : List Val) (dur name : Val)
    (h : (b.insertSegment pos fn args dur name).err = none) :
    ∃ nm, (b.insertSegment pos fn args dur name).st.segs.map BP.Seg.body =
      (BP.insertSegs b.segs pos { name := nm, fn := fn, args := args, dur := dur }).map BP.Seg.body := by
  unfold BP.insertSegment at *
  by_cases hp : Gen.insertPosBad pos = true
  · simp [hp] at h
  · cases hn : BP.insertName fn name with
    | error e => simp [hp, hn] at h
    | ok nm =>
      refine ⟨nm, ?_⟩
      simp only [hp, hn, Bool.false_eq_true, if_false]
      exact BP.renumber_body _

/-- Removing a segment removes exactly its record; every other record keeps its markers. -/
theorem remove_keeps_markers (b : BP) (name : String) (h : (b.removeSegment name).err = none) :
    ∃ i, b.indexOf? name = some i ∧
      (b.removeSegment name).st.segs.map BP.Seg.body = (b.segs.eraseIdx i).map BP.Seg.body := by
  unfold BP.removeSegment at *
  split at h
  · simp at h
  · rename_i i hi
    exact ⟨i, hi, BP.renumber_body _⟩

/-- Changing a duration changes no marker specification. -/
theorem changeDuration_keeps_markers (b : BP) (name : String) (d : Val) (all : Bool) :
    (b.changeDuration name d all).st.segs.map (fun s => (s.m1, s.m2)) = b.segs.map (fun s => (s.m1, s.m2))
    ∧ (b.changeDuration name d all).st.marker1 = b.marker1
    ∧ (b.changeDuration name d all).st.marker2 = b.marker2 := by
  unfold BP.changeDuration
  split
  · split
    · simp
    · split
      · simp
      · split
        · simp
        · refine ⟨?_, rfl, rfl⟩
          simp only [List.map_map]
          apply List.map_congr_left
          intro s _
          simp only [Function.comp, BP.setDur]
          split <;> rfl
  · simp

/-! ### marker specifications never change waveform samples -/

theorem mkBlocks_indep_markers (sr : Rat) (a b : List Seg) (ns : List Nat)
    (h : a.map (fun s => (s.fn, s.args)) = b.map (fun s => (s.fn, s.args))) :
    mkBlocks sr a ns = mkBlocks sr b ns := by
  induction a generalizing b ns with
  | nil => cases b with
    | nil => rfl
    | cons y ys => simp at h
  | cons x xs ih =>
    cases b with
    | nil => simp at h
    | cons y ys =>
      simp only [List.map_cons, List.cons.injEq, Prod.mk.injEq] at h
      cases ns with
      | nil => rfl
      | cons n ns => simp only [mkBlocks]; rw [h.1.1, h.1.2, ih ys ns h.2]

/-- setting or replacing absolute markers does not change a single waveform block -/
theorem abs_markers_do_not_touch_wfm (b : BP) (l1 l2 : List Mark) (sr : Rat) (ns : List Nat) :
    (assemble { b with marker1 := l1, marker2 := l2 } sr ns).blocks = (assemble b sr ns).blocks := rfl

theorem map_modify_inv {α β} (l : List α) (i : Nat) (f : α → α) (g : α → β) (h : ∀ a, g (f a) = g a) :
    (l.modify i f).map g = l.map g := by
  induction l generalizing i with
  | nil => simp
  | cons a t ih =>
    cases i with
    | zero => simp [List.modify_zero_cons, h]
    | succ i => simp [List.modify_succ_cons, ih]

/-- setting a segment-bound marker does not change a single waveform block -/
theorem seg_markers_do_not_touch_wfm (b : BP) (i : Nat) (mid : Int) (m : Mark) (sr : Rat) (ns : List Nat) :
    (assemble (b.modifySeg i (BP.setMark mid m)) sr ns).blocks = (assemble b sr ns).blocks := by
  simp only [assemble, BP.modifySeg]
  apply mkBlocks_indep_markers
  apply map_modify_inv
  intro s
  unfold BP.setMark
  split <;> rfl

/-- ... nor the resolution of waituntil segments (durations are untouched) -/
theorem seg_markers_do_not_touch_durations (b : BP) (i : Nat) (mid : Int) (m : Mark) :
    (b.modifySeg i (BP.setMark mid m)).segs.map (fun s => (s.fn, s.args, s.dur)) =
      b.segs.map (fun s => (s.fn, s.args, s.dur)) := by
  simp only [BP.modifySeg]
  apply map_modify_inv
  intro s
  unfold BP.setMark
  split <;> rfl

/-! ### non-vacuity -/

def exampleBP : BP :=
  { segs := [ { name := "ramp", fn := Fn.rampFn, args := [.num 0, .num 1], dur := .num 1, m1 := (1/10, 3/10) },
              { name := "ramp2", fn := Fn.rampFn, args := [.num 1, .num 0], dur := .num 1, m2 := (-1/5, 1/2) } ],
    marker1 := [(3/2, 1)], SR := .num 10 }

example : (forgeBP exampleBP).toOption.map (fun f => (f.m1, f.m2)) =
    some ([0,1,1,1,0,0,0,0,0,0,0,0,0,0,0,1,1,1,1,1], [0,0,0,0,0,0,0,0,1,1,1,1,1,0,0,0,0,0,0,0]) := by
  decide +kernel

/-! ### audit round: counts tied down, argmin, frame theorems on the forged result -/

/-- `markers_spec` with the counts tied down: the sample counts `ns` whose cumulative sums are the
    segment starts are exactly the rounded counts `round(d_i·SR)` of the resolved durations (stored
    duration, or `t - elapsed` for a waituntil) - the *post-rounding* starts. -/
theorem markers_spec_counts (b : BP) (f : Forged) (h : forgeBP b = .ok f) :
    ∃ sr durs, b.SR = .num sr ∧ b.resolveWaits = .ok durs ∧ durs.length = b.segs.length ∧
      (∀ d ∈ durs, 2 ≤ rhe (d * sr)) ∧
      f.N = sumN (durs.map (fun d => (rhe (d * sr)).toNat)) ∧
      f.m1.length = f.N ∧ f.m2.length = f.N ∧
      (∀ x ∈ f.m1, x = 0 ∨ x = 1) ∧ (∀ x ∈ f.m2, x = 0 ∨ x = 1) ∧
      (∀ k (hk : k < f.m1.length), f.m1[k] = 1 ↔
        ∃ m ∈ b.marker1 ++ segMarks sr (·.m1) b.segs (starts (durs.map (fun d => (rhe (d * sr)).toNat)) 0),
          (window f.N sr m).1 ≤ k ∧ k < (window f.N sr m).2) ∧
      (∀ k (hk : k < f.m2.length), f.m2[k] = 1 ↔
        ∃ m ∈ b.marker2 ++ segMarks sr (·.m2) b.segs (starts (durs.map (fun d => (rhe (d * sr)).toNat)) 0),
          (window f.N sr m).1 ≤ k ∧ k < (window f.N sr m).2) := by
  obtain ⟨sr, durs, ns, hsr, hd, hn, hbs, hf⟩ := (forge_ok_iff b f).mp h
  obtain ⟨h2, hns⟩ := countsGo_ok sr durs ns hn
  obtain ⟨sr', ns', hsr', hN, hl1, hl2, hb1, hb2, hw1, hw2⟩ := markers_spec b f h
  -- `markers_spec` hides its witnesses; redo the two window clauses with the explicit counts
  have hns' : ns = durs.map (fun d => (rhe (d * sr)).toNat) := hns
  subst hf
  refine ⟨sr, durs, hsr, hd, resolveGo_length _ _ _ hd, h2, by rw [← hns']; rfl, hl1, hl2, hb1, hb2, ?_, ?_⟩
  · intro k hk
    rw [← hns']
    simp only [assemble] at hk ⊢
    rw [paint_on_iff]
    constructor
    · rintro ⟨w, hw, h1, h2⟩
      obtain ⟨m, hm, rfl⟩ := List.mem_map.mp hw
      exact ⟨m, hm, h1, h2⟩
    · rintro ⟨m, hm, h1, h2⟩
      exact ⟨_, List.mem_map.mpr ⟨m, hm, rfl⟩, h1, h2⟩
  · intro k hk
    rw [← hns']
    simp only [assemble] at hk ⊢
    rw [paint_on_iff]
    constructor
    · rintro ⟨w, hw, h1, h2⟩
      obtain ⟨m, hm, rfl⟩ := List.mem_map.mp hw
      exact ⟨m, hm, h1, h2⟩
    · rintro ⟨m, hm, h1, h2⟩
      exact ⟨_, List.mem_map.mpr ⟨m, hm, rfl⟩, h1, h2⟩

example : (forgeBP exampleBP).toOption.isSome = true := by decide +kernel

/-- **General specification of the window start** (`np.abs(time - t).argmin()`): on a non-empty
    time axis the start index lies on the axis, no sample of the axis is closer to `t·SR`, and every
    earlier sample is strictly farther away (first minimiser).  This covers ON times before the
    waveform (index 0), beyond its end (last index) and exact ties (the lower index). -/
theorem window_start_argmin (N : Nat) (sr : Rat) (m : Mark) (hN : 0 < N) :
    (window N sr m).1 < N ∧
    (∀ k : Nat, k < N → |m.1 * sr - ((window N sr m).1 : ℚ)| ≤ |m.1 * sr - (k : ℚ)|) ∧
    (∀ k : Nat, k < (window N sr m).1 → |m.1 * sr - ((window N sr m).1 : ℚ)| < |m.1 * sr - (k : ℚ)|) :=
  nearestIdx_argmin N (m.1 * sr) hN

/-- the same in seconds, for a positive sample rate: the start sample minimises `|k/SR - t_on|` -/
theorem window_start_argmin_time (N : Nat) (sr : Rat) (m : Mark) (hN : 0 < N) (hsr : 0 < sr) :
    (window N sr m).1 < N ∧
    (∀ k : Nat, k < N → |((window N sr m).1 : ℚ) / sr - m.1| ≤ |(k : ℚ) / sr - m.1|) ∧
    (∀ k : Nat, k < (window N sr m).1 → |((window N sr m).1 : ℚ) / sr - m.1| < |(k : ℚ) / sr - m.1|) :=
  nearestIdx_argmin_time N m.1 sr hN hsr

/-- ... and in a forged non-empty blueprint the axis is never empty -/
theorem forged_axis_nonempty (b : BP) (f : Forged) (h : forgeBP b = .ok f) (hne : b.segs ≠ []) : 0 < f.N := by
  obtain ⟨sr, durs, _, _, hlen, h2, hN, _⟩ := markers_spec_counts b f h
  rw [hN]
  cases durs with
  | nil => exact absurd (List.eq_nil_of_length_eq_zero hlen.symm) hne
  | cons d ds =>
    have := h2 d (by simp)
    simp only [List.map_cons, sumN]
    omega

example : window 20 10 ((-3 : ℚ), 1) = (0, 10) ∧ window 20 10 ((5 : ℚ), 1) = (19, 20) ∧
    window 20 10 ((1/4 : ℚ), 1/5) = (2, 4) := by decide +kernel

/-- **`setSegmentMarker` never changes the waveform side of the forged result**: forging after the
    call (accepted or refused) gives the same blocks, the same number of samples, the same sample
    rate and `newdurations`, or the same error, as forging before. -/
theorem setSegmentMarker_keeps_wfm (b : BP) (name : String) (specs : Mark) (mid : Int) :
    (forgeBP (b.setSegmentMarker name specs mid).st).map Forged.wfmPart = (forgeBP b).map Forged.wfmPart := by
  obtain ⟨hs, _, _, hf, _, _⟩ := setSegmentMarker_fields b name specs mid
  exact forgeBP_wfmPart_congr _ _ hs hf

/-- the same, spelled out for a successful forge -/
theorem setSegmentMarker_blocks_unchanged (b : BP) (name : String) (specs : Mark) (mid : Int)
    (f : Forged) (h : forgeBP b = .ok f) :
    ∃ f', forgeBP (b.setSegmentMarker name specs mid).st = .ok f' ∧
      f'.blocks = f.blocks ∧ f'.N = f.N ∧ f'.SR = f.SR ∧ f'.newdurations = f.newdurations := by
  obtain ⟨f', h1, h2⟩ := map_eq_ok _ _ _ (setSegmentMarker_keeps_wfm b name specs mid) f h
  simp only [Forged.wfmPart, Prod.mk.injEq] at h2
  exact ⟨f', h1, h2.1, h2.2.1, h2.2.2.1, h2.2.2.2⟩

/-- ... and it leaves the *other* marker channel's array untouched -/
theorem setSegmentMarker_other_channel (b : BP) (name : String) (specs : Mark) (mid : Int) :
    (mid = 1 → (forgeBP (b.setSegmentMarker name specs mid).st).map (·.m2) = (forgeBP b).map (·.m2)) ∧
    (mid ≠ 1 → (forgeBP (b.setSegmentMarker name specs mid).st).map (·.m1) = (forgeBP b).map (·.m1)) := by
  obtain ⟨hs, ha1, ha2, hf, h2, h1⟩ := setSegmentMarker_fields b name specs mid
  exact ⟨fun hm => forgeBP_m2_congr _ _ hs hf (h2 hm) ha2, fun hm => forgeBP_m1_congr _ _ hs hf (h1 hm) ha1⟩

/-- **`removeSegmentMarker` never changes the waveform side of the forged result.** -/
theorem removeSegmentMarker_keeps_wfm (b : BP) (name : String) (mid : Int) :
    (forgeBP (b.removeSegmentMarker name mid).st).map Forged.wfmPart = (forgeBP b).map Forged.wfmPart := by
  obtain ⟨hs, _, _, hf, _, _⟩ := removeSegmentMarker_fields b name mid
  exact forgeBP_wfmPart_congr _ _ hs hf

theorem removeSegmentMarker_blocks_unchanged (b : BP) (name : String) (mid : Int)
    (f : Forged) (h : forgeBP b = .ok f) :
    ∃ f', forgeBP (b.removeSegmentMarker name mid).st = .ok f' ∧
      f'.blocks = f.blocks ∧ f'.N = f.N ∧ f'.SR = f.SR ∧ f'.newdurations = f.newdurations := by
  obtain ⟨f', h1, h2⟩ := map_eq_ok _ _ _ (removeSegmentMarker_keeps_wfm b name mid) f h
  simp only [Forged.wfmPart, Prod.mk.injEq] at h2
  exact ⟨f', h1, h2.1, h2.2.1, h2.2.2.1, h2.2.2.2⟩

theorem removeSegmentMarker_other_channel (b : BP) (name : String) (mid : Int) :
    (mid = 1 → (forgeBP (b.removeSegmentMarker name mid).st).map (·.m2) = (forgeBP b).map (·.m2)) ∧
    (mid ≠ 1 → (forgeBP (b.removeSegmentMarker name mid).st).map (·.m1) = (forgeBP b).map (·.m1)) := by
  obtain ⟨hs, ha1, ha2, hf, h2, h1⟩ := removeSegmentMarker_fields b name mid
  exact ⟨fun hm => forgeBP_m2_congr _ _ hs hf (h2 hm) ha2, fun hm => forgeBP_m1_congr _ _ hs hf (h1 hm) ha1⟩

/-- **Assigning the absolute marker lists** (`bp.marker1 = [...]`, `bp.marker2 = [...]`) never
    changes the waveform side of the forged result, and assigning one list leaves the other
    channel's array as it was. -/
theorem marker_assignment_keeps_wfm (b : BP) (l1 l2 : List Mark) :
    (forgeBP { b with marker1 := l1, marker2 := l2 }).map Forged.wfmPart = (forgeBP b).map Forged.wfmPart ∧
    (forgeBP { b with marker1 := l1 }).map (·.m2) = (forgeBP b).map (·.m2) ∧
    (forgeBP { b with marker2 := l2 }).map (·.m1) = (forgeBP b).map (·.m1) :=
  ⟨forgeBP_wfmPart_congr _ _ rfl rfl, forgeBP_m2_congr _ _ rfl rfl rfl rfl, forgeBP_m1_congr _ _ rfl rfl rfl rfl⟩

theorem marker_assignment_blocks_unchanged (b : BP) (l1 l2 : List Mark) (f : Forged) (h : forgeBP b = .ok f) :
    ∃ f', forgeBP { b with marker1 := l1, marker2 := l2 } = .ok f' ∧
      f'.blocks = f.blocks ∧ f'.N = f.N ∧ f'.SR = f.SR ∧ f'.newdurations = f.newdurations := by
  obtain ⟨f', h1, h2⟩ := map_eq_ok _ _ _ (marker_assignment_keeps_wfm b l1 l2).1 f h
  simp only [Forged.wfmPart, Prod.mk.injEq] at h2
  exact ⟨f', h1, h2.1, h2.2.1, h2.2.2.1, h2.2.2.2⟩

/-- all marker operations of the public API at once (`BP.step`): none changes the waveform side -/
theorem marker_ops_keep_wfm (b : BP) (o : BP.Op)
    (ho : (∃ n s m, o = .setSegMarker n s m) ∨ (∃ n m, o = .removeSegMarker n m) ∨
      (∃ l, o = .setMarker1 l) ∨ (∃ l, o = .setMarker2 l)) :
    (forgeBP (b.step o).st).map Forged.wfmPart = (forgeBP b).map Forged.wfmPart := by
  rcases ho with ⟨n, s, m, rfl⟩ | ⟨n, m, rfl⟩ | ⟨l, rfl⟩ | ⟨l, rfl⟩
  · exact setSegmentMarker_keeps_wfm b n s m
  · exact removeSegmentMarker_keeps_wfm b n m
  · exact forgeBP_wfmPart_congr _ _ rfl rfl
  · exact forgeBP_wfmPart_congr _ _ rfl rfl

/-- **`changeArg` never changes a marker**: forging after any `changeArg` call (accepted, refused,
    or refused half-way through a `replaceeverywhere` loop) gives the same two marker arrays, the
    same number of samples, sample rate, `newdurations` and block lengths - or the same error - as
    forging before.  (`changeArg` refuses waituntil segments, so no duration can move.) -/
theorem changeArg_keeps_markers (b : BP) (name : String) (arg value : Val) (all : Bool) :
    (forgeBP (b.changeArg name arg value all).st).map Forged.markPart = (forgeBP b).map Forged.markPart := by
  have h := argFrame_changeArg b name arg value all
  exact forgeBP_markPart_congr _ _ h.sr h.fn h.timing h.m1 h.m2 h.a1 h.a2

/-- the same, spelled out for a successful forge -/
theorem changeArg_markers_unchanged (b : BP) (name : String) (arg value : Val) (all : Bool)
    (f : Forged) (h : forgeBP b = .ok f) :
    ∃ f', forgeBP (b.changeArg name arg value all).st = .ok f' ∧
      f'.m1 = f.m1 ∧ f'.m2 = f.m2 ∧ f'.N = f.N ∧ f'.blocks.map Blk.len = f.blocks.map Blk.len := by
  obtain ⟨f', h1, h2⟩ := map_eq_ok _ _ _ (changeArg_keeps_markers b name arg value all) f h
  simp only [Forged.markPart, Prod.mk.injEq] at h2
  exact ⟨f', h1, h2.1, h2.2.1, h2.2.2.1, h2.2.2.2.2.2⟩

example : (exampleBP.changeArg "ramp" (.str "stop") (.num 7) false).err = none ∧
    (exampleBP.changeArg "ramp" (.str "stop") (.num 7) false).st ≠ exampleBP ∧
    (exampleBP.setSegmentMarker "ramp2" (1/10, 1/5) 1).err = none ∧
    (exampleBP.removeSegmentMarker "ramp" 1).err = none := by decide +kernel

end BB.C03
