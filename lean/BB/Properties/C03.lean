/-
  Property C03 — markers are 0/1 and ON exactly on the union of their windows.

  A window of a marker `(t, len)` at sample rate `SR` on a waveform of `N` samples is
  `[ind, min(ind + chunk, N))` with `ind` the sample nearest `t` and `chunk = round(len·SR)`
  (`window`); a segment-bound marker `(delay, len)` of segment `i` is the absolute marker
  `(start_i/SR + delay, len)` with `start_i` the *post-rounding* start sample (`segMarks`).
-/
import BB.Proofs.Forge

namespace BB.C03
open BB

/-- Both forged marker arrays have the waveform's length, contain only 0 and 1, and sample `k`
    is 1 exactly when `k` lies in the window of one of the absolute markers or of a segment-bound
    marker with non-zero length. -/
theorem markers_spec (b : BP) (f : Forged) (h : forgeBP b = .ok f) :
    ∃ sr ns, b.SR = .num sr ∧ f.N = sumN ns ∧
      f.m1.length = f.N ∧ f.m2.length = f.N ∧
      (∀ x ∈ f.m1, x = 0 ∨ x = 1) ∧ (∀ x ∈ f.m2, x = 0 ∨ x = 1) ∧
      (∀ k (hk : k < f.m1.length), f.m1[k] = 1 ↔
        ∃ m ∈ b.marker1 ++ segMarks sr (·.m1) b.segs (starts ns 0),
          (window f.N sr m).1 ≤ k ∧ k < (window f.N sr m).2) ∧
      (∀ k (hk : k < f.m2.length), f.m2[k] = 1 ↔
        ∃ m ∈ b.marker2 ++ segMarks sr (·.m2) b.segs (starts ns 0),
          (window f.N sr m).1 ≤ k ∧ k < (window f.N sr m).2) := by
  obtain ⟨sr, durs, ns, hsr, _, _, _, rfl⟩ := (forge_ok_iff b f).mp h
  refine ⟨sr, ns, hsr, rfl, paint_length _ _, paint_length _ _, paint_bool _ _, paint_bool _ _, ?_, ?_⟩
  · intro k hk
    simp only [assemble] at hk ⊢
    rw [paint_on_iff]
    constructor
    · rintro ⟨w, hw, h1, h2⟩
      obtain ⟨m, hm, rfl⟩ := List.mem_map.mp hw
      exact ⟨m, hm, h1, h2⟩
    · rintro ⟨m, hm, h1, h2⟩
      exact ⟨_, List.mem_map.mpr ⟨m, hm, rfl⟩, h1, h2⟩
  · intro k hk
    simp only [assemble] at hk ⊢
    rw [paint_on_iff]
    constructor
    · rintro ⟨w, hw, h1, h2⟩
      obtain ⟨m, hm, rfl⟩ := List.mem_map.mp hw
      exact ⟨m, hm, h1, h2⟩
    · rintro ⟨m, hm, h1, h2⟩
      exact ⟨_, List.mem_map.mpr ⟨m, hm, rfl⟩, h1, h2⟩

/-- The window of a marker `(t, len)`: it starts at the sample nearest `t`, covers `round(len·SR)`
    samples (for a non-negative rounded length) and is clipped at the end of the waveform. -/
theorem window_spec (N : Nat) (sr : Rat) (t len : Rat) (n : Nat) (hn : n < N) (ht : |t * sr - n| < 1/2)
    (hc : 0 ≤ rhe (len * sr)) :
    window N sr (t, len) = (n, min (n + (rhe (len * sr)).toNat) N) := by
  unfold window
  simp only
  rw [nearestIdx_spec N (t * sr) n hn ht]
  unfold sliceStop
  have : ¬ ((n : Int) + rhe (len * sr) < 0) := by omega
  simp only [this, if_false]
  congr 2
  omega

/-- on the property's domain (`t·SR` within 0.4 of a sample index) the start is `round(t·SR)` -/
theorem window_start_is_round (N : Nat) (sr t len : Rat) (n : Nat) (hn : n < N) (ht : |t * sr - n| ≤ 2/5) :
    (window N sr (t, len)).1 = n ∧ rhe (t * sr) = n := by
  have h2 : |t * sr - n| < 1/2 := lt_of_le_of_lt ht (by norm_num)
  refine ⟨?_, rhe_near _ n (by simpa using ht)⟩
  unfold window
  simp only
  exact nearestIdx_spec N (t * sr) n hn h2

/-- windows never reach beyond the waveform -/
theorem window_clipped (N : Nat) (sr : Rat) (m : Mark) : (window N sr m).2 ≤ N := BB.window_clipped N sr m

/-- Segment-bound markers: segment `i` with marker `(delay, len)`, `len ≠ 0`, contributes the
    absolute marker whose ON time is the actual (post-rounding) start of the segment plus `delay`;
    the start sample is the sum of the rounded sample counts of the earlier segments. -/
theorem segment_marker_absolute (sr : Rat) (sel : Seg → Mark) (segs : List Seg) (ns : List Nat)
    (hl : ns.length = segs.length) (m : Mark) :
    m ∈ segMarks sr sel segs (starts ns 0) ↔
      ∃ (i : Nat) (_ : i < segs.length), (sel segs[i]).2 ≠ 0 ∧
        m = ((((sumN (ns.take i) : Nat) : Int) : Rat) / sr + (sel segs[i]).1, (sel segs[i]).2) := by
  have hsl : (starts ns 0).length = segs.length := by rw [starts_length, hl]
  rw [segMarks_mem sr sel segs (starts ns 0) hsl]
  constructor
  · rintro ⟨i, h1, h2, h3, h4⟩
    refine ⟨i, h1, h3, ?_⟩
    rw [h4, starts_getElem]; simp
  · rintro ⟨i, h1, h3, h4⟩
    refine ⟨i, h1, by omega, h3, ?_⟩
    rw [h4, starts_getElem]; simp

/-- a zero-length marker, or one removed with `removeSegmentMarker` (which stores `(0, 0)`),
    contributes nothing -/
theorem zero_length_contributes_nothing (sr : Rat) (sel : Seg → Mark) (segs : List Seg) (sts : List Nat)
    (h : ∀ s ∈ segs, (sel s).2 = 0) : segMarks sr sel segs sts = [] :=
  segMarks_all_zero sr sel segs sts h

/-- and a window whose rounded length is 0 paints no sample -/
theorem zero_chunk_paints_nothing (N : Nat) (sr : Rat) (m : Mark) (k : Nat) (h : rhe (m.2 * sr) = 0) :
    inWindow k (window N sr m) = false := window_empty_of_zero_chunk N sr m k h

/-! ### markers stay attached to their segment -/

/-- Inserting a segment leaves every existing segment record (function, arguments, duration and
    both segment-bound markers) as it was: the new list of records is the old one with the new
    record inserted; only names are renumbered. -/
theorem insert_keeps_markers (b : BP) (pos : Int) (fn : Fn) (args : List Val) (dur name : Val)
    (h : (b.insertSegment pos fn args dur name).err = none) :
    ∃ nm, (b.insertSegment pos fn args dur name).st.segs.map BP.Seg.body =
      (BP.insertSegs b.segs pos { name := nm, fn := fn, args := args, dur := dur }).map BP.Seg.body := by
  unfold BP.insertSegment at *
  by_cases hp : Gen.insertPosBad pos = true
  · simp [hp] at h
  · cases hn : BP.insertName fn name with
    | error e => simp [hp, hn] at h
    | ok nm =>
      refine ⟨nm, ?_⟩
      simp only [hp, hn, Bool.false_eq_true, if_false]
      exact BP.renumber_body _

/-- Removing a segment removes exactly its record; every other record keeps its markers. -/
theorem remove_keeps_markers (b : BP) (name : String) (h : (b.removeSegment name).err = none) :
    ∃ i, b.indexOf? name = some i ∧
      (b.removeSegment name).st.segs.map BP.Seg.body = (b.segs.eraseIdx i).map BP.Seg.body := by
  unfold BP.removeSegment at *
  split at h
  · simp at h
  · rename_i i hi
    exact ⟨i, hi, BP.renumber_body _⟩

/-- Changing a duration changes no marker specification. -/
theorem changeDuration_keeps_markers (b : BP) (name : String) (d : Val) (all : Bool) :
    (b.changeDuration name d all).st.segs.map (fun s => (s.m1, s.m2)) = b.segs.map (fun s => (s.m1, s.m2))
    ∧ (b.changeDuration name d all).st.marker1 = b.marker1
    ∧ (b.changeDuration name d all).st.marker2 = b.marker2 := by
  unfold BP.changeDuration
  split
  · split
    · simp
    · split
      · simp
      · split
        · simp
        · refine ⟨?_, rfl, rfl⟩
          simp only [List.map_map]
          apply List.map_congr_left
          intro s _
          simp only [Function.comp, BP.setDur]
          split <;> rfl
  · simp

/-! ### marker specifications never change waveform samples -/

theorem mkBlocks_indep_markers (sr : Rat) (a b : List Seg) (ns : List Nat)
    (h : a.map (fun s => (s.fn, s.args)) = b.map (fun s => (s.fn, s.args))) :
    mkBlocks sr a ns = mkBlocks sr b ns := by
  induction a generalizing b ns with
  | nil => cases b with
    | nil => rfl
    | cons y ys => simp at h
  | cons x xs ih =>
    cases b with
    | nil => simp at h
    | cons y ys =>
      simp only [List.map_cons, List.cons.injEq, Prod.mk.injEq] at h
      cases ns with
      | nil => rfl
      | cons n ns => simp only [mkBlocks]; rw [h.1.1, h.1.2, ih ys ns h.2]

/-- setting or replacing absolute markers does not change a single waveform block -/
theorem abs_markers_do_not_touch_wfm (b : BP) (l1 l2 : List Mark) (sr : Rat) (ns : List Nat) :
    (assemble { b with marker1 := l1, marker2 := l2 } sr ns).blocks = (assemble b sr ns).blocks := rfl

theorem map_modify_inv {α β} (l : List α) (i : Nat) (f : α → α) (g : α → β) (h : ∀ a, g (f a) = g a) :
    (l.modify i f).map g = l.map g := by
  induction l generalizing i with
  | nil => simp
  | cons a t ih =>
    cases i with
    | zero => simp [List.modify_zero_cons, h]
    | succ i => simp [List.modify_succ_cons, ih]

/-- setting a segment-bound marker does not change a single waveform block -/
theorem seg_markers_do_not_touch_wfm (b : BP) (i : Nat) (mid : Int) (m : Mark) (sr : Rat) (ns : List Nat) :
    (assemble (b.modifySeg i (BP.setMark mid m)) sr ns).blocks = (assemble b sr ns).blocks := by
  simp only [assemble, BP.modifySeg]
  apply mkBlocks_indep_markers
  apply map_modify_inv
  intro s
  unfold BP.setMark
  split <;> rfl

/-- ... nor the resolution of waituntil segments (durations are untouched) -/
theorem seg_markers_do_not_touch_durations (b : BP) (i : Nat) (mid : Int) (m : Mark) :
    (b.modifySeg i (BP.setMark mid m)).segs.map (fun s => (s.fn, s.args, s.dur)) =
      b.segs.map (fun s => (s.fn, s.args, s.dur)) := by
  simp only [BP.modifySeg]
  apply map_modify_inv
  intro s
  unfold BP.setMark
  split <;> rfl

/-! ### non-vacuity -/

def exampleBP : BP :=
  { segs := [ { name := "ramp", fn := Fn.rampFn, args := [.num 0, .num 1], dur := .num 1, m1 := (1/10, 3/10) },
              { name := "ramp2", fn := Fn.rampFn, args := [.num 1, .num 0], dur := .num 1, m2 := (-1/5, 1/2) } ],
    marker1 := [(3/2, 1)], SR := .num 10 }

example : (forgeBP exampleBP).toOption.map (fun f => (f.m1, f.m2)) =
    some ([0,1,1,1,0,0,0,0,0,0,0,0,0,0,0,1,1,1,1,1], [0,0,0,0,0,0,0,0,1,1,1,1,1,0,0,0,0,0,0,0]) := by
  decide +kernel

end BB.C03
