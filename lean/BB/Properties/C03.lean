/-
  Property C03 — markers are 0/1 and ON exactly on the union of their windows.

  A window of a marker `(t, len)` at sample rate `SR` on a waveform of `N` samples is
  `[ind, min(ind + chunk, N))` with `ind` the sample nearest `t` and `chunk = round(len·SR)`
  (`window`); a segment-bound marker `(delay, len)` of segment `i` is the absolute marker
  `(start_i/SR + delay, len)` with `start_i` the *post-rounding* start sample (`segMarks`).
-/
import BB.Proofs.Forge
import BB.Proofs.G1Markers
import BB.Proofs.G1Insert
import BB.Proofs.G11Wait
import BB.Proofs.G4Wave
import BB.Properties.C04

namespace BB.C03
open BB

/-- Both forged marker arrays have the waveform's length, contain only 0 and 1, and sample `k`
    is 1 exactly when `k` lies in the window of one of the absolute markers or of a segment-bound
    marker with non-zero length. -/
theorem markers_spec (b : BP) (f : Forged) (h : forgeBP b = .ok f) :
    ∃ sr ns, b.SR = .num sr ∧ f.N = sumN ns ∧
      f.m1.length = f.N ∧ f.m2.length = f.N ∧
      (∀ x ∈ f.m1, x = 0 ∨ x = 1) ∧ (∀ x ∈ f.m2, x = 0 ∨ x = 1) ∧
      (∀ k (hk : k < f.m1.length), f.m1[k] = 1 ↔
        ∃ m ∈ b.marker1 ++ segMarks sr (·.m1) b.segs (starts ns 0),
          (window f.N sr m).1 ≤ k ∧ k < (window f.N sr m).2) ∧
      (∀ k (hk : k < f.m2.length), f.m2[k] = 1 ↔
        ∃ m ∈ b.marker2 ++ segMarks sr (·.m2) b.segs (starts ns 0),
          (window f.N sr m).1 ≤ k ∧ k < (window f.N sr m).2) := by
  obtain ⟨sr, durs, ns, hsr, _, _, _, rfl⟩ := (forge_ok_iff b f).mp h
  refine ⟨sr, ns, hsr, rfl, paint_length _ _, paint_length _ _, paint_bool _ _, paint_bool _ _, ?_, ?_⟩
  · intro k hk
    simp only [assemble] at hk ⊢
    rw [paint_on_iff]
    constructor
    · rintro ⟨w, hw, h1, h2⟩
      obtain ⟨m, hm, rfl⟩ := List.mem_map.mp hw
      exact ⟨m, hm, h1, h2⟩
    · rintro ⟨m, hm, h1, h2⟩
      exact ⟨_, List.mem_map.mpr ⟨m, hm, rfl⟩, h1, h2⟩
  · intro k hk
    simp only [assemble] at hk ⊢
    rw [paint_on_iff]
    constructor
    · rintro ⟨w, hw, h1, h2⟩
      obtain ⟨m, hm, rfl⟩ := List.mem_map.mp hw
      exact ⟨m, hm, h1, h2⟩
    · rintro ⟨m, hm, h1, h2⟩
      exact ⟨_, List.mem_map.mpr ⟨m, hm, rfl⟩, h1, h2⟩

/-- The window of a marker `(t, len)`: it starts at the sample nearest `t`, covers `round(len·SR)`
    samples (for a non-negative rounded length) and is clipped at the end of the waveform. -/
theorem window_spec (N : Nat) (sr : Rat) (t len : Rat) (n : Nat) (hn : n < N) (ht : |t * sr - n| < 1/2)
    (hc : 0 ≤ rhe (len * sr)) :
    window N sr (t, len) = (n, min (n + (rhe (len * sr)).toNat) N) := by
  unfold window
  simp only
  rw [nearestIdx_spec N (t * sr) n hn ht]
  unfold sliceStop
  have : ¬ ((n : Int) + rhe (len * sr) < 0) := by omega
  simp only [this, if_false]
  congr 2
  omega

/-- on the property's domain (`t·SR` within 0.4 of a sample index) the start is `round(t·SR)` -/
theorem window_start_is_round (N : Nat) (sr t len : Rat) (n : Nat) (hn : n < N) (ht : |t * sr - n| ≤ 2/5) :
    (window N sr (t, len)).1 = n ∧ rhe (t * sr) = n := by
  have h2 : |t * sr - n| < 1/2 := lt_of_le_of_lt ht (by norm_num)
  refine ⟨?_, rhe_near _ n (by simpa using ht)⟩
  unfold window
  simp only
  exact nearestIdx_spec N (t * sr) n hn h2

/-- windows never reach beyond the waveform -/
theorem window_clipped (N : Nat) (sr : Rat) (m : Mark) : (window N sr m).2 ≤ N := BB.window_clipped N sr m

/-- Segment-bound markers: segment `i` with marker `(delay, len)`, `len ≠ 0`, contributes the
    absolute marker whose ON time is the actual (post-rounding) start of the segment plus `delay`;
    the start sample is the sum of the rounded sample counts of the earlier segments. -/
theorem segment_marker_absolute (sr : Rat) (sel : Seg → Mark) (segs : List Seg) (ns : List Nat)
    (hl : ns.length = segs.length) (m : Mark) :
    m ∈ segMarks sr sel segs (starts ns 0) ↔
      ∃ (i : Nat) (_ : i < segs.length), (sel segs[i]).2 ≠ 0 ∧
        m = ((((sumN (ns.take i) : Nat) : Int) : Rat) / sr + (sel segs[i]).1, (sel segs[i]).2) := by
  have hsl : (starts ns 0).length = segs.length := by rw [starts_length, hl]
  rw [segMarks_mem sr sel segs (starts ns 0) hsl]
  constructor
  · rintro ⟨i, h1, h2, h3, h4⟩
    refine ⟨i, h1, h3, ?_⟩
    rw [h4, starts_getElem]; simp
  · rintro ⟨i, h1, h3, h4⟩
    refine ⟨i, h1, by omega, h3, ?_⟩
    rw [h4, starts_getElem]; simp

/-- a zero-length marker, or one removed with `removeSegmentMarker` (which stores `(0, 0)`),
    contributes nothing -/
theorem zero_length_contributes_nothing (sr : Rat) (sel : Seg → Mark) (segs : List Seg) (sts : List Nat)
    (h : ∀ s ∈ segs, (sel s).2 = 0) : segMarks sr sel segs sts = [] :=
  segMarks_all_zero sr sel segs sts h

/-- and a window whose rounded length is 0 paints no sample -/
theorem zero_chunk_paints_nothing (N : Nat) (sr : Rat) (m : Mark) (k : Nat) (h : rhe (m.2 * sr) = 0) :
    inWindow k (window N sr m) = false := window_empty_of_zero_chunk N sr m k h

/-! ### markers stay attached to their segment -/

/-- Inserting a segment leaves every existing segment record (function, arguments, duration and
    both segment-bound markers) as it was: the new list of records is the old one with the new
    record inserted; only names are renumbered. -/
theorem insert_keeps_markers (b : BP) (pos : Int) (fn : Fn) (args : List Val) (dur name : Val)
    (h : (b.insertSegment pos fn args dur name).err = none) :
    ∃ nm, (b.insertSegment pos fn args dur name).st.segs.map BP.Seg.body =
      (BP.insertSegs b.segs pos { name := nm, fn := fn, args := args, dur := dur }).map BP.Seg.body := by
  unfold BP.insertSegment at *
  by_cases hp : Gen.insertPosBad pos = true
  · simp [hp] at h
  · cases hn : BP.insertName fn name with
    | error e => simp [hp, hn] at h
    | ok nm =>
      refine ⟨nm, ?_⟩
      simp only [hp, hn, Bool.false_eq_true, if_false]
      exact BP.renumber_body _

/-- Removing a segment removes exactly its record; every other record keeps its markers. -/
theorem remove_keeps_markers (b : BP) (name : String) (h : (b.removeSegment name).err = none) :
    ∃ i, b.indexOf? name = some i ∧
      (b.removeSegment name).st.segs.map BP.Seg.body = (b.segs.eraseIdx i).map BP.Seg.body := by
  unfold BP.removeSegment at *
  split at h
  · simp at h
  · rename_i i hi
    exact ⟨i, hi, BP.renumber_body _⟩

/-- Changing a duration changes no marker specification. -/
theorem changeDuration_keeps_markers (b : BP) (name : String) (d : Val) (all : Bool) :
    (b.changeDuration name d all).st.segs.map (fun s => (s.m1, s.m2)) = b.segs.map (fun s => (s.m1, s.m2))
    ∧ (b.changeDuration name d all).st.marker1 = b.marker1
    ∧ (b.changeDuration name d all).st.marker2 = b.marker2 := by
  unfold BP.changeDuration
  split
  · split
    · simp
    · split
      · simp
      · split
        · simp
        · refine ⟨?_, rfl, rfl⟩
          simp only [List.map_map]
          apply List.map_congr_left
          intro s _
          simp only [Function.comp, BP.setDur]
          split <;> rfl
  · simp

/-! ### marker specifications never change waveform samples -/

theorem mkBlocks_indep_markers (sr : Rat) (a b : List Seg) (ns : List Nat)
    (h : a.map (fun s => (s.fn, s.args)) = b.map (fun s => (s.fn, s.args))) :
    mkBlocks sr a ns = mkBlocks sr b ns := by
  induction a generalizing b ns with
  | nil => cases b with
    | nil => rfl
    | cons y ys => simp at h
  | cons x xs ih =>
    cases b with
    | nil => simp at h
    | cons y ys =>
      simp only [List.map_cons, List.cons.injEq, Prod.mk.injEq] at h
      cases ns with
      | nil => rfl
      | cons n ns => simp only [mkBlocks]; rw [h.1.1, h.1.2, ih ys ns h.2]

/-- setting or replacing absolute markers does not change a single waveform block -/
theorem abs_markers_do_not_touch_wfm (b : BP) (l1 l2 : List Mark) (sr : Rat) (ns : List Nat) :
    (assemble { b with marker1 := l1, marker2 := l2 } sr ns).blocks = (assemble b sr ns).blocks := rfl

theorem map_modify_inv {α β} (l : List α) (i : Nat) (f : α → α) (g : α → β) (h : ∀ a, g (f a) = g a) :
    (l.modify i f).map g = l.map g := by
  induction l generalizing i with
  | nil => simp
  | cons a t ih =>
    cases i with
    | zero => simp [List.modify_zero_cons, h]
    | succ i => simp [List.modify_succ_cons, ih]

/-- setting a segment-bound marker does not change a single waveform block -/
theorem seg_markers_do_not_touch_wfm (b : BP) (i : Nat) (mid : Int) (m : Mark) (sr : Rat) (ns : List Nat) :
    (assemble (b.modifySeg i (BP.setMark mid m)) sr ns).blocks = (assemble b sr ns).blocks := by
  simp only [assemble, BP.modifySeg]
  apply mkBlocks_indep_markers
  apply map_modify_inv
  intro s
  unfold BP.setMark
  split <;> rfl

/-- ... nor the resolution of waituntil segments (durations are untouched) -/
theorem seg_markers_do_not_touch_durations (b : BP) (i : Nat) (mid : Int) (m : Mark) :
    (b.modifySeg i (BP.setMark mid m)).segs.map (fun s => (s.fn, s.args, s.dur)) =
      b.segs.map (fun s => (s.fn, s.args, s.dur)) := by
  simp only [BP.modifySeg]
  apply map_modify_inv
  intro s
  unfold BP.setMark
  split <;> rfl

/-! ### non-vacuity -/

def exampleBP : BP :=
  { segs := [ { name := "ramp", fn := Fn.rampFn, args := [.num 0, .num 1], dur := .num 1, m1 := (1/10, 3/10) },
              { name := "ramp2", fn := Fn.rampFn, args := [.num 1, .num 0], dur := .num 1, m2 := (-1/5, 1/2) } ],
    marker1 := [(3/2, 1)], SR := .num 10 }

example : (forgeBP exampleBP).toOption.map (fun f => (f.m1, f.m2)) =
    some ([0,1,1,1,0,0,0,0,0,0,0,0,0,0,0,1,1,1,1,1], [0,0,0,0,0,0,0,0,1,1,1,1,1,0,0,0,0,0,0,0]) := by
  decide +kernel

/-! ### audit round: counts tied down, argmin, frame theorems on the forged result -/

/-- `markers_spec` with the counts tied down: the sample counts `ns` whose cumulative sums are the
    segment starts are exactly the rounded counts `round(d_i·SR)` of the resolved durations (stored
    duration, or `t - elapsed` for a waituntil) - the *post-rounding* starts. -/
theorem markers_spec_counts (b : BP) (f : Forged) (h : forgeBP b = .ok f) :
    ∃ sr durs, b.SR = .num sr ∧ b.resolveWaits = .ok durs ∧ durs.length = b.segs.length ∧
      (∀ d ∈ durs, 2 ≤ rhe (d * sr)) ∧
      f.N = sumN (durs.map (fun d => (rhe (d * sr)).toNat)) ∧
      f.m1.length = f.N ∧ f.m2.length = f.N ∧
      (∀ x ∈ f.m1, x = 0 ∨ x = 1) ∧ (∀ x ∈ f.m2, x = 0 ∨ x = 1) ∧
      (∀ k (hk : k < f.m1.length), f.m1[k] = 1 ↔
        ∃ m ∈ b.marker1 ++ segMarks sr (·.m1) b.segs (starts (durs.map (fun d => (rhe (d * sr)).toNat)) 0),
          (window f.N sr m).1 ≤ k ∧ k < (window f.N sr m).2) ∧
      (∀ k (hk : k < f.m2.length), f.m2[k] = 1 ↔
        ∃ m ∈ b.marker2 ++ segMarks sr (·.m2) b.segs (starts (durs.map (fun d => (rhe (d * sr)).toNat)) 0),
          (window f.N sr m).1 ≤ k ∧ k < (window f.N sr m).2) := by
  obtain ⟨sr, durs, ns, hsr, hd, hn, hbs, hf⟩ := (forge_ok_iff b f).mp h
  obtain ⟨h2, hns⟩ := countsGo_ok sr durs ns hn
  obtain ⟨sr', ns', hsr', hN, hl1, hl2, hb1, hb2, hw1, hw2⟩ := markers_spec b f h
  -- `markers_spec` hides its witnesses; redo the two window clauses with the explicit counts
  have hns' : ns = durs.map (fun d => (rhe (d * sr)).toNat) := hns
  subst hf
  refine ⟨sr, durs, hsr, hd, resolveGo_length _ _ _ hd, h2, by rw [← hns']; rfl, hl1, hl2, hb1, hb2, ?_, ?_⟩
  · intro k hk
    rw [← hns']
    simp only [assemble] at hk ⊢
    rw [paint_on_iff]
    constructor
    · rintro ⟨w, hw, h1, h2⟩
      obtain ⟨m, hm, rfl⟩ := List.mem_map.mp hw
      exact ⟨m, hm, h1, h2⟩
    · rintro ⟨m, hm, h1, h2⟩
      exact ⟨_, List.mem_map.mpr ⟨m, hm, rfl⟩, h1, h2⟩
  · intro k hk
    rw [← hns']
    simp only [assemble] at hk ⊢
    rw [paint_on_iff]
    constructor
    · rintro ⟨w, hw, h1, h2⟩
      obtain ⟨m, hm, rfl⟩ := List.mem_map.mp hw
      exact ⟨m, hm, h1, h2⟩
    · rintro ⟨m, hm, h1, h2⟩
      exact ⟨_, List.mem_map.mpr ⟨m, hm, rfl⟩, h1, h2⟩

example : (forgeBP exampleBP).toOption.isSome = true := by decide +kernel

/-- **General specification of the window start** (`np.abs(time - t).argmin()`): on a non-empty
    time axis the start index lies on the axis, no sample of the axis is closer to `t·SR`, and every
    earlier sample is strictly farther away (first minimiser).  This covers ON times before the
    waveform (index 0), beyond its end (last index) and exact ties (the lower index). -/
theorem window_start_argmin (N : Nat) (sr : Rat) (m : Mark) (hN : 0 < N) :
    (window N sr m).1 < N ∧
    (∀ k : Nat, k < N → |m.1 * sr - ((window N sr m).1 : ℚ)| ≤ |m.1 * sr - (k : ℚ)|) ∧
    (∀ k : Nat, k < (window N sr m).1 → |m.1 * sr - ((window N sr m).1 : ℚ)| < |m.1 * sr - (k : ℚ)|) :=
  nearestIdx_argmin N (m.1 * sr) hN

/-- the same in seconds, for a positive sample rate: the start sample minimises `|k/SR - t_on|` -/
theorem window_start_argmin_time (N : Nat) (sr : Rat) (m : Mark) (hN : 0 < N) (hsr : 0 < sr) :
    (window N sr m).1 < N ∧
    (∀ k : Nat, k < N → |((window N sr m).1 : ℚ) / sr - m.1| ≤ |(k : ℚ) / sr - m.1|) ∧
    (∀ k : Nat, k < (window N sr m).1 → |((window N sr m).1 : ℚ) / sr - m.1| < |(k : ℚ) / sr - m.1|) :=
  nearestIdx_argmin_time N m.1 sr hN hsr

/-- ... and in a forged non-empty blueprint the axis is never empty -/
theorem forged_axis_nonempty (b : BP) (f : Forged) (h : forgeBP b = .ok f) (hne : b.segs ≠ []) : 0 < f.N := by
  obtain ⟨sr, durs, _, _, hlen, h2, hN, _⟩ := markers_spec_counts b f h
  rw [hN]
  cases durs with
  | nil => exact absurd (List.eq_nil_of_length_eq_zero hlen.symm) hne
  | cons d ds =>
    have := h2 d (by simp)
    simp only [List.map_cons, sumN]
    omega

example : window 20 10 ((-3 : ℚ), 1) = (0, 10) ∧ window 20 10 ((5 : ℚ), 1) = (19, 20) ∧
    window 20 10 ((1/4 : ℚ), 1/5) = (2, 4) := by decide +kernel

/-- **`setSegmentMarker` never changes the waveform side of the forged result**: forging after the
    call (accepted or refused) gives the same blocks, the same number of samples, the same sample
    rate and `newdurations`, or the same error, as forging before. -/
theorem setSegmentMarker_keeps_wfm (b : BP) (name : String) (specs : Mark) (mid : Int) :
    (forgeBP (b.setSegmentMarker name specs mid).st).map Forged.wfmPart = (forgeBP b).map Forged.wfmPart := by
  obtain ⟨hs, _, _, hf, _, _⟩ := setSegmentMarker_fields b name specs mid
  exact forgeBP_wfmPart_congr _ _ hs hf

/-- the same, spelled out for a successful forge -/
theorem setSegmentMarker_blocks_unchanged (b : BP) (name : String) (specs : Mark) (mid : Int)
    (f : Forged) (h : forgeBP b = .ok f) :
    ∃ f', forgeBP (b.setSegmentMarker name specs mid).st = .ok f' ∧
      f'.blocks = f.blocks ∧ f'.N = f.N ∧ f'.SR = f.SR ∧ f'.newdurations = f.newdurations := by
  obtain ⟨f', h1, h2⟩ := map_eq_ok _ _ _ (setSegmentMarker_keeps_wfm b name specs mid) f h
  simp only [Forged.wfmPart, Prod.mk.injEq] at h2
  exact ⟨f', h1, h2.1, h2.2.1, h2.2.2.1, h2.2.2.2⟩

/-- ... and it leaves the *other* marker channel's array untouched -/
theorem setSegmentMarker_other_channel (b : BP) (name : String) (specs : Mark) (mid : Int) :
    (mid = 1 → (forgeBP (b.setSegmentMarker name specs mid).st).map (·.m2) = (forgeBP b).map (·.m2)) ∧
    (mid ≠ 1 → (forgeBP (b.setSegmentMarker name specs mid).st).map (·.m1) = (forgeBP b).map (·.m1)) := by
  obtain ⟨hs, ha1, ha2, hf, h2, h1⟩ := setSegmentMarker_fields b name specs mid
  exact ⟨fun hm => forgeBP_m2_congr _ _ hs hf (h2 hm) ha2, fun hm => forgeBP_m1_congr _ _ hs hf (h1 hm) ha1⟩

/-- **`removeSegmentMarker` never changes the waveform side of the forged result.** -/
theorem removeSegmentMarker_keeps_wfm (b : BP) (name : String) (mid : Int) :
    (forgeBP (b.removeSegmentMarker name mid).st).map Forged.wfmPart = (forgeBP b).map Forged.wfmPart := by
  obtain ⟨hs, _, _, hf, _, _⟩ := removeSegmentMarker_fields b name mid
  exact forgeBP_wfmPart_congr _ _ hs hf

/-- the same, spelled out for a successful forge (C03: marker specifications never change
    waveform samples) -/
theorem removeSegmentMarker_blocks_unchanged (b : BP) (name : String) (mid : Int)
    (f : Forged) (h : forgeBP b = .ok f) :
    ∃ f', forgeBP (b.removeSegmentMarker name mid).st = .ok f' ∧
      f'.blocks = f.blocks ∧ f'.N = f.N ∧ f'.SR = f.SR ∧ f'.newdurations = f.newdurations := by
  obtain ⟨f', h1, h2⟩ := map_eq_ok _ _ _ (removeSegmentMarker_keeps_wfm b name mid) f h
  simp only [Forged.wfmPart, Prod.mk.injEq] at h2
  exact ⟨f', h1, h2.1, h2.2.1, h2.2.2.1, h2.2.2.2⟩

/-- ... and it leaves the *other* marker channel's array untouched -/
theorem removeSegmentMarker_other_channel (b : BP) (name : String) (mid : Int) :
    (mid = 1 → (forgeBP (b.removeSegmentMarker name mid).st).map (·.m2) = (forgeBP b).map (·.m2)) ∧
    (mid ≠ 1 → (forgeBP (b.removeSegmentMarker name mid).st).map (·.m1) = (forgeBP b).map (·.m1)) := by
  obtain ⟨hs, ha1, ha2, hf, h2, h1⟩ := removeSegmentMarker_fields b name mid
  exact ⟨fun hm => forgeBP_m2_congr _ _ hs hf (h2 hm) ha2, fun hm => forgeBP_m1_congr _ _ hs hf (h1 hm) ha1⟩

/-- **Assigning the absolute marker lists** (`bp.marker1 = [...]`, `bp.marker2 = [...]`) never
    changes the waveform side of the forged result, and assigning one list leaves the other
    channel's array as it was. -/
theorem marker_assignment_keeps_wfm (b : BP) (l1 l2 : List Mark) :
    (forgeBP { b with marker1 := l1, marker2 := l2 }).map Forged.wfmPart = (forgeBP b).map Forged.wfmPart ∧
    (forgeBP { b with marker1 := l1 }).map (·.m2) = (forgeBP b).map (·.m2) ∧
    (forgeBP { b with marker2 := l2 }).map (·.m1) = (forgeBP b).map (·.m1) :=
  ⟨forgeBP_wfmPart_congr _ _ rfl rfl, forgeBP_m2_congr _ _ rfl rfl rfl rfl, forgeBP_m1_congr _ _ rfl rfl rfl rfl⟩

/-- the same, spelled out for a successful forge (C03: marker specifications never change
    waveform samples) -/
theorem marker_assignment_blocks_unchanged (b : BP) (l1 l2 : List Mark) (f : Forged) (h : forgeBP b = .ok f) :
    ∃ f', forgeBP { b with marker1 := l1, marker2 := l2 } = .ok f' ∧
      f'.blocks = f.blocks ∧ f'.N = f.N ∧ f'.SR = f.SR ∧ f'.newdurations = f.newdurations := by
  obtain ⟨f', h1, h2⟩ := map_eq_ok _ _ _ (marker_assignment_keeps_wfm b l1 l2).1 f h
  simp only [Forged.wfmPart, Prod.mk.injEq] at h2
  exact ⟨f', h1, h2.1, h2.2.1, h2.2.2.1, h2.2.2.2⟩

/-- all marker operations of the public API at once (`BP.step`): none changes the waveform side -/
theorem marker_ops_keep_wfm (b : BP) (o : BP.Op)
    (ho : (∃ n s m, o = .setSegMarker n s m) ∨ (∃ n m, o = .removeSegMarker n m) ∨
      (∃ l, o = .setMarker1 l) ∨ (∃ l, o = .setMarker2 l)) :
    (forgeBP (b.step o).st).map Forged.wfmPart = (forgeBP b).map Forged.wfmPart := by
  rcases ho with ⟨n, s, m, rfl⟩ | ⟨n, m, rfl⟩ | ⟨l, rfl⟩ | ⟨l, rfl⟩
  · exact setSegmentMarker_keeps_wfm b n s m
  · exact removeSegmentMarker_keeps_wfm b n m
  · exact forgeBP_wfmPart_congr _ _ rfl rfl
  · exact forgeBP_wfmPart_congr _ _ rfl rfl

/-- **`changeArg` never changes a marker**: forging after any `changeArg` call (accepted, refused,
    or refused half-way through a `replaceeverywhere` loop) gives the same two marker arrays, the
    same number of samples, sample rate, `newdurations` and block lengths - or the same error - as
    forging before.  (`changeArg` refuses waituntil segments, so no duration can move.) -/
theorem changeArg_keeps_markers (b : BP) (name : String) (arg value : Val) (all : Bool) :
    (forgeBP (b.changeArg name arg value all).st).map Forged.markPart = (forgeBP b).map Forged.markPart := by
  have h := argFrame_changeArg b name arg value all
  exact forgeBP_markPart_congr _ _ h.sr h.fn h.timing h.m1 h.m2 h.a1 h.a2

/-- the same, spelled out for a successful forge -/
theorem changeArg_markers_unchanged (b : BP) (name : String) (arg value : Val) (all : Bool)
    (f : Forged) (h : forgeBP b = .ok f) :
    ∃ f', forgeBP (b.changeArg name arg value all).st = .ok f' ∧
      f'.m1 = f.m1 ∧ f'.m2 = f.m2 ∧ f'.N = f.N ∧ f'.blocks.map Blk.len = f.blocks.map Blk.len := by
  obtain ⟨f', h1, h2⟩ := map_eq_ok _ _ _ (changeArg_keeps_markers b name arg value all) f h
  simp only [Forged.markPart, Prod.mk.injEq] at h2
  exact ⟨f', h1, h2.1, h2.2.1, h2.2.2.1, h2.2.2.2.2.2⟩

example : (exampleBP.changeArg "ramp" (.str "stop") (.num 7) false).err = none ∧
    (exampleBP.changeArg "ramp" (.str "stop") (.num 7) false).st ≠ exampleBP ∧
    (exampleBP.setSegmentMarker "ramp2" (1/10, 1/5) 1).err = none ∧
    (exampleBP.removeSegmentMarker "ramp" 1).err = none := by decide +kernel

/-! ### insert shift: segment-bound markers travel with their segment -/

/-- **Window shift** (restated from `BB.window_shift`): on a waveform that became `n` samples
    longer, the window of a marker whose ON time moved by `n` samples is the old window moved by
    `n` samples, start and clipped stop alike - for an ON time not before the waveform and a
    non-negative rounded length. -/
theorem shifted_window (N n : Nat) (sr : Rat) (m : Mark) (hN : 0 < N) (hsr : sr ≠ 0)
    (hon : 0 ≤ m.1 * sr) (hlen : 0 ≤ rhe (m.2 * sr)) :
    window (N + n) sr (shiftMark sr n m) = ((window N sr m).1 + n, (window N sr m).2 + n) :=
  window_shift N n sr m hN hsr hon hlen

/-- without the "ON time inside the waveform" hypothesis the shift fails: a marker 3 samples
    before the start of a 20-sample waveform starts at sample 0, but after a 10-sample shift at
    sample 7, not 10 -/
example : window 20 10 ((-3/10 : ℚ), 1/2) = (0, 5) ∧
    window 30 10 (shiftMark 10 10 ((-3/10 : ℚ), 1/2)) = (7, 12) := by decide +kernel

/-- **Insert shift.**  `b.segs = pre ++ post` with no waituntil in `post`; an ordinary callable with
    numeric duration `d` (at least two samples) is inserted at position `|pre|` and the call is
    accepted.  Then the new blueprint forges, the waveform is `n = round(d·SR)` samples longer, the
    block lengths are the old ones with `n` inserted at `|pre|`, and the marker arrays before and
    after are described by the *same* three groups of markers -
    the absolute markers, the segment-bound markers of the earlier segments (`earlierMarks`), and the
    segment-bound markers of the later segments (`laterMarks`) -
    where after the insertion exactly the third group is moved by `n` samples in time
    (`shiftMark`): the markers of later segments travel with their segments, nothing else moves.
    (`laterMarks_mem` says what the later marks are; `shifted_window` turns the moved marker into
    the moved window.) -/
theorem insert_shifts_later_markers (b : BP) (pre post : List Seg) (fn : Fn) (args : List Val) (d : Rat)
    (name : Val) (hb : b.segs = pre ++ post) (hpost : ∀ s ∈ post, s.fn.isWait = false)
    (hfn : fn.special = false)
    (hacc : (b.insertSegment (pre.length : Int) fn args (.num d) name).err = none)
    (f : Forged) (hf : forgeBP b = .ok f) (sr : Rat) (hsr : b.SR = .num sr) (hn : 2 ≤ rhe (d * sr)) :
    ∃ f', forgeBP (b.insertSegment (pre.length : Int) fn args (.num d) name).st = .ok f' ∧
      f'.N = f.N + (rhe (d * sr)).toNat ∧
      f'.blocks.map Blk.len = (f.blocks.map Blk.len).take pre.length ++
        (rhe (d * sr)).toNat :: (f.blocks.map Blk.len).drop pre.length ∧
      (∀ k (hk : k < f.m1.length), f.m1[k] = 1 ↔
        (∃ m ∈ b.marker1 ++ earlierMarks sr (·.m1) pre (f.blocks.map Blk.len), onAt (window f.N sr m) k) ∨
        (∃ m ∈ laterMarks sr (·.m1) pre post (f.blocks.map Blk.len), onAt (window f.N sr m) k)) ∧
      (∀ k (hk : k < f'.m1.length), f'.m1[k] = 1 ↔
        (∃ m ∈ b.marker1 ++ earlierMarks sr (·.m1) pre (f.blocks.map Blk.len), onAt (window f'.N sr m) k) ∨
        (∃ m ∈ laterMarks sr (·.m1) pre post (f.blocks.map Blk.len),
          onAt (window f'.N sr (shiftMark sr (rhe (d * sr)).toNat m)) k)) ∧
      (∀ k (hk : k < f.m2.length), f.m2[k] = 1 ↔
        (∃ m ∈ b.marker2 ++ earlierMarks sr (·.m2) pre (f.blocks.map Blk.len), onAt (window f.N sr m) k) ∨
        (∃ m ∈ laterMarks sr (·.m2) pre post (f.blocks.map Blk.len), onAt (window f.N sr m) k)) ∧
      (∀ k (hk : k < f'.m2.length), f'.m2[k] = 1 ↔
        (∃ m ∈ b.marker2 ++ earlierMarks sr (·.m2) pre (f.blocks.map Blk.len), onAt (window f'.N sr m) k) ∨
        (∃ m ∈ laterMarks sr (·.m2) pre post (f.blocks.map Blk.len),
          onAt (window f'.N sr (shiftMark sr (rhe (d * sr)).toNat m)) k)) := by
  obtain ⟨sr', dp, dq, nm, hsr', hd, hpl, hql, hfa, hok, _⟩ :=
    forge_insert b pre post fn args d name hb hpost hfn hacc f hf
  have e : sr' = sr := by rw [hsr] at hsr'; cases hsr'; rfl
  subst e
  have hnp : (dp.map (fun x => (rhe (x * sr')).toNat)).length = pre.length := by simp [hpl]
  have hnq : (dq.map (fun x => (rhe (x * sr')).toNat)).length = post.length := by simp [hql]
  have hlens : f.blocks.map Blk.len =
      dp.map (fun x => (rhe (x * sr')).toNat) ++ dq.map (fun x => (rhe (x * sr')).toNat) := by
    rw [hfa]; simp only [assemble]
    rw [mkBlocks_lens sr' b.segs _ (by simp [hb, hpl, hql])]; simp
  have htake : (f.blocks.map Blk.len).take pre.length = dp.map (fun x => (rhe (x * sr')).toNat) := by
    rw [hlens]; exact List.take_left' hnp
  have hdrop : (f.blocks.map Blk.len).drop pre.length = dq.map (fun x => (rhe (x * sr')).toNat) := by
    rw [hlens]; exact List.drop_left' hnp
  have hfN : f.N = sumN (dp.map (fun x => (rhe (x * sr')).toNat) ++ dq.map (fun x => (rhe (x * sr')).toNat)) := by
    rw [hfa]; simp [assemble]
  have hfa' : f = assemble b sr' (dp.map (fun x => (rhe (x * sr')).toNat) ++
      dq.map (fun x => (rhe (x * sr')).toNat)) := by rw [hfa, List.map_append]
  have hfm := assemble_split_m b pre post hb sr' _ (dq.map (fun x => (rhe (x * sr')).toNat)) hnp
  rw [← hfa'] at hfm
  have hfm' := assemble_insert_m { b with segs := pre ++ newSeg nm fn args (.num d) :: post } pre post
    (newSeg nm fn args (.num d)) rfl rfl rfl sr' _ (dq.map (fun x => (rhe (x * sr')).toNat))
    (rhe (d * sr')).toNat hnp
  have key : ∀ (l : List Nat) (N : Nat) (A E L : List Mark)
      (_ : l = paint N ((A ++ (E ++ L)).map (window N sr'))) (k : Nat) (hk : k < l.length),
      l[k] = 1 ↔ (∃ m ∈ A ++ E, onAt (window N sr' m) k) ∨ (∃ m ∈ L, onAt (window N sr' m) k) := by
    intro l N A E L hl k hk
    subst hl
    exact paint_split_iff N sr' A E L k hk
  have key' : ∀ (l : List Nat) (N n : Nat) (A E L : List Mark)
      (_ : l = paint N ((A ++ (E ++ L.map (shiftMark sr' n))).map (window N sr'))) (k : Nat) (hk : k < l.length),
      l[k] = 1 ↔ (∃ m ∈ A ++ E, onAt (window N sr' m) k) ∨
        (∃ m ∈ L, onAt (window N sr' (shiftMark sr' n m)) k) := by
    intro l N n A E L hl k hk
    subst hl
    exact paint_split_shift_iff N n sr' A E L k hk
  have hN' : (assemble { b with segs := pre ++ newSeg nm fn args (.num d) :: post } sr'
      (dp.map (fun x => (rhe (x * sr')).toNat) ++ (rhe (d * sr')).toNat ::
        dq.map (fun x => (rhe (x * sr')).toNat))).N = f.N + (rhe (d * sr')).toNat := by
    rw [hfN, ← sumN_insert]; rfl
  refine ⟨_, hok hn, hN', ?_, ?_, ?_, ?_, ?_⟩
  · rw [htake, hdrop]
    simp only [assemble]
    exact mkBlocks_lens sr' _ _ (by simp [hpl, hql])
  · unfold earlierMarks laterMarks
    rw [htake, hdrop, hfN]
    exact key _ _ _ _ _ hfm.1
  · unfold earlierMarks laterMarks
    rw [htake, hdrop, hN', hfN, ← sumN_insert]
    exact key' _ _ _ _ _ _ hfm'.1
  · unfold earlierMarks laterMarks
    rw [htake, hdrop, hfN]
    exact key _ _ _ _ _ hfm.2
  · unfold earlierMarks laterMarks
    rw [htake, hdrop, hN', hfN, ← sumN_insert]
    exact key' _ _ _ _ _ _ hfm'.2

/-- which markers the "later" group consists of: the segment-bound markers (non-zero length) of
    the segments from the insertion point on, each at its own segment's start sample - the sum of the
    sample counts of *all* segments before it - plus its delay -/
theorem later_marks_are_the_later_segments (sr : Rat) (sel : Seg → Mark) (pre post : List Seg) (lens : List Nat)
    (hl : lens.length = pre.length + post.length) (m : Mark) :
    m ∈ laterMarks sr sel pre post lens ↔
      ∃ (j : Nat) (_ : j < post.length), (sel post[j]).2 ≠ 0 ∧
        m = ((((sumN (lens.take (pre.length + j)) : Nat) : Int) : ℚ) / sr + (sel post[j]).1, (sel post[j]).2) :=
  laterMarks_mem sr sel pre post lens hl m

/-- **Corollary: ON samples of a later segment's marker move by exactly the inserted count.**
    In the situation of `insert_shifts_later_markers`, if a segment-bound marker of a later segment
    (ON time inside the waveform, non-negative rounded length) switches sample `k` ON before the
    insertion, then sample `k + round(d·SR)` is ON after it. -/
theorem insert_moves_on_samples (b : BP) (pre post : List Seg) (fn : Fn) (args : List Val) (d : Rat)
    (name : Val) (hb : b.segs = pre ++ post) (hpost : ∀ s ∈ post, s.fn.isWait = false)
    (hfn : fn.special = false)
    (hacc : (b.insertSegment (pre.length : Int) fn args (.num d) name).err = none)
    (f : Forged) (hf : forgeBP b = .ok f) (sr : Rat) (hsr : b.SR = .num sr) (hn : 2 ≤ rhe (d * sr))
    (hsr0 : sr ≠ 0) (m : Mark) (hm : m ∈ laterMarks sr (·.m1) pre post (f.blocks.map Blk.len))
    (hon : 0 ≤ m.1 * sr) (hlen : 0 ≤ rhe (m.2 * sr)) (k : Nat) (hk : onAt (window f.N sr m) k) :
    ∃ f', forgeBP (b.insertSegment (pre.length : Int) fn args (.num d) name).st = .ok f' ∧
      ∃ hk' : k + (rhe (d * sr)).toNat < f'.m1.length, f'.m1[k + (rhe (d * sr)).toNat] = 1 ∧
      ∃ hk0 : k < f.m1.length, f.m1[k] = 1 := by
  obtain ⟨f', hf', hN, _, h1, h1', _, _⟩ :=
    insert_shifts_later_markers b pre post fn args d name hb hpost hfn hacc f hf sr hsr hn
  obtain ⟨_, _, _, _, _, _, _, hl1, _⟩ := C03.markers_spec_counts b f hf
  obtain ⟨_, _, _, _, _, _, _, hl1', _⟩ := C03.markers_spec_counts _ f' hf'
  have hNpos : 0 < f.N := by
    have := hk.2
    have := window_clipped f.N sr m
    omega
  have hkN : k < f.N := lt_of_lt_of_le hk.2 (window_clipped f.N sr m)
  have hw := window_shift f.N (rhe (d * sr)).toNat sr m hNpos hsr0 hon hlen
  refine ⟨f', hf', by rw [hl1', hN]; omega, ?_, by rw [hl1]; exact hkN, ?_⟩
  · rw [h1']
    right
    refine ⟨m, hm, ?_⟩
    rw [hN, hw]
    exact ⟨by simp only; have := hk.1; omega, by simp only; have := hk.2; omega⟩
  · rw [h1]
    right
    exact ⟨m, hm, hk⟩

/-- the same on marker channel 2 -/
theorem insert_moves_on_samples_m2 (b : BP) (pre post : List Seg) (fn : Fn) (args : List Val) (d : Rat)
    (name : Val) (hb : b.segs = pre ++ post) (hpost : ∀ s ∈ post, s.fn.isWait = false)
    (hfn : fn.special = false)
    (hacc : (b.insertSegment (pre.length : Int) fn args (.num d) name).err = none)
    (f : Forged) (hf : forgeBP b = .ok f) (sr : Rat) (hsr : b.SR = .num sr) (hn : 2 ≤ rhe (d * sr))
    (hsr0 : sr ≠ 0) (m : Mark) (hm : m ∈ laterMarks sr (·.m2) pre post (f.blocks.map Blk.len))
    (hon : 0 ≤ m.1 * sr) (hlen : 0 ≤ rhe (m.2 * sr)) (k : Nat) (hk : onAt (window f.N sr m) k) :
    ∃ f', forgeBP (b.insertSegment (pre.length : Int) fn args (.num d) name).st = .ok f' ∧
      ∃ hk' : k + (rhe (d * sr)).toNat < f'.m2.length, f'.m2[k + (rhe (d * sr)).toNat] = 1 ∧
      ∃ hk0 : k < f.m2.length, f.m2[k] = 1 := by
  obtain ⟨f', hf', hN, _, _, _, h2, h2'⟩ :=
    insert_shifts_later_markers b pre post fn args d name hb hpost hfn hacc f hf sr hsr hn
  obtain ⟨_, _, _, _, _, _, _, _, hl2, _⟩ := C03.markers_spec_counts b f hf
  obtain ⟨_, _, _, _, _, _, _, _, hl2', _⟩ := C03.markers_spec_counts _ f' hf'
  have hNpos : 0 < f.N := by
    have := hk.2
    have := window_clipped f.N sr m
    omega
  have hkN : k < f.N := lt_of_lt_of_le hk.2 (window_clipped f.N sr m)
  have hw := window_shift f.N (rhe (d * sr)).toNat sr m hNpos hsr0 hon hlen
  refine ⟨f', hf', by rw [hl2', hN]; omega, ?_, by rw [hl2]; exact hkN, ?_⟩
  · rw [h2']
    right
    refine ⟨m, hm, ?_⟩
    rw [hN, hw]
    exact ⟨by simp only; have := hk.1; omega, by simp only; have := hk.2; omega⟩
  · rw [h2]
    right
    exact ⟨m, hm, hk⟩

/-- non-vacuity: insert a 0.5 s ramp in front of `ramp2` (which carries a marker on channel 2) -/
example : exampleBP.segs = [exampleBP.segs[0]] ++ [exampleBP.segs[1]] ∧
    (∀ s ∈ [exampleBP.segs[1]], s.fn.isWait = false) ∧ Fn.rampFn.special = false ∧
    (exampleBP.insertSegment 1 Fn.rampFn [.num 0, .num 0] (.num (1/2)) .none).err = none ∧
    (2 : Int) ≤ rhe ((1/2 : ℚ) * 10) := by
  refine ⟨by decide +kernel, by decide +kernel, by decide, by decide +kernel, by decide +kernel⟩

example : (forgeBP (exampleBP.insertSegment 1 Fn.rampFn [.num 0, .num 0] (.num (1/2)) .none).st).toOption.map
      (fun f => (f.N, f.m2)) =
    some (25, [0,0,0,0,0,0,0,0,0,0,0,0,0,1,1,1,1,1,0,0,0,0,0,0,0]) := by
  decide +kernel

/-! ### the same for removal and duration changes: blueprints sharing a waituntil-free suffix -/

/-- **A forged blueprint split at an arbitrary point** `pre ++ post` (up to names): both marker
    arrays are painted from the absolute markers, the segment-bound markers of `pre` and those of
    `post`; and when `post` has no waituntil, the sample counts of its segments are the rounded
    stored durations - they do not depend on what precedes. -/
theorem markers_split_at (b : BP) (pre post : List Seg)
    (hb : b.segs.map BP.Seg.body = (pre ++ post).map BP.Seg.body) (f : Forged) (hf : forgeBP b = .ok f) :
    ∃ sr, b.SR = .num sr ∧ (f.blocks.map Blk.len).length = pre.length + post.length ∧
      f.N = sumN ((f.blocks.map Blk.len).take pre.length) + sumN ((f.blocks.map Blk.len).drop pre.length) ∧
      (∀ k (hk : k < f.m1.length), f.m1[k] = 1 ↔
        (∃ m ∈ b.marker1 ++ earlierMarks sr (·.m1) pre (f.blocks.map Blk.len), onAt (window f.N sr m) k) ∨
        (∃ m ∈ laterMarks sr (·.m1) pre post (f.blocks.map Blk.len), onAt (window f.N sr m) k)) ∧
      (∀ k (hk : k < f.m2.length), f.m2[k] = 1 ↔
        (∃ m ∈ b.marker2 ++ earlierMarks sr (·.m2) pre (f.blocks.map Blk.len), onAt (window f.N sr m) k) ∨
        (∃ m ∈ laterMarks sr (·.m2) pre post (f.blocks.map Blk.len), onAt (window f.N sr m) k)) ∧
      ((∀ s ∈ post, s.fn.isWait = false) →
        (f.blocks.map Blk.len).drop pre.length =
          (post.filterMap durOf?).map (fun x => (rhe (x * sr)).toNat)) := by
  obtain ⟨sr, np, nq, hsr, hnp, hnq, hlens, hN, hm1, hm2, hpost, _, _⟩ := forge_split b pre post hb f hf
  have key : ∀ (l : List Nat) (N : Nat) (A E L : List Mark)
      (_ : l = paint N ((A ++ (E ++ L)).map (window N sr))) (k : Nat) (hk : k < l.length),
      l[k] = 1 ↔ (∃ m ∈ A ++ E, onAt (window N sr m) k) ∨ (∃ m ∈ L, onAt (window N sr m) k) := by
    intro l N A E L hl k hk
    subst hl
    exact paint_split_iff N sr A E L k hk
  refine ⟨sr, hsr, by rw [hlens]; simp [hnp, hnq], ?_, ?_, ?_, ?_⟩
  · rw [hlens, List.take_left' hnp, List.drop_left' hnp, hN, sumN_append]
  · rw [hlens, earlierMarks_eq _ _ _ _ _ hnp, laterMarks_eq _ _ _ _ _ _ hnp, hN]
    exact key _ _ _ _ _ hm1
  · rw [hlens, earlierMarks_eq _ _ _ _ _ hnp, laterMarks_eq _ _ _ _ _ _ hnp, hN]
    exact key _ _ _ _ _ hm2
  · intro hp
    rw [hlens, List.drop_left' hnp]
    exact hpost hp

/-- **Common suffix.**  Two blueprints at the same sample rate whose segment lists end (up to
    names) in the same waituntil-free `post` - e.g. before and after inserting, removing or
    re-timing segments in front of `post` - and that both forge: the segments of `post` get the same
    sample counts in both, and if the part in front of `post` is `n` samples longer in the second,
    the second waveform is `n` samples longer and the segment-bound markers of `post`
    (`laterMarks`, see `markers_split_at`) are exactly those of the first moved by `n` samples. -/
theorem common_suffix_shift (b1 b2 : BP) (pre1 pre2 post : List Seg)
    (h1 : b1.segs.map BP.Seg.body = (pre1 ++ post).map BP.Seg.body)
    (h2 : b2.segs.map BP.Seg.body = (pre2 ++ post).map BP.Seg.body)
    (hpost : ∀ s ∈ post, s.fn.isWait = false) (sr : Rat) (hs1 : b1.SR = .num sr) (hs2 : b2.SR = .num sr)
    (f1 f2 : Forged) (hf1 : forgeBP b1 = .ok f1) (hf2 : forgeBP b2 = .ok f2) :
    (f2.blocks.map Blk.len).drop pre2.length = (f1.blocks.map Blk.len).drop pre1.length ∧
    ∀ n : Nat, sumN ((f2.blocks.map Blk.len).take pre2.length) =
        sumN ((f1.blocks.map Blk.len).take pre1.length) + n →
      f2.N = f1.N + n ∧
      laterMarks sr (·.m1) pre2 post (f2.blocks.map Blk.len) =
        (laterMarks sr (·.m1) pre1 post (f1.blocks.map Blk.len)).map (shiftMark sr n) ∧
      laterMarks sr (·.m2) pre2 post (f2.blocks.map Blk.len) =
        (laterMarks sr (·.m2) pre1 post (f1.blocks.map Blk.len)).map (shiftMark sr n) := by
  obtain ⟨sr1, e1, _, hN1, _, _, hd1⟩ := markers_split_at b1 pre1 post h1 f1 hf1
  obtain ⟨sr2, e2, _, hN2, _, _, hd2⟩ := markers_split_at b2 pre2 post h2 f2 hf2
  have : sr1 = sr := by rw [hs1] at e1; cases e1; rfl
  subst this
  have : sr2 = sr1 := by rw [hs2] at e2; cases e2; rfl
  subst this
  have hdrop : (f2.blocks.map Blk.len).drop pre2.length = (f1.blocks.map Blk.len).drop pre1.length := by
    rw [hd1 hpost, hd2 hpost]
  refine ⟨hdrop, ?_⟩
  intro n hn
  refine ⟨by rw [hN1, hN2, hn, hdrop]; omega, laterMarks_shift _ _ _ _ _ _ _ n hdrop hn,
    laterMarks_shift _ _ _ _ _ _ _ n hdrop hn⟩

/-- **Remove shift.**  Removing the segment `x` at position `|pre|` of `pre ++ x :: post` (`post`
    without waituntil; `x` itself may be anything), when the blueprint forges before and after:
    the waveform loses exactly the `n ≥ 2` samples of `x`, all other block lengths stay, and the
    segment-bound markers of the later segments before the removal are those after the removal
    moved by `n` samples - they come `n` samples earlier afterwards, together with their segments. -/
theorem remove_shifts_later_markers (b : BP) (pre post : List Seg) (x : Seg) (name : String)
    (hb : b.segs = pre ++ x :: post) (hi : b.indexOf? name = some pre.length)
    (hpost : ∀ s ∈ post, s.fn.isWait = false) (sr : Rat) (hsr : b.SR = .num sr)
    (f f' : Forged) (hf : forgeBP b = .ok f) (hf' : forgeBP (b.removeSegment name).st = .ok f') :
    (b.removeSegment name).err = none ∧
    ∃ n : Nat, 2 ≤ n ∧ f.N = f'.N + n ∧
      f.blocks.map Blk.len = (f'.blocks.map Blk.len).take pre.length ++ n :: (f'.blocks.map Blk.len).drop pre.length ∧
      laterMarks sr (·.m1) (pre ++ [x]) post (f.blocks.map Blk.len) =
        (laterMarks sr (·.m1) pre post (f'.blocks.map Blk.len)).map (shiftMark sr n) ∧
      laterMarks sr (·.m2) (pre ++ [x]) post (f.blocks.map Blk.len) =
        (laterMarks sr (·.m2) pre post (f'.blocks.map Blk.len)).map (shiftMark sr n) := by
  obtain ⟨hacc, hbody, _, _, hSR⟩ := removeSegment_split b pre post x name hb hi
  refine ⟨hacc, ?_⟩
  have hb1 : b.segs.map BP.Seg.body = ((pre ++ [x]) ++ post).map BP.Seg.body := by rw [hb]; simp
  -- counts of `b` split after `x`, counts of the result split at the same place
  obtain ⟨sr1, np1, nq1, e1, hnp1, hnq1, hl1, _, _, _, _, ⟨dp1, hr1, hd1⟩, hge⟩ :=
    forge_split b (pre ++ [x]) post hb1 f hf
  obtain ⟨sr2, np2, nq2, e2, hnp2, hnq2, hl2, _, _, _, _, ⟨dp2, hr2, hd2⟩, _⟩ :=
    forge_split _ pre post hbody f' hf'
  have hs1 : sr = sr1 := by rw [hsr] at e1; cases e1; rfl
  subst hs1
  have hs2 : sr = sr2 := by rw [hSR, hsr] at e2; cases e2; rfl
  subst hs2
  obtain ⟨da, dc, hra, hrc, rfl, hla⟩ := resolveGo_append_inv pre [x] 0 dp1 hr1
  have : da = dp2 := by rw [hr2] at hra; cases hra; rfl
  subst this
  have hlc : dc.length = 1 := by simpa using resolveGo_length _ _ _ hrc
  obtain ⟨dx, rfl⟩ : ∃ dx, dc = [dx] := by
    cases dc with
    | nil => simp at hlc
    | cons y ys => cases ys with
      | nil => exact ⟨y, rfl⟩
      | cons z zs => simp at hlc
  have hcs := common_suffix_shift (b.removeSegment name).st b pre (pre ++ [x]) post hbody hb1 hpost sr
    (by rw [hSR, hsr]) hsr f' f hf' hf
  have hnp1' : np1 = np2 ++ [(rhe (dx * sr)).toNat] := by rw [hd1, hd2]; simp
  have hsum : sumN ((f.blocks.map Blk.len).take (pre ++ [x]).length) =
      sumN ((f'.blocks.map Blk.len).take pre.length) + (rhe (dx * sr)).toNat := by
    rw [hl1, hl2, List.take_left' hnp1, List.take_left' hnp2, hnp1', sumN_append]
    simp [sumN]
  obtain ⟨hN, hL1, hL2⟩ := hcs.2 _ hsum
  refine ⟨(rhe (dx * sr)).toNat, ?_, hN, ?_, hL1, hL2⟩
  · apply hge
    rw [hnp1']; simp
  · rw [hl1, hl2, List.take_left' hnp2, List.drop_left' hnp2, hnp1']
    have : nq1 = nq2 := by
      have h := hcs.1
      rw [hl1, hl2, List.drop_left' hnp1, List.drop_left' hnp2] at h
      exact h
    rw [this]; simp

/-- **changeDuration shift.**  A `changeDuration` call (any name, `replaceeverywhere` or not) that
    does not address a segment of the waituntil-free suffix `post`, when the blueprint forges before
    and after: the segments of `post` keep their sample counts, and their segment-bound markers
    move by exactly the change `n` of the total sample count in front of them (stated for growth
    and for shrinkage). -/
theorem changeDuration_shifts_later_markers (b : BP) (name : String) (dur : Val) (all : Bool)
    (pre post : List Seg) (hb : b.segs = pre ++ post)
    (hnt : ∀ s ∈ post, (b.targets name all).2.contains s.name = false)
    (hpost : ∀ s ∈ post, s.fn.isWait = false) (sr : Rat) (hsr : b.SR = .num sr)
    (f f' : Forged) (hf : forgeBP b = .ok f) (hf' : forgeBP (b.changeDuration name dur all).st = .ok f') :
    (f'.blocks.map Blk.len).drop pre.length = (f.blocks.map Blk.len).drop pre.length ∧
    (∀ n : Nat, sumN ((f'.blocks.map Blk.len).take pre.length) = sumN ((f.blocks.map Blk.len).take pre.length) + n →
      f'.N = f.N + n ∧
      laterMarks sr (·.m1) pre post (f'.blocks.map Blk.len) =
        (laterMarks sr (·.m1) pre post (f.blocks.map Blk.len)).map (shiftMark sr n) ∧
      laterMarks sr (·.m2) pre post (f'.blocks.map Blk.len) =
        (laterMarks sr (·.m2) pre post (f.blocks.map Blk.len)).map (shiftMark sr n)) ∧
    (∀ n : Nat, sumN ((f.blocks.map Blk.len).take pre.length) = sumN ((f'.blocks.map Blk.len).take pre.length) + n →
      f.N = f'.N + n ∧
      laterMarks sr (·.m1) pre post (f.blocks.map Blk.len) =
        (laterMarks sr (·.m1) pre post (f'.blocks.map Blk.len)).map (shiftMark sr n) ∧
      laterMarks sr (·.m2) pre post (f.blocks.map Blk.len) =
        (laterMarks sr (·.m2) pre post (f'.blocks.map Blk.len)).map (shiftMark sr n)) := by
  obtain ⟨pre', hl, hsegs, _, _, hSR⟩ := changeDuration_suffix b name dur all pre post hb hnt
  have h1 : b.segs.map BP.Seg.body = (pre ++ post).map BP.Seg.body := by rw [hb]
  have h2 : (b.changeDuration name dur all).st.segs.map BP.Seg.body = (pre' ++ post).map BP.Seg.body := by
    rw [hsegs]
  have hs2 : (b.changeDuration name dur all).st.SR = .num sr := by rw [hSR, hsr]
  have A := common_suffix_shift b _ pre pre' post h1 h2 hpost sr hsr hs2 f f' hf hf'
  have B := common_suffix_shift _ b pre' pre post h2 h1 hpost sr hs2 hsr f' f hf' hf
  -- `laterMarks` looks at `pre` only through its length
  have hL : ∀ sel lens, laterMarks sr sel pre' post lens = laterMarks sr sel pre post lens := by
    intro sel lens; unfold laterMarks; rw [hl]
  rw [hl] at A B
  simp only [hL] at A B
  exact ⟨A.1, A.2, B.2⟩

/-- non-vacuity: remove `ramp` in front of `ramp2`; lengthen `ramp` in front of `ramp2`.
    (After the removal the marker of `ramp2`, delay -0.2 s, has its ON time before the waveform: the
    *mark* is still the old one moved by 10 samples, but its window is clipped to start at 0 - the
    case `shifted_window` excludes.) -/
example : exampleBP.segs = [] ++ exampleBP.segs[0] :: [exampleBP.segs[1]] ∧
    exampleBP.indexOf? "ramp" = some 0 ∧
    (forgeBP exampleBP).toOption.map (fun f => (f.N, f.m2)) =
      some (20, [0,0,0,0,0,0,0,0,1,1,1,1,1,0,0,0,0,0,0,0]) ∧
    (forgeBP (exampleBP.removeSegment "ramp").st).toOption.map (fun f => (f.N, f.m2)) =
      some (10, [1,1,1,1,1,0,0,0,0,0]) ∧
    (forgeBP (exampleBP.changeDuration "ramp" (.num (3/2)) false).st).toOption.map (fun f => (f.N, f.m2)) =
      some (25, [0,0,0,0,0,0,0,0,0,0,0,0,0,1,1,1,1,1,0,0,0,0,0,0,0]) ∧
    (exampleBP.targets "ramp" false).2.contains "ramp2" = false := by
  decide +kernel

/-! ## G11: edits in front of a waituntil - the wait absorbs the shift

  The shift theorems above require the segments behind the edit to contain no waituntil.  Here the
  complementary case: behind the edit point come a waituntil-free `mid`, then `w = waituntil(t)`,
  then `rest`.  An edit in front moves the segments of `mid` - and the start of `w` itself - by the
  inserted / removed sample count, and leaves every segment of `rest` (start sample, length,
  marker windows) exactly where it was. -/

/-- `laterMarks` looks at the front only through its length -/
theorem laterMarks_congr_len (sr : ℚ) (sel : Seg → Mark) (preA preB post : List Seg) (lens : List ℕ)
    (h : preA.length = preB.length) : laterMarks sr sel preA post lens = laterMarks sr sel preB post lens := by
  unfold laterMarks; rw [h]

/-- which markers a group `post` behind `pre` consists of when further segments follow it (the
    count list is longer than `pre ++ post`): the segment-bound markers (non-zero length) of the
    segments of `post`, each at its own segment's start sample - the sum of the counts of all
    segments before it - plus its delay -/
theorem later_marks_prefix_are_the_segments (sr : ℚ) (sel : Seg → Mark) (pre post : List Seg) (lens : List ℕ)
    (hl : pre.length + post.length ≤ lens.length) (m : Mark) :
    m ∈ laterMarks sr sel pre post lens ↔
      ∃ (j : ℕ) (_ : j < post.length), (sel post[j]).2 ≠ 0 ∧
        m = ((((sumN (lens.take (pre.length + j)) : ℕ) : ℤ) : ℚ) / sr + (sel post[j]).1, (sel post[j]).2) :=
  laterMarks_mem_prefix sr sel pre post lens hl m

/-- **A forged blueprint split around a waituntil behind the split point.**  The segment list is
    (up to names) `pre ++ (mid ++ w :: rest)`, `mid` waituntil-free, `w = waituntil(t)`.  Both marker
    arrays are ON exactly on the windows of the absolute markers, the segment-bound markers of `pre`,
    those of `mid ++ [w]` and those of `rest`; the sample counts of `mid` are the rounded *stored*
    durations and those of `rest` the rounded durations of `rest` resolved from time `t` on - neither
    depends on `pre`. -/
theorem markers_split_wait (b : BP) (pre mid : List Seg) (w : Seg) (rest : List Seg) (t : ℚ) (tl : List Val)
    (hb : b.segs.map BP.Seg.body = (pre ++ (mid ++ w :: rest)).map BP.Seg.body)
    (hmid : ∀ s ∈ mid, s.fn.isWait = false) (hw : w.fn.isWait = true) (ha : w.args = .num t :: tl)
    (f : Forged) (hf : forgeBP b = .ok f) :
    ∃ sr, b.SR = .num sr ∧
      (f.blocks.map Blk.len).length = pre.length + (mid.length + 1) + rest.length ∧
      (∀ k (hk : k < f.m1.length), f.m1[k] = 1 ↔
        (∃ m ∈ b.marker1 ++ earlierMarks sr (·.m1) pre (f.blocks.map Blk.len), onAt (window f.N sr m) k) ∨
        (∃ m ∈ laterMarks sr (·.m1) pre (mid ++ [w]) (f.blocks.map Blk.len), onAt (window f.N sr m) k) ∨
        (∃ m ∈ laterMarks sr (·.m1) (pre ++ (mid ++ [w])) rest (f.blocks.map Blk.len), onAt (window f.N sr m) k)) ∧
      (∀ k (hk : k < f.m2.length), f.m2[k] = 1 ↔
        (∃ m ∈ b.marker2 ++ earlierMarks sr (·.m2) pre (f.blocks.map Blk.len), onAt (window f.N sr m) k) ∨
        (∃ m ∈ laterMarks sr (·.m2) pre (mid ++ [w]) (f.blocks.map Blk.len), onAt (window f.N sr m) k) ∨
        (∃ m ∈ laterMarks sr (·.m2) (pre ++ (mid ++ [w])) rest (f.blocks.map Blk.len), onAt (window f.N sr m) k)) ∧
      ((f.blocks.map Blk.len).drop pre.length).take mid.length =
        (mid.filterMap durOf?).map (fun x => (rhe (x * sr)).toNat) ∧
      ∃ drest, BP.resolveGo rest t = .ok drest ∧
        (f.blocks.map Blk.len).drop (pre.length + (mid.length + 1)) = drest.map (fun x => (rhe (x * sr)).toNat) := by
  obtain ⟨sr, dp, drest, np, nw, nr, hsr, _, hr, _, hnr, hlp, hlr, hlm, _, _, _, hL, _, hm1, hm2⟩ :=
    forge_split_wait b pre mid w rest t tl hb hmid hw ha f hf
  have hlmw : ((mid.filterMap durOf?).map (fun x => (rhe (x * sr)).toNat) ++ [nw]).length = (mid ++ [w]).length := by
    simp only [List.length_append, hlm, List.length_singleton]
  have key : ∀ (l : List ℕ) (N : ℕ) (A E Mi R : List Mark)
      (_ : l = paint N ((A ++ (E ++ (Mi ++ R))).map (window N sr))) (k : ℕ) (hk : k < l.length),
      l[k] = 1 ↔ (∃ m ∈ A ++ E, onAt (window N sr m) k) ∨ (∃ m ∈ Mi, onAt (window N sr m) k) ∨
        (∃ m ∈ R, onAt (window N sr m) k) := by
    intro l N A E Mi R hl k hk
    subst hl
    rw [paint_on_iff_marks]
    constructor
    · rintro ⟨m, hm, ho⟩
      simp only [List.mem_append] at hm
      rcases hm with hm | hm | hm | hm
      · exact Or.inl ⟨m, by simp [hm], ho⟩
      · exact Or.inl ⟨m, by simp [hm], ho⟩
      · exact Or.inr (Or.inl ⟨m, hm, ho⟩)
      · exact Or.inr (Or.inr ⟨m, hm, ho⟩)
    · rintro (⟨m, hm, ho⟩ | ⟨m, hm, ho⟩ | ⟨m, hm, ho⟩)
      · simp only [List.mem_append] at hm
        exact ⟨m, by simp only [List.mem_append]; tauto, ho⟩
      · exact ⟨m, by simp only [List.mem_append]; tauto, ho⟩
      · exact ⟨m, by simp only [List.mem_append]; tauto, ho⟩
  refine ⟨sr, hsr, ?_, ?_, ?_, ?_, drest, hr, ?_⟩
  · rw [hL]
    simp only [List.length_append, hlp, hlm, hlr, List.length_singleton]
    omega
  · rw [hL, earlierMarks_eq _ _ _ _ _ hlp, laterMarks_mid _ _ _ _ _ _ _ hlp hlmw,
      laterMarks_rest _ _ _ _ _ _ _ _ hlp hlmw]
    exact key _ _ _ _ _ _ hm1
  · rw [hL, earlierMarks_eq _ _ _ _ _ hlp, laterMarks_mid _ _ _ _ _ _ _ hlp hlmw,
      laterMarks_rest _ _ _ _ _ _ _ _ hlp hlmw]
    exact key _ _ _ _ _ _ hm2
  · rw [hL, List.drop_left' hlp, List.append_assoc, List.take_left' hlm]
  · rw [hL, ← List.append_assoc, List.drop_left' (by simp only [List.length_append, hlp, hlmw, List.length_singleton]),
      hnr]

/-- **Common suffix behind a waituntil.**  Two blueprints at the same sample rate whose segment
    lists end (up to names) in the same `mid ++ w :: rest` - `mid` waituntil-free, `w = waituntil(t)`
    - behind fronts `pre₁`, `pre₂` (e.g. before and after inserting, removing or re-timing segments
    in front), both forging.  Then
    * the segments of `mid` get the same sample counts in both, and so do the segments of `rest`;
    * if the front is `n` samples longer in the second, the segment-bound markers of `mid ++ [w]`
      are exactly those of the first moved by `n` samples (the waituntil's own marker moves too:
      its *start* moves, only its end is pinned);
    * if the segment after the wait starts at the same sample in both (as it does for sample-aligned
      fronts, `common_suffix_wait_aligned`), the waveforms have the same total length and the
      segment-bound markers of `rest` are literally the same. -/
theorem common_suffix_wait_shift (b1 b2 : BP) (pre1 pre2 mid : List Seg) (w : Seg) (rest : List Seg) (t : ℚ)
    (tl : List Val)
    (h1 : b1.segs.map BP.Seg.body = (pre1 ++ (mid ++ w :: rest)).map BP.Seg.body)
    (h2 : b2.segs.map BP.Seg.body = (pre2 ++ (mid ++ w :: rest)).map BP.Seg.body)
    (hmid : ∀ s ∈ mid, s.fn.isWait = false) (hw : w.fn.isWait = true) (ha : w.args = .num t :: tl)
    (sr : ℚ) (hs1 : b1.SR = .num sr) (hs2 : b2.SR = .num sr)
    (f1 f2 : Forged) (hf1 : forgeBP b1 = .ok f1) (hf2 : forgeBP b2 = .ok f2) :
    ((f2.blocks.map Blk.len).drop pre2.length).take mid.length =
      ((f1.blocks.map Blk.len).drop pre1.length).take mid.length ∧
    (f2.blocks.map Blk.len).drop (pre2.length + (mid.length + 1)) =
      (f1.blocks.map Blk.len).drop (pre1.length + (mid.length + 1)) ∧
    (∀ n : ℕ, sumN ((f2.blocks.map Blk.len).take pre2.length) =
        sumN ((f1.blocks.map Blk.len).take pre1.length) + n →
      laterMarks sr (·.m1) pre2 (mid ++ [w]) (f2.blocks.map Blk.len) =
        (laterMarks sr (·.m1) pre1 (mid ++ [w]) (f1.blocks.map Blk.len)).map (shiftMark sr n) ∧
      laterMarks sr (·.m2) pre2 (mid ++ [w]) (f2.blocks.map Blk.len) =
        (laterMarks sr (·.m2) pre1 (mid ++ [w]) (f1.blocks.map Blk.len)).map (shiftMark sr n)) ∧
    (sumN ((f2.blocks.map Blk.len).take (pre2.length + (mid.length + 1))) =
        sumN ((f1.blocks.map Blk.len).take (pre1.length + (mid.length + 1))) →
      f2.N = f1.N ∧
      laterMarks sr (·.m1) (pre2 ++ (mid ++ [w])) rest (f2.blocks.map Blk.len) =
        laterMarks sr (·.m1) (pre1 ++ (mid ++ [w])) rest (f1.blocks.map Blk.len) ∧
      laterMarks sr (·.m2) (pre2 ++ (mid ++ [w])) rest (f2.blocks.map Blk.len) =
        laterMarks sr (·.m2) (pre1 ++ (mid ++ [w])) rest (f1.blocks.map Blk.len)) := by
  obtain ⟨sr1, dp1, dr1, np1, nw1, nr1, e1, _, hr1, _, hnr1, hlp1, _, hlm1, _, _, _, hL1, hN1, _, _⟩ :=
    forge_split_wait b1 pre1 mid w rest t tl h1 hmid hw ha f1 hf1
  obtain ⟨sr2, dp2, dr2, np2, nw2, nr2, e2, _, hr2, _, hnr2, hlp2, _, hlm2, _, _, _, hL2, hN2, _, _⟩ :=
    forge_split_wait b2 pre2 mid w rest t tl h2 hmid hw ha f2 hf2
  have : sr1 = sr := by rw [hs1] at e1; cases e1; rfl
  subst this
  have : sr2 = sr1 := by rw [hs2] at e2; cases e2; rfl
  subst this
  have : dr2 = dr1 := by rw [hr1] at hr2; cases hr2; rfl
  subst this
  have : nr2 = nr1 := by rw [hnr1, hnr2]
  subst this
  set nm := (mid.filterMap durOf?).map (fun x => (rhe (x * sr2)).toNat) with hnm
  have hmw1 : (nm ++ [nw1]).length = (mid ++ [w]).length := by
    simp only [List.length_append, hlm1, List.length_singleton]
  have hmw2 : (nm ++ [nw2]).length = (mid ++ [w]).length := by
    simp only [List.length_append, hlm2, List.length_singleton]
  have hfront1 : (np1 ++ (nm ++ [nw1])).length = pre1.length + (mid.length + 1) := by
    simp only [List.length_append, hlp1, hlm1, List.length_singleton]
  have hfront2 : (np2 ++ (nm ++ [nw2])).length = pre2.length + (mid.length + 1) := by
    simp only [List.length_append, hlp2, hlm2, List.length_singleton]
  refine ⟨?_, ?_, ?_, ?_⟩
  · rw [hL1, hL2, List.drop_left' hlp1, List.drop_left' hlp2, List.append_assoc, List.append_assoc,
      List.take_left' hlm1, List.take_left' hlm2]
  · rw [hL1, hL2, ← List.append_assoc, ← List.append_assoc np1, List.drop_left' hfront1, List.drop_left' hfront2]
  · intro n hn
    rw [hL1, hL2, List.take_left' hlp1, List.take_left' hlp2] at hn
    rw [hL1, hL2, laterMarks_mid _ _ _ _ _ _ _ hlp1 hmw1, laterMarks_mid _ _ _ _ _ _ _ hlp2 hmw2,
      laterMarks_mid _ _ _ _ _ _ _ hlp1 hmw1, laterMarks_mid _ _ _ _ _ _ _ hlp2 hmw2,
      starts_snoc_indep nm nw2 nw1, hn, segMarks_shift, segMarks_shift]
    exact ⟨rfl, rfl⟩
  · intro hn
    have hn' : sumN np2 + sumN (nm ++ [nw2]) = sumN np1 + sumN (nm ++ [nw1]) := by
      rw [hL1, hL2, ← List.append_assoc, ← List.append_assoc np1, List.take_left' hfront1, List.take_left' hfront2,
        sumN_append np2 (nm ++ [nw2]), sumN_append np1 (nm ++ [nw1])] at hn
      exact hn
    refine ⟨?_, ?_, ?_⟩
    · rw [hN1, hN2, sumN_append np2, sumN_append (nm ++ [nw2]) nr2, sumN_append np1, sumN_append (nm ++ [nw1]) nr2]
      omega
    · rw [hL1, hL2, laterMarks_rest _ _ _ _ _ _ _ _ hlp1 hmw1, laterMarks_rest _ _ _ _ _ _ _ _ hlp2 hmw2, hn']
    · rw [hL1, hL2, laterMarks_rest _ _ _ _ _ _ _ _ hlp1 hmw1, laterMarks_rest _ _ _ _ _ _ _ _ hlp2 hmw2, hn']

/-- **... with sample-aligned fronts the waituntil absorbs the whole shift.**  In the situation
    of `common_suffix_wait_shift`, if in both blueprints the resolved durations in front of the
    waituntil are whole numbers of samples and `t·SR` is within 0.4 of the integer `T`: the segment
    after the wait starts at sample `T = round(t·SR)` in both, both waveforms have the same total
    length, the segments of `rest` have the same lengths and *literally the same* segment-bound
    markers - "waveform edits never change marker windows other than by moving segment starts", and
    behind the wait no segment start moves. -/
theorem common_suffix_wait_aligned (b1 b2 : BP) (pre1 pre2 mid : List Seg) (w : Seg) (rest : List Seg) (t : ℚ)
    (tl : List Val)
    (h1 : b1.segs.map BP.Seg.body = (pre1 ++ (mid ++ w :: rest)).map BP.Seg.body)
    (h2 : b2.segs.map BP.Seg.body = (pre2 ++ (mid ++ w :: rest)).map BP.Seg.body)
    (hmid : ∀ s ∈ mid, s.fn.isWait = false) (hw : w.fn.isWait = true) (ha : w.args = .num t :: tl)
    (sr : ℚ) (hs1 : b1.SR = .num sr) (hs2 : b2.SR = .num sr)
    (f1 f2 : Forged) (hf1 : forgeBP b1 = .ok f1) (hf2 : forgeBP b2 = .ok f2)
    (ds1 ds2 : List ℚ) (hd1 : b1.resolveWaits = .ok ds1) (hd2 : b2.resolveWaits = .ok ds2)
    (hal1 : ∀ d ∈ ds1.take (pre1.length + mid.length), ∃ k : ℕ, d * sr = k)
    (hal2 : ∀ d ∈ ds2.take (pre2.length + mid.length), ∃ k : ℕ, d * sr = k)
    (T : ℤ) (ht : |t * sr - T| ≤ 2/5) :
    ((sumN ((f1.blocks.map Blk.len).take (pre1.length + (mid.length + 1))) : ℕ) : ℤ) = T ∧
    ((sumN ((f2.blocks.map Blk.len).take (pre2.length + (mid.length + 1))) : ℕ) : ℤ) = T ∧
    f2.N = f1.N ∧
    (f2.blocks.map Blk.len).drop (pre2.length + (mid.length + 1)) =
      (f1.blocks.map Blk.len).drop (pre1.length + (mid.length + 1)) ∧
    laterMarks sr (·.m1) (pre2 ++ (mid ++ [w])) rest (f2.blocks.map Blk.len) =
      laterMarks sr (·.m1) (pre1 ++ (mid ++ [w])) rest (f1.blocks.map Blk.len) ∧
    laterMarks sr (·.m2) (pre2 ++ (mid ++ [w])) rest (f2.blocks.map Blk.len) =
      laterMarks sr (·.m2) (pre1 ++ (mid ++ [w])) rest (f1.blocks.map Blk.len) := by
  have h1' : b1.segs.map BP.Seg.body = ((pre1 ++ mid) ++ w :: rest).map BP.Seg.body := by
    rw [h1, List.append_assoc]
  have h2' : b2.segs.map BP.Seg.body = ((pre2 ++ mid) ++ w :: rest).map BP.Seg.body := by
    rw [h2, List.append_assoc]
  obtain ⟨_, hT1, hT2, _⟩ := C04.wait_absorbs b1 b2 (pre1 ++ mid) (pre2 ++ mid) w w rest t tl tl h1' h2' hw hw ha ha
    sr hs1 hs2 f1 f2 hf1 hf2 ds1 ds2 hd1 hd2 (by simpa using hal1) (by simpa using hal2) T ht
  simp only [List.length_append, Nat.add_assoc] at hT1 hT2
  obtain ⟨_, hrest, _, hcond⟩ := common_suffix_wait_shift b1 b2 pre1 pre2 mid w rest t tl h1 h2 hmid hw ha sr hs1 hs2
    f1 f2 hf1 hf2
  have heq : sumN ((f2.blocks.map Blk.len).take (pre2.length + (mid.length + 1))) =
      sumN ((f1.blocks.map Blk.len).take (pre1.length + (mid.length + 1))) := by
    have := hT2.trans hT1.symm
    exact_mod_cast this
  obtain ⟨hN, hm1, hm2⟩ := hcond heq
  exact ⟨hT1, hT2, hN, hrest, hm1, hm2⟩

/-- one more segment `x` in front: the counts of the longer front are those of the shorter one
    followed by the count (at least two samples) of `x` -/
theorem front_plus_one (b1 b2 : BP) (pre post : List Seg) (x : Seg)
    (h1 : b1.segs.map BP.Seg.body = (pre ++ post).map BP.Seg.body)
    (h2 : b2.segs.map BP.Seg.body = ((pre ++ [x]) ++ post).map BP.Seg.body)
    (sr : ℚ) (hs1 : b1.SR = .num sr) (hs2 : b2.SR = .num sr)
    (f1 f2 : Forged) (hf1 : forgeBP b1 = .ok f1) (hf2 : forgeBP b2 = .ok f2) :
    ∃ dp dx, BP.resolveGo pre 0 = .ok dp ∧ BP.resolveGo [x] (0 + sumR dp) = .ok [dx] ∧ 2 ≤ rhe (dx * sr) ∧
      (f2.blocks.map Blk.len).take (pre.length + 1) =
        (f1.blocks.map Blk.len).take pre.length ++ [(rhe (dx * sr)).toNat] := by
  obtain ⟨sr1, np1, nq1, e1, hnp1, _, hl1, _, _, _, _, ⟨dp1, hr1, hd1⟩, _⟩ := forge_split b1 pre post h1 f1 hf1
  obtain ⟨sr2, np2, nq2, e2, hnp2, _, hl2, _, _, _, _, ⟨dp2, hr2, hd2⟩, hge⟩ :=
    forge_split b2 (pre ++ [x]) post h2 f2 hf2
  have : sr1 = sr := by rw [hs1] at e1; cases e1; rfl
  subst this
  have : sr2 = sr1 := by rw [hs2] at e2; cases e2; rfl
  subst this
  obtain ⟨da, dc, hra, hrc, rfl, _⟩ := resolveGo_append_inv pre [x] 0 dp2 hr2
  have : da = dp1 := by rw [hr1] at hra; cases hra; rfl
  subst this
  have hlc : dc.length = 1 := by simpa using resolveGo_length _ _ _ hrc
  obtain ⟨dx, rfl⟩ : ∃ dx, dc = [dx] := by
    cases dc with
    | nil => simp at hlc
    | cons y ys => cases ys with
      | nil => exact ⟨y, rfl⟩
      | cons z zs => simp at hlc
  refine ⟨da, dx, hr1, hrc, ?_, ?_⟩
  · have := hge (rhe (dx * sr2)).toNat (by rw [hd2]; simp)
    omega
  · have hnp2' : np2.length = pre.length + 1 := by simpa using hnp2
    rw [hl1, hl2, List.take_left' hnp1, List.take_left' hnp2', hd1, hd2]
    simp

/-- **Insert in front of a waituntil.**  `b = pre ++ (mid ++ w :: rest)`, `mid` waituntil-free,
    `w = waituntil(t)`; an ordinary callable with numeric duration `d` is inserted at position `|pre|`,
    the call is accepted, and the blueprint forges before (`f`) and after (`f'`) - i.e. the insertion
    still fits before `t`.  With `n = round(d·SR)`:
    the new block has `n` samples, the blocks of `pre`, `mid` and `rest` keep their lengths, and the
    segment-bound markers of `mid ++ [w]` after the insertion are those before it *moved by `n`
    samples* (they stay attached to their segments).  If moreover the fronts are sample-aligned
    before and after and `t·SR` is within 0.4 of the integer `T`, the waveform keeps its total length,
    the segment after the wait starts at sample `T` before and after, and the segment-bound markers
    of `rest` are *literally unchanged*: the waituntil absorbs the shift.
    (`x` stands for the record of the inserted segment: the marker groups depend on the front only
    through its length.) -/
theorem insert_before_wait (b : BP) (pre mid : List Seg) (w : Seg) (rest : List Seg) (t : ℚ) (tl : List Val)
    (fn : Fn) (args : List Val) (d : ℚ) (name : Val)
    (hb : b.segs = pre ++ (mid ++ w :: rest)) (hmid : ∀ s ∈ mid, s.fn.isWait = false)
    (hw : w.fn.isWait = true) (ha : w.args = .num t :: tl) (hfn : fn.special = false)
    (hacc : (b.insertSegment (pre.length : ℤ) fn args (.num d) name).err = none)
    (f f' : Forged) (hf : forgeBP b = .ok f)
    (hf' : forgeBP (b.insertSegment (pre.length : ℤ) fn args (.num d) name).st = .ok f')
    (sr : ℚ) (hsr : b.SR = .num sr) (x : Seg) :
    2 ≤ rhe (d * sr) ∧
    (f'.blocks.map Blk.len).take (pre.length + 1) = (f.blocks.map Blk.len).take pre.length ++ [(rhe (d * sr)).toNat] ∧
    ((f'.blocks.map Blk.len).drop (pre.length + 1)).take mid.length =
      ((f.blocks.map Blk.len).drop pre.length).take mid.length ∧
    (f'.blocks.map Blk.len).drop (pre.length + 1 + (mid.length + 1)) =
      (f.blocks.map Blk.len).drop (pre.length + (mid.length + 1)) ∧
    laterMarks sr (·.m1) (pre ++ [x]) (mid ++ [w]) (f'.blocks.map Blk.len) =
      (laterMarks sr (·.m1) pre (mid ++ [w]) (f.blocks.map Blk.len)).map (shiftMark sr (rhe (d * sr)).toNat) ∧
    laterMarks sr (·.m2) (pre ++ [x]) (mid ++ [w]) (f'.blocks.map Blk.len) =
      (laterMarks sr (·.m2) pre (mid ++ [w]) (f.blocks.map Blk.len)).map (shiftMark sr (rhe (d * sr)).toNat) ∧
    ∀ (ds ds' : List ℚ), b.resolveWaits = .ok ds →
      (b.insertSegment (pre.length : ℤ) fn args (.num d) name).st.resolveWaits = .ok ds' →
      (∀ y ∈ ds.take (pre.length + mid.length), ∃ k : ℕ, y * sr = k) →
      (∀ y ∈ ds'.take (pre.length + 1 + mid.length), ∃ k : ℕ, y * sr = k) →
      ∀ T : ℤ, |t * sr - T| ≤ 2/5 →
        ((sumN ((f.blocks.map Blk.len).take (pre.length + (mid.length + 1))) : ℕ) : ℤ) = T ∧
        ((sumN ((f'.blocks.map Blk.len).take (pre.length + 1 + (mid.length + 1))) : ℕ) : ℤ) = T ∧
        f'.N = f.N ∧
        laterMarks sr (·.m1) ((pre ++ [x]) ++ (mid ++ [w])) rest (f'.blocks.map Blk.len) =
          laterMarks sr (·.m1) (pre ++ (mid ++ [w])) rest (f.blocks.map Blk.len) ∧
        laterMarks sr (·.m2) ((pre ++ [x]) ++ (mid ++ [w])) rest (f'.blocks.map Blk.len) =
          laterMarks sr (·.m2) (pre ++ (mid ++ [w])) rest (f.blocks.map Blk.len) := by
  obtain ⟨nm, hbody, _, _, hSR⟩ := insertSegment_split b pre (mid ++ w :: rest) fn args (.num d) name hb hacc
  have h1 : b.segs.map BP.Seg.body = (pre ++ (mid ++ w :: rest)).map BP.Seg.body := by rw [hb]
  have h2 : (b.insertSegment (pre.length : ℤ) fn args (.num d) name).st.segs.map BP.Seg.body =
      ((pre ++ [newSeg nm fn args (.num d)]) ++ (mid ++ w :: rest)).map BP.Seg.body := by
    rw [hbody]; simp
  have hs2 : (b.insertSegment (pre.length : ℤ) fn args (.num d) name).st.SR = .num sr := by rw [hSR, hsr]
  obtain ⟨dp, dx, _, hrx, hge, htake⟩ := front_plus_one b _ pre (mid ++ w :: rest) (newSeg nm fn args (.num d))
    h1 h2 sr hsr hs2 f f' hf hf'
  have hdx : dx = d := by
    have hwf : fn.isWait = false := by simp [Fn.isWait, hfn]
    simp only [BP.resolveGo, newSeg, hwf, Bool.false_eq_true, if_false, BP.consOk, Except.ok.injEq,
      List.cons.injEq, and_true] at hrx
    exact hrx.symm
  subst hdx
  have hlen : (pre ++ [newSeg nm fn args (.num dx)]).length = pre.length + 1 := by simp
  have hlenx : (pre ++ [x]).length = (pre ++ [newSeg nm fn args (.num dx)]).length := by simp
  obtain ⟨hmidc, hrestc, hshift, _⟩ := common_suffix_wait_shift b _ pre (pre ++ [newSeg nm fn args (.num dx)]) mid w rest
    t tl h1 h2 hmid hw ha sr hsr hs2 f f' hf hf'
  rw [hlen] at hmidc hrestc hshift
  have hsum : sumN ((f'.blocks.map Blk.len).take (pre.length + 1)) =
      sumN ((f.blocks.map Blk.len).take pre.length) + (rhe (dx * sr)).toNat := by
    rw [htake, sumN_append]; simp [sumN]
  obtain ⟨hs1', hs2'⟩ := hshift _ hsum
  refine ⟨hge, htake, hmidc, hrestc, ?_, ?_, ?_⟩
  · rw [laterMarks_congr_len sr _ _ _ _ _ hlenx]; exact hs1'
  · rw [laterMarks_congr_len sr _ _ _ _ _ hlenx]; exact hs2'
  · intro ds ds' hds hds' hal hal' T ht
    obtain ⟨hT1, hT2, hN, _, hm1, hm2⟩ := common_suffix_wait_aligned b _ pre (pre ++ [newSeg nm fn args (.num dx)])
      mid w rest t tl h1 h2 hmid hw ha sr hsr hs2 f f' hf hf' ds ds' hds hds' hal (by rw [hlen]; exact hal') T ht
    rw [hlen] at hT2
    have hlenx2 : ((pre ++ [x]) ++ (mid ++ [w])).length = ((pre ++ [newSeg nm fn args (.num dx)]) ++ (mid ++ [w])).length := by
      simp
    refine ⟨hT1, hT2, hN, ?_, ?_⟩
    · rw [laterMarks_congr_len sr _ _ _ _ _ hlenx2]; exact hm1
    · rw [laterMarks_congr_len sr _ _ _ _ _ hlenx2]; exact hm2

/-- **Remove in front of a waituntil.**  `b = pre ++ x :: (mid ++ w :: rest)`; the segment `x` at
    position `|pre|` is removed (`x` may be anything, even an earlier waituntil), and the blueprint
    forges before (`f`) and after (`f'`).  The waveform in front of the wait loses the `n ≥ 2` samples
    of `x`; the blocks of `pre`, `mid`, `rest` keep their lengths; the segment-bound markers of
    `mid ++ [w]` before the removal are those after it moved by `n` samples (they come `n` samples
    earlier afterwards, with their segments).  With sample-aligned fronts the waveform keeps its total
    length, the segment after the wait starts at sample `T = round(t·SR)` before and after, and the
    segment-bound markers of `rest` are literally unchanged. -/
theorem remove_before_wait (b : BP) (pre mid : List Seg) (x w : Seg) (rest : List Seg) (t : ℚ) (tl : List Val)
    (name : String) (hb : b.segs = pre ++ x :: (mid ++ w :: rest)) (hi : b.indexOf? name = some pre.length)
    (hmid : ∀ s ∈ mid, s.fn.isWait = false) (hw : w.fn.isWait = true) (ha : w.args = .num t :: tl)
    (f f' : Forged) (hf : forgeBP b = .ok f) (hf' : forgeBP (b.removeSegment name).st = .ok f')
    (sr : ℚ) (hsr : b.SR = .num sr) :
    (b.removeSegment name).err = none ∧
    ∃ n : ℕ, 2 ≤ n ∧
      (f.blocks.map Blk.len).take (pre.length + 1) = (f'.blocks.map Blk.len).take pre.length ++ [n] ∧
      ((f.blocks.map Blk.len).drop (pre.length + 1)).take mid.length =
        ((f'.blocks.map Blk.len).drop pre.length).take mid.length ∧
      (f.blocks.map Blk.len).drop (pre.length + 1 + (mid.length + 1)) =
        (f'.blocks.map Blk.len).drop (pre.length + (mid.length + 1)) ∧
      laterMarks sr (·.m1) (pre ++ [x]) (mid ++ [w]) (f.blocks.map Blk.len) =
        (laterMarks sr (·.m1) pre (mid ++ [w]) (f'.blocks.map Blk.len)).map (shiftMark sr n) ∧
      laterMarks sr (·.m2) (pre ++ [x]) (mid ++ [w]) (f.blocks.map Blk.len) =
        (laterMarks sr (·.m2) pre (mid ++ [w]) (f'.blocks.map Blk.len)).map (shiftMark sr n) ∧
      ∀ (ds ds' : List ℚ), b.resolveWaits = .ok ds → (b.removeSegment name).st.resolveWaits = .ok ds' →
        (∀ y ∈ ds.take (pre.length + 1 + mid.length), ∃ k : ℕ, y * sr = k) →
        (∀ y ∈ ds'.take (pre.length + mid.length), ∃ k : ℕ, y * sr = k) →
        ∀ T : ℤ, |t * sr - T| ≤ 2/5 →
          ((sumN ((f.blocks.map Blk.len).take (pre.length + 1 + (mid.length + 1))) : ℕ) : ℤ) = T ∧
          ((sumN ((f'.blocks.map Blk.len).take (pre.length + (mid.length + 1))) : ℕ) : ℤ) = T ∧
          f'.N = f.N ∧
          laterMarks sr (·.m1) (pre ++ (mid ++ [w])) rest (f'.blocks.map Blk.len) =
            laterMarks sr (·.m1) ((pre ++ [x]) ++ (mid ++ [w])) rest (f.blocks.map Blk.len) ∧
          laterMarks sr (·.m2) (pre ++ (mid ++ [w])) rest (f'.blocks.map Blk.len) =
            laterMarks sr (·.m2) ((pre ++ [x]) ++ (mid ++ [w])) rest (f.blocks.map Blk.len) := by
  obtain ⟨hacc, hbody, _, _, hSR⟩ := removeSegment_split b pre (mid ++ w :: rest) x name hb hi
  refine ⟨hacc, ?_⟩
  have h2 : b.segs.map BP.Seg.body = ((pre ++ [x]) ++ (mid ++ w :: rest)).map BP.Seg.body := by rw [hb]; simp
  have hs1 : (b.removeSegment name).st.SR = .num sr := by rw [hSR, hsr]
  obtain ⟨dp, dx, _, _, hge, htake⟩ := front_plus_one _ b pre (mid ++ w :: rest) x hbody h2 sr hs1 hsr f' f hf' hf
  have hlen : (pre ++ [x]).length = pre.length + 1 := by simp
  obtain ⟨hmidc, hrestc, hshift, _⟩ := common_suffix_wait_shift _ b pre (pre ++ [x]) mid w rest
    t tl hbody h2 hmid hw ha sr hs1 hsr f' f hf' hf
  rw [hlen] at hmidc hrestc hshift
  have hsum : sumN ((f.blocks.map Blk.len).take (pre.length + 1)) =
      sumN ((f'.blocks.map Blk.len).take pre.length) + (rhe (dx * sr)).toNat := by
    rw [htake, sumN_append]; simp [sumN]
  obtain ⟨hs1', hs2'⟩ := hshift _ hsum
  refine ⟨(rhe (dx * sr)).toNat, by omega, htake, hmidc, hrestc, hs1', hs2', ?_⟩
  intro ds ds' hds hds' hal hal' T ht
  obtain ⟨hT1, hT2, hN, _, hm1, hm2⟩ := common_suffix_wait_aligned _ b pre (pre ++ [x])
    mid w rest t tl hbody h2 hmid hw ha sr hs1 hsr f' f hf' hf ds' ds hds' hds hal' (by rw [hlen]; exact hal) T ht
  rw [hlen] at hT2
  exact ⟨hT2, hT1, hN.symm, hm1.symm, hm2.symm⟩

/-- **changeDuration in front of a waituntil.**  `b = pre ++ (mid ++ w :: rest)`; a `changeDuration`
    call (any name, `replaceeverywhere` or not) that addresses no segment of `mid ++ w :: rest`, and
    the blueprint forges before (`f`) and after (`f'`) - the change still fits before `t`.  The
    blocks of `mid` and `rest` keep their lengths; the segment-bound markers of `mid ++ [w]` move by
    exactly the change `n` of the sample count in front of them (stated for growth and shrinkage);
    with sample-aligned fronts the waveform keeps its total length, the segment after the wait still
    starts at sample `T = round(t·SR)` and the segment-bound markers of `rest` are literally
    unchanged. -/
theorem changeDuration_before_wait (b : BP) (name : String) (dur : Val) (all : Bool)
    (pre mid : List Seg) (w : Seg) (rest : List Seg) (t : ℚ) (tl : List Val)
    (hb : b.segs = pre ++ (mid ++ w :: rest))
    (hnt : ∀ s ∈ mid ++ w :: rest, (b.targets name all).2.contains s.name = false)
    (hmid : ∀ s ∈ mid, s.fn.isWait = false) (hw : w.fn.isWait = true) (ha : w.args = .num t :: tl)
    (sr : ℚ) (hsr : b.SR = .num sr)
    (f f' : Forged) (hf : forgeBP b = .ok f) (hf' : forgeBP (b.changeDuration name dur all).st = .ok f') :
    ((f'.blocks.map Blk.len).drop pre.length).take mid.length =
      ((f.blocks.map Blk.len).drop pre.length).take mid.length ∧
    (f'.blocks.map Blk.len).drop (pre.length + (mid.length + 1)) =
      (f.blocks.map Blk.len).drop (pre.length + (mid.length + 1)) ∧
    (∀ n : ℕ, sumN ((f'.blocks.map Blk.len).take pre.length) = sumN ((f.blocks.map Blk.len).take pre.length) + n →
      laterMarks sr (·.m1) pre (mid ++ [w]) (f'.blocks.map Blk.len) =
        (laterMarks sr (·.m1) pre (mid ++ [w]) (f.blocks.map Blk.len)).map (shiftMark sr n) ∧
      laterMarks sr (·.m2) pre (mid ++ [w]) (f'.blocks.map Blk.len) =
        (laterMarks sr (·.m2) pre (mid ++ [w]) (f.blocks.map Blk.len)).map (shiftMark sr n)) ∧
    (∀ n : ℕ, sumN ((f.blocks.map Blk.len).take pre.length) = sumN ((f'.blocks.map Blk.len).take pre.length) + n →
      laterMarks sr (·.m1) pre (mid ++ [w]) (f.blocks.map Blk.len) =
        (laterMarks sr (·.m1) pre (mid ++ [w]) (f'.blocks.map Blk.len)).map (shiftMark sr n) ∧
      laterMarks sr (·.m2) pre (mid ++ [w]) (f.blocks.map Blk.len) =
        (laterMarks sr (·.m2) pre (mid ++ [w]) (f'.blocks.map Blk.len)).map (shiftMark sr n)) ∧
    ∀ (ds ds' : List ℚ), b.resolveWaits = .ok ds → (b.changeDuration name dur all).st.resolveWaits = .ok ds' →
      (∀ y ∈ ds.take (pre.length + mid.length), ∃ k : ℕ, y * sr = k) →
      (∀ y ∈ ds'.take (pre.length + mid.length), ∃ k : ℕ, y * sr = k) →
      ∀ T : ℤ, |t * sr - T| ≤ 2/5 →
        ((sumN ((f.blocks.map Blk.len).take (pre.length + (mid.length + 1))) : ℕ) : ℤ) = T ∧
        ((sumN ((f'.blocks.map Blk.len).take (pre.length + (mid.length + 1))) : ℕ) : ℤ) = T ∧
        f'.N = f.N ∧
        laterMarks sr (·.m1) (pre ++ (mid ++ [w])) rest (f'.blocks.map Blk.len) =
          laterMarks sr (·.m1) (pre ++ (mid ++ [w])) rest (f.blocks.map Blk.len) ∧
        laterMarks sr (·.m2) (pre ++ (mid ++ [w])) rest (f'.blocks.map Blk.len) =
          laterMarks sr (·.m2) (pre ++ (mid ++ [w])) rest (f.blocks.map Blk.len) := by
  obtain ⟨pre', hl, hsegs, _, _, hSR⟩ := changeDuration_suffix b name dur all pre (mid ++ w :: rest) hb hnt
  have h1 : b.segs.map BP.Seg.body = (pre ++ (mid ++ w :: rest)).map BP.Seg.body := by rw [hb]
  have h2 : (b.changeDuration name dur all).st.segs.map BP.Seg.body =
      (pre' ++ (mid ++ w :: rest)).map BP.Seg.body := by rw [hsegs]
  have hs2 : (b.changeDuration name dur all).st.SR = .num sr := by rw [hSR, hsr]
  have A := common_suffix_wait_shift b _ pre pre' mid w rest t tl h1 h2 hmid hw ha sr hsr hs2 f f' hf hf'
  have B := common_suffix_wait_shift _ b pre' pre mid w rest t tl h2 h1 hmid hw ha sr hs2 hsr f' f hf' hf
  have hL : ∀ sel post lens, laterMarks sr sel pre' post lens = laterMarks sr sel pre post lens :=
    fun sel post lens => laterMarks_congr_len sr sel pre' pre post lens hl
  have hL2 : ∀ sel post lens, laterMarks sr sel (pre' ++ (mid ++ [w])) post lens =
      laterMarks sr sel (pre ++ (mid ++ [w])) post lens :=
    fun sel post lens => laterMarks_congr_len sr sel _ _ post lens (by simp [hl])
  rw [hl] at A B
  simp only [hL] at A B
  refine ⟨A.1, A.2.1, A.2.2.1, B.2.2.1, ?_⟩
  intro ds ds' hds hds' hal hal' T ht
  obtain ⟨hT1, hT2, hN, _, hm1, hm2⟩ := common_suffix_wait_aligned b _ pre pre' mid w rest t tl h1 h2 hmid hw ha
    sr hsr hs2 f f' hf hf' ds ds' hds hds' hal (by rw [hl]; exact hal') T ht
  rw [hl] at hT2
  simp only [hL2] at hm1 hm2
  exact ⟨hT1, hT2, hN, hm1, hm2⟩

/-- the resolved durations in front of the waituntil, with one more segment `x` in front: they are
    those without `x`, and the resolved duration `dx` of `x` -/
theorem fronts_of_plus_one (b1 b2 : BP) (pre mid : List Seg) (x w : Seg) (rest : List Seg) (t : ℚ) (tl : List Val)
    (h1 : b1.segs.map BP.Seg.body = (pre ++ (mid ++ w :: rest)).map BP.Seg.body)
    (h2 : b2.segs.map BP.Seg.body = ((pre ++ [x]) ++ (mid ++ w :: rest)).map BP.Seg.body)
    (hmid : ∀ s ∈ mid, s.fn.isWait = false) (hw : w.fn.isWait = true) (ha : w.args = .num t :: tl)
    (f1 f2 : Forged) (hf1 : forgeBP b1 = .ok f1) (hf2 : forgeBP b2 = .ok f2)
    (ds1 ds2 : List ℚ) (hd1 : b1.resolveWaits = .ok ds1) (hd2 : b2.resolveWaits = .ok ds2) :
    ∃ dp dx, BP.resolveGo pre 0 = .ok dp ∧ BP.resolveGo [x] (0 + sumR dp) = .ok [dx] ∧
      ∀ y, y ∈ ds2.take (pre.length + 1 + mid.length) ↔ (y ∈ ds1.take (pre.length + mid.length) ∨ y = dx) := by
  obtain ⟨sr1, dp1, dr1, np1, nw1, nr1, _, hp1, _, hnp1, _, hlp1, _, hlm1, hres1, _⟩ :=
    forge_split_wait b1 pre mid w rest t tl h1 hmid hw ha f1 hf1
  obtain ⟨sr2, dp2, dr2, np2, nw2, nr2, _, hp2, _, hnp2, _, hlp2, _, _, hres2, _⟩ :=
    forge_split_wait b2 (pre ++ [x]) mid w rest t tl h2 hmid hw ha f2 hf2
  obtain ⟨da, dc, hra, hrc, rfl, _⟩ := resolveGo_append_inv pre [x] 0 dp2 hp2
  have : da = dp1 := by rw [hp1] at hra; cases hra; rfl
  subst this
  have hlc : dc.length = 1 := by simpa using resolveGo_length _ _ _ hrc
  obtain ⟨dx, rfl⟩ : ∃ dx, dc = [dx] := by
    cases dc with
    | nil => simp at hlc
    | cons y ys => cases ys with
      | nil => exact ⟨y, rfl⟩
      | cons z zs => simp at hlc
  have hdpl : da.length = pre.length := by rw [hnp1] at hlp1; simpa using hlp1
  have hdml : (mid.filterMap durOf?).length = mid.length := by simpa using hlm1
  have e1 : ds1 = da ++ (mid.filterMap durOf? ++
      (t - (0 + sumR da + sumR (mid.filterMap durOf?))) :: dr1) := by
    rw [hd1] at hres1; exact Except.ok.inj hres1
  have e2 : ds2 = (da ++ [dx]) ++ (mid.filterMap durOf? ++
      (t - (0 + sumR (da ++ [dx]) + sumR (mid.filterMap durOf?))) :: dr2) := by
    rw [hd2] at hres2; exact Except.ok.inj hres2
  have t1 : ds1.take (pre.length + mid.length) = da ++ mid.filterMap durOf? := by
    rw [e1, ← List.append_assoc (as := da)]
    exact List.take_left' (by simp [hdpl, hdml])
  have t2 : ds2.take (pre.length + 1 + mid.length) = (da ++ [dx]) ++ mid.filterMap durOf? := by
    rw [e2, ← List.append_assoc (as := da ++ [dx])]
    exact List.take_left' (by simp only [List.length_append, hdpl, hdml, List.length_singleton])
  refine ⟨da, dx, hp1, hrc, fun y => ?_⟩
  rw [t1, t2]
  simp only [List.mem_append, List.mem_singleton]
  tauto

/-- **Insert in front of a waituntil, sample-aligned: the wait absorbs the shift** (the headline
    form of `insert_before_wait`): if the resolved durations in front of the waituntil are whole
    numbers of samples *before* the insertion and the inserted duration `d` is a whole number of
    samples, then (the blueprint forging before and after) the waveform keeps its total length, the
    segment after the wait starts at sample `T = round(t·SR)` before and after, the blocks of `rest`
    keep their lengths and the segment-bound markers of `rest` are literally the same marks -
    their windows do not move at all - while the marks of `mid ++ [w]` move by `round(d·SR)` samples. -/
theorem insert_before_wait_absorbed (b : BP) (pre mid : List Seg) (w : Seg) (rest : List Seg) (t : ℚ) (tl : List Val)
    (fn : Fn) (args : List Val) (d : ℚ) (name : Val)
    (hb : b.segs = pre ++ (mid ++ w :: rest)) (hmid : ∀ s ∈ mid, s.fn.isWait = false)
    (hw : w.fn.isWait = true) (ha : w.args = .num t :: tl) (hfn : fn.special = false)
    (hacc : (b.insertSegment (pre.length : ℤ) fn args (.num d) name).err = none)
    (f f' : Forged) (hf : forgeBP b = .ok f)
    (hf' : forgeBP (b.insertSegment (pre.length : ℤ) fn args (.num d) name).st = .ok f')
    (sr : ℚ) (hsr : b.SR = .num sr) (x : Seg) (ds : List ℚ) (hds : b.resolveWaits = .ok ds)
    (hal : ∀ y ∈ ds.take (pre.length + mid.length), ∃ k : ℕ, y * sr = k) (hd : ∃ k : ℕ, d * sr = k)
    (T : ℤ) (ht : |t * sr - T| ≤ 2/5) :
    f'.N = f.N ∧
    ((sumN ((f.blocks.map Blk.len).take (pre.length + (mid.length + 1))) : ℕ) : ℤ) = T ∧
    ((sumN ((f'.blocks.map Blk.len).take (pre.length + 1 + (mid.length + 1))) : ℕ) : ℤ) = T ∧
    (f'.blocks.map Blk.len).drop (pre.length + 1 + (mid.length + 1)) =
      (f.blocks.map Blk.len).drop (pre.length + (mid.length + 1)) ∧
    laterMarks sr (·.m1) ((pre ++ [x]) ++ (mid ++ [w])) rest (f'.blocks.map Blk.len) =
      laterMarks sr (·.m1) (pre ++ (mid ++ [w])) rest (f.blocks.map Blk.len) ∧
    laterMarks sr (·.m2) ((pre ++ [x]) ++ (mid ++ [w])) rest (f'.blocks.map Blk.len) =
      laterMarks sr (·.m2) (pre ++ (mid ++ [w])) rest (f.blocks.map Blk.len) ∧
    laterMarks sr (·.m1) (pre ++ [x]) (mid ++ [w]) (f'.blocks.map Blk.len) =
      (laterMarks sr (·.m1) pre (mid ++ [w]) (f.blocks.map Blk.len)).map (shiftMark sr (rhe (d * sr)).toNat) ∧
    laterMarks sr (·.m2) (pre ++ [x]) (mid ++ [w]) (f'.blocks.map Blk.len) =
      (laterMarks sr (·.m2) pre (mid ++ [w]) (f.blocks.map Blk.len)).map (shiftMark sr (rhe (d * sr)).toNat) := by
  obtain ⟨_, _, _, hrestc, hs1, hs2, hrest⟩ := insert_before_wait b pre mid w rest t tl fn args d name hb hmid hw ha hfn
    hacc f f' hf hf' sr hsr x
  obtain ⟨nm, hbody, _, _, hSR⟩ := insertSegment_split b pre (mid ++ w :: rest) fn args (.num d) name hb hacc
  have h1 : b.segs.map BP.Seg.body = (pre ++ (mid ++ w :: rest)).map BP.Seg.body := by rw [hb]
  have h2 : (b.insertSegment (pre.length : ℤ) fn args (.num d) name).st.segs.map BP.Seg.body =
      ((pre ++ [newSeg nm fn args (.num d)]) ++ (mid ++ w :: rest)).map BP.Seg.body := by
    rw [hbody]; simp
  obtain ⟨sr', ds', _, _, hds', _, _, _⟩ := (forge_ok_iff _ f').mp hf'
  obtain ⟨dp, dx, _, hrx, hiff⟩ := fronts_of_plus_one b _ pre mid (newSeg nm fn args (.num d)) w rest t tl h1 h2 hmid hw ha
    f f' hf hf' ds ds' hds hds'
  have hdx : dx = d := by
    have hwf : fn.isWait = false := by simp [Fn.isWait, hfn]
    simp only [BP.resolveGo, newSeg, hwf, Bool.false_eq_true, if_false, BP.consOk, Except.ok.injEq,
      List.cons.injEq, and_true] at hrx
    exact hrx.symm
  subst hdx
  have hal' : ∀ y ∈ ds'.take (pre.length + 1 + mid.length), ∃ k : ℕ, y * sr = k := by
    intro y hy
    rcases (hiff y).mp hy with h | rfl
    · exact hal y h
    · exact hd
  obtain ⟨hT1, hT2, hN, hm1, hm2⟩ := hrest ds ds' hds hds' hal hal' T ht
  exact ⟨hN, hT1, hT2, hrestc, hm1, hm2, hs1, hs2⟩

/-- **Window shift on a waveform of unchanged length** (the situation behind an absorbing
    waituntil): a marker moved by `n` samples in time on the *same* `N`-sample waveform has its window
    moved by exactly `n` samples - start and stop - provided the old window lay on the first `N − n`
    samples (`MarkInside (N − n)`: the moved window still fits on the waveform). -/
theorem shifted_window_same_length (N n : ℕ) (sr : ℚ) (hsr : sr ≠ 0) (m : Mark) (h : MarkInside (N - n) sr m) :
    window N sr (shiftMark sr n m) = ((window N sr m).1 + n, (window N sr m).2 + n) := by
  have hn : n ≤ N := by
    obtain ⟨h1, h2, _, _⟩ := h
    have : (1 : ℚ) ≤ ((N - n : ℕ) : ℚ) := by linarith
    have : 1 ≤ N - n := by exact_mod_cast this
    omega
  obtain ⟨N0, rfl⟩ : ∃ N0, N = N0 + n := ⟨N - n, by omega⟩
  have h' : MarkInside N0 sr m := by simpa using h
  have e1 := g4_window_shift N0 n n sr hsr m h' le_rfl
  have e2 := g4_window_longer N0 n sr m h'
  rw [e2]
  exact e1

/-- **The windows themselves, insert in front of a waituntil (sample-aligned).**  In the situation
    of `insert_before_wait_absorbed`, with `n = round(d·SR)`, on either marker channel:
    * if a segment-bound marker of `mid ++ [w]` (window on the first `N − n` samples) switches sample
      `k` ON before the insertion, sample `k + n` is ON after it - the window has moved by `n`;
    * if a segment-bound marker of `rest` switches sample `k` ON before the insertion, the *same*
      sample `k` is ON after it - the window has not moved. -/
theorem insert_before_wait_on_samples (b : BP) (pre mid : List Seg) (w : Seg) (rest : List Seg) (t : ℚ) (tl : List Val)
    (fn : Fn) (args : List Val) (d : ℚ) (name : Val)
    (hb : b.segs = pre ++ (mid ++ w :: rest)) (hmid : ∀ s ∈ mid, s.fn.isWait = false)
    (hw : w.fn.isWait = true) (ha : w.args = .num t :: tl) (hfn : fn.special = false)
    (hacc : (b.insertSegment (pre.length : ℤ) fn args (.num d) name).err = none)
    (f f' : Forged) (hf : forgeBP b = .ok f)
    (hf' : forgeBP (b.insertSegment (pre.length : ℤ) fn args (.num d) name).st = .ok f')
    (sr : ℚ) (hsr : b.SR = .num sr) (hsr0 : sr ≠ 0) (ds : List ℚ) (hds : b.resolveWaits = .ok ds)
    (hal : ∀ y ∈ ds.take (pre.length + mid.length), ∃ k : ℕ, y * sr = k) (hd : ∃ k : ℕ, d * sr = k)
    (T : ℤ) (ht : |t * sr - T| ≤ 2/5) :
    (∀ m ∈ laterMarks sr (·.m1) pre (mid ++ [w]) (f.blocks.map Blk.len),
      MarkInside (f.N - (rhe (d * sr)).toNat) sr m → ∀ k, onAt (window f.N sr m) k →
        ∃ hk : k + (rhe (d * sr)).toNat < f'.m1.length, f'.m1[k + (rhe (d * sr)).toNat] = 1) ∧
    (∀ m ∈ laterMarks sr (·.m2) pre (mid ++ [w]) (f.blocks.map Blk.len),
      MarkInside (f.N - (rhe (d * sr)).toNat) sr m → ∀ k, onAt (window f.N sr m) k →
        ∃ hk : k + (rhe (d * sr)).toNat < f'.m2.length, f'.m2[k + (rhe (d * sr)).toNat] = 1) ∧
    (∀ m ∈ laterMarks sr (·.m1) (pre ++ (mid ++ [w])) rest (f.blocks.map Blk.len),
      ∀ k, onAt (window f.N sr m) k → ∃ hk : k < f'.m1.length, f'.m1[k] = 1) ∧
    (∀ m ∈ laterMarks sr (·.m2) (pre ++ (mid ++ [w])) rest (f.blocks.map Blk.len),
      ∀ k, onAt (window f.N sr m) k → ∃ hk : k < f'.m2.length, f'.m2[k] = 1) := by
  obtain ⟨nm, hbody, _, _, hSR⟩ := insertSegment_split b pre (mid ++ w :: rest) fn args (.num d) name hb hacc
  have h2 : (b.insertSegment (pre.length : ℤ) fn args (.num d) name).st.segs.map BP.Seg.body =
      ((pre ++ [newSeg nm fn args (.num d)]) ++ (mid ++ w :: rest)).map BP.Seg.body := by
    rw [hbody]; simp
  obtain ⟨hN, _, _, _, hr1, hr2, hs1, hs2⟩ := insert_before_wait_absorbed b pre mid w rest t tl fn args d name hb hmid hw ha
    hfn hacc f f' hf hf' sr hsr (newSeg nm fn args (.num d)) ds hds hal hd T ht
  obtain ⟨sr', e', _, hm1, hm2, _, _⟩ := markers_split_wait _ (pre ++ [newSeg nm fn args (.num d)]) mid w rest t tl h2
    hmid hw ha f' hf'
  have : sr' = sr := by rw [hSR, hsr] at e'; cases e'; rfl
  subst this
  obtain ⟨_, _, _, _, _, _, _, hl1, hl2, _⟩ := C03.markers_spec_counts _ f' hf'
  have hkN : ∀ (m : Mark) (k : ℕ), onAt (window f'.N sr' m) k → k < f'.N :=
    fun m k hk => lt_of_lt_of_le hk.2 (window_clipped f'.N sr' m)
  refine ⟨?_, ?_, ?_, ?_⟩
  · intro m hm hin k hk
    have hw' := shifted_window_same_length f.N (rhe (d * sr')).toNat sr' hsr0 m hin
    have hon : onAt (window f'.N sr' (shiftMark sr' (rhe (d * sr')).toNat m)) (k + (rhe (d * sr')).toNat) := by
      rw [hN, hw']
      exact ⟨by simp only; have := hk.1; omega, by simp only; have := hk.2; omega⟩
    have hlt : k + (rhe (d * sr')).toNat < f'.m1.length := by rw [hl1]; exact hkN _ _ hon
    refine ⟨hlt, ?_⟩
    rw [hm1]
    right; left
    exact ⟨_, by rw [hs1]; exact List.mem_map.mpr ⟨m, hm, rfl⟩, hon⟩
  · intro m hm hin k hk
    have hw' := shifted_window_same_length f.N (rhe (d * sr')).toNat sr' hsr0 m hin
    have hon : onAt (window f'.N sr' (shiftMark sr' (rhe (d * sr')).toNat m)) (k + (rhe (d * sr')).toNat) := by
      rw [hN, hw']
      exact ⟨by simp only; have := hk.1; omega, by simp only; have := hk.2; omega⟩
    have hlt : k + (rhe (d * sr')).toNat < f'.m2.length := by rw [hl2]; exact hkN _ _ hon
    refine ⟨hlt, ?_⟩
    rw [hm2]
    right; left
    exact ⟨_, by rw [hs2]; exact List.mem_map.mpr ⟨m, hm, rfl⟩, hon⟩
  · intro m hm k hk
    have hon : onAt (window f'.N sr' m) k := by rw [hN]; exact hk
    have hlt : k < f'.m1.length := by rw [hl1]; exact hkN _ _ hon
    refine ⟨hlt, ?_⟩
    rw [hm1]
    right; right
    exact ⟨m, by rw [hr1]; exact hm, hon⟩
  · intro m hm k hk
    have hon : onAt (window f'.N sr' m) k := by rw [hN]; exact hk
    have hlt : k < f'.m2.length := by rw [hl2]; exact hkN _ _ hon
    refine ⟨hlt, ?_⟩
    rw [hm2]
    right; right
    exact ⟨m, by rw [hr2]; exact hm, hon⟩

/-- **Remove in front of a waituntil, sample-aligned: the wait absorbs the shift**: if the resolved
    durations in front of the waituntil (those of `pre`, `x` and `mid`) are whole numbers of samples
    before the removal, then (the blueprint forging before and after) the waveform keeps its total
    length, the segment after the wait starts at sample `T = round(t·SR)` before and after, and the
    segment-bound markers of `rest` are literally the same marks. -/
theorem remove_before_wait_absorbed (b : BP) (pre mid : List Seg) (x w : Seg) (rest : List Seg) (t : ℚ) (tl : List Val)
    (name : String) (hb : b.segs = pre ++ x :: (mid ++ w :: rest)) (hi : b.indexOf? name = some pre.length)
    (hmid : ∀ s ∈ mid, s.fn.isWait = false) (hw : w.fn.isWait = true) (ha : w.args = .num t :: tl)
    (f f' : Forged) (hf : forgeBP b = .ok f) (hf' : forgeBP (b.removeSegment name).st = .ok f')
    (sr : ℚ) (hsr : b.SR = .num sr) (ds : List ℚ) (hds : b.resolveWaits = .ok ds)
    (hal : ∀ y ∈ ds.take (pre.length + 1 + mid.length), ∃ k : ℕ, y * sr = k)
    (T : ℤ) (ht : |t * sr - T| ≤ 2/5) :
    f'.N = f.N ∧
    ((sumN ((f.blocks.map Blk.len).take (pre.length + 1 + (mid.length + 1))) : ℕ) : ℤ) = T ∧
    ((sumN ((f'.blocks.map Blk.len).take (pre.length + (mid.length + 1))) : ℕ) : ℤ) = T ∧
    (f.blocks.map Blk.len).drop (pre.length + 1 + (mid.length + 1)) =
      (f'.blocks.map Blk.len).drop (pre.length + (mid.length + 1)) ∧
    laterMarks sr (·.m1) (pre ++ (mid ++ [w])) rest (f'.blocks.map Blk.len) =
      laterMarks sr (·.m1) ((pre ++ [x]) ++ (mid ++ [w])) rest (f.blocks.map Blk.len) ∧
    laterMarks sr (·.m2) (pre ++ (mid ++ [w])) rest (f'.blocks.map Blk.len) =
      laterMarks sr (·.m2) ((pre ++ [x]) ++ (mid ++ [w])) rest (f.blocks.map Blk.len) := by
  obtain ⟨_, n, _, _, _, hrestc, _, _, hrest⟩ := remove_before_wait b pre mid x w rest t tl name hb hi hmid hw ha
    f f' hf hf' sr hsr
  obtain ⟨_, hbody, _, _, _⟩ := removeSegment_split b pre (mid ++ w :: rest) x name hb hi
  have h2 : b.segs.map BP.Seg.body = ((pre ++ [x]) ++ (mid ++ w :: rest)).map BP.Seg.body := by rw [hb]; simp
  obtain ⟨sr', ds', _, _, hds', _, _, _⟩ := (forge_ok_iff _ f').mp hf'
  obtain ⟨_, dx, _, _, hiff⟩ := fronts_of_plus_one _ b pre mid x w rest t tl hbody h2 hmid hw ha
    f' f hf' hf ds' ds hds' hds
  have hal' : ∀ y ∈ ds'.take (pre.length + mid.length), ∃ k : ℕ, y * sr = k :=
    fun y hy => hal y ((hiff y).mpr (Or.inl hy))
  obtain ⟨hT1, hT2, hN, hm1, hm2⟩ := hrest ds ds' hds hds' hal hal' T ht
  exact ⟨hN, hT1, hT2, hrestc, hm1, hm2⟩

/-! non-vacuity: ramp(1 s), rampB(1 s, marker 1 at +0.1 s for 0.2 s), waituntil(5) (marker 2 at +0.1 s
    for 0.2 s), rampC(1 s, marker 1 at +0.2 s for 0.3 s) at 10 Sa/s: blocks [10, 10, 30, 10] -/
def exWaitBP : BP :=
  { segs := [ { name := "ramp", fn := Fn.rampFn, args := [.num 0, .num 1], dur := .num 1 },
              { name := "rampB", fn := Fn.rampFn, args := [.num 0, .num 1], dur := .num 1, m1 := (1/10, 1/5) },
              { name := "waituntil", fn := Fn.waitSpecial, args := [.num 5], dur := .none, m2 := (1/10, 1/5) },
              { name := "rampC", fn := Fn.rampFn, args := [.num 1, .num 0], dur := .num 1, m1 := (1/5, 3/10) } ],
    SR := .num 10 }

/-- the hypotheses of `insert_before_wait` / `changeDuration_before_wait` (with `pre = [ramp]`,
    `mid = [rampB]`, `w = waituntil(5)`, `rest = [rampC]`): the insertion of a 0.5 s ramp at
    position 1 is accepted, everything forges, the fronts are sample-aligned, `t·SR = 50` -/
example : exWaitBP.segs = [exWaitBP.segs[0]] ++ ([exWaitBP.segs[1]] ++ exWaitBP.segs[2] :: [exWaitBP.segs[3]]) ∧
    (∀ s ∈ [exWaitBP.segs[1]], s.fn.isWait = false) ∧ (exWaitBP.segs[2]).fn.isWait = true ∧
    (exWaitBP.segs[2]).args = .num 5 :: [] ∧ Fn.rampFn.special = false ∧
    (exWaitBP.insertSegment (([exWaitBP.segs[0]].length : ℕ) : ℤ) Fn.rampFn [.num 0, .num 0] (.num (1/2)) .none).err = none ∧
    exWaitBP.resolveWaits = .ok [1, 1, 3, 1] ∧
    (exWaitBP.insertSegment 1 Fn.rampFn [.num 0, .num 0] (.num (1/2)) .none).st.resolveWaits = .ok [1, 1/2, 1, 5/2, 1] ∧
    (1 : ℚ) * 10 = (10 : ℕ) ∧ ((1 : ℚ) / 2) * 10 = (5 : ℕ) ∧ |(5 : ℚ) * 10 - (50 : ℤ)| ≤ 2/5 ∧
    (∀ s ∈ [exWaitBP.segs[1]] ++ exWaitBP.segs[2] :: [exWaitBP.segs[3]],
      (exWaitBP.targets "ramp" false).2.contains s.name = false) := by
  refine ⟨by decide +kernel, by decide +kernel, by decide +kernel, by decide +kernel, by decide, by decide +kernel,
    by decide +kernel, by decide +kernel, by norm_num, by norm_num, by norm_num, by decide +kernel⟩

/-- what happens: before, `rampB`'s marker 1 is ON at samples 11,12, the wait's marker 2 at 21,22,
    `rampC`'s marker 1 at 52,53,54 (60 samples).  After inserting 5 samples in front - or lengthening
    `ramp` by 5 samples - the first two have moved to 16,17 and 26,27, the wait has shrunk from 30 to
    25 samples, and `rampC` with its marker has not moved: still 60 samples, marker at 52,53,54. -/
example :
    (forgeBP exWaitBP).toOption.map (fun f => (f.blocks.map Blk.len, f.N,
        (List.range 60).filter (fun k => f.m1.getD k 0 = 1), (List.range 60).filter (fun k => f.m2.getD k 0 = 1))) =
      some ([10, 10, 30, 10], 60, [11, 12, 52, 53, 54], [21, 22]) ∧
    (forgeBP (exWaitBP.insertSegment 1 Fn.rampFn [.num 0, .num 0] (.num (1/2)) .none).st).toOption.map
      (fun f => (f.blocks.map Blk.len, f.N,
        (List.range 60).filter (fun k => f.m1.getD k 0 = 1), (List.range 60).filter (fun k => f.m2.getD k 0 = 1))) =
      some ([10, 5, 10, 25, 10], 60, [16, 17, 52, 53, 54], [26, 27]) ∧
    (forgeBP (exWaitBP.changeDuration "ramp" (.num (3/2)) false).st).toOption.map
      (fun f => (f.blocks.map Blk.len, f.N,
        (List.range 60).filter (fun k => f.m1.getD k 0 = 1), (List.range 60).filter (fun k => f.m2.getD k 0 = 1))) =
      some ([15, 10, 25, 10], 60, [16, 17, 52, 53, 54], [26, 27]) := by
  refine ⟨by decide +kernel, by decide +kernel, by decide +kernel⟩

/-- non-vacuity of `shifted_window_same_length` / `insert_before_wait_on_samples` on the example
    below: `rampB`'s marker (ON time 1.1 s, 0.2 s long) lies on the first 60 − 5 samples; moved by 5
    samples on the same 60-sample waveform its window goes from [11, 13) to [16, 18) -/
example : MarkInside (60 - 5) 10 ((11/10 : ℚ), (1/5 : ℚ)) ∧ window 60 10 ((11/10 : ℚ), (1/5 : ℚ)) = (11, 13) ∧
    window 60 10 (shiftMark 10 5 ((11/10 : ℚ), (1/5 : ℚ))) = (16, 18) := by
  refine ⟨by decide +kernel, by decide +kernel, by decide +kernel⟩

/-- **When does the insertion still fit before `t`?**  In the situation of `insert_before_wait`
    (before the insertion the blueprint forges), let `left = t − (elapsed(pre) + d + Σ durations of
    mid)` be the time left for the waituntil afterwards, `elapsed(pre)` being the sum of the resolved
    durations `dp` of `pre`.  If `left < 0` the new blueprint does not forge (ValueError, no shortened
    or overlapping waveform); if `left ≥ 0` and both the new segment and the shrunken wait get at least
    two samples, it forges - so the hypothesis "forges before and after" of `insert_before_wait` is
    exactly "the insertion still fits". -/
theorem insert_before_wait_fits (b : BP) (pre mid : List Seg) (w : Seg) (rest : List Seg) (t : ℚ) (tl : List Val)
    (fn : Fn) (args : List Val) (d : ℚ) (name : Val)
    (hb : b.segs = pre ++ (mid ++ w :: rest)) (hmid : ∀ s ∈ mid, s.fn.isWait = false)
    (hw : w.fn.isWait = true) (ha : w.args = .num t :: tl) (hfn : fn.special = false)
    (hacc : (b.insertSegment (pre.length : ℤ) fn args (.num d) name).err = none)
    (f : Forged) (hf : forgeBP b = .ok f) :
    ∃ sr dp, b.SR = .num sr ∧ BP.resolveGo pre 0 = .ok dp ∧
      (t - (0 + sumR dp + d + sumR (mid.filterMap durOf?)) < 0 →
        forgeBP (b.insertSegment (pre.length : ℤ) fn args (.num d) name).st = .error .value) ∧
      (0 ≤ t - (0 + sumR dp + d + sumR (mid.filterMap durOf?)) → 2 ≤ rhe (d * sr) →
        2 ≤ rhe ((t - (0 + sumR dp + d + sumR (mid.filterMap durOf?))) * sr) →
        ∃ f', forgeBP (b.insertSegment (pre.length : ℤ) fn args (.num d) name).st = .ok f') :=
  forge_insert_before_wait b pre mid w rest t tl fn args d name hb hmid hw ha hfn hacc f hf

/-- on the example: `elapsed(pre) = 1`, `Σ mid = 1`, `t = 5`: a 0.5 s insertion leaves 2.5 s (25
    samples) and forges; a 4 s insertion leaves −1 s and raises ValueError -/
example : BP.resolveGo [exWaitBP.segs[0]] 0 = .ok [1] ∧ [exWaitBP.segs[1]].filterMap durOf? = [1] ∧
    (0 : ℚ) ≤ 5 - (0 + sumR [1] + 1/2 + sumR [1]) ∧ (2 : ℤ) ≤ rhe ((1/2 : ℚ) * 10) ∧
    (2 : ℤ) ≤ rhe ((5 - (0 + sumR [1] + 1/2 + sumR [1]) : ℚ) * 10) ∧
    (5 : ℚ) - (0 + sumR [1] + 4 + sumR [1]) < 0 ∧
    (exWaitBP.insertSegment 1 Fn.rampFn [.num 0, .num 0] (.num 4) .none).err = none ∧
    forgeBP (exWaitBP.insertSegment 1 Fn.rampFn [.num 0, .num 0] (.num 4) .none).st = .error .value := by
  refine ⟨by decide +kernel, by decide +kernel, by decide +kernel, by decide +kernel, by decide +kernel,
    by decide +kernel, by decide +kernel, by decide +kernel⟩

/-- `insert_before_wait_absorbed` applied to the example: every hypothesis is discharged, so the
    theorem really says of this blueprint that the total length stays and `rampC` stays at sample 50 -/
example (f f' : Forged) (hf : forgeBP exWaitBP = .ok f)
    (hf' : forgeBP (exWaitBP.insertSegment (([exWaitBP.segs[0]].length : ℕ) : ℤ) Fn.rampFn [.num 0, .num 0]
      (.num (1/2)) .none).st = .ok f') :
    f'.N = f.N ∧ ((sumN ((f'.blocks.map Blk.len).take (1 + 1 + (1 + 1))) : ℕ) : ℤ) = 50 := by
  have h := insert_before_wait_absorbed exWaitBP [exWaitBP.segs[0]] [exWaitBP.segs[1]] exWaitBP.segs[2]
    [exWaitBP.segs[3]] 5 [] Fn.rampFn [.num 0, .num 0] (1/2) .none (by decide +kernel) (by decide +kernel)
    (by decide +kernel) (by decide +kernel) (by decide) (by decide +kernel) f f' hf hf' 10 rfl exWaitBP.segs[0]
    [1, 1, 3, 1] (by decide +kernel)
    (by
      intro y hy
      have : y = 1 := by
        simp only [List.length_singleton, List.take_succ_cons, List.take_zero, List.mem_cons, List.not_mem_nil,
          or_false, or_self] at hy
        exact hy
      exact ⟨10, by rw [this]; norm_num⟩)
    ⟨5, by norm_num⟩ 50 (by norm_num)
  exact ⟨h.1, h.2.2.1⟩

/-- non-vacuity of `remove_before_wait` (`pre = []`, `x = ramp`, `mid = [rampB]`): removing `ramp`
    moves `rampB`'s marker and the wait's marker 10 samples earlier, the wait grows from 30 to 40
    samples, `rampC` and its marker stay -/
example : exWaitBP.segs = [] ++ exWaitBP.segs[0] :: ([exWaitBP.segs[1]] ++ exWaitBP.segs[2] :: [exWaitBP.segs[3]]) ∧
    exWaitBP.indexOf? "ramp" = some ([] : List Seg).length ∧
    (exWaitBP.removeSegment "ramp").st.resolveWaits = .ok [1, 4, 1] ∧
    (forgeBP (exWaitBP.removeSegment "ramp").st).toOption.map
      (fun f => (f.blocks.map Blk.len, f.N,
        (List.range 60).filter (fun k => f.m1.getD k 0 = 1), (List.range 60).filter (fun k => f.m2.getD k 0 = 1))) =
      some ([10, 40, 10], 60, [1, 2, 52, 53, 54], [11, 12]) := by
  refine ⟨by decide +kernel, by decide +kernel, by decide +kernel, by decide +kernel⟩

/-- the alignment hypothesis cannot be dropped: in front of `waituntil(1.06)` at 10 Sa/s a front of
    0.35 s (3.5 samples, rounded half-even to 4) leaves 7.1 → 7 samples for the wait, so the segment
    behind the wait starts at sample 11 (= `round(t·SR)`); changing the front to 0.34 s (3.4 → 3
    samples) leaves 7.2 → 7 samples, and the segment behind the wait starts at sample 10: with fronts
    that are not whole numbers of samples the waituntil does not absorb the change exactly -/
example : (forgeBP { segs := [ { name := "ramp", fn := Fn.rampFn, args := [.num 0, .num 1], dur := .num (7/20) },
                               { name := "waituntil", fn := Fn.waitSpecial, args := [.num (53/50)], dur := .none },
                               { name := "ramp2", fn := Fn.rampFn, args := [.num 1, .num 0], dur := .num 1 } ],
                     SR := .num 10 }).toOption.map (fun f => starts (f.blocks.map Blk.len) 0) = some [0, 4, 11] ∧
    rhe ((53/50 : ℚ) * 10) = 11 ∧
    (forgeBP { segs := [ { name := "ramp", fn := Fn.rampFn, args := [.num 0, .num 1], dur := .num (17/50) },
                         { name := "waituntil", fn := Fn.waitSpecial, args := [.num (53/50)], dur := .none },
                         { name := "ramp2", fn := Fn.rampFn, args := [.num 1, .num 0], dur := .num 1 } ],
               SR := .num 10 }).toOption.map (fun f => starts (f.blocks.map Blk.len) 0) = some [0, 3, 10] := by
  refine ⟨by decide +kernel, by decide +kernel, by decide +kernel⟩

end BB.C03
