/-
  Property C13 — filter compensation inverts the filter it is declared for.

  Same model as C12 (`DFT.applyTF` with the grids built from the regenerated `_rcFilter` kernels).
  Exact arithmetic: "restores every spectral component below Nyquist" is an equality of bins here;
  the floating-point error scaled by the condition number is measured by the correspondence check
  (partial).
-/
import BB.Properties.C12
import BB.Gen.K

namespace BB.C13
open ZMod Complex ComplexConjugate BB.Gen.Real BB.DFT BB.RC BB.C12
variable {N : ℕ} [NeZero N]

theorem rHP (x : ZMod N → ℂ) (SR fc d : ℝ) (o : ℤ) : IsReal (applyHP x SR fc d o) := applyTF_real _ _
theorem rLP (x : ZMod N → ℂ) (SR fc : ℝ) (o : ℤ) : IsReal (applyLP x SR fc o) := applyTF_real _ _
theorem rIHP (x : ZMod N → ℂ) (SR fc d : ℝ) (o : ℤ) : IsReal (applyInvHP x SR fc d o) := applyTF_real _ _
theorem rILP (x : ZMod N → ℂ) (SR fc : ℝ) (o : ℤ) : IsReal (applyInvLP x SR fc o) := applyTF_real _ _

/-! ### filter then compensation, compensation then filter -/

/-- HP with the same positive (non-zero) DC gain on both sides: every bin except Nyquist is
    restored, in either order of composition -/
theorem hp_roundtrip (x : ZMod N → ℂ) (hx : IsReal x) (SR fc DCgain : ℝ) (hd : DCgain ≠ 0) (order : ℤ)
    (k : ZMod N) (hny : 2 * k.val ≠ N) :
    𝓕 (applyInvHP (applyHP x SR fc DCgain order) SR fc DCgain order) k = 𝓕 x k ∧
    𝓕 (applyHP (applyInvHP x SR fc DCgain order) SR fc DCgain order) k = 𝓕 x k := by
  have hb := baseHP_ne_zero (N := N) SR fc DCgain hd k
  constructor
  · rw [inv_hp_bins _ (rHP _ _ _ _ _) SR fc DCgain order k hny, hp_bins x hx SR fc DCgain order k hny,
      mul_assoc, ← zpow_add₀ hb]
    simp
  · rw [hp_bins _ (rIHP _ _ _ _ _) SR fc DCgain order k hny, inv_hp_bins x hx SR fc DCgain order k hny,
      mul_assoc, ← zpow_add₀ hb]
    simp

theorem lp_roundtrip (x : ZMod N → ℂ) (hx : IsReal x) (SR fc : ℝ) (order : ℤ) (k : ZMod N) (hny : 2 * k.val ≠ N) :
    𝓕 (applyInvLP (applyLP x SR fc order) SR fc order) k = 𝓕 x k ∧
    𝓕 (applyLP (applyInvLP x SR fc order) SR fc order) k = 𝓕 x k := by
  have hb := baseLP_ne_zero (N := N) SR fc k
  constructor
  · rw [inv_lp_bins _ (rLP _ _ _ _) SR fc order k hny, lp_bins x hx SR fc order k hny,
      mul_assoc, ← zpow_add₀ hb]
    simp
  · rw [lp_bins _ (rILP _ _ _ _) SR fc order k hny, inv_lp_bins x hx SR fc order k hny,
      mul_assoc, ← zpow_add₀ hb]
    simp

/-- for odd lengths there is no Nyquist bin: the round trip restores the whole signal -/
theorem roundtrip_odd (x : ZMod N → ℂ) (hx : IsReal x) (SR fc DCgain : ℝ) (hd : DCgain ≠ 0) (order : ℤ)
    (hodd : N % 2 = 1) :
    applyInvHP (applyHP x SR fc DCgain order) SR fc DCgain order = x ∧
    applyInvLP (applyLP x SR fc order) SR fc order = x := by
  have hny : ∀ k : ZMod N, 2 * k.val ≠ N := fun k => by omega
  constructor
  · apply eq_of_dft_eq; funext k
    exact (hp_roundtrip x hx SR fc DCgain hd order k (hny k)).1
  · apply eq_of_dft_eq; funext k
    exact (lp_roundtrip x hx SR fc order k (hny k)).1

/-! ### the high pass with its default DC gain 0, compensated with DC gain g -/

/-- a true high pass (DC gain 0, positive order) removes the DC component … -/
theorem hp_removes_dc (x : ZMod N → ℂ) (hx : IsReal x) (SR fc : ℝ) (order : ℤ) (ho : 0 < order) :
    (2 * (0 : ZMod N).val ≠ N) → 𝓕 (applyHP x SR fc 0 order) 0 = 0 := by
  intro hny
  rw [hp_bins x hx SR fc 0 order 0 hny, baseHP_dc]
  simp [zero_zpow _ (ne_of_gt ho)]

/-- … and leaves the compensated signal with every other bin below Nyquist restored: the result
    differs from the original only in the DC bin, i.e. by a constant offset -/
theorem hp_default_roundtrip (x : ZMod N → ℂ) (hx : IsReal x) (SR fc g : ℝ) (hSR : SR ≠ 0) (hfc : fc ≠ 0) (order : ℤ)
    (k : ZMod N) (hk : k ≠ 0) (hny : 2 * k.val ≠ N) :
    𝓕 (applyInvHP (applyHP x SR fc 0 order) SR fc g order) k = 𝓕 x k := by
  rw [inv_hp_bins _ (rHP _ _ _ _ _) SR fc g order k hny, hp_bins x hx SR fc 0 order k hny,
    baseHP_value SR fc g hSR hfc k hk, baseHP_value SR fc 0 hSR hfc k hk, mul_assoc]
  have hb : rcHP SR fc (freq N SR k : ℝ) ≠ 0 := by
    rw [Ne, rcHP_eq_zero_iff _ _ _ hfc]; exact freq_ne_zero SR hSR k hk
  rw [← zpow_add₀ hb]
  simp

/-- odd length (no Nyquist bin): the difference is exactly a constant — its spectrum is
    supported on the DC bin -/
theorem hp_default_offset_odd (x : ZMod N → ℂ) (hx : IsReal x) (SR fc g : ℝ) (hSR : SR ≠ 0) (hfc : fc ≠ 0) (order : ℤ)
    (hodd : N % 2 = 1) (k : ZMod N) (hk : k ≠ 0) :
    𝓕 (fun j => applyInvHP (applyHP x SR fc 0 order) SR fc g order j - x j) k = 0 := by
  have hny : 2 * k.val ≠ N := by omega
  have : (fun j => applyInvHP (applyHP x SR fc 0 order) SR fc g order j - x j) =
      applyInvHP (applyHP x SR fc 0 order) SR fc g order - x := rfl
  rw [this, map_sub]
  simp only [Pi.sub_apply]
  rw [hp_default_roundtrip x hx SR fc g hSR hfc order k hk hny]
  simp

/-! ### orders compose additively; order −n is the compensation of order n -/

theorem hp_order_add (x : ZMod N → ℂ) (hx : IsReal x) (SR fc DCgain : ℝ) (hd : DCgain ≠ 0) (m n : ℤ)
    (k : ZMod N) (hny : 2 * k.val ≠ N) :
    𝓕 (applyHP (applyHP x SR fc DCgain m) SR fc DCgain n) k = 𝓕 (applyHP x SR fc DCgain (m + n)) k := by
  rw [hp_bins _ (rHP _ _ _ _ _) SR fc DCgain n k hny, hp_bins x hx SR fc DCgain m k hny,
    hp_bins x hx SR fc DCgain (m + n) k hny, mul_assoc, ← zpow_add₀ (baseHP_ne_zero SR fc DCgain hd k)]

theorem lp_order_add (x : ZMod N → ℂ) (hx : IsReal x) (SR fc : ℝ) (m n : ℤ) (k : ZMod N) (hny : 2 * k.val ≠ N) :
    𝓕 (applyLP (applyLP x SR fc m) SR fc n) k = 𝓕 (applyLP x SR fc (m + n)) k := by
  rw [lp_bins _ (rLP _ _ _ _) SR fc n k hny, lp_bins x hx SR fc m k hny,
    lp_bins x hx SR fc (m + n) k hny, mul_assoc, ← zpow_add₀ (baseLP_ne_zero SR fc k)]

/-- the compensation of order `n` *is* the filter of order `−n` (same DC gain): equal as functions -/
theorem inverse_is_negative_order (x : ZMod N → ℂ) (SR fc DCgain : ℝ) (n : ℤ) :
    applyInvHP x SR fc DCgain n = applyHP x SR fc DCgain (-n) ∧ applyInvLP x SR fc n = applyLP x SR fc (-n) :=
  ⟨rfl, rfl⟩

/-! ### custom transfer function: invert undoes apply -/

/-- for a transfer function that is non-zero on the grid, `invert=True` (power −1) after the plain
    application (power 1), or the other way round, restores every bin below Nyquist -/
theorem custom_roundtrip (x : ZMod N → ℂ) (hx : IsReal x) (SR : ℝ) (T : ℝ → ℝ) (k : ZMod N)
    (hny : 2 * k.val ≠ N) (hT : T |freq N SR k| ≠ 0) :
    𝓕 (applyTF (applyTF x (fun k => ((T |freq N SR k| : ℝ) : ℂ) ^ (1 : ℤ))) (fun k => ((T |freq N SR k| : ℝ) : ℂ) ^ (-1 : ℤ))) k = 𝓕 x k ∧
    𝓕 (applyTF (applyTF x (fun k => ((T |freq N SR k| : ℝ) : ℂ) ^ (-1 : ℤ))) (fun k => ((T |freq N SR k| : ℝ) : ℂ) ^ (1 : ℤ))) k = 𝓕 x k := by
  have hne : ((T |freq N SR k| : ℝ) : ℂ) ≠ 0 := by exact_mod_cast hT
  constructor
  · rw [custom_bins _ (applyTF_real _ _) SR T (-1) k hny, custom_bins x hx SR T 1 k hny, mul_assoc,
      ← zpow_add₀ hne]
    simp
  · rw [custom_bins _ (applyTF_real _ _) SR T 1 k hny, custom_bins x hx SR T (-1) k hny, mul_assoc,
      ← zpow_add₀ hne]
    simp

/-! ### argument checks (regenerated guards) -/

/-- the compensation accepts exactly a positive DC gain -/
theorem dcgain_guard (g : ℚ) : Gen.dcGainBad g = false ↔ 0 < g := by
  simp [Gen.dcGainBad]

/-- exactly the kinds 'HP' and 'LP' are known -/
theorem kinds : Gen.filterKinds = ["HP", "LP"] := rfl

end BB.C13
