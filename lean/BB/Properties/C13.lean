/-
  Property C13 — filter compensation inverts the filter it is declared for.

  Same model as C12 (`DFT.applyTF` with the grids built from the regenerated `_rcFilter` kernels).
  Exact arithmetic: "restores every spectral component below Nyquist" is an equality of bins here;
  the floating-point error scaled by the condition number is measured by the correspondence check
  (partial).
-/
import BB.Properties.C12
import BB.Proofs.G7DFT
import BB.Proofs.G7Cond
import BB.Gen.K

namespace BB.C13
open ZMod Complex ComplexConjugate BB.Gen.Real BB.DFT BB.RC BB.C12
variable {N : ℕ} [NeZero N]

theorem rHP (x : ZMod N → ℂ) (SR fc d : ℝ) (o : ℤ) : IsReal (applyHP x SR fc d o) := applyTF_real _ _
theorem rLP (x : ZMod N → ℂ) (SR fc : ℝ) (o : ℤ) : IsReal (applyLP x SR fc o) := applyTF_real _ _
theorem rIHP (x : ZMod N → ℂ) (SR fc d : ℝ) (o : ℤ) : IsReal (applyInvHP x SR fc d o) := applyTF_real _ _
theorem rILP (x : ZMod N → ℂ) (SR fc : ℝ) (o : ℤ) : IsReal (applyInvLP x SR fc o) := applyTF_real _ _

/-! ### filter then compensation, compensation then filter -/

/-- HP with the same positive (non-zero) DC gain on both sides: every bin except Nyquist is
    restored, in either order of composition -/
theorem hp_roundtrip (x : ZMod N → ℂ) (hx : IsReal x) (SR fc DCgain : ℝ) (hd : DCgain ≠ 0) (order : ℤ)
    (k : ZMod N) (hny : 2 * k.val ≠ N) :
    𝓕 (applyInvHP (applyHP x SR fc DCgain order) SR fc DCgain order) k = 𝓕 x k ∧
    𝓕 (applyHP (applyInvHP x SR fc DCgain order) SR fc DCgain order) k = 𝓕 x k := by
  have hb := baseHP_ne_zero (N := N) SR fc DCgain hd k
  constructor
  · rw [inv_hp_bins _ (rHP _ _ _ _ _) SR fc DCgain order k hny, hp_bins x hx SR fc DCgain order k hny,
      mul_assoc, ← zpow_add₀ hb]
    simp
  · rw [hp_bins _ (rIHP _ _ _ _ _) SR fc DCgain order k hny, inv_hp_bins x hx SR fc DCgain order k hny,
      mul_assoc, ← zpow_add₀ hb]
    simp

theorem lp_roundtrip (x : ZMod N → ℂ) (hx : IsReal x) (SR fc : ℝ) (order : ℤ) (k : ZMod N) (hny : 2 * k.val ≠ N) :
    𝓕 (applyInvLP (applyLP x SR fc order) SR fc order) k = 𝓕 x k ∧
    𝓕 (applyLP (applyInvLP x SR fc order) SR fc order) k = 𝓕 x k := by
  have hb := baseLP_ne_zero (N := N) SR fc k
  constructor
  · rw [inv_lp_bins _ (rLP _ _ _ _) SR fc order k hny, lp_bins x hx SR fc order k hny,
      mul_assoc, ← zpow_add₀ hb]
    simp
  · rw [lp_bins _ (rILP _ _ _ _) SR fc order k hny, inv_lp_bins x hx SR fc order k hny,
      mul_assoc, ← zpow_add₀ hb]
    simp

/-- for odd lengths there is no Nyquist bin: the round trip restores the whole signal -/
theorem roundtrip_odd (x : ZMod N → ℂ) (hx : IsReal x) (SR fc DCgain : ℝ) (hd : DCgain ≠ 0) (order : ℤ)
    (hodd : N % 2 = 1) :
    applyInvHP (applyHP x SR fc DCgain order) SR fc DCgain order = x ∧
    applyInvLP (applyLP x SR fc order) SR fc order = x := by
  have hny : ∀ k : ZMod N, 2 * k.val ≠ N := fun k => by omega
  constructor
  · apply eq_of_dft_eq; funext k
    exact (hp_roundtrip x hx SR fc DCgain hd order k (hny k)).1
  · apply eq_of_dft_eq; funext k
    exact (lp_roundtrip x hx SR fc order k (hny k)).1

/-! ### the high pass with its default DC gain 0, compensated with DC gain g -/

/-- a true high pass (DC gain 0, positive order) removes the DC component … -/
theorem hp_removes_dc (x : ZMod N → ℂ) (hx : IsReal x) (SR fc : ℝ) (order : ℤ) (ho : 0 < order) :
    (2 * (0 : ZMod N).val ≠ N) → 𝓕 (applyHP x SR fc 0 order) 0 = 0 := by
  intro hny
  rw [hp_bins x hx SR fc 0 order 0 hny, baseHP_dc]
  simp [zero_zpow _ (ne_of_gt ho)]

/-- … and leaves the compensated signal with every other bin below Nyquist restored: the result
    differs from the original only in the DC bin, i.e. by a constant offset -/
theorem hp_default_roundtrip (x : ZMod N → ℂ) (hx : IsReal x) (SR fc g : ℝ) (hSR : SR ≠ 0) (hfc : fc ≠ 0) (order : ℤ)
    (k : ZMod N) (hk : k ≠ 0) (hny : 2 * k.val ≠ N) :
    𝓕 (applyInvHP (applyHP x SR fc 0 order) SR fc g order) k = 𝓕 x k := by
  rw [inv_hp_bins _ (rHP _ _ _ _ _) SR fc g order k hny, hp_bins x hx SR fc 0 order k hny,
    baseHP_value SR fc g hSR hfc k hk, baseHP_value SR fc 0 hSR hfc k hk, mul_assoc]
  have hb : rcHP SR fc (freq N SR k : ℝ) ≠ 0 := by
    rw [Ne, rcHP_eq_zero_iff _ _ _ hfc]; exact freq_ne_zero SR hSR k hk
  rw [← zpow_add₀ hb]
  simp

/-- odd length (no Nyquist bin): the difference is exactly a constant — its spectrum is
    supported on the DC bin -/
theorem hp_default_offset_odd (x : ZMod N → ℂ) (hx : IsReal x) (SR fc g : ℝ) (hSR : SR ≠ 0) (hfc : fc ≠ 0) (order : ℤ)
    (hodd : N % 2 = 1) (k : ZMod N) (hk : k ≠ 0) :
    𝓕 (fun j => applyInvHP (applyHP x SR fc 0 order) SR fc g order j - x j) k = 0 := by
  have hny : 2 * k.val ≠ N := by omega
  have : (fun j => applyInvHP (applyHP x SR fc 0 order) SR fc g order j - x j) =
      applyInvHP (applyHP x SR fc 0 order) SR fc g order - x := rfl
  rw [this, map_sub]
  simp only [Pi.sub_apply]
  rw [hp_default_roundtrip x hx SR fc g hSR hfc order k hk hny]
  simp

/-! ### orders compose additively; order −n is the compensation of order n -/

theorem hp_order_add (x : ZMod N → ℂ) (hx : IsReal x) (SR fc DCgain : ℝ) (hd : DCgain ≠ 0) (m n : ℤ)
    (k : ZMod N) (hny : 2 * k.val ≠ N) :
    𝓕 (applyHP (applyHP x SR fc DCgain m) SR fc DCgain n) k = 𝓕 (applyHP x SR fc DCgain (m + n)) k := by
  rw [hp_bins _ (rHP _ _ _ _ _) SR fc DCgain n k hny, hp_bins x hx SR fc DCgain m k hny,
    hp_bins x hx SR fc DCgain (m + n) k hny, mul_assoc, ← zpow_add₀ (baseHP_ne_zero SR fc DCgain hd k)]

theorem lp_order_add (x : ZMod N → ℂ) (hx : IsReal x) (SR fc : ℝ) (m n : ℤ) (k : ZMod N) (hny : 2 * k.val ≠ N) :
    𝓕 (applyLP (applyLP x SR fc m) SR fc n) k = 𝓕 (applyLP x SR fc (m + n)) k := by
  rw [lp_bins _ (rLP _ _ _ _) SR fc n k hny, lp_bins x hx SR fc m k hny,
    lp_bins x hx SR fc (m + n) k hny, mul_assoc, ← zpow_add₀ (baseLP_ne_zero SR fc k)]

/-- the compensation of order `n` *is* the filter of order `−n` (same DC gain): equal as functions -/
theorem inverse_is_negative_order (x : ZMod N → ℂ) (SR fc DCgain : ℝ) (n : ℤ) :
    applyInvHP x SR fc DCgain n = applyHP x SR fc DCgain (-n) ∧ applyInvLP x SR fc n = applyLP x SR fc (-n) :=
  ⟨rfl, rfl⟩

/-! ### custom transfer function: invert undoes apply -/

/-- for a transfer function that is non-zero on the grid, `invert=True` (power −1) after the plain
    application (power 1), or the other way round, restores every bin below Nyquist -/
theorem custom_roundtrip (x : ZMod N → ℂ) (hx : IsReal x) (SR : ℝ) (T : ℝ → ℝ) (k : ZMod N)
    (hny : 2 * k.val ≠ N) (hT : T |freq N SR k| ≠ 0) :
    𝓕 (applyTF (applyTF x (fun k => ((T |freq N SR k| : ℝ) : ℂ) ^ (1 : ℤ))) (fun k => ((T |freq N SR k| : ℝ) : ℂ) ^ (-1 : ℤ))) k = 𝓕 x k ∧
    𝓕 (applyTF (applyTF x (fun k => ((T |freq N SR k| : ℝ) : ℂ) ^ (-1 : ℤ))) (fun k => ((T |freq N SR k| : ℝ) : ℂ) ^ (1 : ℤ))) k = 𝓕 x k := by
  have hne : ((T |freq N SR k| : ℝ) : ℂ) ≠ 0 := by exact_mod_cast hT
  constructor
  · rw [custom_bins _ (applyTF_real _ _) SR T (-1) k hny, custom_bins x hx SR T 1 k hny, mul_assoc,
      ← zpow_add₀ hne]
    simp
  · rw [custom_bins _ (applyTF_real _ _) SR T 1 k hny, custom_bins x hx SR T (-1) k hny, mul_assoc,
      ← zpow_add₀ hne]
    simp

/-! ### argument checks (regenerated guards) -/

/-- the compensation accepts exactly a positive DC gain -/
theorem dcgain_guard (g : ℚ) : Gen.dcGainBad g = false ↔ 0 < g := by
  simp [Gen.dcGainBad]

/-- exactly the kinds 'HP' and 'LP' are known -/
theorem kinds : Gen.filterKinds = ["HP", "LP"] := rfl

/-! ## statements on the public operations `applyRC` / `applyCustomC` (round 8) -/

open BB.G7

/-- **rejection at the public operation**: an unknown kind is a `ValueError` for the filter and
    for the compensation; a DC gain that is not positive is a `ValueError` for the compensation
    (for both kinds — the check precedes the dispatch) -/
theorem applyRC_rejects (x : ZMod N → ℂ) (SR fc : ℝ) (order : ℤ) (kind : String) (DCgain : ℚ) :
    (kind ≠ "HP" → kind ≠ "LP" → ∀ inverse, applyRC inverse x SR kind fc order DCgain = .error .value) ∧
    (DCgain ≤ 0 → applyRC true x SR kind fc order DCgain = .error .value) :=
  ⟨fun h1 h2 inv => (applyRC_error_iff inv x SR fc kind order DCgain).mpr (Or.inl ⟨h1, h2⟩),
   fun h => (applyRC_error_iff true x SR fc kind order DCgain).mpr (Or.inr ⟨rfl, h⟩)⟩

example : ("BP" : String) ≠ "HP" ∧ ("BP" : String) ≠ "LP" ∧ (0 : ℚ) ≤ 0 := by decide

/-- a zero DC gain — the default of `applyRCFilter` — is accepted by the filter -/
theorem applyRC_forward_accepts_zero_dc (x : ZMod N → ℂ) (SR fc : ℝ) (order : ℤ) :
    ∃ y, applyRC false x SR "HP" fc order 0 = .ok y :=
  (applyRC_ok_iff false x SR fc "HP" order 0).mpr ⟨Or.inl rfl, fun h => by cases h⟩

/-- **round trip on the public operations**, in either order of composition (`first = false`:
    filter then compensation; `first = true`: compensation then filter), same kind, cut-off,
    order and DC gain: every bin other than Nyquist is restored -/
theorem applyRC_roundtrip (first : Bool) (x y z : ZMod N → ℂ) (hx : IsReal x) (SR fc : ℝ) (kind : String) (order : ℤ)
    (DCgain : ℚ) (h1 : applyRC first x SR kind fc order DCgain = .ok y)
    (h2 : applyRC (!first) y SR kind fc order DCgain = .ok z) (k : ZMod N) (hny : 2 * k.val ≠ N) :
    𝓕 z k = 𝓕 x k := by
  have hd : 0 < DCgain := by
    cases first
    · exact ((applyRC_ok_iff true y SR fc kind order DCgain).mp ⟨z, h2⟩).2 rfl
    · exact ((applyRC_ok_iff true x SR fc kind order DCgain).mp ⟨y, h1⟩).2 rfl
  have hb := inverse_no_zero_division (N := N) kind SR fc DCgain hd k
  obtain ⟨hy, b1⟩ := applyRC_bins first x y hx SR fc kind order DCgain h1
  obtain ⟨_, b2⟩ := applyRC_bins (!first) y z hy SR fc kind order DCgain h2
  rw [b2 k hny, b1 k hny, mul_assoc, ← zpow_add₀ hb]
  cases first <;> simp

/-- the second call of a round trip is accepted whenever the DC gain is positive and the first
    was -/
theorem applyRC_roundtrip_accepted (first : Bool) (x y : ZMod N → ℂ) (SR fc : ℝ) (kind : String) (order : ℤ)
    (DCgain : ℚ) (hd : 0 < DCgain) (h1 : applyRC first x SR kind fc order DCgain = .ok y) :
    ∃ z, applyRC (!first) y SR kind fc order DCgain = .ok z :=
  (applyRC_ok_iff (!first) y SR fc kind order DCgain).mpr
    ⟨((applyRC_ok_iff first x SR fc kind order DCgain).mp ⟨y, h1⟩).1, fun _ => hd⟩

example : ∃ z : ZMod 4 → ℂ, applyRC (N := 4) true (fun _ => 1) 10 "HP" 3 1 2 = .ok z :=
  (applyRC_ok_iff true _ 10 3 "HP" 1 2).mpr ⟨Or.inl rfl, fun _ => by norm_num⟩

/-- odd lengths (no Nyquist bin): the round trip on the public operations restores the signal -/
theorem applyRC_roundtrip_odd (first : Bool) (x y z : ZMod N → ℂ) (hx : IsReal x) (SR fc : ℝ) (kind : String)
    (order : ℤ) (DCgain : ℚ) (hodd : N % 2 = 1) (h1 : applyRC first x SR kind fc order DCgain = .ok y)
    (h2 : applyRC (!first) y SR kind fc order DCgain = .ok z) : z = x := by
  apply eq_of_dft_eq; funext k
  exact applyRC_roundtrip first x y z hx SR fc kind order DCgain h1 h2 k (by omega)

/-- **even lengths, the Nyquist bin after a round trip**: it is not restored but multiplied by
    `Re(w)²/|w|²` (`= cos²(arg w)`), `w = H(f_Nyq)^order` — the price of discarding the
    imaginary part twice -/
theorem applyRC_roundtrip_nyquist (x y z : ZMod N → ℂ) (hx : IsReal x) (SR fc : ℝ) (kind : String) (order : ℤ)
    (DCgain : ℚ) (h1 : applyRC false x SR kind fc order DCgain = .ok y)
    (h2 : applyRC true y SR kind fc order DCgain = .ok z) (k : ZMod N) (hk : -k = k) :
    𝓕 z k = 𝓕 x k *
      ((((rcBase kind SR fc (DCgain : ℝ) k) ^ order).re ^ 2 /
          Complex.normSq ((rcBase kind SR fc (DCgain : ℝ) k) ^ order) : ℝ) : ℂ) := by
  obtain ⟨hy, _⟩ := applyRC_bins false x y hx SR fc kind order DCgain h1
  rw [applyRC_nyquist true y z hy SR fc kind order DCgain h2 k hk,
    applyRC_nyquist false x y hx SR fc kind order DCgain h1 k hk]
  simp only [if_true, Bool.false_eq_true, if_false, zpow_neg]
  rw [← re_mul_re_inv]
  push_cast; ring

example : -(2 : ZMod 4) = 2 := by decide

/-- for order 1 the factor on the Nyquist bin `k ≠ 0` is `a²/(1+a²)` (HP) resp. `1/(1+a²)` (LP)
    with `a = 2π·f_k/f_cut` … -/
theorem nyquist_factor_order_one (SR fc : ℝ) (hSR : SR ≠ 0) (hfc : fc ≠ 0) (DCgain : ℝ) (k : ZMod N) (hk0 : k ≠ 0) :
    ((baseHP SR fc DCgain k) ^ (1 : ℤ)).re ^ 2 / Complex.normSq ((baseHP SR fc DCgain k) ^ (1 : ℤ)) =
        (2 * Real.pi * freq N SR k * (1 / fc)) ^ 2 / (1 + (2 * Real.pi * freq N SR k * (1 / fc)) ^ 2) ∧
    ((baseLP SR fc k) ^ (1 : ℤ)).re ^ 2 / Complex.normSq ((baseLP SR fc k) ^ (1 : ℤ)) =
        1 / (1 + (2 * Real.pi * freq N SR k * (1 / fc)) ^ 2) := by
  set a : ℝ := 2 * Real.pi * freq N SR k * (1 / fc) with ha
  have hpos : (0 : ℝ) < 1 + a ^ 2 := by positivity
  have ha0 : a ≠ 0 := by
    rw [ha]
    have := freq_ne_zero SR hSR k hk0
    have hpi : (2 * Real.pi : ℝ) ≠ 0 := by positivity
    exact mul_ne_zero (mul_ne_zero hpi this) (one_div_ne_zero hfc)
  constructor
  · rw [zpow_one, baseHP_value SR fc DCgain hSR hfc k hk0, rcHP_value, ← ha, (hp_re_normSq a).1, (hp_re_normSq a).2]
    field_simp
  · rw [zpow_one]; unfold baseLP
    rw [rcLP_value, ← ha, (lp_re_normSq a).1, (lp_re_normSq a).2]
    field_simp

/-- … which is strictly below 1: **a first-order round trip never restores a non-zero Nyquist
    component** (the property claims restoration below Nyquist only; this shows the restriction is
    necessary) -/
theorem nyquist_not_restored (a : ℝ) (ha : a ≠ 0) : a ^ 2 / (1 + a ^ 2) < 1 ∧ 1 / (1 + a ^ 2) < 1 := by
  have hpos : (0 : ℝ) < 1 + a ^ 2 := by positivity
  have h2 : 0 < a ^ 2 := by positivity
  constructor
  · rw [div_lt_one hpos]; linarith
  · rw [div_lt_one hpos]; linarith

/-! ### HP with its default DC gain 0, compensated with a DC gain g: a constant offset in time -/

/-- **the time-domain statement (odd `N`)**: `applyInverseRCFilter(applyRCFilter(x, 'HP'), 'HP',
    DCgain=g)` with the filter's default DC gain 0 differs from `x` by one real constant -/
theorem hp_default_offset_time (x : ZMod N → ℂ) (hx : IsReal x) (SR fc g : ℝ) (hSR : SR ≠ 0) (hfc : fc ≠ 0)
    (order : ℤ) (hodd : N % 2 = 1) :
    ∃ c : ℝ, ∀ j, applyInvHP (applyHP x SR fc 0 order) SR fc g order j = x j + (c : ℂ) := by
  apply offset_of_dft_eq x _ hx (rIHP _ _ _ _ _)
  intro k hk
  exact hp_default_roundtrip x hx SR fc g hSR hfc order k hk (by omega)

/-- the same on the public operations (the compensation's DC gain must be positive to be accepted) -/
theorem applyRC_hp_default_offset (x y z : ZMod N → ℂ) (hx : IsReal x) (SR fc : ℝ) (hSR : SR ≠ 0) (hfc : fc ≠ 0)
    (order : ℤ) (g : ℚ) (hodd : N % 2 = 1) (h1 : applyRCFilter x SR "HP" fc order = .ok y)
    (h2 : applyInverseRCFilter y SR "HP" fc order g = .ok z) :
    ∃ c : ℝ, ∀ j, z j = x j + (c : ℂ) := by
  have hg : 0 < g := ((applyRC_ok_iff true y SR fc "HP" order g).mp ⟨z, h2⟩).2 rfl
  have e1 := (applyRC_dispatch x SR fc order 0).1
  have e2 := (applyRC_dispatch y SR fc order g).2.2.1 hg
  unfold applyRCFilter at h1
  unfold applyInverseRCFilter at h2
  rw [e1] at h1; rw [e2] at h2
  have hy := Except.ok.inj h1
  have hz := Except.ok.inj h2
  rw [← hz, ← hy, Rat.cast_zero]
  exact hp_default_offset_time x hx SR fc g hSR hfc order hodd

example : (∃ y, applyRCFilter (N := 5) (fun _ => 1) 10 "HP" 3 1 = .ok y) ∧
    (∃ z, applyInverseRCFilter (N := 5) (fun _ => 1) 10 "HP" 3 1 (1/2) = .ok z) :=
  ⟨(applyRC_ok_iff false _ 10 3 "HP" 1 0).mpr ⟨Or.inl rfl, fun h => by cases h⟩,
   (applyRC_ok_iff true _ 10 3 "HP" 1 (1/2)).mpr ⟨Or.inl rfl, fun _ => by norm_num⟩⟩

/-- the reverse composition — compensation (DC gain `g`) first, then the default high pass —
    also restores every bin other than DC and Nyquist … -/
theorem hp_default_roundtrip_reverse (x : ZMod N → ℂ) (hx : IsReal x) (SR fc g : ℝ) (hSR : SR ≠ 0) (hfc : fc ≠ 0)
    (order : ℤ) (k : ZMod N) (hk : k ≠ 0) (hny : 2 * k.val ≠ N) :
    𝓕 (applyHP (applyInvHP x SR fc g order) SR fc 0 order) k = 𝓕 x k := by
  rw [hp_bins _ (rIHP _ _ _ _ _) SR fc 0 order k hny, inv_hp_bins x hx SR fc g order k hny,
    baseHP_value SR fc g hSR hfc k hk, baseHP_value SR fc 0 hSR hfc k hk, mul_assoc]
  have hb : rcHP SR fc (freq N SR k : ℝ) ≠ 0 := by
    rw [Ne, rcHP_eq_zero_iff _ _ _ hfc]; exact freq_ne_zero SR hSR k hk
  rw [← zpow_add₀ hb]
  simp

/-- … so for odd `N` it, too, differs from `x` by one real constant -/
theorem hp_default_offset_time_reverse (x : ZMod N → ℂ) (hx : IsReal x) (SR fc g : ℝ) (hSR : SR ≠ 0) (hfc : fc ≠ 0)
    (order : ℤ) (hodd : N % 2 = 1) :
    ∃ c : ℝ, ∀ j, applyHP (applyInvHP x SR fc g order) SR fc 0 order j = x j + (c : ℂ) := by
  apply offset_of_dft_eq x _ hx (rHP _ _ _ _ _)
  intro k hk
  exact hp_default_roundtrip_reverse x hx SR fc g hSR hfc order k hk (by omega)

/-- for a positive order the compensated signal has no DC component left: the constant is
    `−mean(x)` -/
theorem hp_default_roundtrip_dc (x : ZMod N → ℂ) (hx : IsReal x) (SR fc g : ℝ) (order : ℤ) (ho : 0 < order)
    (hny : 2 * (0 : ZMod N).val ≠ N) :
    𝓕 (applyInvHP (applyHP x SR fc 0 order) SR fc g order) 0 = 0 := by
  rw [inv_hp_bins _ (rHP _ _ _ _ _) SR fc g order 0 hny, hp_removes_dc x hx SR fc order ho hny]
  simp

/-! ### orders compose additively, also for the default high pass -/

/-- HP with the default DC gain 0 and positive orders `m`, `n`: order `m` then order `n` is order
    `m + n` on every bin other than Nyquist (the DC bin is `0·0 = 0` on both sides) -/
theorem hp_default_order_add (x : ZMod N → ℂ) (hx : IsReal x) (SR fc : ℝ) (m n : ℤ) (hm : 0 < m) (hn : 0 < n)
    (k : ZMod N) (hny : 2 * k.val ≠ N) :
    𝓕 (applyHP (applyHP x SR fc 0 m) SR fc 0 n) k = 𝓕 (applyHP x SR fc 0 (m + n)) k := by
  rw [hp_bins _ (rHP _ _ _ _ _) SR fc 0 n k hny, hp_bins x hx SR fc 0 m k hny,
    hp_bins x hx SR fc 0 (m + n) k hny, mul_assoc, zpow_add_of_pos _ m n hm hn]

/-- the same on the public operation, for both kinds: with a non-zero DC gain for all integer
    orders, with the default DC gain 0 for positive orders -/
theorem applyRC_order_add (x y z w : ZMod N → ℂ) (hx : IsReal x) (SR fc : ℝ) (kind : String) (m n : ℤ) (DCgain : ℚ)
    (hg : DCgain ≠ 0 ∨ (0 < m ∧ 0 < n))
    (h1 : applyRC false x SR kind fc m DCgain = .ok y) (h2 : applyRC false y SR kind fc n DCgain = .ok z)
    (h3 : applyRC false x SR kind fc (m + n) DCgain = .ok w) (k : ZMod N) (hny : 2 * k.val ≠ N) :
    𝓕 z k = 𝓕 w k := by
  obtain ⟨hy, b1⟩ := applyRC_bins false x y hx SR fc kind m DCgain h1
  obtain ⟨_, b2⟩ := applyRC_bins false y z hy SR fc kind n DCgain h2
  obtain ⟨_, b3⟩ := applyRC_bins false x w hx SR fc kind (m + n) DCgain h3
  rw [b2 k hny, b1 k hny, b3 k hny, mul_assoc]
  simp only [Bool.false_eq_true, if_false]
  congr 1
  rcases hg with hg | ⟨hm, hn⟩
  · have hb : rcBase kind SR fc (DCgain : ℝ) k ≠ 0 := by
      have hd : ((DCgain : ℚ) : ℝ) ≠ 0 := by exact_mod_cast hg
      unfold rcBase; split
      · exact baseHP_ne_zero SR fc _ hd k
      · exact baseLP_ne_zero SR fc k
    rw [zpow_add₀ hb]
  · exact zpow_add_of_pos _ m n hm hn

example : ((0 : ℚ) ≠ 0 ∨ ((0 : ℤ) < 1 ∧ (0 : ℤ) < 2)) := Or.inr ⟨by decide, by decide⟩

/-- without the guard the additivity fails in the exact model (and is `nan` in numpy): order 1
    then order −1 with DC gain 0 leaves `0·0⁻¹ = 0` on the DC bin, order 0 leaves `1` -/
theorem order_add_guard_needed : (0 : ℂ) ^ (1 : ℤ) * (0 : ℂ) ^ (-1 : ℤ) ≠ (0 : ℂ) ^ ((1 : ℤ) + (-1 : ℤ)) := by
  simp

/-- on the public operations: the compensation of order `n` is the filter of order `−n` (for a
    positive DC gain, which the compensation insists on); for an unknown kind both raise -/
theorem applyRC_inverse_is_negative_order (x : ZMod N → ℂ) (SR fc : ℝ) (kind : String) (n : ℤ) (DCgain : ℚ)
    (hd : 0 < DCgain) :
    applyRC true x SR kind fc n DCgain = applyRC false x SR kind fc (-n) DCgain := by
  unfold applyRC
  simp [Gen.dcGainBad, hd, rcOrderInverse, rcOrderForward]

/-! ### custom transfer function on the public operation: `invert=True` undoes the application -/

/-- for a positive transfer function (`tf_amp > 0` everywhere) `invert=True` after the plain
    application — or the other way round (`first = true`) — restores the **whole** signal, for odd
    and even lengths (the interpolated function is real, so the Nyquist bin is restored too) -/
theorem applyCustomC_roundtrip (first : Bool) (x y z : ZMod N → ℂ) (hx : IsReal x) (SR : ℚ) (hSR : 0 < SR)
    (tfFreqs tfAmp : List ℚ) (hpos : ∀ a ∈ tfAmp, 0 < a)
    (h1 : applyCustomC x SR tfFreqs tfAmp first = .ok y) (h2 : applyCustomC y SR tfFreqs tfAmp (!first) = .ok z) :
    z = x := by
  obtain ⟨hs, hne, hlen⟩ := applyCustomC_ok_axis x y SR tfFreqs tfAmp first h1
  obtain ⟨hy, b1⟩ := applyCustomC_bins x y hx SR hSR tfFreqs tfAmp first h1
  obtain ⟨_, b2⟩ := applyCustomC_bins y z hy SR hSR tfFreqs tfAmp (!first) h2
  apply eq_of_dft_eq; funext k
  have hq : (0 : ℚ) < interpQ tfFreqs tfAmp (absFreqQ N SR k.val) := interpQ_pos tfFreqs tfAmp hs hlen hne hpos _
  have hb : ((interpQ tfFreqs tfAmp (absFreqQ N SR k.val) : ℚ) : ℂ) ≠ 0 := by exact_mod_cast hq.ne'
  rw [b2 k, b1 k, mul_assoc, ← zpow_add₀ hb]
  cases first <;> simp

/-- the second call is accepted whenever the first is (the checks do not look at the signal or at
    `invert`) -/
theorem applyCustomC_roundtrip_accepted (first : Bool) (x y : ZMod N → ℂ) (SR : ℚ) (tfFreqs tfAmp : List ℚ)
    (h1 : applyCustomC x SR tfFreqs tfAmp first = .ok y) : ∃ z, applyCustomC y SR tfFreqs tfAmp (!first) = .ok z :=
  (applyCustomC_ok_iff y SR tfFreqs tfAmp (!first)).mpr ((applyCustomC_ok_iff x SR tfFreqs tfAmp first).mp ⟨y, h1⟩)

example : ∃ y : ZMod 4 → ℂ, applyCustomC (N := 4) (fun _ => 1) 10 [0, 1, 5] [1, 2, 1/2] false = .ok y :=
  (applyCustomC_ok_iff _ 10 [0, 1, 5] [1, 2, 1/2] false).mpr ⟨by decide +kernel, rfl⟩

example : ∀ a ∈ ([1, 2, 1/2] : List ℚ), 0 < a := by decide +kernel

/-- what the guard is for: with a transfer function that vanishes at some `|f_k|`, numpy's
    `transferfun ** -1` is `inf` there; Lean's `0⁻¹ = 0` would instead silently delete the bin -/
theorem custom_invert_zero_artifact : ((0 : ℚ) : ℂ) ^ (-1 : ℤ) = 0 := by simp

/-! ### conditioning: how much the compensation amplifies an error of its input -/

/-- the bound on the amplification per order: `√(1 + (f_cut·N/(2π·SR))²)` for HP (attained at the
    lowest non-zero frequency `SR/N`), `√(1 + (π·SR/f_cut)²)` for LP (attained at Nyquist) -/
noncomputable def kappa (kind : String) (N : ℕ) (SR fc : ℝ) : ℝ :=
  if kind = "HP" then Real.sqrt (1 + (fc * N / (2 * Real.pi * SR)) ^ 2)
  else Real.sqrt (1 + (Real.pi * SR / fc) ^ 2)

/-- two inputs of the compensation (say the exactly filtered signal and the one the floating-point
    filter delivered): in every bin other than Nyquist their difference comes out multiplied by
    exactly `|H(f_k)|⁻¹` per order -/
theorem compensation_error_bins (y y2 z z2 : ZMod N → ℂ) (hy : IsReal y) (hy2 : IsReal y2) (SR fc : ℝ) (kind : String)
    (order : ℤ) (DCgain : ℚ) (h1 : applyRC true y SR kind fc order DCgain = .ok z)
    (h2 : applyRC true y2 SR kind fc order DCgain = .ok z2) (k : ZMod N) (hny : 2 * k.val ≠ N) :
    ‖𝓕 z k - 𝓕 z2 k‖ = ‖𝓕 y k - 𝓕 y2 k‖ * ‖(rcBase kind SR fc (DCgain : ℝ) k)⁻¹‖ ^ order := by
  obtain ⟨_, b1⟩ := applyRC_bins true y z hy SR fc kind order DCgain h1
  obtain ⟨_, b2⟩ := applyRC_bins true y2 z2 hy2 SR fc kind order DCgain h2
  rw [b1 k hny, b2 k hny, ← sub_mul, norm_mul]
  simp only [if_true, norm_zpow, norm_inv, inv_zpow', zpow_neg]

/-- **conditioning bound (partial)**: for an order `n ≥ 0` the difference of two compensated
    signals is, in every bin other than Nyquist (and other than DC for HP), at most `κⁿ` times the
    difference of the inputs, `κ = kappa kind N SR f_cut`.
    Partial: this is the exact propagation of an input perturbation through the compensation; the
    rounding errors of numpy's `fft`/`ifft` themselves are not modelled (they are measured by the
    correspondence check). -/
theorem compensation_conditioning_partial (y y2 z z2 : ZMod N → ℂ) (hy : IsReal y) (hy2 : IsReal y2) (SR fc : ℝ)
    (hSR : SR ≠ 0) (hfc : fc ≠ 0) (kind : String) (n : ℕ) (DCgain : ℚ)
    (h1 : applyRC true y SR kind fc (n : ℤ) DCgain = .ok z) (h2 : applyRC true y2 SR kind fc (n : ℤ) DCgain = .ok z2)
    (k : ZMod N) (hny : 2 * k.val ≠ N) (hk : kind = "HP" → k ≠ 0) :
    ‖𝓕 z k - 𝓕 z2 k‖ ≤ ‖𝓕 y k - 𝓕 y2 k‖ * (kappa kind N SR fc) ^ n := by
  rw [compensation_error_bins y y2 z z2 hy hy2 SR fc kind n DCgain h1 h2 k hny, zpow_natCast]
  apply mul_le_mul_of_nonneg_left _ (norm_nonneg _)
  apply pow_le_pow_left₀ (norm_nonneg _)
  unfold rcBase kappa
  split
  · rename_i hkind
    exact baseHP_inv_norm_le SR fc _ hSR hfc k (hk hkind)
  · exact baseLP_inv_norm_le SR fc k

example : (∃ z : ZMod 5 → ℂ, applyRC (N := 5) true (fun _ => 1) 10 "HP" 3 ((2 : ℕ) : ℤ) 1 = .ok z) ∧
    (1 : ZMod 5) ≠ 0 ∧ 2 * (1 : ZMod 5).val ≠ 5 :=
  ⟨(applyRC_ok_iff true _ 10 3 "HP" _ 1).mpr ⟨Or.inl rfl, fun _ => by norm_num⟩, by decide, by decide⟩

/-- on the DC bin of a high pass the amplification is `1/DCgain` per order -/
theorem compensation_error_dc (SR fc : ℝ) (DCgain : ℚ) :
    ‖(rcBase (N := N) "HP" SR fc (DCgain : ℝ) 0)⁻¹‖ = |(DCgain : ℝ)|⁻¹ := by
  rw [(rcBase_kinds SR fc _ 0).1, baseHP_dc, norm_inv, Complex.norm_real, Real.norm_eq_abs]

end BB.C13
