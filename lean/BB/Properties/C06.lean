/-
  Property C06 — an element is valid iff all channels share sample rate and point count.
-/
import BB.Proofs.Element
import BB.Proofs.G2Element
import BB.Model.Sequence
import BB.Proofs.G11Elem

namespace BB.C06
open BB BB.Element
open BB.G2

/-- Validation (the three stages as coded, including `numpy.allclose(…, atol=min(SRs))`) succeeds
    iff all channels have the same sample rate and the same number of points, and raises
    ElementDurationError otherwise — for channels whose sample rate is a number ≥ 1 and whose
    point count is their duration times the rate, rounded (see `chan_points_link`). -/
theorem validate_iff_same_SR_and_points (e : Element) (srs : List Val) (durs : List ℚ) (npts : List ℤ) (s : ℚ)
    (hne : (Dict.vals e.chans).isEmpty = false)
    (h1 : (Dict.vals e.chans).mapM chanSR = .ok srs)
    (h2 : (Dict.vals e.chans).mapM chanDuration = .ok durs)
    (h3 : (Dict.vals e.chans).mapM chanPoints = .ok npts)
    (hat : allSame srs = true → atolOf srs = .ok s ∧ 1 ≤ s ∧
      ∀ i (hi : i < durs.length) (hj : i < npts.length), npts[i] = rhe (durs[i] * s)) :
    ((∃ m, e.validate = .ok m) ↔ (allSame srs = true ∧ allSame npts = true)) ∧
    ((¬ (allSame srs = true ∧ allSame npts = true)) → e.validate = .error .elemdur) :=
  validate_iff e srs durs npts s hne h1 h2 h3 hat

/-- The link used above holds for both kinds of channel: a blueprint's points are
    `round(duration · SR)`, and a raw array of `n` samples has duration `n/SR`, so
    `round(duration · SR) = n`. -/
theorem chan_points_link (ent : ChEntry) (sr : ℚ) (hsr : sr ≠ 0) (hS : chanSR ent = .ok (.num sr))
    (d : ℚ) (n : ℤ) (hd : chanDuration ent = .ok d) (hn : chanPoints ent = .ok n) : n = rhe (d * sr) := by
  obtain ⟨data, flags⟩ := ent
  cases data with
  | bp b =>
    simp only [chanSR, Except.ok.injEq] at hS
    simp only [chanDuration, BP.duration] at hd
    simp only [chanPoints, BP.points, hS] at hn
    cases hr : b.resolveWaits with
    | error e => simp [hr, Except.map] at hd
    | ok ds =>
      simp only [hr, Except.map, Except.ok.injEq] at hd hn
      rw [← hd, ← hn]
  | arr a s =>
    simp only [chanSR, Except.ok.injEq] at hS
    subst hS
    simp only [chanDuration, hsr, if_false, Except.ok.injEq] at hd
    simp only [chanPoints, Except.ok.injEq] at hn
    rw [← hd, ← hn]
    have : ((arrLen a : ℕ) : ℤ) / sr * sr = ((arrLen a : ℕ) : ℤ) := by field_simp
    rw [this]
    exact (rhe_int _).symm
  | broken => simp [chanSR] at hS

/-- A sequence never accepts an element that fails validation (and is left unchanged). -/
theorem addElement_validates (s : Sequence) (pos : Int) (e : Element) :
    ((s.addElement pos e).err = none → ∃ m, e.validate = .ok m) ∧
    (∀ er, e.validate = .error er → (s.addElement pos e).st = s ∧ (s.addElement pos e).err = some er) := by
  unfold Sequence.addElement
  constructor
  · intro h
    cases hv : e.validate with
    | error er => simp [hv] at h
    | ok m => exact ⟨m, rfl⟩
  · intro er hv
    simp [hv]

/-- For an accepted element whose segment durations are whole numbers of samples, a blueprint
    channel's forged waveform and markers have exactly `points` samples. -/
theorem forged_length_is_points (b : BP) (f : Forged) (sr : ℚ) (ds : List ℚ) (h : forgeBP b = .ok f)
    (hsr : b.SR = .num sr) (hd : b.resolveWaits = .ok ds)
    (hal : ∀ d ∈ ds, ∃ m : ℕ, d * sr = m) :
    b.points = .ok (f.N : ℤ) ∧ f.m1.length = f.N ∧ f.m2.length = f.N ∧ sumN (f.blocks.map Blk.len) = f.N := by
  obtain ⟨sr', durs, ns, hsr', hd', hn, _, rfl⟩ := (forge_ok_iff b f).mp h
  rw [hsr] at hsr'; cases hsr'
  rw [hd] at hd'; cases hd'
  have hlen := resolveGo_length _ _ _ hd
  obtain ⟨_, hns⟩ := countsGo_ok sr ds ns hn
  have hnl : ns.length = b.segs.length := by rw [countsGo_length sr ds ns hn, hlen]
  have hl := assemble_lengths b sr ns hnl
  simp only at hl
  refine ⟨?_, hl.2.1, hl.2.2.1, hl.2.2.2.1⟩
  simp only [BP.points, hsr, hd, Except.map]
  congr 1
  have hc := aligned_counts sr ds hal
  rw [hl.1, hns]
  simp only [segCount]
  have : rhe (sumR ds * sr) = ((sumN (ds.map (fun d => (rhe (d * sr)).toNat)) : ℕ) : ℤ) := by
    rw [← hc]; exact_mod_cast rhe_int _
  rw [this]

/-- ... and `Element.duration = points / SR` (the blueprint's own duration and points agree). -/
theorem duration_is_points_over_SR (b : BP) (sr : ℚ) (ds : List ℚ) (hsr0 : sr ≠ 0)
    (hsr : b.SR = .num sr) (hd : b.resolveWaits = .ok ds) (hal : ∀ d ∈ ds, ∃ m : ℕ, d * sr = m) :
    ∃ (p : ℤ) (d : ℚ), b.points = .ok p ∧ b.duration = .ok d ∧ d = (p : ℚ) / sr := by
  refine ⟨rhe (sumR ds * sr), sumR ds, by simp [BP.points, hsr, hd, Except.map], by simp [BP.duration, hd, Except.map], ?_⟩
  have hc := aligned_counts sr ds hal
  have : rhe (sumR ds * sr) = ((sumN (ds.map (fun d => (rhe (d * sr)).toNat)) : ℕ) : ℤ) := by
    rw [← hc]; exact_mod_cast rhe_int _
  rw [this]
  push_cast
  rw [hc]
  field_simp

/-- Raw-array channels come back sample for sample as given. -/
theorem raw_passthrough (e : Element) (ch : Chan) (wfm : List ℚ) (sr : Val) (kw : Dict String (List ℚ))
    (h : (e.addArray ch wfm sr kw).err = none) :
    Dict.get? (e.addArray ch wfm sr kw).st.chans ch =
      some { data := .arr (Dict.upsert (kw.foldl (fun d (k, a) => Dict.upsert d k a) []) "wfm" wfm) sr } := by
  unfold addArray at *
  by_cases hall : kw.all (fun (_, a) => a.length == wfm.length) = true
  · simp only [hall, if_true]
    exact Dict.get?_upsert_self _ _ _
  · simp [hall] at h

/-- `addArray` refuses marker arrays whose length differs from the waveform's. -/
theorem addArray_refuses (e : Element) (ch : Chan) (wfm : List ℚ) (sr : Val) (kw : Dict String (List ℚ))
    (k : String) (a : List ℚ) (hk : (k, a) ∈ kw) (hl : a.length ≠ wfm.length) :
    (e.addArray ch wfm sr kw).err = some .value := by
  unfold addArray
  have : kw.all (fun (_, a) => a.length == wfm.length) = false := by
    rw [Bool.eq_false_iff]
    intro hall
    rw [List.all_eq_true] at hall
    have := hall (k, a) hk
    simp at this
    exact hl this
  simp [this]

/-! ### non-vacuity -/

example : allClose [1, 1 + 1/300] 100 = true ∧ rhe (1 * 100) = 100 ∧ rhe ((1 + 1/300) * 100) = 100 := by
  decide +kernel

/-! ## G2 additions -/

/-! ### what an accepted validation says about every channel -/

/-- **`Element.SR` is the common rate** (clause "Element.SR is the common rate"): if
    `validateDurations` accepts and caches `(v, d)`, then every channel — blueprint or raw array —
    reports the sample rate `v`, `Element.SR` returns `v` and `Element.duration` returns `d`. -/
theorem validate_ok_common_SR (e : Element) (v : Val) (d : ℚ) (h : e.validate = .ok (v, d)) :
    (∀ ent ∈ Dict.vals e.chans, chanSR ent = .ok v) ∧ e.getSR = .ok v ∧ e.duration = .ok d := by
  obtain ⟨p, hall, _, _⟩ := validate_ok_channels e v d h
  exact ⟨fun ent hent => (hall ent hent).1, by simp [getSR, h, Except.map],
    by simp [Element.duration, h, Except.map]⟩

/-- **`Element.points` is every channel's point count**: if validation accepts, `Element.points`
    returns a number `p` and every channel's own point count (a blueprint's `points`, a raw array's
    `len(wfm)`) is `p`. -/
theorem validate_ok_common_points (e : Element) (m : Val × ℚ) (h : e.validate = .ok m) :
    ∃ p : ℤ, e.points = .ok p ∧ ∀ ent ∈ Dict.vals e.chans, chanPoints ent = .ok p := by
  obtain ⟨v, d⟩ := m
  obtain ⟨p, hall, hp, _⟩ := validate_ok_channels e v d h
  exact ⟨p, hp, fun ent hent => (hall ent hent).2⟩

/-! ### the iff without the bookkeeping hypotheses -/

/-- every channel has a duration and a point count as soon as its sample rate is a non-zero number
    and (for a blueprint) the waits resolve -/
theorem chan_duration_points_ok (ent : ChEntry) (s : ℚ) (hs : s ≠ 0) (hS : chanSR ent = .ok (.num s))
    (hbp : ∀ b, ent.data = .bp b → ∃ ds, b.resolveWaits = .ok ds) :
    (∃ d, chanDuration ent = .ok d) ∧ (∃ n, chanPoints ent = .ok n) := by
  obtain ⟨data, flags⟩ := ent
  cases data with
  | bp b =>
    obtain ⟨ds, hds⟩ := hbp b rfl
    simp only [chanSR, Except.ok.injEq] at hS
    exact ⟨⟨sumR ds, by simp [chanDuration, BP.duration, hds, Except.map]⟩,
      ⟨rhe (sumR ds * s), by simp [chanPoints, BP.points, hS, hds, Except.map]⟩⟩
  | arr a sr =>
    simp only [chanSR, Except.ok.injEq] at hS
    subst hS
    exact ⟨⟨((arrLen a : Nat) : Int) / s, by simp [chanDuration, hs]⟩, ⟨(arrLen a : Nat), by simp [chanPoints]⟩⟩
  | broken => simp [chanSR] at hS

/-- helper: if every member maps to `c`, every result of a successful `mapM` is `c` -/
theorem mapM_const_mem {α β : Type} (f : α → Except Err β) (l : List α) (r : List β)
    (h : l.mapM f = .ok r) (c : β) (hc : ∀ x ∈ l, f x = .ok c) : ∀ y ∈ r, y = c := by
  intro y hy
  obtain ⟨i, hi, rfl⟩ := List.getElem_of_mem hy
  have hl := mapM_ok_length f l r h
  have h1 := mapM_ok_getElem f l r h i (by omega) hi
  rw [hc _ (List.getElem_mem _)] at h1
  exact (Except.ok.inj h1).symm

/-- **validation succeeds iff all channels share sample rate and point count, else
    ElementDurationError** (first sentence of the property), with the bookkeeping hypotheses of
    `validate_iff_same_SR_and_points` discharged: for every non-empty element in which every
    channel's sample rate is a number ≥ 1 and every blueprint's `waituntil`s resolve (so that
    durations and point counts exist), `validateDurations` accepts iff there are a rate `v` and a
    count `n` that every channel — blueprint or raw array — reports, and raises
    ElementDurationError otherwise.  (For sample rates below 1 the iff is false, see
    `validate_iff_false_below_unit_SR`.) -/
theorem validate_iff_common_SR_and_points (e : Element) (hne : e.chans ≠ [])
    (hsr : ∀ ent ∈ Dict.vals e.chans, ∃ s : ℚ, 1 ≤ s ∧ chanSR ent = .ok (.num s))
    (hbp : ∀ ent ∈ Dict.vals e.chans, ∀ b, ent.data = .bp b → ∃ ds, b.resolveWaits = .ok ds) :
    ((∃ m, e.validate = .ok m) ↔
      ∃ (v : Val) (n : ℤ), ∀ ent ∈ Dict.vals e.chans, chanSR ent = .ok v ∧ chanPoints ent = .ok n) ∧
    ((¬ ∃ (v : Val) (n : ℤ), ∀ ent ∈ Dict.vals e.chans, chanSR ent = .ok v ∧ chanPoints ent = .ok n) →
      e.validate = .error .elemdur) := by
  have hok : ∀ ent ∈ Dict.vals e.chans, (∃ d, chanDuration ent = .ok d) ∧ (∃ n, chanPoints ent = .ok n) := by
    intro ent hent
    obtain ⟨s, hs1, hS⟩ := hsr ent hent
    exact chan_duration_points_ok ent s (by intro h0; rw [h0] at hs1; exact absurd hs1 (by decide)) hS
      (hbp ent hent)
  obtain ⟨srs, h1⟩ := mapM_ok_of_forall_exists chanSR (Dict.vals e.chans)
    (fun ent hent => by obtain ⟨s, _, hS⟩ := hsr ent hent; exact ⟨_, hS⟩)
  obtain ⟨durs, h2⟩ := mapM_ok_of_forall_exists chanDuration (Dict.vals e.chans) (fun ent hent => (hok ent hent).1)
  obtain ⟨npts, h3⟩ := mapM_ok_of_forall_exists chanPoints (Dict.vals e.chans) (fun ent hent => (hok ent hent).2)
  have hl1 := mapM_ok_length _ _ _ h1
  have hl2 := mapM_ok_length _ _ _ h2
  have hl3 := mapM_ok_length _ _ _ h3
  cases hvals : Dict.vals e.chans with
  | nil =>
    have : e.chans = [] := by simpa [Dict.vals] using hvals
    exact absurd this hne
  | cons ent0 rest =>
    have hne' : (Dict.vals e.chans).isEmpty = false := by rw [hvals]; rfl
    obtain ⟨s0, hs0, hS0⟩ := hsr ent0 (by rw [hvals]; simp)
    have hs0ne : s0 ≠ 0 := by intro h0; rw [h0] at hs0; exact absurd hs0 (by decide)
    have hat : allSame srs = true → atolOf srs = .ok s0 ∧ 1 ≤ s0 ∧
        ∀ i (hi : i < durs.length) (hj : i < npts.length), npts[i] = rhe (durs[i] * s0) := by
      intro hsame
      have hhead : chanSR ent0 = .ok (srs.headD .none) :=
        mapM_allSame chanSR _ srs h1 hsame .none ent0 (by rw [hvals]; simp)
      have hh : srs.headD .none = .num s0 := by
        rw [hS0] at hhead; exact (Except.ok.inj hhead).symm
      have hall : ∀ x ∈ srs, x = .num s0 := fun x hx => by rw [allSame_mem srs hsame .none x hx, hh]
      have hrep : srs = List.replicate (rest.length + 1) (.num s0) := by
        rw [List.eq_replicate_iff]
        exact ⟨by rw [hl1, hvals]; rfl, hall⟩
      refine ⟨by rw [hrep]; exact atolOf_replicate _ _, hs0, ?_⟩
      intro i hi hj
      have hiv : i < (Dict.vals e.chans).length := by omega
      have hsi : chanSR (Dict.vals e.chans)[i] = .ok (.num s0) := by
        have := mapM_ok_getElem chanSR _ _ h1 i hiv (by omega)
        rw [this, hall _ (List.getElem_mem _)]
      exact chan_points_link (Dict.vals e.chans)[i] s0 hs0ne hsi durs[i] npts[i]
        (mapM_ok_getElem chanDuration _ _ h2 i hiv hi) (mapM_ok_getElem chanPoints _ _ h3 i hiv hj)
    have key := validate_iff_same_SR_and_points e srs durs npts s0 hne' h1 h2 h3 hat
    have hconv : (allSame srs = true ∧ allSame npts = true) ↔
        ∃ (v : Val) (n : ℤ), ∀ ent ∈ ent0 :: rest, chanSR ent = .ok v ∧ chanPoints ent = .ok n := by
      rw [← hvals]
      constructor
      · rintro ⟨ha, hb⟩
        exact ⟨srs.headD .none, npts.headD 0, fun ent hent =>
          ⟨mapM_allSame chanSR _ srs h1 ha .none ent hent, mapM_allSame chanPoints _ npts h3 hb 0 ent hent⟩⟩
      · rintro ⟨v, n, hvn⟩
        exact ⟨allSame_of_forall srs v (mapM_const_mem chanSR _ srs h1 v (fun x hx => (hvn x hx).1)),
          allSame_of_forall npts n (mapM_const_mem chanPoints _ npts h3 n (fun x hx => (hvn x hx).2))⟩
    rw [← hconv]
    exact key

/-- non-vacuity of `validate_iff_common_SR_and_points`: a blueprint channel (10 Sa/s, durations
    1 + 1 s) beside a raw-array channel of 20 samples at 10 Sa/s satisfies every hypothesis and
    is accepted; with 19 samples the hypotheses still hold and the element is refused. -/
def exBP : BP :=
  { segs := [ { name := "ramp", fn := Fn.rampFn, args := [.num 0, .num 1], dur := .num 1 }
            , { name := "ramp2", fn := Fn.rampFn, args := [.num 0, .num 1], dur := .num 1 } ]
    SR := .num 10 }
/-- example element: `exBP` on channel 1, a raw array of `n` zeros at 10 Sa/s on channel "raw" -/
def exEl (n : Nat) : Element :=
  { chans := [ (.int 1, { data := .bp exBP })
             , (.str "raw", { data := .arr [("wfm", List.replicate n 0)] (.num 10) }) ] }

example : (exEl 20).chans ≠ [] ∧
    (∀ ent ∈ Dict.vals (exEl 20).chans, chanSR ent = .ok (.num 10)) ∧ (1 : ℚ) ≤ 10 ∧
    exBP.resolveWaits = .ok [1, 1] ∧
    (exEl 20).validate = .ok (.num 10, 2) ∧ (exEl 19).validate = .error .elemdur := by
  decide +kernel

/-- **the `≥ 1` hypothesis is needed**: at a common sample rate of 1/10 Sa/s two blueprint channels
    of 10 s and 14 s both have 1 point (`round(1.0) = round(1.4) = 1`), yet stage 2
    (`numpy.allclose(durations, durations[0], atol=min(SRs))`, here `atol = 0.1`) refuses the
    element: the iff of the property fails in the model (and in the code) for sample rates below
    1 Sa/s. -/
theorem validate_iff_false_below_unit_SR :
    ∃ e : Element, (∀ ent ∈ Dict.vals e.chans, chanSR ent = .ok (.num (1/10)) ∧ chanPoints ent = .ok 1) ∧
      e.validate = .error .elemdur := by
  refine ⟨{ chans :=
      [ (.int 1, { data := .bp { segs := [{ name := "ramp", fn := Fn.rampFn, args := [.num 0, .num 1], dur := .num 10 }], SR := .num (1/10) } })
      , (.int 2, { data := .bp { segs := [{ name := "ramp", fn := Fn.rampFn, args := [.num 0, .num 1], dur := .num 14 }], SR := .num (1/10) } }) ] }, ?_, ?_⟩
  · decide +kernel
  · decide +kernel

/-! ### every delivered array has exactly `Element.points` samples -/

/-- the lengths of everything `getArrays` delivers for one channel that has one entry per sample:
    a forged blueprint's waveform (its blocks together), marker 1, marker 2 and time axis; a raw-array
    channel's stored arrays (waveform and markers) and, when asked for, its time axis -/
def outLens : ChOut → List Nat
  | .forged f _ _ => [sumN (f.blocks.map Blk.len), f.m1.length, f.m2.length, f.N]
  | .arrays a _ tm => a.map (·.2.length) ++ (match tm with | some (n, _) => [n] | none => [])

/-- all resolved segment durations of the blueprint are whole numbers of samples -/
def WholeSamples (b : BP) : Prop :=
  ∀ sr ds, b.SR = .num sr → b.resolveWaits = .ok ds → ∀ d ∈ ds, ∃ m : ℕ, d * sr = m

/-- **forged length = points, at element level** (clause "For an accepted element whose segment
    durations are whole numbers of samples, every channel's forged waveform and markers have exactly
    Element.points samples"): for every element that validation accepts and `getArrays` forges,
    whose blueprint durations are whole numbers of samples and whose raw-array channels are as
    `addArray` stores them (`RawWF`, preserved by every public element operation): `Element.points`
    returns `p`, `getArrays` returns the element's channels in order, and every array delivered for
    every channel — waveform, markers, time axis, blueprint or raw — has exactly `p` samples. -/
theorem getArrays_lengths_are_points (e : Element) (m : Val × ℚ) (t : Bool) (out : Dict Chan ChOut)
    (hv : e.validate = .ok m) (hg : e.getArrays t = .ok out) (hwf : RawWF e)
    (hal : ∀ ent ∈ Dict.vals e.chans, ∀ b, ent.data = .bp b → WholeSamples b) :
    ∃ p : ℤ, e.points = .ok p ∧ Dict.keys out = e.channels ∧
      ∀ co ∈ out, ∀ n ∈ outLens co.2, (n : ℤ) = p := by
  obtain ⟨v, d⟩ := m
  obtain ⟨p, hall, hp, _⟩ := validate_ok_channels e v d hv
  refine ⟨p, hp, getArrays_channels e t out hg, ?_⟩
  obtain ⟨hl, hpt⟩ := getArrays_pointwise e t out hg
  intro co hco n hn
  obtain ⟨i, hi, rfl⟩ := List.getElem_of_mem hco
  have hi' : i < e.chans.length := by omega
  obtain ⟨_, hout⟩ := hpt i hi' hi
  have hmem : (e.chans[i]).2 ∈ Dict.vals e.chans := by
    unfold Dict.vals
    exact List.mem_map_of_mem (List.getElem_mem hi')
  have hpts := (hall _ hmem).2
  generalize (e.chans[i]).2 = ent at hout hmem hpts
  generalize (out[i]).2 = o at hout hn
  obtain ⟨data, flags⟩ := ent
  cases data with
  | bp b =>
    simp only [chanOut] at hout
    cases hf : forgeBP b with
    | error er => simp [hf, Except.map] at hout
    | ok f =>
      simp only [hf, Except.map, Except.ok.injEq] at hout
      subst hout
      obtain ⟨sr, ds, ns, hsr, hd, _, _, _⟩ := (forge_ok_iff b f).mp hf
      have hw := hal _ hmem b rfl sr ds hsr hd
      obtain ⟨hbp, h1, h2, h3⟩ := forged_length_is_points b f sr ds hf hsr hd hw
      simp only [chanPoints] at hpts
      rw [hbp] at hpts
      have hN : (f.N : ℤ) = p := Except.ok.inj hpts
      simp only [outLens, List.mem_cons, List.not_mem_nil, or_false] at hn
      rcases hn with rfl | rfl | rfl | rfl
      · rw [h3]; exact hN
      · rw [h1]; exact hN
      · rw [h2]; exact hN
      · exact hN
  | arr a sr =>
    simp only [chanPoints, Except.ok.injEq] at hpts
    have hawf := hwf _ hmem a sr rfl
    have hcases : ∃ tm, o = .arrays a flags tm ∧ ∀ x s, tm = some (x, s) → x = arrLen a := by
      simp only [chanOut] at hout
      split at hout
      · split at hout
        · split at hout
          · simp at hout
          · simp only [Except.ok.injEq] at hout
            exact ⟨_, hout.symm, by intro x s h; simp at h; exact h.1.symm⟩
        · simp at hout
      · simp only [Except.ok.injEq] at hout
        exact ⟨none, hout.symm, by intro x s h; simp at h⟩
    obtain ⟨tm, rfl, htm⟩ := hcases
    simp only [outLens, List.mem_append, List.mem_map] at hn
    rcases hn with ⟨q, hq, rfl⟩ | hn
    · rw [hawf.2 q hq]; exact hpts
    · cases tm with
      | none => simp at hn
      | some xs =>
        obtain ⟨x, s⟩ := xs
        simp only [List.mem_cons, List.not_mem_nil, or_false] at hn
        rw [hn, htm x s rfl]; exact hpts
  | broken => simp [chanOut] at hout

/-- `RawWF` holds for the empty element and is kept by `addBluePrint`, `addArray` (accepted or
    refused), `addFlags`, `changeArg` and `changeDuration`: the hypothesis of the length theorem is
    an invariant of the public element API -/
theorem rawWF_public_api (e : Element) (h : RawWF e) :
    RawWF ({} : Element) ∧
    (∀ ch b, RawWF (e.addBluePrint ch b).st) ∧
    (∀ ch wfm sr kw, RawWF (e.addArray ch wfm sr kw).st) ∧
    (∀ ch fl, RawWF (e.addFlags ch fl).st) ∧
    (∀ ch name arg value all, RawWF (e.changeArg ch name arg value all).st) ∧
    (∀ ch name dur all, RawWF (e.changeDuration ch name dur all).st) :=
  ⟨rawWF_empty, fun ch b => rawWF_addBluePrint e ch b h, fun ch wfm sr kw => rawWF_addArray e ch wfm sr kw h,
    fun ch fl => rawWF_addFlags e ch fl h, fun ch _ _ _ _ => rawWF_withBP e ch _ h,
    fun ch _ _ _ => rawWF_withBP e ch _ h⟩

/-- non-vacuity: the mixed element `exEl 20` satisfies every hypothesis; its 20 points are the
    length of everything delivered -/
example : (exEl 20).validate = .ok (.num 10, 2) ∧ (exEl 20).points = .ok 20 ∧
    ((exEl 20).getArrays true).map (fun out => out.map (fun co => outLens co.2)) =
      .ok [[20, 20, 20, 20], [20, 20]] := by
  decide +kernel

/-- non-vacuity of `WholeSamples`: 1 s at 10 Sa/s is 10 samples -/
theorem exBP_wholeSamples : WholeSamples exBP := by
  intro sr ds hsr hd d hdm
  have h1 : sr = 10 := by
    have : exBP.SR = .num 10 := rfl
    rw [this] at hsr; simpa using hsr.symm
  have h2 : ds = [1, 1] := by
    have : exBP.resolveWaits = .ok [1, 1] := by decide +kernel
    rw [this] at hd; simpa using hd.symm
  subst h1 h2
  simp only [List.mem_cons, List.not_mem_nil, or_false, or_self] at hdm
  exact ⟨10, by rw [hdm]; norm_num⟩

example : RawWF (exEl 20) := by
  intro ent hent a sr hd
  simp only [exEl, Dict.vals, List.map_cons, List.map_nil, List.mem_cons, List.not_mem_nil, or_false] at hent
  rcases hent with rfl | rfl
  · simp at hd
  · simp only [ChData.arr.injEq] at hd
    rw [← hd.1]
    refine ⟨⟨_, rfl⟩, ?_⟩
    intro p hp
    simp only [List.mem_cons, List.not_mem_nil, or_false] at hp
    subst hp
    rfl

/-! ### `Element.duration = points / SR`, and each blueprint agrees -/

/-- **duration, points and SR agree** (clause "Element.duration equals points/SR, Element.SR is the
    common rate and each blueprint's own points/duration agree with them"): for every element that
    validation accepts with a numeric non-zero sample rate `sr` and whose blueprint durations are whole
    numbers of samples: `Element.SR = sr`, `Element.points = p`, `Element.duration = p / sr`, and
    every blueprint channel has `SR = sr`, `points = p`, `duration = p / sr`. -/
theorem element_duration_points_SR_agree (e : Element) (sr d : ℚ) (hv : e.validate = .ok (.num sr, d))
    (hsr0 : sr ≠ 0)
    (hal : ∀ ent ∈ Dict.vals e.chans, ∀ b, ent.data = .bp b → WholeSamples b) :
    ∃ p : ℤ, e.getSR = .ok (.num sr) ∧ e.points = .ok p ∧ e.duration = .ok ((p : ℚ) / sr) ∧
      ∀ ent ∈ Dict.vals e.chans, ∀ b, ent.data = .bp b →
        b.SR = .num sr ∧ b.points = .ok p ∧ b.duration = .ok ((p : ℚ) / sr) := by
  obtain ⟨p, hall, hp, ent0, hhead, hd0⟩ := validate_ok_channels e (.num sr) d hv
  obtain ⟨_, hSR, hdur⟩ := validate_ok_common_SR e (.num sr) d hv
  have hbps : ∀ ent ∈ Dict.vals e.chans, ∀ b, ent.data = .bp b →
      b.SR = .num sr ∧ b.points = .ok p ∧ b.duration = .ok ((p : ℚ) / sr) := by
    intro ent hent b hb
    obtain ⟨hs, hpt⟩ := hall ent hent
    obtain ⟨data, flags⟩ := ent
    simp only at hb
    subst hb
    simp only [chanSR, Except.ok.injEq] at hs
    simp only [chanPoints] at hpt
    cases hr : b.resolveWaits with
    | error er => simp [BP.points, hs, hr, Except.map] at hpt
    | ok ds =>
      obtain ⟨p', d', h1, h2, h3⟩ := duration_is_points_over_SR b sr ds hsr0 hs hr (hal _ hent b rfl sr ds hs hr)
      rw [hpt] at h1
      have : p = p' := Except.ok.inj h1
      subst this
      exact ⟨hs, hpt, by rw [h2, h3]⟩
  refine ⟨p, hSR, hp, ?_, hbps⟩
  rw [hdur]
  congr 1
  have hent0 : ent0 ∈ Dict.vals e.chans := List.mem_of_mem_head? hhead
  obtain ⟨hs0, hp0⟩ := hall ent0 hent0
  obtain ⟨data, flags⟩ := ent0
  cases data with
  | bp b =>
    have := (hbps _ hent0 b rfl).2.2
    simp only [chanDuration] at hd0
    rw [hd0] at this
    exact Except.ok.inj this
  | arr a s =>
    simp only [chanSR, Except.ok.injEq] at hs0
    subst hs0
    simp only [chanDuration, hsr0, if_false, Except.ok.injEq] at hd0
    simp only [chanPoints, Except.ok.injEq] at hp0
    rw [← hd0, ← hp0]
  | broken => simp [chanSR] at hs0

example : (exEl 20).validate = .ok (.num 10, 2) ∧ (10 : ℚ) ≠ 0 ∧ (exEl 20).duration = .ok ((20 : ℤ) / 10) := by
  decide +kernel

/-! ### raw arrays: accepted iff the lengths match, and delivered as given -/

/-- **`addArray` accepts exactly when every marker array has the waveform's length** (the converse
    of `addArray_refuses`), for every element, channel, waveform, SR and keyword arrays. -/
theorem addArray_accepts_iff (e : Element) (ch : Chan) (wfm : List ℚ) (sr : Val) (kw : Dict String (List ℚ)) :
    (e.addArray ch wfm sr kw).err = none ↔ ∀ p ∈ kw, p.2.length = wfm.length :=
  addArray_accepts_iff_aux e ch wfm sr kw

/-- **raw-array channels come back sample for sample as given** (clause "raw-array channels come
    back sample-for-sample as given"): after an accepted `addArray(ch, wfm, SR, **kw)`, whenever
    `getArrays` succeeds it delivers for `ch` a dict `a` (no flags, no forging) in which `'wfm'` is
    exactly `wfm`, every keyword array is found unchanged under its key (keyword names are pairwise
    distinct, as in a Python call), and nothing else is in `a`. -/
theorem addArray_then_getArrays (e : Element) (ch : Chan) (wfm : List ℚ) (sr : Val)
    (kw : Dict String (List ℚ)) (out : Dict Chan ChOut)
    (hacc : (e.addArray ch wfm sr kw).err = none)
    (hg : (e.addArray ch wfm sr kw).st.getArrays false = .ok out) :
    ∃ a, Dict.get? out ch = some (.arrays a none none) ∧
      Dict.get? a "wfm" = some wfm ∧
      (∀ p ∈ a, p = ("wfm", wfm) ∨ p ∈ kw) ∧
      ((Dict.keys kw).Nodup → ∀ k xs, (k, xs) ∈ kw → k ≠ "wfm" → Dict.get? a k = some xs) := by
  have hall := (addArray_accepts_iff e ch wfm sr kw).mp hacc
  rw [addArray_accepted e ch wfm sr kw hall] at hg
  simp only at hg
  obtain ⟨o, ho, hget⟩ := getArrays_get? false _ _ out hg ch
    { data := .arr (storedArrays wfm kw) sr } (Dict.get?_upsert_self _ _ _)
  simp only [chanOut, Bool.false_and, Bool.false_eq_true, if_false, Except.ok.injEq] at ho
  subst ho
  refine ⟨storedArrays wfm kw, hget, Dict.get?_upsert_self _ _ _, ?_, ?_⟩
  · intro p hp
    unfold storedArrays at hp
    rcases mem_upsert _ _ _ p hp with e1 | e1
    · exact Or.inl e1
    · rcases mem_foldl_upsert kw [] p e1 with e2 | e2
      · simp at e2
      · exact Or.inr e2
  · intro hnd k xs hk hne
    unfold storedArrays
    rw [Dict.get?_upsert_other _ _ _ _ hne]
    exact get?_foldl_upsert kw [] hnd k xs hk

/-- the same with `includetime=True`: the arrays are still the ones given (a time axis of
    `len(wfm)` points is added beside them) -/
theorem addArray_then_getArrays_with_time (e : Element) (ch : Chan) (wfm : List ℚ) (sr : Val)
    (kw : Dict String (List ℚ)) (out : Dict Chan ChOut)
    (hacc : (e.addArray ch wfm sr kw).err = none)
    (hg : (e.addArray ch wfm sr kw).st.getArrays true = .ok out) :
    ∃ tm, Dict.get? out ch = some (.arrays (storedArrays wfm kw) none tm) ∧
      ∀ n s, tm = some (n, s) → n = wfm.length ∧ sr = .num s := by
  have hall := (addArray_accepts_iff e ch wfm sr kw).mp hacc
  rw [addArray_accepted e ch wfm sr kw hall] at hg
  simp only at hg
  obtain ⟨o, ho, hget⟩ := getArrays_get? true _ _ out hg ch
    { data := .arr (storedArrays wfm kw) sr } (Dict.get?_upsert_self _ _ _)
  have hlen := (storedArrays_wf wfm kw hall).2
  simp only [chanOut] at ho
  split at ho
  · split at ho
    · split at ho
      · simp at ho
      · simp only [Except.ok.injEq] at ho
        subst ho
        exact ⟨_, hget, by intro n s h; simp at h; exact ⟨by rw [← h.1, hlen], by rw [h.2]⟩⟩
    · simp at ho
  · simp only [Except.ok.injEq] at ho
    subst ho
    exact ⟨none, hget, by intro n s h; simp at h⟩

example : (({} : Element).addArray (.int 1) [1, 2, 3] (.num 10) [("m1", [0, 1, 0]), ("m2", [1, 1, 0])]).err = none ∧
    (Dict.keys ([("m1", [0, 1, 0]), ("m2", [1, 1, 0])] : Dict String (List ℚ))).Nodup ∧
    ((({} : Element).addArray (.int 1) [1, 2, 3] (.num 10) [("m1", [0, 1, 0]), ("m2", [1, 1, 0])]).st.getArrays false).isOk = true := by
  decide +kernel


/-! ### elements built through the public API -/

/-- every way of building an element through its public API (accepted or refused calls alike) -/
inductive EHist where
  | empty
  | addBluePrint (h : EHist) (ch : Chan) (b : BP)
  | addArray (h : EHist) (ch : Chan) (wfm : List ℚ) (sr : Val) (kw : Dict String (List ℚ))
  | addFlags (h : EHist) (ch : Chan) (fl : List Val)
  | changeArg (h : EHist) (ch : Chan) (name : String) (arg value : Val) (all : Bool)
  | changeDuration (h : EHist) (ch : Chan) (name : String) (dur : Val) (all : Bool)
  | validateDurations (h : EHist)
  | copy (h : EHist)

/-- the element a history of public calls produces -/
def EHist.eval : EHist → Element
  | .empty => {}
  | .addBluePrint h ch b => (h.eval.addBluePrint ch b).st
  | .addArray h ch wfm sr kw => (h.eval.addArray ch wfm sr kw).st
  | .addFlags h ch fl => (h.eval.addFlags ch fl).st
  | .changeArg h ch name arg value all => (h.eval.changeArg ch name arg value all).st
  | .changeDuration h ch name dur all => (h.eval.changeDuration ch name dur all).st
  | .validateDurations h => h.eval.validateDurations.st
  | .copy h => h.eval.copy

/-- in every element built through the public API each raw-array channel holds a waveform and
    arrays of that waveform's length only -/
theorem rawWF_reachable (h : EHist) : RawWF h.eval := by
  induction h with
  | empty => exact rawWF_empty
  | addBluePrint h ch b ih => exact rawWF_addBluePrint _ ch b ih
  | addArray h ch wfm sr kw ih => exact rawWF_addArray _ ch wfm sr kw ih
  | addFlags h ch fl ih => exact rawWF_addFlags _ ch fl ih
  | changeArg h ch name arg value all ih => exact rawWF_withBP _ ch _ ih
  | changeDuration h ch name dur all ih => exact rawWF_withBP _ ch _ ih
  | validateDurations h ih =>
    unfold EHist.eval validateDurations
    split
    · exact ih
    · exact ih
  | copy h ih => exact ih

/-- **forged length = points for every element built through the public API**: the length theorem
    with its raw-array hypothesis discharged. -/
theorem getArrays_lengths_are_points_reachable (h : EHist) (m : Val × ℚ) (t : Bool) (out : Dict Chan ChOut)
    (hv : h.eval.validate = .ok m) (hg : h.eval.getArrays t = .ok out)
    (hal : ∀ ent ∈ Dict.vals h.eval.chans, ∀ b, ent.data = .bp b → WholeSamples b) :
    ∃ p : ℤ, h.eval.points = .ok p ∧ Dict.keys out = h.eval.channels ∧
      ∀ co ∈ out, ∀ n ∈ outLens co.2, (n : ℤ) = p :=
  getArrays_lengths_are_points h.eval m t out hv hg (rawWF_reachable h) hal

/-- non-vacuity: blueprint + raw array with two marker arrays, built through the API -/
example : ((((EHist.empty.addBluePrint (.int 1) exBP).addArray (.str "raw") (List.replicate 20 0) (.num 10)
      [("m1", List.replicate 20 1)]).validateDurations).eval.validate) = .ok (.num 10, 2) := by
  decide +kernel

/-! ## G11 additions: delayed elements, elements inside subsequences -/

/-- **`RawWF` is preserved by `Element._applyDelays`** (accepted or refused, any delays): every
    array of a raw-array channel - waveform and markers alike - is padded with the same numbers of
    zeros in front and behind, so the channel still holds a waveform and arrays of exactly that
    waveform's length (the raw-array hypothesis of `getArrays_lengths_are_points` for delayed
    elements). -/
theorem rawWF_applyDelays (e : Element) (ds : List ℚ) (h : RawWF e) : RawWF (e.applyDelays ds).st :=
  G11.rawWF_applyDelays e ds h

/-- ... hence it holds for everything `Element.ApiBuilt` produces (the public element API
    *including* `_applyDelays`, accepted or refused calls alike) -/
theorem rawWF_apiBuilt (e : Element) (h : Element.ApiBuilt e) : RawWF e := by
  induction h with
  | empty => exact rawWF_empty
  | addBluePrint e ch b _ ih => exact rawWF_addBluePrint _ ch b ih
  | addArray e ch wfm sr kw _ ih => exact rawWF_addArray _ ch wfm sr kw ih
  | addFlags e ch fl _ ih => exact rawWF_addFlags _ ch fl ih
  | changeArg e ch name arg value all _ ih => exact rawWF_withBP _ ch _ ih
  | changeDuration e ch name dur all _ ih => exact rawWF_withBP _ ch _ ih
  | validateDurations e _ ih =>
    unfold validateDurations
    split <;> exact ih
  | applyDelays e ds _ ih => exact rawWF_applyDelays e ds ih
  | copy e _ ih => exact ih

/-- non-vacuity: the mixed example element, delayed by 2 samples on the blueprint channel: the raw
    channel's arrays are padded to 22 samples each -/
example : ((exEl 20).applyDelays [1/5, 0]).err = none ∧
    (((exEl 20).applyDelays [1/5, 0]).st.getArrays false).map (fun out => out.map (fun co => outLens co.2)) =
      .ok [[22, 22, 22, 22], [22]] := by
  decide +kernel

/-- **whole-sample blueprints stay whole-sample under `_applyDelays`**: if all resolved durations
    of `b` are whole numbers of samples and so are the delay (`≥ 0`) and the tail `maxdelay - delay`,
    then all resolved durations of the delayed blueprint (the delay, the original ones, the tail)
    are whole numbers of samples. -/
theorem wholeSamples_delayed (b : BP) (sr delay maxdelay : ℚ) (hsr : b.SR = .num sr) (h0 : 0 ≤ delay)
    (hD : ∃ n : ℕ, delay * sr = n) (hM : ∃ n : ℕ, (maxdelay - delay) * sr = n) (hw : WholeSamples b) :
    WholeSamples (delayBP b delay maxdelay).st := by
  intro sr' ds' hsr' hd' d hdm
  obtain ⟨_, _, _, _, hS⟩ := delayBP_spec b delay maxdelay
  rw [hS, hsr] at hsr'
  cases hsr'
  obtain ⟨ds, hds, rfl⟩ := G11.delayBP_resolve_inv b delay maxdelay ds' h0 hd'
  simp only [List.mem_append] at hdm
  rcases hdm with (hdm | hdm) | hdm
  · split at hdm
    · simp only [List.mem_singleton] at hdm; subst hdm; exact hD
    · cases hdm
  · exact hw sr ds hsr hds d hdm
  · split at hdm
    · simp only [List.mem_singleton] at hdm; subst hdm; exact hM
    · cases hdm

example : WholeSamples (delayBP exBP (1/5) (2/5)).st :=
  wholeSamples_delayed exBP 10 (1/5) (2/5) rfl (by norm_num) ⟨2, by norm_num⟩ ⟨2, by norm_num⟩ exBP_wholeSamples

/-- **forged length = points for delayed elements** (clause "every channel's forged waveform and
    markers have exactly Element.points samples", for the elements `Sequence.forge` actually
    forges): `e` is an element with well-formed raw channels and whole-sample blueprints whose
    `_applyDelays(ds)` is accepted, the delays being whole numbers of samples at the element's
    sample rate.  If the delayed element validates and `getArrays` delivers, then `Element.points`
    of the delayed element returns `p`, the channels are those of `e` in order, and every array
    delivered for every channel - waveform blocks, both markers, time axis, raw arrays - has exactly
    `p` samples. -/
theorem getArrays_lengths_are_points_delayed (e : Element) (ds : List ℚ) (sr : ℚ) (m : Val × ℚ) (t : Bool)
    (out : Dict Chan ChOut) (hacc : (e.applyDelays ds).err = none)
    (hsr : e.getSR = .ok (.num sr)) (hsr0 : 0 < sr) (hds : ∀ d ∈ ds, ∃ n : ℕ, d * sr = n)
    (hwf : RawWF e) (hal : ∀ ent ∈ Dict.vals e.chans, ∀ b, ent.data = .bp b → WholeSamples b)
    (hv : (e.applyDelays ds).st.validate = .ok m) (hg : (e.applyDelays ds).st.getArrays t = .ok out) :
    ∃ p : ℤ, (e.applyDelays ds).st.points = .ok p ∧ Dict.keys out = e.channels ∧
      ∀ co ∈ out, ∀ n ∈ outLens co.2, (n : ℤ) = p := by
  have hal' : ∀ ent ∈ Dict.vals (e.applyDelays ds).st.chans, ∀ b, ent.data = .bp b → WholeSamples b := by
    obtain ⟨m0, sr0, hv0, hm0, hlen, hl, hall⟩ := g4_applyDelays_getElem e ds hacc
    have hsr' : sr0 = sr := by
      unfold Element.getSR at hsr
      rw [hv0] at hsr
      simp only [Except.map, Except.ok.injEq] at hsr
      rw [hm0] at hsr
      cases hsr; rfl
    subst hsr'
    intro ent hent b' hb'
    unfold Dict.vals at hent
    obtain ⟨q, hq, rfl⟩ := List.mem_map.mp hent
    obtain ⟨k, hk, rfl⟩ := List.getElem_of_mem hq
    obtain ⟨_, hde⟩ := hall k (by omega) hk (by omega)
    obtain ⟨hbp, harr, hnb⟩ := g4_dEnt_data _ _ _ _ _ hde
    have hke : k < e.chans.length := by omega
    have hmem : (e.chans[k]).2 ∈ Dict.vals e.chans := List.mem_map_of_mem (List.getElem_mem _)
    have hkd : k < ds.length := by omega
    have hcs := (g4_validate_SR e m0 hv0).2 _ (List.getElem_mem hke)
    generalize (e.chans[k]).2 = ent0 at hbp harr hnb hmem hcs
    obtain ⟨dat, fl⟩ := ent0
    cases dat with
    | bp b =>
      rw [hbp b rfl] at hb'
      simp only [ChData.bp.injEq] at hb'
      subst hb'
      have hbsr : b.SR = .num sr0 := by
        simp only [chanSR, hm0, Except.ok.injEq] at hcs
        exact hcs
      have hDk := hds ds[k] (List.getElem_mem hkd)
      have hne : ds ≠ [] := by intro h; rw [h] at hkd; simp at hkd
      exact wholeSamples_delayed b sr0 ds[k] (maxR ds) hbsr (G11.whole_nonneg sr0 _ hsr0 hDk) hDk
        (G11.whole_sub sr0 _ _ hsr0 hDk (hds _ (Paths.maxR_mem ds hne)) (Paths.le_maxR ds _ (List.getElem_mem hkd)))
        (hal _ hmem b rfl)
    | arr a0 s0 => rw [harr a0 s0 rfl] at hb'; cases hb'
    | broken => exact absurd rfl hnb
  obtain ⟨p, hp, hk, hl⟩ := getArrays_lengths_are_points _ m t out hv hg (rawWF_applyDelays e ds hwf) hal'
  refine ⟨p, hp, ?_, hl⟩
  rw [hk]
  exact Element.g4_applyDelays_keys e ds

/-- non-vacuity: the mixed example element with delays of 2 and 0 samples satisfies every
    hypothesis; the delayed element validates and everything delivered has 22 samples -/
example : ((exEl 20).applyDelays [1/5, 0]).err = none ∧ (exEl 20).getSR = .ok (.num 10) ∧
    ((1 : ℚ) / 5) * 10 = (2 : ℕ) ∧ (0 : ℚ) * 10 = (0 : ℕ) ∧
    ((exEl 20).applyDelays [1/5, 0]).st.validate = .ok (.num 10, 11/5) ∧
    ((exEl 20).applyDelays [1/5, 0]).st.points = .ok 22 ∧
    (((exEl 20).applyDelays [1/5, 0]).st.getArrays true).map (fun out => out.map (fun co => outLens co.2)) =
      .ok [[22, 22, 22, 22], [22, 22]] := by
  refine ⟨by decide +kernel, by decide +kernel, by norm_num, by norm_num, by decide +kernel, by decide +kernel,
    by decide +kernel⟩

/-- the point count of a delayed whole-sample blueprint is the original one plus the `M = maxdelay·SR`
    samples of padding -/
theorem delayed_points (b : BP) (sr delay maxdelay : ℚ) (M : ℕ) (hsr : b.SR = .num sr) (h0 : 0 ≤ delay)
    (hle : delay ≤ maxdelay) (hM : maxdelay * sr = M) (hw : WholeSamples b) (p' : ℤ)
    (hp' : (delayBP b delay maxdelay).st.points = .ok p') : ∃ p, b.points = .ok p ∧ p' = p + M := by
  obtain ⟨_, _, _, _, hS⟩ := delayBP_spec b delay maxdelay
  simp only [BP.points, hS, hsr] at hp'
  cases hr : (delayBP b delay maxdelay).st.resolveWaits with
  | error er => rw [hr] at hp'; simp [Except.map] at hp'
  | ok ds' =>
    rw [hr] at hp'
    simp only [Except.map, Except.ok.injEq] at hp'
    obtain ⟨ds, hds, rfl⟩ := G11.delayBP_resolve_inv b delay maxdelay ds' h0 hr
    refine ⟨rhe (sumR ds * sr), by simp [BP.points, hsr, hds, Except.map], ?_⟩
    have hsum : sumR ((if 0 < delay then [delay] else []) ++ ds ++
        (if 0 < maxdelay - delay then [maxdelay - delay] else [])) = sumR ds + maxdelay := by
      rw [sumR_append, sumR_append]
      have e1 : sumR (if 0 < delay then [delay] else []) = delay := by
        by_cases hp : 0 < delay
        · simp [hp, sumR]
        · have : delay = 0 := le_antisymm (not_lt.mp hp) h0
          rw [if_neg hp, this]; simp [sumR]
      have e2 : sumR (if 0 < maxdelay - delay then [maxdelay - delay] else []) = maxdelay - delay := by
        by_cases hp : 0 < maxdelay - delay
        · simp [hp, sumR]
        · have : maxdelay - delay = 0 := le_antisymm (not_lt.mp hp) (by linarith)
          rw [if_neg hp, this]; simp [sumR]
      rw [e1, e2]; ring
    have hK := aligned_counts sr ds (hw sr ds hsr hds)
    rw [← hp', hsum, add_mul, hM, ← hK]
    have h1 : rhe (((sumN (ds.map (fun d => (rhe (d * sr)).toNat)) : ℕ) : ℚ) + (M : ℚ)) =
        ((sumN (ds.map (fun d => (rhe (d * sr)).toNat)) + M : ℕ) : ℤ) := by
      exact_mod_cast rhe_int ((sumN (ds.map (fun d => (rhe (d * sr)).toNat)) + M : ℕ) : ℤ)
    have h2 : rhe (((sumN (ds.map (fun d => (rhe (d * sr)).toNat)) : ℕ) : ℚ)) =
        ((sumN (ds.map (fun d => (rhe (d * sr)).toNat)) : ℕ) : ℤ) := by
      exact_mod_cast rhe_int ((sumN (ds.map (fun d => (rhe (d * sr)).toNat)) : ℕ) : ℤ)
    rw [h1, h2]
    push_cast
    ring

/-- the two paddings of a raw-array channel add up to the `M = maxdelay·SR` samples -/
theorem pad_counts (sr x mx : ℚ) (M : ℕ) (hsr0 : 0 < sr) (hx : ∃ n : ℕ, x * sr = n) (hM : mx * sr = M)
    (hle : x ≤ mx) : (rhe (x * sr)).toNat + (rhe ((mx - x) * sr)).toNat = M := by
  obtain ⟨k, hk⟩ := G11.whole_sub sr x mx hsr0 hx ⟨M, hM⟩ hle
  obtain ⟨n, hn⟩ := hx
  have hsum : k + n = M := by
    have : (k : ℚ) + (n : ℚ) = (M : ℚ) := by rw [← hk, ← hn, ← hM]; ring
    exact_mod_cast this
  have e1 : rhe (x * sr) = (n : ℤ) := by rw [hn]; exact_mod_cast rhe_int (n : ℤ)
  have e2 : rhe ((mx - x) * sr) = (k : ℤ) := by rw [hk]; exact_mod_cast rhe_int (k : ℤ)
  rw [e1, e2]
  simp only [Int.toNat_natCast]
  omega

/-- **every array of a delayed element has `Element.points + maxdelay·SR` samples** - without
    assuming that the delayed element validates.  `e` validates (sample rate `sr > 0`), has
    well-formed raw channels and whole-sample blueprints; `_applyDelays(ds)` with whole-sample delays
    is accepted, `M = max(ds)·SR`.  Whenever `getArrays` of the delayed element delivers, every array
    of every channel - waveform blocks, markers, time axis, padded raw arrays - has exactly
    `p + M` samples, `p` being `Element.points` of the *undelayed* element: all channels get the
    common length `original + maxdelay·SR`. -/
theorem getArrays_lengths_delayed (e : Element) (ds : List ℚ) (sr d : ℚ) (t : Bool) (out : Dict Chan ChOut) (M : ℕ)
    (hv : e.validate = .ok (.num sr, d)) (hsr0 : 0 < sr) (hacc : (e.applyDelays ds).err = none)
    (hds : ∀ x ∈ ds, ∃ n : ℕ, x * sr = n) (hM : maxR ds * sr = M)
    (hwf : RawWF e) (hal : ∀ ent ∈ Dict.vals e.chans, ∀ b, ent.data = .bp b → WholeSamples b)
    (hg : (e.applyDelays ds).st.getArrays t = .ok out) :
    ∃ p : ℤ, e.points = .ok p ∧ Dict.keys out = e.channels ∧
      ∀ co ∈ out, ∀ n ∈ outLens co.2, (n : ℤ) = p + M := by
  obtain ⟨p, hall, hp, _⟩ := validate_ok_channels e _ d hv
  obtain ⟨m0, sr0, hv0, hm0, hlen, hl, hde⟩ := g4_applyDelays_getElem e ds hacc
  have hsr' : sr0 = sr := by
    rw [hv] at hv0
    cases hv0
    simp only [Val.num.injEq] at hm0
    exact hm0.symm
  subst hsr'
  refine ⟨p, hp, ?_, ?_⟩
  · rw [getArrays_channels _ t out hg]
    exact Element.g4_applyDelays_keys e ds
  obtain ⟨hlo, hpt⟩ := getArrays_pointwise _ t out hg
  intro co hco n hn
  obtain ⟨i, hi, rfl⟩ := List.getElem_of_mem hco
  have hi' : i < (e.applyDelays ds).st.chans.length := by omega
  have hie : i < e.chans.length := by omega
  have hid : i < ds.length := by omega
  obtain ⟨_, hout⟩ := hpt i hi' hi
  obtain ⟨_, hdi⟩ := hde i hie hi' hid
  obtain ⟨hbp, harr, hnb⟩ := g4_dEnt_data _ _ _ _ _ hdi
  have hfl := g4_dEnt_flags _ _ _ _ _ hdi
  have hmem : (e.chans[i]).2 ∈ Dict.vals e.chans := List.mem_map_of_mem (List.getElem_mem _)
  obtain ⟨hcs, hcp⟩ := hall _ hmem
  have hDi := hds ds[i] (List.getElem_mem hid)
  have hlei : ds[i] ≤ maxR ds := Paths.le_maxR ds _ (List.getElem_mem hid)
  obtain ⟨_, _, o3, o4, _⟩ := g4_chanOut_spec t _ _ hout
  generalize (e.chans[i]).2 = ent0 at hbp harr hnb hmem hcs hcp
  obtain ⟨dat, fl0⟩ := ent0
  cases dat with
  | bp b =>
    obtain ⟨f', hf', ho⟩ := o3 _ (hbp b rfl)
    rw [ho] at hn
    have hbsr : b.SR = .num sr0 := by
      simp only [chanSR, Except.ok.injEq] at hcs
      exact hcs
    have h0 := G11.whole_nonneg sr0 _ hsr0 hDi
    have hw' := wholeSamples_delayed b sr0 ds[i] (maxR ds) hbsr h0 hDi
      (G11.whole_sub sr0 _ _ hsr0 hDi ⟨M, hM⟩ hlei) (hal _ hmem b rfl)
    obtain ⟨sr1, ds', _, hsr1, hd', _, _, _⟩ := (forge_ok_iff _ f').mp hf'
    have hS : (delayBP b ds[i] (maxR ds)).st.SR = .num sr0 := by
      rw [(delayBP_spec b ds[i] (maxR ds)).2.2.2.2, hbsr]
    have : sr1 = sr0 := by rw [hS] at hsr1; cases hsr1; rfl
    subst this
    obtain ⟨hpts', h1, h2, h3⟩ := forged_length_is_points _ f' sr1 ds' hf' hS hd' (hw' sr1 ds' hS hd')
    obtain ⟨p0, hp0, hN⟩ := delayed_points b sr1 ds[i] (maxR ds) M hbsr h0 hlei hM (hal _ hmem b rfl) _ hpts'
    simp only [chanPoints] at hcp
    rw [hcp] at hp0
    cases hp0
    simp only [outLens, List.mem_cons, List.not_mem_nil, or_false] at hn
    rcases hn with rfl | rfl | rfl | rfl
    · rw [h3]; exact hN
    · rw [h1]; exact hN
    · rw [h2]; exact hN
    · exact hN
  | arr a sv =>
    obtain ⟨tm, ho⟩ := o4 _ _ (harr a sv rfl)
    have hawf := hwf _ hmem a sv rfl
    obtain ⟨⟨w0, hw0⟩, hlens⟩ := hawf
    simp only [chanPoints, Except.ok.injEq] at hcp
    have hpad := pad_counts sr0 ds[i] (maxR ds) M hsr0 hDi hM hlei
    have hAL := G11.arrLen_padAll (rhe (ds[i] * sr0)).toNat (rhe ((maxR ds - ds[i]) * sr0)).toNat a w0 hw0
    -- the time axis, if any, has the padded waveform's length
    have htm : ∀ x s, tm = some (x, s) →
        x = arrLen (Paths.padAll (rhe (ds[i] * sr0)).toNat (rhe ((maxR ds - ds[i]) * sr0)).toNat a) := by
      intro x s htm
      have hco := hout
      rw [ho, htm] at hco
      have hdat := harr a sv rfl
      generalize ((e.applyDelays ds).st.chans[i]).2 = y at hco hdat
      obtain ⟨yd, yf⟩ := y
      simp only at hdat
      subst hdat
      simp only [chanOut] at hco
      split at hco
      · split at hco
        · split at hco
          · simp at hco
          · simp only [Except.ok.injEq, ChOut.arrays.injEq, Option.some.injEq, Prod.mk.injEq] at hco
            exact hco.2.2.1.symm
        · simp at hco
      · simp at hco
    rw [ho] at hn
    simp only [outLens, List.mem_append, List.mem_map] at hn
    rcases hn with ⟨q, hq, rfl⟩ | hn
    · unfold Paths.padAll at hq
      obtain ⟨q0, hq0, rfl⟩ := List.mem_map.mp hq
      simp only [padArr_length]
      rw [hlens q0 hq0]
      have : (arrLen a : ℤ) = p := hcp
      omega
    · cases tm with
      | none => simp at hn
      | some xs =>
        obtain ⟨x, s⟩ := xs
        simp only [List.mem_cons, List.not_mem_nil, or_false] at hn
        rw [hn, htm x s rfl, hAL]
        have : (arrLen a : ℤ) = p := hcp
        omega
  | broken => exact absurd rfl hnb

/-- non-vacuity: the mixed example element (20 points) with delays of 2 and 0 samples, `M = 2`:
    everything delivered has 22 samples -/
example : (exEl 20).validate = .ok (.num 10, 2) ∧ ((exEl 20).applyDelays [1/5, 0]).err = none ∧
    ((1 : ℚ) / 5) * 10 = (2 : ℕ) ∧ (0 : ℚ) * 10 = (0 : ℕ) ∧ maxR [1/5, 0] * 10 = (2 : ℕ) ∧
    (exEl 20).points = .ok 20 ∧
    (((exEl 20).applyDelays [1/5, 0]).st.getArrays true).map (fun out => out.map (fun co => outLens co.2)) =
      .ok [[22, 22, 22, 22], [22, 22]] := by
  refine ⟨by decide +kernel, by decide +kernel, by norm_num, by norm_num, by decide +kernel, by decide +kernel,
    by decide +kernel⟩

/-! ### "a sequence never accepts an element that fails validation", inside subsequences -/

/-- **what `addSubSequence` checks** - and what it does not: the call is accepted exactly when the
    argument holds elements only (no nesting, `elementsOnly`) and has the parent's sample rate.
    Neither condition looks at `validateDurations` of the inner elements: `addSubSequence` itself
    validates nothing. -/
theorem addSubSequence_accepts_iff (s : Sequence) (pos : ℤ) (sub : Sequence) :
    (s.addSubSequence pos sub).err = none ↔
      (Sequence.elementsOnly sub.data).isSome = true ∧ sub.getSR = s.getSR := by
  unfold Sequence.addSubSequence
  cases hd : Sequence.elementsOnly sub.data with
  | none => simp
  | some d =>
    by_cases hs : sub.getSR = s.getSR
    · simp [hs]
    · simp [hs]

/-- an element that fails validation (a 20-sample blueprint beside a 19-sample raw array), put
    into a sequence value directly - not through `addElement`, which would refuse it -/
def badSub : Sequence :=
  { data := [(1, .el (exEl 19))], sequencing := [(1, Sequence.defaultSeqEl)],
    awgspecs := [("SR", .val (.num 10))] }

/-- **`addSubSequence` does not validate the inner elements** (witness): a sequence value holding
    an element that fails validation with ElementDurationError is accepted as a subsequence, and
    the failing element is stored.  (Such a value cannot be produced by the public API, see
    `built_sequence_elements_validated`; in the implementation it arises when a stored element is
    mutated in place after `addElement`.) -/
theorem addSubSequence_does_not_validate :
    ∃ (s sub : Sequence) (pos p : ℤ) (e : Element) (stored : SubSeq),
      Dict.get? sub.data p = some (.el e) ∧ e.validate = .error .elemdur ∧
      (s.addSubSequence pos sub).err = none ∧
      Dict.get? (s.addSubSequence pos sub).st.data pos = some (.sub stored) ∧
      Dict.get? stored.data p = some e := by
  refine ⟨SeqCore.setSR {} (.num 10), badSub, 1, 1, exEl 19,
    Sequence.storedSub badSub [(1, exEl 19)], ?_, ?_, ?_, ?_, ?_⟩
  · rfl
  · decide +kernel
  · decide +kernel
  · have h1 : Sequence.elementsOnly badSub.data = some [(1, exEl 19)] := rfl
    have h2 : ¬ (badSub.getSR ≠ (SeqCore.setSR ({} : Sequence) (.num 10)).getSR) := by decide +kernel
    simp only [Sequence.addSubSequence, h1, h2, if_false]
    exact Dict.get?_upsert_self _ _ _
  · rfl

/-- **lifted to everything the public API builds**: in a sequence built through the public
    sequence API (`Sequence.ApiBuilt`: `addElement` of API-built elements, `addSubSequence` of
    API-built sequences, settings and sequencing setters, `copy`, `+`), every stored element - at an
    element position *and inside every stored subsequence* - passes `validateDurations`: the
    subsequence argument got its elements through `addElement`, which validated them. -/
theorem built_sequence_elements_validated (s : Sequence) (h : Sequence.ApiBuilt s) :
    (∀ p e, Dict.get? s.data p = some (.el e) → ∃ m, e.validate = .ok m) ∧
    (∀ p (sub : SubSeq) q e, Dict.get? s.data p = some (.sub sub) → Dict.get? sub.data q = some e →
      ∃ m, e.validate = .ok m) := by
  have hi := G11.apiBuilt_innerValidated h
  refine ⟨fun p e hg => ?_, fun p sub q e hg hq => ?_⟩
  · exact (hi _ (Dict.mem_of_get?_eq_some p _ hg)).1 e rfl
  · exact (hi _ (Dict.mem_of_get?_eq_some p _ hg)).2 sub rfl _ (Dict.mem_of_get?_eq_some q e hq)

/-- the same for one `addSubSequence` call: if parent and argument are API-built, every element
    of the stored subsequence validates -/
theorem addSubSequence_inner_validated (s sub : Sequence) (pos : ℤ) (hs : Sequence.ApiBuilt s)
    (hsub : Sequence.ApiBuilt sub) (stored : SubSeq)
    (hg : Dict.get? (s.addSubSequence pos sub).st.data pos = some (.sub stored)) (q : ℤ) (e : Element)
    (hq : Dict.get? stored.data q = some e) : ∃ m, e.validate = .ok m :=
  (built_sequence_elements_validated _ (.addSubSequence s pos sub hs hsub)).2 pos stored q e hg hq

/-- non-vacuity: an API-built sequence holding an API-built subsequence with the mixed element -/
def exBuiltEl : Element :=
  ((({} : Element).addBluePrint (.int 1) exBP).st.addArray (.str "raw") (List.replicate 20 0) (.num 10) []).st
def exBuiltSub : Sequence := (Sequence.addElement (SeqCore.setSR {} (.num 10)) 1 exBuiltEl).st
def exBuiltSeq : Sequence := (Sequence.addSubSequence (SeqCore.setSR {} (.num 10)) 1 exBuiltSub).st

/-- non-vacuity (C06, subsequences): the example sequence is built through the public API -/
theorem exBuiltSeq_built : Sequence.ApiBuilt exBuiltSeq :=
  .addSubSequence _ _ _ (.setSpec _ _ _ .empty)
    (.addElement _ _ _ (.setSpec _ _ _ .empty) (.addArray _ _ _ _ _ (.addBluePrint _ _ _ .empty)))

example : (Sequence.addSubSequence (SeqCore.setSR {} (.num 10)) 1 exBuiltSub).err = none ∧
    (match Dict.get? exBuiltSeq.data 1 with
      | some (.sub st) => (Dict.get? st.data 1).map (fun e => e.validate)
      | _ => none) = some (.ok (.num 10, 2)) := by
  constructor <;> decide +kernel

end BB.C06
