/-
  Property C06 — an element is valid iff all channels share sample rate and point count.
-/
import BB.Proofs.Element
import BB.Model.Sequence

namespace BB.C06
open BB BB.Element

/-- Validation (the three stages as coded, including `numpy.allclose(…, atol=min(SRs))`) succeeds
    iff all channels have the same sample rate and the same number of points, and raises
    ElementDurationError otherwise — for channels whose sample rate is a number ≥ 1 and whose
    point count is their duration times the rate, rounded (see `chan_points_link`). -/
theorem validate_iff_same_SR_and_points (e : Element) (srs : List Val) (durs : List ℚ) (npts : List ℤ) (s : ℚ)
    (hne : (Dict.vals e.chans).isEmpty = false)
    (h1 : (Dict.vals e.chans).mapM chanSR = .ok srs)
    (h2 : (Dict.vals e.chans).mapM chanDuration = .ok durs)
    (h3 : (Dict.vals e.chans).mapM chanPoints = .ok npts)
    (hat : allSame srs = true → atolOf srs = .ok s ∧ 1 ≤ s ∧
      ∀ i (hi : i < durs.length) (hj : i < npts.length), npts[i] = rhe (durs[i] * s)) :
    ((∃ m, e.validate = .ok m) ↔ (allSame srs = true ∧ allSame npts = true)) ∧
    ((¬ (allSame srs = true ∧ allSame npts = true)) → e.validate = .error .elemdur) :=
  validate_iff e srs durs npts s hne h1 h2 h3 hat

/-- The link used above holds for both kinds of channel: a blueprint's points are
    `round(duration · SR)`, and a raw array of `n` samples has duration `n/SR`, so
    `round(duration · SR) = n`. -/
theorem chan_points_link (ent : ChEntry) (sr : ℚ) (hsr : sr ≠ 0) (hS : chanSR ent = .ok (.num sr))
    (d : ℚ) (n : ℤ) (hd : chanDuration ent = .ok d) (hn : chanPoints ent = .ok n) : n = rhe (d * sr) := by
  obtain ⟨data, flags⟩ := ent
  cases data with
  | bp b =>
    simp only [chanSR, Except.ok.injEq] at hS
    simp only [chanDuration, BP.duration] at hd
    simp only [chanPoints, BP.points, hS] at hn
    cases hr : b.resolveWaits with
    | error e => simp [hr, Except.map] at hd
    | ok ds =>
      simp only [hr, Except.map, Except.ok.injEq] at hd hn
      rw [← hd, ← hn]
  | arr a s =>
    simp only [chanSR, Except.ok.injEq] at hS
    subst hS
    simp only [chanDuration, hsr, if_false, Except.ok.injEq] at hd
    simp only [chanPoints, Except.ok.injEq] at hn
    rw [← hd, ← hn]
    have : ((arrLen a : ℕ) : ℤ) / sr * sr = ((arrLen a : ℕ) : ℤ) := by field_simp
    rw [this]
    exact (rhe_int _).symm
  | broken => simp [chanSR] at hS

/-- A sequence never accepts an element that fails validation (and is left unchanged). -/
theorem addElement_validates (s : Sequence) (pos : Int) (e : Element) :
    ((s.addElement pos e).err = none → ∃ m, e.validate = .ok m) ∧
    (∀ er, e.validate = .error er → (s.addElement pos e).st = s ∧ (s.addElement pos e).err = some er) := by
  unfold Sequence.addElement
  constructor
  · intro h
    cases hv : e.validate with
    | error er => simp [hv] at h
    | ok m => exact ⟨m, rfl⟩
  · intro er hv
    simp [hv]

/-- For an accepted element whose segment durations are whole numbers of samples, a blueprint
    channel's forged waveform and markers have exactly `points` samples. -/
theorem forged_length_is_points (b : BP) (f : Forged) (sr : ℚ) (ds : List ℚ) (h : forgeBP b = .ok f)
    (hsr : b.SR = .num sr) (hd : b.resolveWaits = .ok ds)
    (hal : ∀ d ∈ ds, ∃ m : ℕ, d * sr = m) :
    b.points = .ok (f.N : ℤ) ∧ f.m1.length = f.N ∧ f.m2.length = f.N ∧ sumN (f.blocks.map Blk.len) = f.N := by
  obtain ⟨sr', durs, ns, hsr', hd', hn, _, rfl⟩ := (forge_ok_iff b f).mp h
  rw [hsr] at hsr'; cases hsr'
  rw [hd] at hd'; cases hd'
  have hlen := resolveGo_length _ _ _ hd
  obtain ⟨_, hns⟩ := countsGo_ok sr ds ns hn
  have hnl : ns.length = b.segs.length := by rw [countsGo_length sr ds ns hn, hlen]
  have hl := assemble_lengths b sr ns hnl
  simp only at hl
  refine ⟨?_, hl.2.1, hl.2.2.1, hl.2.2.2.1⟩
  simp only [BP.points, hsr, hd, Except.map]
  congr 1
  have hc := aligned_counts sr ds hal
  rw [hl.1, hns]
  simp only [segCount]
  have : rhe (sumR ds * sr) = ((sumN (ds.map (fun d => (rhe (d * sr)).toNat)) : ℕ) : ℤ) := by
    rw [← hc]; exact_mod_cast rhe_int _
  rw [this]

/-- ... and `Element.duration = points / SR` (the blueprint's own duration and points agree). -/
theorem duration_is_points_over_SR (b : BP) (sr : ℚ) (ds : List ℚ) (hsr0 : sr ≠ 0)
    (hsr : b.SR = .num sr) (hd : b.resolveWaits = .ok ds) (hal : ∀ d ∈ ds, ∃ m : ℕ, d * sr = m) :
    ∃ (p : ℤ) (d : ℚ), b.points = .ok p ∧ b.duration = .ok d ∧ d = (p : ℚ) / sr := by
  refine ⟨rhe (sumR ds * sr), sumR ds, by simp [BP.points, hsr, hd, Except.map], by simp [BP.duration, hd, Except.map], ?_⟩
  have hc := aligned_counts sr ds hal
  have : rhe (sumR ds * sr) = ((sumN (ds.map (fun d => (rhe (d * sr)).toNat)) : ℕ) : ℤ) := by
    rw [← hc]; exact_mod_cast rhe_int _
  rw [this]
  push_cast
  rw [hc]
  field_simp

/-- Raw-array channels come back sample for sample as given. -/
theorem raw_passthrough (e : Element) (ch : Chan) (wfm : List ℚ) (sr : Val) (kw : Dict String (List ℚ))
    (h : (e.addArray ch wfm sr kw).err = none) :
    Dict.get? (e.addArray ch wfm sr kw).st.chans ch =
      some { data := .arr (Dict.upsert (kw.foldl (fun d (k, a) => Dict.upsert d k a) []) "wfm" wfm) sr } := by
  unfold addArray at *
  by_cases hall : kw.all (fun (_, a) => a.length == wfm.length) = true
  · simp only [hall, if_true]
    exact Dict.get?_upsert_self _ _ _
  · simp [hall] at h

/-- `addArray` refuses marker arrays whose length differs from the waveform's. -/
theorem addArray_refuses (e : Element) (ch : Chan) (wfm : List ℚ) (sr : Val) (kw : Dict String (List ℚ))
    (k : String) (a : List ℚ) (hk : (k, a) ∈ kw) (hl : a.length ≠ wfm.length) :
    (e.addArray ch wfm sr kw).err = some .value := by
  unfold addArray
  have : kw.all (fun (_, a) => a.length == wfm.length) = false := by
    rw [Bool.eq_false_iff]
    intro hall
    rw [List.all_eq_true] at hall
    have := hall (k, a) hk
    simp at this
    exact hl this
  simp [this]

/-! ### non-vacuity -/

example : allClose [1, 1 + 1/300] 100 = true ∧ rhe (1 * 100) = 100 ∧ rhe ((1 + 1/300) * 100) = 100 := by
  decide +kernel

end BB.C06
