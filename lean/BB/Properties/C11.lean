/-
  Property C11 — a declared filter compensation is the ripasso inverse RC filter applied to the
  forged, delayed waveform.

  In the model the filter itself is symbolic: a forged channel carries `filt : Option FiltCall`,
  "the delivered wfm is applyInverseRCFilter(wfm, SR, kind, f_cut, order, DCgain=1) of these blocks";
  the harness evaluates it with the real ripasso function.  What the filter computes is C12/C13.
-/
import BB.Proofs.ForgeSeq
import Mathlib.Tactic.FieldSimp
import Mathlib.Algebra.Field.Rat
import BB.Model.Sequence
import BB.Proofs.Basic

namespace BB.C11
open BB

/-- The filter call attached to a channel: the stored kind and order, the cut-off `f_cut` — or
    `1/tau` when only a time constant was given — and the sequence's own sample rate. -/
theorem filter_call_spec (s : Sequence) (ch : Chan) (f : FilterSpec)
    (h : Dict.get? s.awgspecs (keyOf ch "filtercompensation") = some (.filt f)) :
    (∀ fc, f.f_cut = .num fc → s.filterOf ch = .ok (some ⟨f.kind, f.order, fc, s.getSR⟩)) ∧
    (∀ t, f.f_cut = .none → f.tau = .num t → t ≠ 0 → s.filterOf ch = .ok (some ⟨f.kind, f.order, 1 / t, s.getSR⟩)) := by
  constructor
  · intro fc hfc; simp [SeqCore.filterOf, h, hfc, Except.map]
  · intro t hn ht h0; simp [SeqCore.filterOf, h, hn, ht, h0, Except.map]

/-- `tau = 1/f_cut` is equivalent to `f_cut`: both settings attach the same filter call -/
theorem tau_equiv_fcut (s s' : Sequence) (ch : Chan) (kind : String) (order : ℤ) (fc : ℚ) (hfc : fc ≠ 0)
    (hSR : s.getSR = s'.getSR)
    (h : Dict.get? s.awgspecs (keyOf ch "filtercompensation") = some (.filt ⟨kind, order, .num fc, .none⟩))
    (h' : Dict.get? s'.awgspecs (keyOf ch "filtercompensation") = some (.filt ⟨kind, order, .none, .num (1 / fc)⟩)) :
    s.filterOf ch = s'.filterOf ch := by
  have h0 : (1 : ℚ) / fc ≠ 0 := one_div_ne_zero hfc
  rw [(filter_call_spec s ch _ h).1 fc rfl, (filter_call_spec s' ch _ h').2 (1 / fc) rfl rfl h0, hSR]
  simp [one_div_one_div]

/-- a channel without a declared compensation gets no filter -/
theorem no_spec_no_filter (s : Sequence) (ch : Chan)
    (h : Dict.get? s.awgspecs (keyOf ch "filtercompensation") = none) : s.filterOf ch = .ok none := by
  simp [SeqCore.filterOf, h]

theorem attach_spec (s : Sequence) (apply : Bool) (x : Chan × Element.ChOut) (y : Chan × ChOutF)
    (h : s.attach apply x = .ok y) :
    y.1 = x.1 ∧ y.2.out = x.2 ∧ (apply = false → y.2.filt = none) ∧ (apply = true → s.filterOf x.1 = .ok y.2.filt) := by
  unfold Sequence.attach at h
  cases apply with
  | false =>
    simp only [Bool.false_eq_true, if_false, Except.ok.injEq] at h
    subst h; simp
  | true =>
    simp only [if_true] at h
    cases hf : s.filterOf x.1 with
    | error e => simp [hf] at h
    | ok f =>
      simp only [hf, Except.ok.injEq] at h
      subst h; simp

/-- Attaching filters leaves the forged arrays themselves — waveform blocks, both markers, flags,
    time axis, raw arrays — exactly as they were, channel by channel in the same order (the
    filter is an annotation on the waveform only); with filters disabled nothing is annotated;
    with filters enabled every channel is annotated with the call of *its own* setting. -/
theorem filters_frame (s : Sequence) (apply : Bool) (d : Dict Chan Element.ChOut) (r : Dict Chan ChOutF)
    (h : s.withFilters apply d = .ok r) :
    r.length = d.length ∧
    ∀ i (hi : i < d.length) (hr : i < r.length),
      r[i].1 = d[i].1 ∧ r[i].2.out = d[i].2 ∧ (apply = false → r[i].2.filt = none) ∧
        (apply = true → s.filterOf d[i].1 = .ok r[i].2.filt) := by
  unfold Sequence.withFilters at h
  refine ⟨mapM_ok_length _ _ _ h, ?_⟩
  intro i hi hr
  exact attach_spec s apply d[i] r[i] (mapM_ok_getElem _ _ _ h i hi hr)

/-! ### invalid specifications are rejected when they are set -/

theorem kinds_are_HP_LP (kind : String) : kind ∈ Gen.filterKinds ↔ (kind = "HP" ∨ kind = "LP") := by
  simp [Gen.filterKinds]

theorem setFilter_accepts_iff (s : Sequence) (ch : Chan) (kind : String) (order : ℤ) (isInt : Bool) (fc tau : Val) :
    (s.setChannelFilterCompensation ch kind order isInt fc tau).err = none ↔
      (kind = "HP" ∨ kind = "LP") ∧ isInt = true ∧ (fc = .none ∨ tau = .none) := by
  unfold SeqCore.setChannelFilterCompensation
  rw [← kinds_are_HP_LP]
  by_cases h1 : kind ∈ Gen.filterKinds <;> by_cases h2 : isInt = true <;>
    by_cases h3 : fc = .none <;> by_cases h4 : tau = .none <;> simp [h1, h2, h3, h4]

/-- a rejected specification leaves the settings unchanged -/
theorem setFilter_rejected_unchanged (s : Sequence) (ch : Chan) (kind : String) (order : ℤ) (isInt : Bool) (fc tau : Val)
    (h : (s.setChannelFilterCompensation ch kind order isInt fc tau).err ≠ none) :
    (s.setChannelFilterCompensation ch kind order isInt fc tau).st = s := by
  unfold SeqCore.setChannelFilterCompensation at *
  by_cases h1 : kind ∈ Gen.filterKinds <;> by_cases h2 : isInt = true <;>
    by_cases h3 : fc = .none <;> by_cases h4 : tau = .none <;> simp_all

/-- an accepted specification is stored under the channel's own key exactly as given -/
theorem setFilter_stores (s : Sequence) (ch : Chan) (kind : String) (order : ℤ) (fc tau : Val)
    (h : (s.setChannelFilterCompensation ch kind order true fc tau).err = none) :
    Dict.get? (s.setChannelFilterCompensation ch kind order true fc tau).st.awgspecs (keyOf ch "filtercompensation")
      = some (.filt ⟨kind, order, fc, tau⟩) := by
  have hacc := (setFilter_accepts_iff s ch kind order true fc tau).mp h
  unfold SeqCore.setChannelFilterCompensation
  have h1 : Gen.filterKinds.contains kind = true := by simpa using (kinds_are_HP_LP kind).mpr hacc.1
  have h3 : ¬ (fc ≠ .none ∧ tau ≠ .none) := by
    rintro ⟨a, b⟩; rcases hacc.2.2 with h | h
    · exact a h
    · exact b h
  simp only [h1, not_true_eq_false, if_false, h3, SeqCore.setSpec]
  exact Dict.get?_upsert_self (κ := String) _ _ _

/-! ### forge with filters on = forge with filters off + the declared inverse filter, position by position -/

/-- **an element position of `forge`, filters on vs. off** (same delay and time options): the two
    results hold the same arrays in the same channel order — markers, flags, time axis and the
    waveform blocks are identical — and differ only in the filter annotation: none with filters
    off; with filters on, every channel carries exactly the call of its own declared setting
    (`filterOf`: kind, order, f_cut or 1/tau, the sequence's sample rate), applied to the
    complete delayed waveform of that element -/
theorem forge_filter_position (s : Sequence) (d t : Bool) (Fon Foff : List (ℕ × ForgedPos))
    (hon : s.forge d true t = .ok Fon) (hoff : s.forge d false t = .ok Foff)
    (i : ℕ) (h1 : i < Fon.length) (h2 : i < Foff.length) (e : Element)
    (he : Dict.get? s.data ((i + 1 : ℕ) : ℤ) = some (.el e)) :
    ∃ (arr : Dict Chan Element.ChOut) (con coff : Dict Chan ChOutF) (sq : SeqSet),
      Fon[i] = (i + 1, { sequencing := sq, isSub := false, content := [(1, con, none)] }) ∧
      Foff[i] = (i + 1, { sequencing := sq, isSub := false, content := [(1, coff, none)] }) ∧
      con.length = arr.length ∧ coff.length = arr.length ∧
      ∀ k (hk : k < arr.length) (hc : k < con.length) (hf : k < coff.length),
        con[k].1 = arr[k].1 ∧ coff[k].1 = arr[k].1 ∧ con[k].2.out = arr[k].2 ∧ coff[k].2.out = arr[k].2 ∧
        coff[k].2.filt = none ∧ s.filterOf arr[k].1 = .ok con[k].2.filt := by
  obtain ⟨en1, hen1, hp1⟩ := (Sequence.forge_pos s d true t Fon hon).2 i h1
  obtain ⟨en2, hen2, hp2⟩ := (Sequence.forge_pos s d false t Foff hoff).2 i h2
  rw [he] at hen1 hen2
  cases hen1; cases hen2
  obtain ⟨e1, arr1, c1, sq1, hd1, ha1, hw1, hs1, hF1⟩ := Sequence.forgePos_element s d true t (i + 1) e _ hp1
  obtain ⟨e2, arr2, c2, sq2, hd2, ha2, hw2, hs2, hF2⟩ := Sequence.forgePos_element s d false t (i + 1) e _ hp2
  rw [hd1] at hd2
  cases hd2
  rw [ha1] at ha2
  cases ha2
  rw [hs1] at hs2
  cases hs2
  obtain ⟨l1, f1⟩ := filters_frame s true arr1 c1 hw1
  obtain ⟨l2, f2⟩ := filters_frame s false arr1 c2 hw2
  refine ⟨arr1, c1, c2, sq1, hF1, hF2, l1, l2, fun k hk hc hf => ?_⟩
  obtain ⟨a1, a2, _, a4⟩ := f1 k hk hc
  obtain ⟨b1, b2, b3, _⟩ := f2 k hk hf
  exact ⟨a1, b1, a2, b2, b3 rfl, a4 rfl⟩

end BB.C11
