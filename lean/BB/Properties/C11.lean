/-
  Property C11 — a declared filter compensation is the ripasso inverse RC filter applied to the
  forged, delayed waveform.

  In the model the filter itself is symbolic: a forged channel carries `filt : Option FiltCall`,
  "the delivered wfm is applyInverseRCFilter(wfm, SR, kind, f_cut, order, DCgain=1) of these blocks";
  the harness evaluates it with the real ripasso function.  What the filter computes is C12/C13.
-/
import BB.Proofs.ForgeSeq
import BB.Proofs.G4Seq
import BB.Proofs.G4Prep
import BB.Proofs.G4Example
import Mathlib.Tactic.FieldSimp
import Mathlib.Algebra.Field.Rat
import BB.Model.Sequence
import BB.Proofs.Basic
import BB.Properties.C15
import BB.Proofs.G9Capstone
import BB.Proofs.G9Ex

namespace BB.C11
open BB

/-- The filter call attached to a channel: the stored kind and order, the cut-off `f_cut` — or
    `1/tau` when only a time constant was given — and the sequence's own sample rate. -/
theorem filter_call_spec (s : Sequence) (ch : Chan) (f : FilterSpec)
    (h : Dict.get? s.awgspecs (keyOf ch "filtercompensation") = some (.filt f)) :
    (∀ fc, f.f_cut = .num fc → s.filterOf ch = .ok (some ⟨f.kind, f.order, fc, s.getSR⟩)) ∧
    (∀ t, f.f_cut = .none → f.tau = .num t → t ≠ 0 → s.filterOf ch = .ok (some ⟨f.kind, f.order, 1 / t, s.getSR⟩)) := by
  constructor
  · intro fc hfc; simp [SeqCore.filterOf, h, hfc, Except.map]
  · intro t hn ht h0; simp [SeqCore.filterOf, h, hn, ht, h0, Except.map]

/-- `tau = 1/f_cut` is equivalent to `f_cut`: both settings attach the same filter call -/
theorem tau_equiv_fcut (s s' : Sequence) (ch : Chan) (kind : String) (order : ℤ) (fc : ℚ) (hfc : fc ≠ 0)
    (hSR : s.getSR = s'.getSR)
    (h : Dict.get? s.awgspecs (keyOf ch "filtercompensation") = some (.filt ⟨kind, order, .num fc, .none⟩))
    (h' : Dict.get? s'.awgspecs (keyOf ch "filtercompensation") = some (.filt ⟨kind, order, .none, .num (1 / fc)⟩)) :
    s.filterOf ch = s'.filterOf ch := by
  have h0 : (1 : ℚ) / fc ≠ 0 := one_div_ne_zero hfc
  rw [(filter_call_spec s ch _ h).1 fc rfl, (filter_call_spec s' ch _ h').2 (1 / fc) rfl rfl h0, hSR]
  simp [one_div_one_div]

/-- a channel without a declared compensation gets no filter -/
theorem no_spec_no_filter (s : Sequence) (ch : Chan)
    (h : Dict.get? s.awgspecs (keyOf ch "filtercompensation") = none) : s.filterOf ch = .ok none := by
  simp [SeqCore.filterOf, h]

theorem attach_spec (s : Sequence) (apply : Bool) (x : Chan × Element.ChOut) (y : Chan × ChOutF)
    (h : s.attach apply x = .ok y) :
    y.1 = x.1 ∧ y.2.out = x.2 ∧ (apply = false → y.2.filt = none) ∧ (apply = true → s.filterOf x.1 = .ok y.2.filt) := by
  unfold Sequence.attach at h
  cases apply with
  | false =>
    simp only [Bool.false_eq_true, if_false, Except.ok.injEq] at h
    subst h; simp
  | true =>
    simp only [if_true] at h
    cases hf : s.filterOf x.1 with
    | error e => simp [hf] at h
    | ok f =>
      simp only [hf, Except.ok.injEq] at h
      subst h; simp

/-- Attaching filters leaves the forged arrays themselves — waveform blocks, both markers, flags,
    time axis, raw arrays — exactly as they were, channel by channel in the same order (the
    filter is an annotation on the waveform only); with filters disabled nothing is annotated;
    with filters enabled every channel is annotated with the call of *its own* setting. -/
theorem filters_frame (s : Sequence) (apply : Bool) (d : Dict Chan Element.ChOut) (r : Dict Chan ChOutF)
    (h : s.withFilters apply d = .ok r) :
    r.length = d.length ∧
    ∀ i (hi : i < d.length) (hr : i < r.length),
      r[i].1 = d[i].1 ∧ r[i].2.out = d[i].2 ∧ (apply = false → r[i].2.filt = none) ∧
        (apply = true → s.filterOf d[i].1 = .ok r[i].2.filt) := by
  unfold Sequence.withFilters at h
  refine ⟨mapM_ok_length _ _ _ h, ?_⟩
  intro i hi hr
  exact attach_spec s apply d[i] r[i] (mapM_ok_getElem _ _ _ h i hi hr)

/-! ### invalid specifications are rejected when they are set -/

theorem kinds_are_HP_LP (kind : String) : kind ∈ Gen.filterKinds ↔ (kind = "HP" ∨ kind = "LP") := by
  simp [Gen.filterKinds]

theorem setFilter_accepts_iff (s : Sequence) (ch : Chan) (kind : String) (order : ℤ) (isInt : Bool) (fc tau : Val) :
    (s.setChannelFilterCompensation ch kind order isInt fc tau).err = none ↔
      (kind = "HP" ∨ kind = "LP") ∧ isInt = true ∧ (fc = .none ∨ tau = .none) := by
  unfold SeqCore.setChannelFilterCompensation
  rw [← kinds_are_HP_LP]
  by_cases h1 : kind ∈ Gen.filterKinds <;> by_cases h2 : isInt = true <;>
    by_cases h3 : fc = .none <;> by_cases h4 : tau = .none <;> simp [h1, h2, h3, h4]

/-- a rejected specification leaves the settings unchanged -/
theorem setFilter_rejected_unchanged (s : Sequence) (ch : Chan) (kind : String) (order : ℤ) (isInt : Bool) (fc tau : Val)
    (h : (s.setChannelFilterCompensation ch kind order isInt fc tau).err ≠ none) :
    (s.setChannelFilterCompensation ch kind order isInt fc tau).st = s := by
  unfold SeqCore.setChannelFilterCompensation at *
  by_cases h1 : kind ∈ Gen.filterKinds <;> by_cases h2 : isInt = true <;>
    by_cases h3 : fc = .none <;> by_cases h4 : tau = .none <;> simp_all

/-- an accepted specification is stored under the channel's own key exactly as given -/
theorem setFilter_stores (s : Sequence) (ch : Chan) (kind : String) (order : ℤ) (fc tau : Val)
    (h : (s.setChannelFilterCompensation ch kind order true fc tau).err = none) :
    Dict.get? (s.setChannelFilterCompensation ch kind order true fc tau).st.awgspecs (keyOf ch "filtercompensation")
      = some (.filt ⟨kind, order, fc, tau⟩) := by
  have hacc := (setFilter_accepts_iff s ch kind order true fc tau).mp h
  unfold SeqCore.setChannelFilterCompensation
  have h1 : Gen.filterKinds.contains kind = true := by simpa using (kinds_are_HP_LP kind).mpr hacc.1
  have h3 : ¬ (fc ≠ .none ∧ tau ≠ .none) := by
    rintro ⟨a, b⟩; rcases hacc.2.2 with h | h
    · exact a h
    · exact b h
  simp only [h1, not_true_eq_false, if_false, h3, SeqCore.setSpec]
  exact Dict.get?_upsert_self (κ := String) _ _ _

/-! ### forge with filters on = forge with filters off + the declared inverse filter, position by position -/

/-- **an element position of `forge`, filters on vs. off** (same delay and time options): the two
    results hold the same arrays in the same channel order — markers, flags, time axis and the
    waveform blocks are identical — and differ only in the filter annotation: none with filters
    off; with filters on, every channel carries exactly the call of its own declared setting
    (`filterOf`: kind, order, f_cut or 1/tau, the sequence's sample rate), applied to the
    complete delayed waveform of that element -/
theorem forge_filter_position (s : Sequence) (d t : Bool) (Fon Foff : List (ℕ × ForgedPos))
    (hon : s.forge d true t = .ok Fon) (hoff : s.forge d false t = .ok Foff)
    (i : ℕ) (h1 : i < Fon.length) (h2 : i < Foff.length) (e : Element)
    (he : Dict.get? s.data ((i + 1 : ℕ) : ℤ) = some (.el e)) :
    ∃ (arr : Dict Chan Element.ChOut) (con coff : Dict Chan ChOutF) (sq : SeqSet),
      Fon[i] = (i + 1, { sequencing := sq, isSub := false, content := [(1, con, none)] }) ∧
      Foff[i] = (i + 1, { sequencing := sq, isSub := false, content := [(1, coff, none)] }) ∧
      con.length = arr.length ∧ coff.length = arr.length ∧
      ∀ k (hk : k < arr.length) (hc : k < con.length) (hf : k < coff.length),
        con[k].1 = arr[k].1 ∧ coff[k].1 = arr[k].1 ∧ con[k].2.out = arr[k].2 ∧ coff[k].2.out = arr[k].2 ∧
        coff[k].2.filt = none ∧ s.filterOf arr[k].1 = .ok con[k].2.filt := by
  obtain ⟨en1, hen1, hp1⟩ := (Sequence.forge_pos s d true t Fon hon).2 i h1
  obtain ⟨en2, hen2, hp2⟩ := (Sequence.forge_pos s d false t Foff hoff).2 i h2
  rw [he] at hen1 hen2
  cases hen1; cases hen2
  obtain ⟨e1, arr1, c1, sq1, hd1, ha1, hw1, hs1, hF1⟩ := Sequence.forgePos_element s d true t (i + 1) e _ hp1
  obtain ⟨e2, arr2, c2, sq2, hd2, ha2, hw2, hs2, hF2⟩ := Sequence.forgePos_element s d false t (i + 1) e _ hp2
  rw [hd1] at hd2
  cases hd2
  rw [ha1] at ha2
  cases ha2
  rw [hs1] at hs2
  cases hs2
  obtain ⟨l1, f1⟩ := filters_frame s true arr1 c1 hw1
  obtain ⟨l2, f2⟩ := filters_frame s false arr1 c2 hw2
  refine ⟨arr1, c1, c2, sq1, hF1, hF2, l1, l2, fun k hk hc hf => ?_⟩
  obtain ⟨a1, a2, _, a4⟩ := f1 k hk hc
  obtain ⟨b1, b2, b3, _⟩ := f2 k hk hf
  exact ⟨a1, b1, a2, b2, b3 rfl, a4 rfl⟩

/-- **`forge_filter_position` with the delayed element exposed**: the arrays both results hold at
    an element position are `getArrays` of the element *after the delay step* (`delayedEl`: the
    stored element with `_applyDelays` applied when delays are on) — so the declared filter is
    attached to that element's complete delayed waveform, channel by channel -/
theorem forge_filter_position_delayed (s : Sequence) (d t : Bool) (Fon Foff : List (ℕ × ForgedPos))
    (hon : s.forge d true t = .ok Fon) (hoff : s.forge d false t = .ok Foff)
    (i : ℕ) (h1 : i < Fon.length) (h2 : i < Foff.length) (e : Element)
    (he : Dict.get? s.data ((i + 1 : ℕ) : ℤ) = some (.el e)) :
    ∃ (e' : Element) (arr : Dict Chan Element.ChOut) (con coff : Dict Chan ChOutF) (sq : SeqSet),
      Sequence.delayedEl s d e = .ok e' ∧ e'.getArrays t = .ok arr ∧
      Fon[i] = (i + 1, { sequencing := sq, isSub := false, content := [(1, con, none)] }) ∧
      Foff[i] = (i + 1, { sequencing := sq, isSub := false, content := [(1, coff, none)] }) ∧
      con.length = arr.length ∧ coff.length = arr.length ∧
      ∀ k (hk : k < arr.length) (hc : k < con.length) (hf : k < coff.length),
        con[k].1 = arr[k].1 ∧ coff[k].1 = arr[k].1 ∧ con[k].2.out = arr[k].2 ∧ coff[k].2.out = arr[k].2 ∧
        coff[k].2.filt = none ∧ s.filterOf arr[k].1 = .ok con[k].2.filt := by
  obtain ⟨en1, hen1, hp1⟩ := (Sequence.forge_pos s d true t Fon hon).2 i h1
  obtain ⟨en2, hen2, hp2⟩ := (Sequence.forge_pos s d false t Foff hoff).2 i h2
  rw [he] at hen1 hen2
  cases hen1; cases hen2
  obtain ⟨e1, arr1, c1, sq1, hd1, ha1, hw1, hs1, hF1⟩ := Sequence.forgePos_element s d true t (i + 1) e _ hp1
  obtain ⟨e2, arr2, c2, sq2, hd2, ha2, hw2, hs2, hF2⟩ := Sequence.forgePos_element s d false t (i + 1) e _ hp2
  have hd1' := hd1
  rw [hd1] at hd2
  cases hd2
  have ha1' := ha1
  rw [ha1] at ha2
  cases ha2
  rw [hs1] at hs2
  cases hs2
  obtain ⟨l1, f1⟩ := filters_frame s true arr1 c1 hw1
  obtain ⟨l2, f2⟩ := filters_frame s false arr1 c2 hw2
  refine ⟨e1, arr1, c1, c2, sq1, hd1', ha1', hF1, hF2, l1, l2, fun k hk hc hf => ?_⟩
  obtain ⟨a1, a2, _, a4⟩ := f1 k hk hc
  obtain ⟨b1, b2, b3, _⟩ := f2 k hk hf
  exact ⟨a1, b1, a2, b2, b3 rfl, a4 rfl⟩

/-- **inside subsequences**: at a subsequence position, filters on vs. off (same delay and time
    options), content entry `j` of both results holds the arrays of the subsequence's element
    `j+1` after the delay step, in the same channel order, with that position's own sequencing
    entry; markers, flags, time axis and waveform blocks are identical, and the results differ
    only in the filter annotation: none with filters off; with filters on, every channel carries
    the call of its own declared setting (the *parent's* settings and sample rate) -/
theorem forge_filter_subsequence_position (s : Sequence) (d t : Bool) (Fon Foff : List (ℕ × ForgedPos))
    (hon : s.forge d true t = .ok Fon) (hoff : s.forge d false t = .ok Foff)
    (i : ℕ) (h1 : i < Fon.length) (h2 : i < Foff.length) (sub : SubSeq)
    (he : Dict.get? s.data ((i + 1 : ℕ) : ℤ) = some (.sub sub)) :
    (Fon[i]).2.content.length = sub.data.length ∧ (Foff[i]).2.content.length = sub.data.length ∧
    ∀ j (hj1 : j < (Fon[i]).2.content.length) (hj2 : j < (Foff[i]).2.content.length),
      ∃ (e e' : Element) (arr : Dict Chan Element.ChOut) (con coff : Dict Chan ChOutF) (q2 : SeqSet),
        Dict.get? sub.data ((j + 1 : ℕ) : ℤ) = some e ∧ Sequence.delayedEl s d e = .ok e' ∧ e'.getArrays t = .ok arr ∧
        (Fon[i]).2.content[j] = (j + 1, con, some q2) ∧ (Foff[i]).2.content[j] = (j + 1, coff, some q2) ∧
        con.length = arr.length ∧ coff.length = arr.length ∧
        ∀ k (hk : k < arr.length) (hc : k < con.length) (hf : k < coff.length),
          con[k].1 = arr[k].1 ∧ coff[k].1 = arr[k].1 ∧ con[k].2.out = arr[k].2 ∧ coff[k].2.out = arr[k].2 ∧
          coff[k].2.filt = none ∧ s.filterOf arr[k].1 = .ok con[k].2.filt := by
  obtain ⟨en1, hen1, hp1⟩ := (Sequence.forge_pos s d true t Fon hon).2 i h1
  obtain ⟨en2, hen2, hp2⟩ := (Sequence.forge_pos s d false t Foff hoff).2 i h2
  rw [he] at hen1 hen2
  cases hen1; cases hen2
  obtain ⟨_, _, _, _, _, hl1, hall1⟩ := Sequence.forgePos_sub s d true t (i + 1) sub _ hp1
  obtain ⟨_, _, _, _, _, hl2, hall2⟩ := Sequence.forgePos_sub s d false t (i + 1) sub _ hp2
  refine ⟨hl1, hl2, fun j hj1 hj2 => ?_⟩
  obtain ⟨e1, e1', arr1, c1, q1, hg1, hd1, ha1, hw1, hq1, hc1⟩ := hall1 j hj1
  obtain ⟨e2, e2', arr2, c2, q2, hg2, hd2, ha2, hw2, hq2, hc2⟩ := hall2 j hj2
  rw [hg1] at hg2
  cases hg2
  have hd1' := hd1
  rw [hd1] at hd2
  cases hd2
  have ha1' := ha1
  rw [ha1] at ha2
  cases ha2
  rw [hq1] at hq2
  cases hq2
  obtain ⟨l1, f1⟩ := filters_frame s true arr1 c1 hw1
  obtain ⟨l2, f2⟩ := filters_frame s false arr1 c2 hw2
  refine ⟨e1, e1', arr1, c1, c2, q1, hg1, hd1', ha1', hc1, hc2, l1, l2, fun k hk hc hf => ?_⟩
  obtain ⟨a1, a2, _, a4⟩ := f1 k hk hc
  obtain ⟨b1, b2, b3, _⟩ := f2 k hk hf
  exact ⟨a1, b1, a2, b2, b3 rfl, a4 rfl⟩

/-! ### the AWG output paths -/

/-- **the duplicate filter loop of `_prepareForOutputting`** (the common front end of
    `outputForAWGFile`, `outputForSEQXFile` and `outputForSEQXFileWithFlags`): at every prepared
    position, every channel carries exactly the filter call declared for that channel — kind,
    order, f_cut or 1/tau, the sequence's sample rate (`filterOf`) —, and no annotation when no
    compensation is declared for it -/
theorem prepare_filter_spec (s : Sequence) (P : List (Dict Chan ChOutF)) (hP : s.prepareForOutputting = .ok P)
    (p : ℕ) (hp : p < P.length) (ch : Chan) (c : ChOutF) (hc : (ch, c) ∈ P[p]) :
    s.filterOf ch = .ok c.filt ∧
    (Dict.get? s.awgspecs (keyOf ch "filtercompensation") = none → c.filt = none) := by
  have h := Sequence.prepare_filters s P hP p hp (ch, c) hc
  refine ⟨h, fun hn => ?_⟩
  rw [no_spec_no_filter s ch hn] at h
  exact (Except.ok.inj h).symm

/-! ### tau ≡ f_cut at the level of the setter -/

/-- helper (C11, tau ≡ f_cut): `key in dict` is `dict.get(key) is not None` on the model dictionaries -/
theorem has_eq_isSome {κ α : Type} [DecidableEq κ] (d : Dict κ α) (k : κ) : Dict.has d k = (Dict.get? d k).isSome := by
  unfold Dict.has Dict.get?
  induction d with
  | nil => rfl
  | cons x xs ih =>
    simp only [List.any_cons, List.find?_cons]
    by_cases hk : x.1 = k
    · simp [hk]
    · simp only [hk, decide_false, Bool.false_or]
      exact ih

/-- **`setChannelFilterCompensation(ch, kind, order, tau=1/f_cut)` ≡ `(…, f_cut=f_cut)`**: after
    either call, `forge` — for every option combination — returns the same result (the same
    filter call is attached to the same channels at every position and inside subsequences;
    everything else does not look at the setting) -/
theorem setFilter_tau_equiv_fcut_forge (s : Sequence) (ch : Chan) (kind : String) (order : ℤ) (isInt : Bool)
    (fc : ℚ) (hfc : fc ≠ 0) (d f t : Bool) :
    Sequence.forge (s.setChannelFilterCompensation ch kind order isInt (.num fc) .none).st d f t =
      Sequence.forge (s.setChannelFilterCompensation ch kind order isInt .none (.num (1 / fc))).st d f t := by
  unfold SeqCore.setChannelFilterCompensation
  by_cases h1 : Gen.filterKinds.contains kind = true
  · by_cases h2 : isInt = true
    · simp only [h1, h2, not_true_eq_false, if_false, ne_eq, and_false, false_and, reduceCtorEq,
        not_false_eq_true, SeqCore.setSpec]
      refine Sequence.g4_forge_congr _ _ d f t rfl rfl ?_ ?_ ?_
      · simp only [has_eq_isSome]
        rw [Dict.get?_upsert_other _ _ _ _ (Sequence.g4_keyOf_ne_SR ch _).symm,
          Dict.get?_upsert_other _ _ _ _ (Sequence.g4_keyOf_ne_SR ch _).symm]
      · intro ch'
        simp only [SeqCore.delayOf]
        rw [Dict.get?_upsert_other _ _ _ _ (Sequence.g4_keyOf_delay_ne_filter ch ch'),
          Dict.get?_upsert_other _ _ _ _ (Sequence.g4_keyOf_delay_ne_filter ch ch')]
      · intro ch'
        have hsr : ∀ v, SeqCore.getSR ({ s with awgspecs := Dict.upsert s.awgspecs (keyOf ch "filtercompensation") v } : Sequence)
            = s.getSR := by
          intro v
          simp only [SeqCore.getSR]
          rw [Dict.get?_upsert_other _ _ _ _ (Sequence.g4_keyOf_ne_SR ch _).symm]
        by_cases hk : keyOf ch' "filtercompensation" = keyOf ch "filtercompensation"
        · apply tau_equiv_fcut _ _ ch' kind order fc hfc
          · rw [hsr, hsr]
          · rw [hk]; exact Dict.get?_upsert_self _ _ _
          · rw [hk]; exact Dict.get?_upsert_self _ _ _
        · simp only [SeqCore.filterOf]
          rw [Dict.get?_upsert_other _ _ _ _ hk, Dict.get?_upsert_other _ _ _ _ hk]
          simp only [hsr]
    · simp [h2]
  · have h1' : kind ∉ Gen.filterKinds := by simpa using h1
    simp [h1']

/-- **the same for the AWG output paths**: after `setChannelFilterCompensation(…, tau=1/f_cut)` and
    after `(…, f_cut=f_cut)`, `_prepareForOutputting` — the front end of `outputForAWGFile` and the
    SEQX output methods, which holds the duplicate filter loop — returns the same result -/
theorem setFilter_tau_equiv_fcut_prepare (s : Sequence) (ch : Chan) (kind : String) (order : ℤ) (isInt : Bool)
    (fc : ℚ) (hfc : fc ≠ 0) :
    Sequence.prepareForOutputting (s.setChannelFilterCompensation ch kind order isInt (.num fc) .none).st =
      Sequence.prepareForOutputting (s.setChannelFilterCompensation ch kind order isInt .none (.num (1 / fc))).st := by
  unfold SeqCore.setChannelFilterCompensation
  by_cases h1 : Gen.filterKinds.contains kind = true
  · by_cases h2 : isInt = true
    · simp only [h1, h2, not_true_eq_false, if_false, ne_eq, and_false, false_and, reduceCtorEq,
        not_false_eq_true, SeqCore.setSpec]
      refine Sequence.g4_prepare_congr _ _ rfl rfl ?_ ?_ ?_ ?_
      · simp only [has_eq_isSome]
        rw [Dict.get?_upsert_other _ _ _ _ (Sequence.g4_keyOf_ne_SR ch _).symm,
          Dict.get?_upsert_other _ _ _ _ (Sequence.g4_keyOf_ne_SR ch _).symm]
      · intro ch'
        simp only [has_eq_isSome]
        rw [Dict.get?_upsert_other _ _ _ _ (Sequence.g4_keyOf_amplitude_ne_filter ch ch'),
          Dict.get?_upsert_other _ _ _ _ (Sequence.g4_keyOf_amplitude_ne_filter ch ch')]
      · intro ch'
        simp only [SeqCore.delayOf]
        rw [Dict.get?_upsert_other _ _ _ _ (Sequence.g4_keyOf_delay_ne_filter ch ch'),
          Dict.get?_upsert_other _ _ _ _ (Sequence.g4_keyOf_delay_ne_filter ch ch')]
      · intro ch'
        have hsr : ∀ v, SeqCore.getSR ({ s with awgspecs := Dict.upsert s.awgspecs (keyOf ch "filtercompensation") v } : Sequence)
            = s.getSR := by
          intro v
          simp only [SeqCore.getSR]
          rw [Dict.get?_upsert_other _ _ _ _ (Sequence.g4_keyOf_ne_SR ch _).symm]
        by_cases hk : keyOf ch' "filtercompensation" = keyOf ch "filtercompensation"
        · apply tau_equiv_fcut _ _ ch' kind order fc hfc
          · rw [hsr, hsr]
          · rw [hk]; exact Dict.get?_upsert_self _ _ _
          · rw [hk]; exact Dict.get?_upsert_self _ _ _
        · simp only [SeqCore.filterOf]
          rw [Dict.get?_upsert_other _ _ _ _ hk, Dict.get?_upsert_other _ _ _ _ hk]
          simp only [hsr]
    · simp [h2]
  · have h1' : kind ∉ Gen.filterKinds := by simpa using h1
    simp [h1']

/-- the hypotheses are satisfiable and the setting is observable: a valid call stores the
    specification, an invalid one (both f_cut and tau) is rejected -/
example : ((({ awgspecs := [("SR", .val (.num 10))] } : Sequence).setChannelFilterCompensation (.int 1) "HP" 1 true
      (.num 2) .none).err = none) ∧
    ((({ awgspecs := [("SR", .val (.num 10))] } : Sequence).setChannelFilterCompensation (.int 1) "HP" 1 true
      (.num 2) (.num (1/2))).err = some .specincons) := by
  constructor <;> decide +kernel

/-- both settings attach the same call: HP, order 1, cut-off 2, the sequence's rate 10 -/
example :
    ((({ awgspecs := [("SR", .val (.num 10))] } : Sequence).setChannelFilterCompensation (.int 1) "HP" 1 true
      .none (.num (1/2))).st.filterOf (.int 1)).toOption = some (some ⟨"HP", 1, 2, .num 10⟩) := by
  decide +kernel

/-! ### non-vacuity of the position theorems -/

open BB.G4Ex in
/-- the hypotheses of `forge_filter_position_delayed` (position 1, an element) and
    `forge_filter_subsequence_position` (position 2, a subsequence) hold for the example: both
    forges succeed, with delays on -/
example : (exSeq.forge true true false).toOption.isSome = true ∧ (exSeq.forge true false false).toOption.isSome = true ∧
    Dict.get? exSeq.data ((0 + 1 : ℕ) : ℤ) = some (.el exEl) ∧ Dict.get? exSeq.data ((1 + 1 : ℕ) : ℤ) = some (.sub exSub) := by
  refine ⟨by decide +kernel, by decide +kernel, rfl, rfl⟩

open BB.G4Ex in
/-- filters on: inside the subsequence, channel "A" carries its HP call, channel 1 nothing -/
example : (exSeq.forge true true false).toOption.map
      (fun out => (out.drop 1).flatMap (fun p => p.2.content.flatMap (fun c => c.2.1.map (fun x => (x.1, x.2.filt))))) =
    some [(.int 1, none), (.str "A", some ⟨"HP", 1, 1, .num 10⟩), (.int 1, none), (.str "A", some ⟨"HP", 1, 1, .num 10⟩)] := by
  decide +kernel

open BB.G4Ex in
/-- `prepare_filter_spec` is not vacuous: `_prepareForOutputting` succeeds on the flat example and
    annotates channel "A" (listed first at position 2) at both positions -/
example : (exFlat.prepareForOutputting).toOption.map (fun P => P.map (fun d => d.map (fun x => (x.1, x.2.filt)))) =
    some [[(.int 1, none), (.str "A", some ⟨"HP", 1, 1, .num 10⟩)],
          [(.str "A", some ⟨"HP", 1, 1, .num 10⟩), (.int 1, none)]] := by
  decide +kernel

end BB.C11

/-! ### the compensation call sites (regenerated from sequence.py on every run)

`Gen.filterCallSites` lists every call of `ripasso.applyInverseRCFilter` inside class `Sequence`: the method it sits in, the DC
gain handed over, the expression handed over as the sample rate, and the expressions handed over as kind, cut-off and order. -/
namespace BB.C11

/-- **"DC gain 1, the sequence's sample rate, same kind and order, cut-off f_cut"**: there are exactly two compensation calls, one
    in `forge` and one in `_prepareForOutputting` (the front end of both AWG output methods); each hands over DC gain 1, the
    sequence's own `self.SR`, and the declared kind, the cut-off resolved from `f_cut` / `1/tau`, and the order, in that order. -/
theorem compensation_call_sites :
    Gen.filterCallSites.map (·.1) = ["forge", "_prepareForOutputting"] ∧
    ∀ c ∈ Gen.filterCallSites, c.2.1 = 1 ∧ c.2.2.1 = "self.SR" ∧ c.2.2.2 = ["kind", "f_cut", "order"] := by
  decide

end BB.C11

/-! ### capstone: tau ≡ f_cut and the declared filter call, all the way through both AWG output methods -/
namespace BB.C11
open BB.Sequence

/-- **`setChannelFilterCompensation(ch, kind, order, tau=1/f_cut)` ≡ `(…, f_cut=f_cut)`, all the way
    through the output methods**: after either call `outputForAWGFile`, `outputForSEQXFile` and
    `outputForSEQXFileWithFlags` return the very same result — the same exception, or the same
    deferred range obligations, pending exception and package (together with
    `setFilter_tau_equiv_fcut_forge` this is "tau = 1/f_cut is equivalent to f_cut" for all three
    output paths) -/
theorem setFilter_tau_equiv_fcut_outputs (s : Sequence) (ch : Chan) (kind : String) (order : ℤ) (isInt : Bool)
    (fc : ℚ) (hfc : fc ≠ 0) :
    Sequence.outputForAWGFile (s.setChannelFilterCompensation ch kind order isInt (.num fc) .none).st =
      Sequence.outputForAWGFile (s.setChannelFilterCompensation ch kind order isInt .none (.num (1 / fc))).st ∧
    Sequence.outputForSEQXFile (s.setChannelFilterCompensation ch kind order isInt (.num fc) .none).st =
      Sequence.outputForSEQXFile (s.setChannelFilterCompensation ch kind order isInt .none (.num (1 / fc))).st ∧
    Sequence.outputForSEQXFileWithFlags (s.setChannelFilterCompensation ch kind order isInt (.num fc) .none).st =
      Sequence.outputForSEQXFileWithFlags (s.setChannelFilterCompensation ch kind order isInt .none (.num (1 / fc))).st := by
  have hprep := setFilter_tau_equiv_fcut_prepare s ch kind order isInt fc hfc
  rw [G9.setFilter_st, G9.setFilter_st] at hprep ⊢
  by_cases hacc : Gen.filterKinds.contains kind = true ∧ isInt = true
  · have c1 : Gen.filterKinds.contains kind = true ∧ isInt = true ∧ (Val.num fc = .none ∨ Val.none = .none) :=
      ⟨hacc.1, hacc.2, .inr rfl⟩
    have c2 : Gen.filterKinds.contains kind = true ∧ isInt = true ∧ (Val.none = .none ∨ Val.num (1 / fc) = .none) :=
      ⟨hacc.1, hacc.2, .inl rfl⟩
    rw [if_pos c1, if_pos c2] at hprep ⊢
    exact G9.outputs_setFilterSpec_congr s ch _ _ hprep
  · have c1 : ¬ (Gen.filterKinds.contains kind = true ∧ isInt = true ∧ (Val.num fc = .none ∨ Val.none = .none)) :=
      fun hc => hacc ⟨hc.1, hc.2.1⟩
    have c2 : ¬ (Gen.filterKinds.contains kind = true ∧ isInt = true ∧ (Val.none = .none ∨ Val.num (1 / fc) = .none)) :=
      fun hc => hacc ⟨hc.1, hc.2.1⟩
    rw [if_neg c1, if_neg c2]
    exact ⟨rfl, rfl, rfl⟩

/-- helper (C11, output paths): what a successful `filterOf` lookup says about the call, in terms of the stored setting -/
theorem filterOf_ok_spec (s : Sequence) (ch : Chan) (fl : Option FiltCall) (h : s.filterOf ch = .ok fl) :
    (Dict.get? s.awgspecs (keyOf ch "filtercompensation") = none → fl = none) ∧
    (∀ f, Dict.get? s.awgspecs (keyOf ch "filtercompensation") = some (.filt f) →
      (∀ fc, f.f_cut = .num fc → fl = some ⟨f.kind, f.order, fc, s.getSR⟩) ∧
      (∀ t, f.f_cut = .none → f.tau = .num t → t ≠ 0 → fl = some ⟨f.kind, f.order, 1 / t, s.getSR⟩)) := by
  refine ⟨fun hn => ?_, fun f hf => ⟨fun fc hfc => ?_, fun t hn ht h0 => ?_⟩⟩
  · rw [no_spec_no_filter s ch hn] at h
    exact (Except.ok.inj h).symm
  · rw [(filter_call_spec s ch f hf).1 fc hfc] at h
    exact (Except.ok.inj h).symm
  · rw [(filter_call_spec s ch f hf).2 t hn ht h0] at h
    exact (Except.ok.inj h).symm

/-- **`outputForAWGFile` delivers the declared filter call at every position for every compensated
    channel, none for the others**: in a delivered package, for every channel index `i` of
    `Sequence.channels` and every position index `p` there is a waveform `pkg.wfms[i][p]`, and its
    filter annotation is exactly `filterOf` of that channel: none when no compensation is declared
    for the channel; for a declared `(kind, order, f_cut | tau)` the call
    `applyInverseRCFilter(wfm, SR, kind, f_cut or 1/tau, order, DCgain=1)` with the sequence's own
    sample rate -/
theorem awg_delivers_declared_filter (s : Sequence) (d : Deferred AWGPkg) (pkg : AWGPkg)
    (h : s.outputForAWGFile = .ok d) (hp : d.pkg = some pkg) :
    s.channels = .ok pkg.channels ∧
    ∀ i (hi : i < pkg.channels.length) p (_ : p < s.data.length), ∃ w,
      (pkg.wfms[i]?).bind (·[p]?) = some w ∧ s.filterOf pkg.channels[i] = .ok w.filt ∧
      (Dict.get? s.awgspecs (keyOf pkg.channels[i] "filtercompensation") = none → w.filt = none) ∧
      (∀ f, Dict.get? s.awgspecs (keyOf pkg.channels[i] "filtercompensation") = some (.filt f) →
        (∀ fc, f.f_cut = .num fc → w.filt = some ⟨f.kind, f.order, fc, s.getSR⟩) ∧
        (∀ t, f.f_cut = .none → f.tau = .num t → t ≠ 0 → w.filt = some ⟨f.kind, f.order, 1 / t, s.getSR⟩)) := by
  obtain ⟨P, hP, hlen, hch, _⟩ := C14.awg_shape s d pkg h hp
  obtain ⟨P', hP', _, hcell, _⟩ := C14.awg_content_channels s d pkg h hp
  have hPP : P' = P := by
    rw [hP] at hP'
    exact (Except.ok.inj hP').symm
  subst hPP
  refine ⟨hch, fun i hi p hpp => ?_⟩
  have hpP : p < P'.length := by omega
  obtain ⟨ob, w, c, m1, m2, hck, hw, hc, _⟩ := hcell i hi p hpP
  obtain ⟨a, o, c', w0, _, _, hc', hw0, hweq, _⟩ := C14.awgCheckWave_ok s (p + 1) P'[p] pkg.channels[i] ob w hck
  rw [hc] at hc'
  cases hc'
  have hfo : s.filterOf pkg.channels[i] = .ok w.filt := by
    have := (prepare_filter_spec s P' hP p hpP pkg.channels[i] c (G9.lookup_mem _ _ _ hc)).1
    rw [hweq]
    show s.filterOf pkg.channels[i] = .ok w0.filt
    rw [G9.chWave_filt c w0 hw0]; exact this
  obtain ⟨h1, h2⟩ := filterOf_ok_spec s pkg.channels[i] w.filt hfo
  exact ⟨w, hw, hfo, h1, h2⟩

/-- **... and so do `outputForSEQXFile` / `outputForSEQXFileWithFlags`** (the flags variant delivers
    the same waveforms, `C15.seqx_flags_content`): for every channel index `i` of `Sequence.channels`
    and every position index `p` the waveform of `pkg.wfms[i][p]` is annotated with exactly the
    call declared for that channel, and with none when no compensation is declared for it -/
theorem seqx_delivers_declared_filter (s : Sequence) (d : Deferred SEQXPkg) (pkg : SEQXPkg)
    (h : s.outputForSEQXFile = .ok d) (hp : d.pkg = some pkg) :
    ∃ chans, s.channels = .ok chans ∧
    ∀ i (hi : i < chans.length) p (_ : p < s.data.length), ∃ w m1 m2,
      (pkg.wfms[i]?).bind (·[p]?) = some (w, m1, m2) ∧ s.filterOf chans[i] = .ok w.filt ∧
      (Dict.get? s.awgspecs (keyOf chans[i] "filtercompensation") = none → w.filt = none) ∧
      (∀ f, Dict.get? s.awgspecs (keyOf chans[i] "filtercompensation") = some (.filt f) →
        (∀ fc, f.f_cut = .num fc → w.filt = some ⟨f.kind, f.order, fc, s.getSR⟩) ∧
        (∀ t, f.f_cut = .none → f.tau = .num t → t ≠ 0 → w.filt = some ⟨f.kind, f.order, 1 / t, s.getSR⟩)) := by
  obtain ⟨P, chans, amps, hP, hlen, hch, _, _, _, _, _, _, _, _, _, _, _, _, hcell, _⟩ :=
    C15.seqx_content_channels s d pkg h hp
  refine ⟨chans, hch, fun i hi p hpp => ?_⟩
  have hpP : p < P.length := by omega
  obtain ⟨c, w, m1, m2, hc, hw, _, _, hcl⟩ := hcell i hi p hpP
  have hfo : s.filterOf chans[i] = .ok w.filt := by
    have := (prepare_filter_spec s P hP p hpP chans[i] c (G9.lookup_mem _ _ _ hc)).1
    rw [G9.chWave_filt c w hw]; exact this
  obtain ⟨h1, h2⟩ := filterOf_ok_spec s chans[i] w.filt hfo
  exact ⟨w, m1, m2, hcl, hfo, h1, h2⟩

/-- non-vacuity of `setFilter_tau_equiv_fcut_outputs`, `awg_delivers_declared_filter` and
    `seqx_delivers_declared_filter`: on the examples `G9Ex.awgSeqF` / `G9Ex.seqxSeqF` (built through
    the public API, high-pass compensation declared for channel "A" with `f_cut = 1`) the output
    methods deliver a package; channel "A" is compensated, channel 1 is not -/
example : (∃ d pkg, G9Ex.awgSeqF.outputForAWGFile = .ok d ∧ d.pkg = some pkg) ∧
    (∃ d pkg, G9Ex.seqxSeqF.outputForSEQXFile = .ok d ∧ d.pkg = some pkg) ∧
    G9Ex.awgSeqF.filterOf (.str "A") = .ok (some ⟨"HP", 1, 1, .num 10⟩) ∧ G9Ex.awgSeqF.filterOf (.int 1) = .ok none ∧
    G9Ex.seqxSeqF.filterOf (.str "A") = .ok (some ⟨"HP", 1, 1, .num 10⟩) ∧ G9Ex.seqxSeqF.filterOf (.int 1) = .ok none := by
  refine ⟨G9Ex.awgSeqF_awg_ok, G9Ex.seqxSeqF_seqx_ok, by decide +kernel, by decide +kernel, by decide +kernel,
    by decide +kernel⟩

/-- ... what the AWG5014 package then holds, computed: the filter annotation of every delivered
    waveform, channel by channel (`[1, "A"]`) and position by position -/
example : (G9Ex.awgSeqF.outputForAWGFile.toOption.bind (·.pkg)).map (fun pkg => pkg.wfms.map (·.map (·.filt))) =
    some [[none, none], [some ⟨"HP", 1, 1, .num 10⟩, some ⟨"HP", 1, 1, .num 10⟩]] := by
  decide +kernel

/-- ... and `setFilter_tau_equiv_fcut_outputs` applied: declaring the same compensation by
    `tau = 1/1` instead of `f_cut = 1` delivers a package as well (the same one) -/
example : ∃ d pkg,
    Sequence.outputForAWGFile (G9Ex.awgSeq.setChannelFilterCompensation (.str "A") "HP" 1 true .none (.num (1 / 1))).st = .ok d ∧
      d.pkg = some pkg := by
  obtain ⟨d, pkg, h1, h2⟩ := G9Ex.awgSeqF_awg_ok
  refine ⟨d, pkg, ?_, h2⟩
  rw [← (setFilter_tau_equiv_fcut_outputs G9Ex.awgSeq (.str "A") "HP" 1 true 1 (by norm_num)).1]
  exact h1

end BB.C11
