/-
  Property C20 — equality is observational: equal objects describe and forge identically.

  `BP.beq`, `Element.entEq`/`Element.beq`, `Entry.beq`, `Sequence.beq` are the model's
  `__eq__` methods, field by field as coded (tied to /repo by the correspondence check).
  The theorems say what `==` means (an iff with the compared fields), that description and
  forging factor through those fields, that `==` is reflexive and symmetric, that a copy equals
  its original, and that every single-attribute difference makes `==` false.

  Finding D23 (see DESIGN.md): `BluePrint.__eq__` deliberately ignores the sample rate, and
  `Element.__eq__`/`Sequence.__eq__` inherit that, so two elements whose channel blueprints
  differ only in SR compare equal and forge differently.  `entEq_forge_partial` therefore carries
  the hypothesis "same channel sample rate", and `entEq_not_forge_counterexample` is the
  machine-checked witness that the hypothesis cannot be dropped.
-/
import BB.Proofs.Copy
import BB.Proofs.DictEq
import BB.Model.Describe

namespace BB.C20
open BB BB.BP

/-! ### blueprints -/

theorem segs_eq_of_fields (a b : List Seg)
    (hn : a.map (·.name) = b.map (·.name)) (hf : a.map (·.fn) = b.map (·.fn))
    (ha : a.map (·.args) = b.map (·.args)) (h1 : a.map (·.m1) = b.map (·.m1))
    (h2 : a.map (·.m2) = b.map (·.m2)) (hd : a.map (·.dur) = b.map (·.dur)) : a = b := by
  induction a generalizing b with
  | nil => cases b with
    | nil => rfl
    | cons y ys => simp at hn
  | cons x xs ih =>
    cases b with
    | nil => simp at hn
    | cons y ys =>
      simp only [List.map_cons, List.cons.injEq] at *
      obtain ⟨x1, x2, x3, x4, x5, x6⟩ := x
      obtain ⟨y1, y2, y3, y4, y5, y6⟩ := y
      simp only at *
      refine ⟨?_, ih ys hn.2 hf.2 ha.2 h1.2 h2.2 hd.2⟩
      rw [hn.1, hf.1, ha.1, h1.1, h2.1, hd.1]

/-- **what `BluePrint.__eq__` means**: every per-segment record (name, function, arguments,
    duration, both segment-bound markers) and both absolute-marker lists coincide.  The sample
    rate is not compared. -/
theorem bp_eq_iff (a b : BP) :
    a.beq b = true ↔ a.segs = b.segs ∧ a.marker1 = b.marker1 ∧ a.marker2 = b.marker2 := by
  unfold beq names
  simp only [Bool.and_eq_true, beq_iff_eq]
  constructor
  · rintro ⟨⟨⟨⟨⟨⟨⟨hn, hf⟩, ha⟩, hm1⟩, hm2⟩, h1⟩, h2⟩, hd⟩
    exact ⟨segs_eq_of_fields _ _ hn hf ha h1 h2 hd, hm1, hm2⟩
  · rintro ⟨hs, hm1, hm2⟩
    rw [hs, hm1, hm2]
    simp

/-- equal blueprints have equal descriptions -/
theorem bp_eq_desc (a b : BP) (h : a.beq b = true) : a.toDesc = b.toDesc := by
  obtain ⟨hs, h1, h2⟩ := (bp_eq_iff a b).mp h
  unfold BP.toDesc
  rw [hs, h1, h2]

/-- equal blueprints at equal sample rate are the same blueprint, hence forge to the same
    arrays (waveform blocks, both markers, time axis, segment durations) or fail alike -/
theorem bp_eq_forge (a b : BP) (h : a.beq b = true) (hsr : a.SR = b.SR) :
    a = b ∧ forgeBP a = forgeBP b ∧ a.duration = b.duration ∧ a.points = b.points := by
  obtain ⟨hs, h1, h2⟩ := (bp_eq_iff a b).mp h
  have : a = b := by
    obtain ⟨_, _, _, _⟩ := a
    obtain ⟨_, _, _, _⟩ := b
    simp only at hs h1 h2 hsr
    rw [hs, h1, h2, hsr]
  exact ⟨this, by rw [this], by rw [this], by rw [this]⟩

theorem bp_eq_refl (a : BP) : a.beq a = true := (bp_eq_iff a a).mpr ⟨rfl, rfl, rfl⟩

theorem bp_eq_symm (a b : BP) (h : a.beq b = true) : b.beq a = true := by
  obtain ⟨hs, h1, h2⟩ := (bp_eq_iff a b).mp h
  exact (bp_eq_iff b a).mpr ⟨hs.symm, h1.symm, h2.symm⟩

theorem bp_eq_trans (a b c : BP) (h : a.beq b = true) (h' : b.beq c = true) : a.beq c = true := by
  obtain ⟨hs, h1, h2⟩ := (bp_eq_iff a b).mp h
  obtain ⟨hs', h1', h2'⟩ := (bp_eq_iff b c).mp h'
  exact (bp_eq_iff a c).mpr ⟨hs.trans hs', h1.trans h1', h2.trans h2'⟩

/-- a copy of any blueprint obtained through the public API compares equal to its original -/
theorem bp_copy_eq (h : Hist) : h.eval.copy.beq h.eval = true := by
  rw [copy_reachable h]; exact bp_eq_refl _

/-- blueprints that differ in the number of segments, or at some index in name, function,
    arguments, duration or a segment-bound marker, or in an absolute-marker list, are unequal -/
theorem bp_differ_neq (a b : BP)
    (h : a.segs.length ≠ b.segs.length ∨
         (∃ (i : Nat) (x y : Seg), a.segs[i]? = some x ∧ b.segs[i]? = some y ∧
            (x.name ≠ y.name ∨ x.fn ≠ y.fn ∨ x.args ≠ y.args ∨ x.dur ≠ y.dur ∨ x.m1 ≠ y.m1 ∨ x.m2 ≠ y.m2)) ∨
         a.marker1 ≠ b.marker1 ∨ a.marker2 ≠ b.marker2) :
    a.beq b = false := by
  rw [Bool.eq_false_iff]
  intro he
  obtain ⟨hs, h1, h2⟩ := (bp_eq_iff a b).mp he
  rcases h with h | ⟨i, x, y, hx, hy, hd⟩ | h | h
  · exact h (by rw [hs])
  · rw [hs, hy] at hx
    cases hx
    simp at hd
  · exact h h1
  · exact h h2

/-! #### single public mutations make a blueprint unequal to what it was -/

/-- an accepted `changeDuration` that gives some addressed segment a different duration -/
theorem changeDuration_neq (b : BP) (name : String) (d : Rat) (all : Bool)
    (hacc : (b.changeDuration name (.num d) all).err = none)
    (hdiff : ∃ s ∈ b.segs, (b.targets name all).2.contains s.name = true ∧ s.dur ≠ .num d) :
    (b.changeDuration name (.num d) all).st.beq b = false := by
  have hfr : (b.changeDuration name (.num d) all).st =
      { b with segs := b.segs.map (setDur (b.targets name all).2 d) } := by
    unfold changeDuration at *
    grind
  rw [hfr]
  obtain ⟨s, hs, ht, hd⟩ := hdiff
  obtain ⟨i, hi, rfl⟩ := List.getElem_of_mem hs
  apply bp_differ_neq
  refine Or.inr (Or.inl ⟨i, setDur (b.targets name all).2 d b.segs[i], b.segs[i], ?_, ?_, ?_⟩)
  · simp [List.getElem?_map, List.getElem?_eq_getElem hi]
  · simp [List.getElem?_eq_getElem hi]
  · refine Or.inr (Or.inr (Or.inr (Or.inl ?_)))
    simp only [setDur, ht, if_true]
    exact fun e => hd e.symm

/-- an accepted single-segment `changeArg` that stores a different value -/
theorem changeArg_neq (b : BP) (i k : Nat) (v : Val) (hi : i < b.segs.length)
    (hk : k < (b.segs[i]).args.length) (hv : (b.segs[i]).args[k] ≠ v) :
    (b.modifySeg i (setArg k v)).beq b = false := by
  apply bp_differ_neq
  refine Or.inr (Or.inl ⟨i, setArg k v b.segs[i], b.segs[i], ?_, ?_, ?_⟩)
  · simp [modifySeg, List.getElem?_modify, List.getElem?_eq_getElem hi]
  · simp [List.getElem?_eq_getElem hi]
  · refine Or.inr (Or.inr (Or.inl ?_))
    simp only [setArg]
    intro e
    have := congrArg (fun l => l[k]?) e
    simp [List.getElem?_set, hk, List.getElem?_eq_getElem hk] at this
    exact hv this.symm

/-- an accepted `setSegmentMarker` that stores a different marker -/
theorem setSegmentMarker_neq (b : BP) (i : Nat) (mid : Int) (m : Mark) (hi : i < b.segs.length)
    (hm : (mid = 1 ∧ (b.segs[i]).m1 ≠ m) ∨ (mid ≠ 1 ∧ (b.segs[i]).m2 ≠ m)) :
    (b.modifySeg i (setMark mid m)).beq b = false := by
  apply bp_differ_neq
  refine Or.inr (Or.inl ⟨i, setMark mid m b.segs[i], b.segs[i], ?_, ?_, ?_⟩)
  · simp [modifySeg, List.getElem?_modify, List.getElem?_eq_getElem hi]
  · simp [List.getElem?_eq_getElem hi]
  · rcases hm with ⟨h1, h2⟩ | ⟨h1, h2⟩
    · refine Or.inr (Or.inr (Or.inr (Or.inr (Or.inl ?_))))
      simp only [setMark, h1, if_true]
      exact fun e => h2 e.symm
    · refine Or.inr (Or.inr (Or.inr (Or.inr (Or.inr ?_))))
      simp only [setMark, h1, if_false]
      exact fun e => h2 e.symm

theorem insertSegs_length (segs : List Seg) (pos : Int) (x : Seg) :
    (insertSegs segs pos x).length = segs.length + 1 := by
  unfold insertSegs insertAt
  split
  · simp
  · simp only [List.length_append, List.length_cons, List.length_take, List.length_drop]
    omega

/-- an accepted `insertSegment` / `removeSegment` changes the number of segments -/
theorem insert_neq (b : BP) (pos : Int) (fn : Fn) (args : List Val) (dur name : Val)
    (hacc : (b.insertSegment pos fn args dur name).err = none) :
    (b.insertSegment pos fn args dur name).st.beq b = false := by
  apply bp_differ_neq
  left
  unfold insertSegment at *
  split at hacc
  · simp at hacc
  · rename_i hpos
    split at hacc
    · simp at hacc
    · simp [hpos, renumber_length, insertSegs_length]

theorem remove_neq (b : BP) (name : String) (hacc : (b.removeSegment name).err = none) :
    (b.removeSegment name).st.beq b = false := by
  apply bp_differ_neq
  left
  unfold removeSegment at *
  split at hacc
  · simp at hacc
  · rename_i i hi
    simp only [renumber_length, List.length_eraseIdx]
    simp only [indexOf?] at hi
    split at hi
    · cases hi
      rename_i hlt
      simp only [hlt, if_true]
      omega
    · cases hi

/-! ### elements -/

open Element in
theorem entEq_refl (x : ChEntry) : entEq x x = true := by
  unfold entEq
  obtain ⟨d, f⟩ := x
  cases d <;> simp [bp_eq_refl]

open Element in
/-- what equality of two channel entries means -/
theorem entEq_bp_iff (p q : BP) (f g : Option (List Nat)) :
    entEq ⟨.bp p, f⟩ ⟨.bp q, g⟩ = true ↔ p.beq q = true ∧ f = g := by
  simp [entEq]

open Element in
theorem entEq_symm (x y : ChEntry) (h : entEq x y = true) : entEq y x = true := by
  obtain ⟨d, f⟩ := x
  obtain ⟨d', f'⟩ := y
  cases d with
  | bp p => cases d' with
    | bp q => rw [entEq_bp_iff] at *; exact ⟨bp_eq_symm _ _ h.1, h.2.symm⟩
    | arr _ _ => simp [entEq] at h
    | broken => simp [entEq] at h
  | arr a s => cases d' with
    | bp q => simp [entEq] at h
    | arr a' s' =>
      simp only [entEq, Bool.and_eq_true, beq_iff_eq] at *
      exact ⟨⟨h.1.1.symm, h.1.2.symm⟩, h.2.symm⟩
    | broken => simp [entEq] at h
  | broken => cases d' with
    | bp q => simp [entEq] at h
    | arr _ _ => simp [entEq] at h
    | broken => simp only [entEq, beq_iff_eq] at *; exact h.symm

open Element in
/-- entries of different kinds (blueprint vs raw array), or with different flags, are unequal -/
theorem entEq_flags (x y : ChEntry) (h : x.flags ≠ y.flags) (hb : x.data ≠ .broken) : entEq x y = false := by
  unfold entEq
  obtain ⟨d, f⟩ := x
  obtain ⟨d', f'⟩ := y
  cases d <;> cases d' <;> simp_all

open Element in
/-- equal channel entries have the same description -/
theorem entEq_desc (x y : ChEntry) (h : entEq x y = true) : chanDesc x = chanDesc y := by
  unfold entEq at h
  obtain ⟨d, f⟩ := x
  obtain ⟨d', f'⟩ := y
  cases d <;> cases d' <;> simp_all [chanDesc]
  rw [bp_eq_desc _ _ h.1]

open Element in
/-- equal channel entries *with the same sample rate* deliver the same arrays
    (`…_partial`: the hypothesis is needed, see the counterexample below — finding D23) -/
theorem entEq_forge_partial (x y : ChEntry) (t : Bool) (h : entEq x y = true)
    (hsr : chanSR x = chanSR y) : chanOut t x = chanOut t y := by
  unfold entEq at h
  obtain ⟨d, f⟩ := x
  obtain ⟨d', f'⟩ := y
  cases d <;> cases d' <;> simp_all [chanOut, chanSR]
  rename_i p q
  rw [(bp_eq_forge p q h.1 hsr).1]

/-- D23: two channel entries that compare equal and forge differently (one ramp of 1 s at
    10 Sa/s and at 20 Sa/s) -/
def d23_bp (sr : Rat) : BP :=
  { segs := [{ name := "ramp", fn := Fn.rampFn, args := [.num 0, .num 1], dur := .num 1 }], SR := .num sr }

/-- number of samples of a delivered channel -/
def outN : Except Err Element.ChOut → Option Nat
  | .ok (.forged f _ _) => some f.N
  | _ => none

open Element in
theorem entEq_not_forge_counterexample :
    entEq ⟨.bp (d23_bp 10), none⟩ ⟨.bp (d23_bp 20), none⟩ = true ∧
    outN (chanOut false ⟨.bp (d23_bp 10), none⟩) = some 10 ∧
    outN (chanOut false ⟨.bp (d23_bp 20), none⟩) = some 20 := by
  decide +kernel

theorem el_eq_refl (a : Element) (h : Dict.WF a.chans) : a.beq a = true :=
  Dict.eqBy_refl _ entEq_refl h

theorem el_eq_symm (a b : Element) (ha : Dict.WF a.chans) (hb : Dict.WF b.chans)
    (h : a.beq b = true) : b.beq a = true :=
  Dict.eqBy_symm _ entEq_symm ha hb h

/-- **what `Element.__eq__` means**: the same number of channels, and every channel of the one
    is a channel of the other holding an equal entry (the order of insertion does not matter) -/
theorem el_eq_iff (a b : Element) (ha : Dict.WF a.chans) :
    a.beq b = true ↔ a.chans.length = b.chans.length ∧
      ∀ ch x, Dict.get? a.chans ch = some x → ∃ y, Dict.get? b.chans ch = some y ∧ Element.entEq x y = true :=
  Dict.eqBy_iff _ ha

/-- equal elements have the same channels, and channel by channel the same description and — at
    equal channel sample rate — the same arrays -/
theorem el_eq_channelwise (a b : Element) (ha : Dict.WF a.chans) (hb : Dict.WF b.chans)
    (h : a.beq b = true) :
    (∀ ch, ch ∈ b.channels ↔ ch ∈ a.channels) ∧
    ∀ ch x, Dict.get? a.chans ch = some x → ∃ y, Dict.get? b.chans ch = some y ∧
      Element.chanDesc x = Element.chanDesc y ∧
      (Element.chanSR x = Element.chanSR y → ∀ t, Element.chanOut t x = Element.chanOut t y) := by
  refine ⟨Dict.eqBy_keys _ ha hb h, fun ch x hx => ?_⟩
  obtain ⟨y, hy, he⟩ := ((el_eq_iff a b ha).mp h).2 ch x hx
  exact ⟨y, hy, entEq_desc x y he, fun hsr t => entEq_forge_partial x y t he hsr⟩

/-- elements that differ in the flags of some channel are unequal -/
theorem el_flags_neq (a b : Element) (ha : Dict.WF a.chans) (ch : Chan) (x y : ChEntry)
    (hx : Dict.get? a.chans ch = some x) (hy : Dict.get? b.chans ch = some y)
    (hf : x.flags ≠ y.flags) (hb : x.data ≠ .broken) : a.beq b = false := by
  rw [Bool.eq_false_iff]
  intro he
  obtain ⟨y', hy', hee⟩ := ((el_eq_iff a b ha).mp he).2 ch x hx
  rw [hy] at hy'
  cases hy'
  rw [entEq_flags x y hf hb] at hee
  cases hee

/-- elements that differ in a channel's blueprint are unequal -/
theorem el_bp_neq (a b : Element) (ha : Dict.WF a.chans) (ch : Chan) (p q : BP) (f g : Option (List Nat))
    (hx : Dict.get? a.chans ch = some ⟨.bp p, f⟩) (hy : Dict.get? b.chans ch = some ⟨.bp q, g⟩)
    (hpq : p.beq q = false) : a.beq b = false := by
  rw [Bool.eq_false_iff]
  intro he
  obtain ⟨y', hy', hee⟩ := ((el_eq_iff a b ha).mp he).2 ch _ hx
  rw [hy] at hy'
  cases hy'
  rw [entEq_bp_iff, hpq] at hee
  cases hee.1

/-- the operations that build an element keep its channel store well-formed -/
theorem wf_addBluePrint (e : Element) (h : Dict.WF e.chans) (ch : Chan) (b : BP) :
    Dict.WF (e.addBluePrint ch b).st.chans := by
  unfold Element.addBluePrint; split
  · exact h
  · exact Dict.wf_upsert h _ _

theorem wf_addFlags (e : Element) (h : Dict.WF e.chans) (ch : Chan) (fl : List Val) :
    Dict.WF (e.addFlags ch fl).st.chans := by
  unfold Element.addFlags
  split
  · exact h
  · split
    · exact h
    · split
      · exact h
      · exact Dict.wf_upsert h _ _

theorem wf_addArray (e : Element) (h : Dict.WF e.chans) (ch : Chan) (w : List Rat) (sr : Val)
    (kw : Dict String (List Rat)) : Dict.WF (e.addArray ch w sr kw).st.chans := by
  unfold Element.addArray; split <;> exact Dict.wf_upsert h _ _

/-! ### sequences -/

/-- **what `Sequence.__eq__` means**: element store, AWG settings and sequencing are equal as
    dictionaries (same keys, equal values; insertion order irrelevant) -/
theorem seq_eq_iff (a b : Sequence) :
    a.beq b = true ↔ Dict.eqBy Entry.beq a.data b.data = true ∧
      Dict.eqBy (· == ·) a.awgspecs b.awgspecs = true ∧ Dict.eqBy (· == ·) a.sequencing b.sequencing = true := by
  unfold Sequence.beq
  simp [Bool.and_eq_true, and_assoc]

/-- sequences that differ in some AWG setting (sample rate, amplitude, offset, delay, filter
    compensation) are unequal -/
theorem seq_awgspec_neq (a b : Sequence) (ha : Dict.WF a.awgspecs) (k : String) (x : Spec)
    (hx : Dict.get? a.awgspecs k = some x) (hy : Dict.get? b.awgspecs k ≠ some x) : a.beq b = false := by
  rw [Bool.eq_false_iff]
  intro he
  obtain ⟨_, h2, _⟩ := (seq_eq_iff a b).mp he
  obtain ⟨y, hy', hxy⟩ := ((Dict.eqBy_iff _ ha).mp h2).2 k x hx
  simp only [beq_iff_eq] at hxy
  subst hxy
  exact hy hy'

/-- sequences that differ in the sequencing entry of some position are unequal -/
theorem seq_sequencing_neq (a b : Sequence) (ha : Dict.WF a.sequencing) (pos : Int) (x : SeqSet)
    (hx : Dict.get? a.sequencing pos = some x) (hy : Dict.get? b.sequencing pos ≠ some x) :
    a.beq b = false := by
  rw [Bool.eq_false_iff]
  intro he
  obtain ⟨_, _, h3⟩ := (seq_eq_iff a b).mp he
  obtain ⟨y, hy', hxy⟩ := ((Dict.eqBy_iff _ ha).mp h3).2 pos x hx
  simp only [beq_iff_eq] at hxy
  subst hxy
  exact hy hy'

/-- sequences whose element at some position differs are unequal -/
theorem seq_element_neq (a b : Sequence) (ha : Dict.WF a.data) (pos : Int) (x y : Element)
    (hx : Dict.get? a.data pos = some (.el x)) (hy : Dict.get? b.data pos = some (.el y))
    (hxy : x.beq y = false) : a.beq b = false := by
  rw [Bool.eq_false_iff]
  intro he
  obtain ⟨h1, _, _⟩ := (seq_eq_iff a b).mp he
  obtain ⟨y', hy', hee⟩ := ((Dict.eqBy_iff _ ha).mp h1).2 pos _ hx
  rw [hy] at hy'
  cases hy'
  simp only [Entry.beq] at hee
  rw [hxy] at hee
  cases hee

theorem entry_eq_refl (x : Entry) (h : match x with
    | .el e => Dict.WF e.chans
    | .sub s => Dict.WF s.data ∧ Dict.WF s.awgspecs ∧ Dict.WF s.sequencing ∧ ∀ e ∈ Dict.vals s.data, Dict.WF e.chans) :
    x.beq x = true := by
  cases x with
  | el e => exact el_eq_refl e h
  | sub s =>
    obtain ⟨h1, h2, h3, h4⟩ := h
    simp only [Entry.beq, Bool.and_eq_true]
    refine ⟨⟨?_, Dict.eqBy_refl _ (by simp) h2⟩, Dict.eqBy_refl _ (by simp) h3⟩
    refine (Dict.eqBy_iff _ h1).mpr ⟨rfl, fun k v hk => ⟨v, hk, ?_⟩⟩
    exact el_eq_refl v (h4 v (List.mem_map.mpr ⟨(k, v), Dict.mem_of_get?_eq_some k v hk, rfl⟩))

/-! ### non-vacuity -/

example : (d23_bp 10).beq (d23_bp 10) = true := by decide +kernel
example : ((d23_bp 10).changeDuration "ramp" (.num 2) false).err = none := by decide +kernel
example : ((d23_bp 10).changeDuration "ramp" (.num 2) false).st.beq (d23_bp 10) = false := by decide +kernel

end BB.C20
