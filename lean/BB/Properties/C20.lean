/-
  Property C20 — equality is observational: equal objects describe and forge identically.

  `BP.beq`, `Element.entEq`/`Element.beq`, `Entry.beq`, `Sequence.beq` are the model's
  `__eq__` methods, field by field as coded (tied to /repo by the correspondence check).
  The theorems say what `==` means (an iff with the compared fields), that description and
  forging factor through those fields, that `==` is reflexive and symmetric, that a copy equals
  its original, and that every single-attribute difference makes `==` false.

  Finding D23 (see DESIGN.md): `BluePrint.__eq__` deliberately ignores the sample rate, and
  `Element.__eq__`/`Sequence.__eq__` inherit that, so two elements whose channel blueprints
  differ only in SR compare equal and forge differently.  `entEq_forge_partial` therefore carries
  the hypothesis "same channel sample rate", and `entEq_not_forge_counterexample` is the
  machine-checked witness that the hypothesis cannot be dropped.

  Second part (whole sequences): `seq_eq_refl/symm`, `seq_copy_eq`; the public mutators
  (`setSegmentMarker_op_neq`, `changeArg_op_neq`, `addFlags_neq`, `setSequencing_neq`,
  `setChannelAmplitude_neq` …) make an object unequal to what it was; `el_eq_desc` / `seq_eq_desc`:
  equal objects have equal descriptions as Python compares dicts (`J.DictEq`);
  `seq_eq_forge_partial` / `seq_eq_forge_anyorder_partial`: equal sequences forge alike — under
  equal channel sample rates (D23, `seq_eq_not_forge_counterexample`) and equal channel insertion
  order.  The order hypothesis is a second finding: `dict.__eq__` ignores insertion order, but
  `getArrays` lists channels in it (`el_eq_order_counterexample`) and `validateDurations` measures
  every duration against the first channel's (`numpy.allclose(durations, durations[0], …)`), so of
  two `==` elements one can validate and the other raise (`el_eq_validate_order_counterexample`,
  reproduced against the real library).
-/
import BB.Proofs.Copy
import BB.Proofs.DictEq
import BB.Proofs.G6Eq
import BB.Proofs.G6Forge
import BB.Proofs.G6Desc
import BB.Proofs.G13PermBase
import BB.Model.Describe

namespace BB.C20
open BB BB.BP

/-! ### blueprints -/

theorem segs_eq_of_fields (a b : List Seg)
    (hn : a.map (·.name) = b.map (·.name)) (hf : a.map (·.fn) = b.map (·.fn))
    (ha : a.map (·.args) = b.map (·.args)) (h1 : a.map (·.m1) = b.map (·.m1))
    (h2 : a.map (·.m2) = b.map (·.m2)) (hd : a.map (·.dur) = b.map (·.dur)) : a = b := by
  induction a generalizing b with
  | nil => cases b with
    | nil => rfl
    | cons y ys => simp at hn
  | cons x xs ih =>
    cases b with
    | nil => simp at hn
    | cons y ys =>
      simp only [List.map_cons, List.cons.injEq] at *
      obtain ⟨x1, x2, x3, x4, x5, x6⟩ := x
      obtain ⟨y1, y2, y3, y4, y5, y6⟩ := y
      simp only at *
      refine ⟨?_, ih ys hn.2 hf.2 ha.2 h1.2 h2.2 hd.2⟩
      rw [hn.1, hf.1, ha.1, h1.1, h2.1, hd.1]

/-- **what `BluePrint.__eq__` means**: every per-segment record (name, function, arguments,
    duration, both segment-bound markers) and both absolute-marker lists coincide.  The sample
    rate is not compared. -/
theorem bp_eq_iff (a b : BP) :
    a.beq b = true ↔ a.segs = b.segs ∧ a.marker1 = b.marker1 ∧ a.marker2 = b.marker2 := by
  unfold beq names
  simp only [Bool.and_eq_true, beq_iff_eq]
  constructor
  · rintro ⟨⟨⟨⟨⟨⟨⟨hn, hf⟩, ha⟩, hm1⟩, hm2⟩, h1⟩, h2⟩, hd⟩
    exact ⟨segs_eq_of_fields _ _ hn hf ha h1 h2 hd, hm1, hm2⟩
  · rintro ⟨hs, hm1, hm2⟩
    rw [hs, hm1, hm2]
    simp

/-- equal blueprints have equal descriptions -/
theorem bp_eq_desc (a b : BP) (h : a.beq b = true) : a.toDesc = b.toDesc := by
  obtain ⟨hs, h1, h2⟩ := (bp_eq_iff a b).mp h
  unfold BP.toDesc
  rw [hs, h1, h2]

/-- equal blueprints at equal sample rate are the same blueprint, hence forge to the same
    arrays (waveform blocks, both markers, time axis, segment durations) or fail alike -/
theorem bp_eq_forge (a b : BP) (h : a.beq b = true) (hsr : a.SR = b.SR) :
    a = b ∧ forgeBP a = forgeBP b ∧ a.duration = b.duration ∧ a.points = b.points := by
  obtain ⟨hs, h1, h2⟩ := (bp_eq_iff a b).mp h
  have : a = b := by
    obtain ⟨_, _, _, _⟩ := a
    obtain ⟨_, _, _, _⟩ := b
    simp only at hs h1 h2 hsr
    rw [hs, h1, h2, hsr]
  exact ⟨this, by rw [this], by rw [this], by rw [this]⟩

theorem bp_eq_refl (a : BP) : a.beq a = true := (bp_eq_iff a a).mpr ⟨rfl, rfl, rfl⟩

theorem bp_eq_symm (a b : BP) (h : a.beq b = true) : b.beq a = true := by
  obtain ⟨hs, h1, h2⟩ := (bp_eq_iff a b).mp h
  exact (bp_eq_iff b a).mpr ⟨hs.symm, h1.symm, h2.symm⟩

theorem bp_eq_trans (a b c : BP) (h : a.beq b = true) (h' : b.beq c = true) : a.beq c = true := by
  obtain ⟨hs, h1, h2⟩ := (bp_eq_iff a b).mp h
  obtain ⟨hs', h1', h2'⟩ := (bp_eq_iff b c).mp h'
  exact (bp_eq_iff a c).mpr ⟨hs.trans hs', h1.trans h1', h2.trans h2'⟩

/-- a copy of any blueprint obtained through the public API compares equal to its original -/
theorem bp_copy_eq (h : Hist) : h.eval.copy.beq h.eval = true := by
  rw [copy_reachable h]; exact bp_eq_refl _

/-- blueprints that differ in the number of segments, or at some index in name, function,
    arguments, duration or a segment-bound marker, or in an absolute-marker list, are unequal -/
theorem bp_differ_neq (a b : BP)
    (h : a.segs.length ≠ b.segs.length ∨
         (∃ (i : Nat) (x y : Seg), a.segs[i]? = some x ∧ b.segs[i]? = some y ∧
            (x.name ≠ y.name ∨ x.fn ≠ y.fn ∨ x.args ≠ y.args ∨ x.dur ≠ y.dur ∨ x.m1 ≠ y.m1 ∨ x.m2 ≠ y.m2)) ∨
         a.marker1 ≠ b.marker1 ∨ a.marker2 ≠ b.marker2) :
    a.beq b = false := by
  rw [Bool.eq_false_iff]
  intro he
  obtain ⟨hs, h1, h2⟩ := (bp_eq_iff a b).mp he
  rcases h with h | ⟨i, x, y, hx, hy, hd⟩ | h | h
  · exact h (by rw [hs])
  · rw [hs, hy] at hx
    cases hx
    simp at hd
  · exact h h1
  · exact h h2

/-! #### single public mutations make a blueprint unequal to what it was -/

/-- an accepted `changeDuration` that gives some addressed segment a different duration -/
theorem changeDuration_neq (b : BP) (name : String) (d : Rat) (all : Bool)
    (hacc : (b.changeDuration name (.num d) all).err = none)
    (hdiff : ∃ s ∈ b.segs, (b.targets name all).2.contains s.name = true ∧ s.dur ≠ .num d) :
    (b.changeDuration name (.num d) all).st.beq b = false := by
  have hfr : (b.changeDuration name (.num d) all).st =
      { b with segs := b.segs.map (setDur (b.targets name all).2 d) } := by
    unfold changeDuration at *
    grind
  rw [hfr]
  obtain ⟨s, hs, ht, hd⟩ := hdiff
  obtain ⟨i, hi, rfl⟩ := List.getElem_of_mem hs
  apply bp_differ_neq
  refine Or.inr (Or.inl ⟨i, setDur (b.targets name all).2 d b.segs[i], b.segs[i], ?_, ?_, ?_⟩)
  · simp [List.getElem?_map, List.getElem?_eq_getElem hi]
  · simp [List.getElem?_eq_getElem hi]
  · refine Or.inr (Or.inr (Or.inr (Or.inl ?_)))
    simp only [setDur, ht, if_true]
    exact fun e => hd e.symm

/-- an accepted single-segment `changeArg` that stores a different value -/
theorem changeArg_neq (b : BP) (i k : Nat) (v : Val) (hi : i < b.segs.length)
    (hk : k < (b.segs[i]).args.length) (hv : (b.segs[i]).args[k] ≠ v) :
    (b.modifySeg i (setArg k v)).beq b = false := by
  apply bp_differ_neq
  refine Or.inr (Or.inl ⟨i, setArg k v b.segs[i], b.segs[i], ?_, ?_, ?_⟩)
  · simp [modifySeg, List.getElem?_modify, List.getElem?_eq_getElem hi]
  · simp [List.getElem?_eq_getElem hi]
  · refine Or.inr (Or.inr (Or.inl ?_))
    simp only [setArg]
    intro e
    have := congrArg (fun l => l[k]?) e
    simp [List.getElem?_set, hk, List.getElem?_eq_getElem hk] at this
    exact hv this.symm

/-- an accepted `setSegmentMarker` that stores a different marker -/
theorem setSegmentMarker_neq (b : BP) (i : Nat) (mid : Int) (m : Mark) (hi : i < b.segs.length)
    (hm : (mid = 1 ∧ (b.segs[i]).m1 ≠ m) ∨ (mid ≠ 1 ∧ (b.segs[i]).m2 ≠ m)) :
    (b.modifySeg i (setMark mid m)).beq b = false := by
  apply bp_differ_neq
  refine Or.inr (Or.inl ⟨i, setMark mid m b.segs[i], b.segs[i], ?_, ?_, ?_⟩)
  · simp [modifySeg, List.getElem?_modify, List.getElem?_eq_getElem hi]
  · simp [List.getElem?_eq_getElem hi]
  · rcases hm with ⟨h1, h2⟩ | ⟨h1, h2⟩
    · refine Or.inr (Or.inr (Or.inr (Or.inr (Or.inl ?_))))
      simp only [setMark, h1, if_true]
      exact fun e => h2 e.symm
    · refine Or.inr (Or.inr (Or.inr (Or.inr (Or.inr ?_))))
      simp only [setMark, h1, if_false]
      exact fun e => h2 e.symm

theorem insertSegs_length (segs : List Seg) (pos : Int) (x : Seg) :
    (insertSegs segs pos x).length = segs.length + 1 := by
  unfold insertSegs insertAt
  split
  · simp
  · simp only [List.length_append, List.length_cons, List.length_take, List.length_drop]
    omega

/-- an accepted `insertSegment` / `removeSegment` changes the number of segments -/
theorem insert_neq (b : BP) (pos : Int) (fn : Fn) (args : List Val) (dur name : Val)
    (hacc : (b.insertSegment pos fn args dur name).err = none) :
    (b.insertSegment pos fn args dur name).st.beq b = false := by
  apply bp_differ_neq
  left
  unfold insertSegment at *
  split at hacc
  · simp at hacc
  · rename_i hpos
    split at hacc
    · simp at hacc
    · simp [hpos, renumber_length, insertSegs_length]

theorem remove_neq (b : BP) (name : String) (hacc : (b.removeSegment name).err = none) :
    (b.removeSegment name).st.beq b = false := by
  apply bp_differ_neq
  left
  unfold removeSegment at *
  split at hacc
  · simp at hacc
  · rename_i i hi
    simp only [renumber_length, List.length_eraseIdx]
    simp only [indexOf?] at hi
    split at hi
    · cases hi
      rename_i hlt
      simp only [hlt, if_true]
      omega
    · cases hi

/-! ### elements -/

open Element in
theorem entEq_refl (x : ChEntry) : entEq x x = true := by
  unfold entEq
  obtain ⟨d, f⟩ := x
  cases d <;> simp [bp_eq_refl]

open Element in
/-- what equality of two channel entries means -/
theorem entEq_bp_iff (p q : BP) (f g : Option (List Nat)) :
    entEq ⟨.bp p, f⟩ ⟨.bp q, g⟩ = true ↔ p.beq q = true ∧ f = g := by
  simp [entEq]

open Element in
theorem entEq_symm (x y : ChEntry) (h : entEq x y = true) : entEq y x = true := by
  obtain ⟨d, f⟩ := x
  obtain ⟨d', f'⟩ := y
  cases d with
  | bp p => cases d' with
    | bp q => rw [entEq_bp_iff] at *; exact ⟨bp_eq_symm _ _ h.1, h.2.symm⟩
    | arr _ _ => simp [entEq] at h
    | broken => simp [entEq] at h
  | arr a s => cases d' with
    | bp q => simp [entEq] at h
    | arr a' s' =>
      simp only [entEq, Bool.and_eq_true, beq_iff_eq] at *
      exact ⟨⟨h.1.1.symm, h.1.2.symm⟩, h.2.symm⟩
    | broken => simp [entEq] at h
  | broken => cases d' with
    | bp q => simp [entEq] at h
    | arr _ _ => simp [entEq] at h
    | broken => simp only [entEq, beq_iff_eq] at *; exact h.symm

open Element in
/-- entries of different kinds (blueprint vs raw array), or with different flags, are unequal -/
theorem entEq_flags (x y : ChEntry) (h : x.flags ≠ y.flags) (hb : x.data ≠ .broken) : entEq x y = false := by
  unfold entEq
  obtain ⟨d, f⟩ := x
  obtain ⟨d', f'⟩ := y
  cases d <;> cases d' <;> simp_all

open Element in
/-- equal channel entries have the same description -/
theorem entEq_desc (x y : ChEntry) (h : entEq x y = true) : chanDesc x = chanDesc y := by
  unfold entEq at h
  obtain ⟨d, f⟩ := x
  obtain ⟨d', f'⟩ := y
  cases d <;> cases d' <;> simp_all [chanDesc]
  rw [bp_eq_desc _ _ h.1]

open Element in
/-- equal channel entries *with the same sample rate* deliver the same arrays
    (`…_partial`: the hypothesis is needed, see the counterexample below — finding D23) -/
theorem entEq_forge_partial (x y : ChEntry) (t : Bool) (h : entEq x y = true)
    (hsr : chanSR x = chanSR y) : chanOut t x = chanOut t y := by
  unfold entEq at h
  obtain ⟨d, f⟩ := x
  obtain ⟨d', f'⟩ := y
  cases d <;> cases d' <;> simp_all [chanOut, chanSR]
  rename_i p q
  rw [(bp_eq_forge p q h.1 hsr).1]

/-- D23: two channel entries that compare equal and forge differently (one ramp of 1 s at
    10 Sa/s and at 20 Sa/s) -/
def d23_bp (sr : Rat) : BP :=
  { segs := [{ name := "ramp", fn := Fn.rampFn, args := [.num 0, .num 1], dur := .num 1 }], SR := .num sr }

/-- number of samples of a delivered channel -/
def outN : Except Err Element.ChOut → Option Nat
  | .ok (.forged f _ _) => some f.N
  | _ => none

open Element in
theorem entEq_not_forge_counterexample :
    entEq ⟨.bp (d23_bp 10), none⟩ ⟨.bp (d23_bp 20), none⟩ = true ∧
    outN (chanOut false ⟨.bp (d23_bp 10), none⟩) = some 10 ∧
    outN (chanOut false ⟨.bp (d23_bp 20), none⟩) = some 20 := by
  decide +kernel

theorem el_eq_refl (a : Element) (h : Dict.WF a.chans) : a.beq a = true :=
  Dict.eqBy_refl _ entEq_refl h

theorem el_eq_symm (a b : Element) (ha : Dict.WF a.chans) (hb : Dict.WF b.chans)
    (h : a.beq b = true) : b.beq a = true :=
  Dict.eqBy_symm _ entEq_symm ha hb h

/-- **what `Element.__eq__` means**: the same number of channels, and every channel of the one
    is a channel of the other holding an equal entry (the order of insertion does not matter) -/
theorem el_eq_iff (a b : Element) (ha : Dict.WF a.chans) :
    a.beq b = true ↔ a.chans.length = b.chans.length ∧
      ∀ ch x, Dict.get? a.chans ch = some x → ∃ y, Dict.get? b.chans ch = some y ∧ Element.entEq x y = true :=
  Dict.eqBy_iff _ ha

/-- equal elements have the same channels, and channel by channel the same description and — at
    equal channel sample rate — the same arrays -/
theorem el_eq_channelwise (a b : Element) (ha : Dict.WF a.chans) (hb : Dict.WF b.chans)
    (h : a.beq b = true) :
    (∀ ch, ch ∈ b.channels ↔ ch ∈ a.channels) ∧
    ∀ ch x, Dict.get? a.chans ch = some x → ∃ y, Dict.get? b.chans ch = some y ∧
      Element.chanDesc x = Element.chanDesc y ∧
      (Element.chanSR x = Element.chanSR y → ∀ t, Element.chanOut t x = Element.chanOut t y) := by
  refine ⟨Dict.eqBy_keys _ ha hb h, fun ch x hx => ?_⟩
  obtain ⟨y, hy, he⟩ := ((el_eq_iff a b ha).mp h).2 ch x hx
  exact ⟨y, hy, entEq_desc x y he, fun hsr t => entEq_forge_partial x y t he hsr⟩

/-- elements that differ in the flags of some channel are unequal -/
theorem el_flags_neq (a b : Element) (ha : Dict.WF a.chans) (ch : Chan) (x y : ChEntry)
    (hx : Dict.get? a.chans ch = some x) (hy : Dict.get? b.chans ch = some y)
    (hf : x.flags ≠ y.flags) (hb : x.data ≠ .broken) : a.beq b = false := by
  rw [Bool.eq_false_iff]
  intro he
  obtain ⟨y', hy', hee⟩ := ((el_eq_iff a b ha).mp he).2 ch x hx
  rw [hy] at hy'
  cases hy'
  rw [entEq_flags x y hf hb] at hee
  cases hee

/-- elements that differ in a channel's blueprint are unequal -/
theorem el_bp_neq (a b : Element) (ha : Dict.WF a.chans) (ch : Chan) (p q : BP) (f g : Option (List Nat))
    (hx : Dict.get? a.chans ch = some ⟨.bp p, f⟩) (hy : Dict.get? b.chans ch = some ⟨.bp q, g⟩)
    (hpq : p.beq q = false) : a.beq b = false := by
  rw [Bool.eq_false_iff]
  intro he
  obtain ⟨y', hy', hee⟩ := ((el_eq_iff a b ha).mp he).2 ch _ hx
  rw [hy] at hy'
  cases hy'
  rw [entEq_bp_iff, hpq] at hee
  cases hee.1

/-- the operations that build an element keep its channel store well-formed -/
theorem wf_addBluePrint (e : Element) (h : Dict.WF e.chans) (ch : Chan) (b : BP) :
    Dict.WF (e.addBluePrint ch b).st.chans := by
  unfold Element.addBluePrint; split
  · exact h
  · exact Dict.wf_upsert h _ _

theorem wf_addFlags (e : Element) (h : Dict.WF e.chans) (ch : Chan) (fl : List Val) :
    Dict.WF (e.addFlags ch fl).st.chans := by
  unfold Element.addFlags
  split
  · exact h
  · split
    · exact h
    · split
      · exact h
      · exact Dict.wf_upsert h _ _

theorem wf_addArray (e : Element) (h : Dict.WF e.chans) (ch : Chan) (w : List Rat) (sr : Val)
    (kw : Dict String (List Rat)) : Dict.WF (e.addArray ch w sr kw).st.chans := by
  unfold Element.addArray; split <;> exact Dict.wf_upsert h _ _

/-! ### sequences -/

/-- **what `Sequence.__eq__` means**: element store, AWG settings and sequencing are equal as
    dictionaries (same keys, equal values; insertion order irrelevant) -/
theorem seq_eq_iff (a b : Sequence) :
    a.beq b = true ↔ Dict.eqBy Entry.beq a.data b.data = true ∧
      Dict.eqBy (· == ·) a.awgspecs b.awgspecs = true ∧ Dict.eqBy (· == ·) a.sequencing b.sequencing = true := by
  unfold Sequence.beq
  simp [Bool.and_eq_true, and_assoc]

/-- sequences that differ in some AWG setting (sample rate, amplitude, offset, delay, filter
    compensation) are unequal -/
theorem seq_awgspec_neq (a b : Sequence) (ha : Dict.WF a.awgspecs) (k : String) (x : Spec)
    (hx : Dict.get? a.awgspecs k = some x) (hy : Dict.get? b.awgspecs k ≠ some x) : a.beq b = false := by
  rw [Bool.eq_false_iff]
  intro he
  obtain ⟨_, h2, _⟩ := (seq_eq_iff a b).mp he
  obtain ⟨y, hy', hxy⟩ := ((Dict.eqBy_iff _ ha).mp h2).2 k x hx
  simp only [beq_iff_eq] at hxy
  subst hxy
  exact hy hy'

/-- sequences that differ in the sequencing entry of some position are unequal -/
theorem seq_sequencing_neq (a b : Sequence) (ha : Dict.WF a.sequencing) (pos : Int) (x : SeqSet)
    (hx : Dict.get? a.sequencing pos = some x) (hy : Dict.get? b.sequencing pos ≠ some x) :
    a.beq b = false := by
  rw [Bool.eq_false_iff]
  intro he
  obtain ⟨_, _, h3⟩ := (seq_eq_iff a b).mp he
  obtain ⟨y, hy', hxy⟩ := ((Dict.eqBy_iff _ ha).mp h3).2 pos x hx
  simp only [beq_iff_eq] at hxy
  subst hxy
  exact hy hy'

/-- sequences whose element at some position differs are unequal -/
theorem seq_element_neq (a b : Sequence) (ha : Dict.WF a.data) (pos : Int) (x y : Element)
    (hx : Dict.get? a.data pos = some (.el x)) (hy : Dict.get? b.data pos = some (.el y))
    (hxy : x.beq y = false) : a.beq b = false := by
  rw [Bool.eq_false_iff]
  intro he
  obtain ⟨h1, _, _⟩ := (seq_eq_iff a b).mp he
  obtain ⟨y', hy', hee⟩ := ((Dict.eqBy_iff _ ha).mp h1).2 pos _ hx
  rw [hy] at hy'
  cases hy'
  simp only [Entry.beq] at hee
  rw [hxy] at hee
  cases hee

theorem entry_eq_refl (x : Entry) (h : match x with
    | .el e => Dict.WF e.chans
    | .sub s => Dict.WF s.data ∧ Dict.WF s.awgspecs ∧ Dict.WF s.sequencing ∧ ∀ e ∈ Dict.vals s.data, Dict.WF e.chans) :
    x.beq x = true := by
  cases x with
  | el e => exact el_eq_refl e h
  | sub s =>
    obtain ⟨h1, h2, h3, h4⟩ := h
    simp only [Entry.beq, Bool.and_eq_true]
    refine ⟨⟨?_, Dict.eqBy_refl _ (by simp) h2⟩, Dict.eqBy_refl _ (by simp) h3⟩
    refine (Dict.eqBy_iff _ h1).mpr ⟨rfl, fun k v hk => ⟨v, hk, ?_⟩⟩
    exact el_eq_refl v (h4 v (List.mem_map.mpr ⟨(k, v), Dict.mem_of_get?_eq_some k v hk, rfl⟩))

/-! ## second part: equality of whole sequences, public mutators, descriptions, forging -/

/-! ### reflexivity, symmetry, copies (sequences and their entries) -/

/-- every dictionary inside a stored entry holds each key once (what `dict` assignment maintains) -/
def EntryWF : Entry → Prop
  | .el e => Dict.WF e.chans
  | .sub s => Dict.WF s.data ∧ Dict.WF s.awgspecs ∧ Dict.WF s.sequencing ∧ ∀ e ∈ Dict.vals s.data, Dict.WF e.chans

/-- every dictionary of a sequence — element store, AWG settings, sequencing, and the stores of
    the entries — holds each key once -/
structure SeqWF (s : Sequence) : Prop where
  data : Dict.WF s.data
  specs : Dict.WF s.awgspecs
  sequencing : Dict.WF s.sequencing
  entries : ∀ en ∈ Dict.vals s.data, EntryWF en

/-- helper (C20 "equality is reflexive"): a well-formed stored entry equals itself -/
theorem entry_eq_refl_wf (x : Entry) (h : EntryWF x) : x.beq x = true := by
  cases x with
  | el e => exact entry_eq_refl (.el e) h
  | sub s => exact entry_eq_refl (.sub s) h

/-- helper: `==` on a type with decidable equality is symmetric -/
theorem beq_fn_symm {α : Type} [DecidableEq α] : ∀ x y : α, (x == y) = true → (y == x) = true := by
  intro x y h
  simp only [beq_iff_eq] at *
  exact h.symm

/-- **symmetry of `==` on stored entries** (elements and subsequences) -/
theorem entry_eq_symm (x y : Entry) (hx : EntryWF x) (hy : EntryWF y) (h : x.beq y = true) : y.beq x = true := by
  cases x with
  | el a => cases y with
    | el b => exact el_eq_symm a b hx hy h
    | sub _ => simp [Entry.beq] at h
  | sub a => cases y with
    | el _ => simp [Entry.beq] at h
    | sub b =>
      obtain ⟨a1, a2, a3, a4⟩ := hx
      obtain ⟨b1, b2, b3, b4⟩ := hy
      simp only [Entry.beq, Bool.and_eq_true] at h ⊢
      obtain ⟨⟨h1, h2⟩, h3⟩ := h
      refine ⟨⟨?_, Dict.eqBy_symm _ beq_fn_symm a2 b2 h2⟩, Dict.eqBy_symm _ beq_fn_symm a3 b3 h3⟩
      exact Dict.eqBy_symm_mem _ a1 b1 (fun x hx y hy hxy => el_eq_symm x y (a4 x hx) (b4 y hy) hxy) h1

/-- **`Sequence.__eq__` is reflexive** -/
theorem seq_eq_refl (s : Sequence) (h : SeqWF s) : s.beq s = true := by
  rw [seq_eq_iff]
  exact ⟨Dict.eqBy_refl_mem _ h.data (fun x hx => entry_eq_refl_wf x (h.entries x hx)),
    Dict.eqBy_refl _ (by simp) h.specs, Dict.eqBy_refl _ (by simp) h.sequencing⟩

/-- **`Sequence.__eq__` is symmetric** -/
theorem seq_eq_symm (a b : Sequence) (ha : SeqWF a) (hb : SeqWF b) (h : a.beq b = true) : b.beq a = true := by
  rw [seq_eq_iff] at h ⊢
  obtain ⟨h1, h2, h3⟩ := h
  exact ⟨Dict.eqBy_symm_mem _ ha.data hb.data
      (fun x hx y hy hxy => entry_eq_symm x y (ha.entries x hx) (hb.entries y hy) hxy) h1,
    Dict.eqBy_symm _ beq_fn_symm ha.specs hb.specs h2,
    Dict.eqBy_symm _ beq_fn_symm ha.sequencing hb.sequencing h3⟩

/-- **a copy compares equal to its original** (sequences; both ways round) -/
theorem seq_copy_eq (s : Sequence) (h : SeqWF s) : s.copy.beq s = true ∧ s.beq s.copy = true := by
  have := seq_eq_refl s h
  exact ⟨this, this⟩

/-- a copy of an element compares equal to its original -/
theorem el_copy_eq (e : Element) (h : Dict.WF e.chans) : e.copy.beq e = true ∧ e.beq e.copy = true :=
  ⟨el_eq_refl e h, el_eq_refl e h⟩

/-- the public builders keep a sequence well-formed -/
theorem seqwf_empty : SeqWF ({} : Sequence) :=
  ⟨Dict.wf_nil, Dict.wf_nil, Dict.wf_nil, by intro en h; simp [Dict.vals] at h⟩

/-- helper: the values after `d[k] = v` are `v` and old values -/
theorem mem_vals_upsert {κ α : Type} [DecidableEq κ] (d : Dict κ α) (k : κ) (v x : α)
    (h : x ∈ Dict.vals (Dict.upsert d k v)) : x = v ∨ x ∈ Dict.vals d := by
  induction d with
  | nil => simp [Dict.upsert, Dict.vals] at h; exact Or.inl h
  | cons p rest ih =>
    obtain ⟨k', v'⟩ := p
    unfold Dict.upsert at h
    split at h
    · simp only [Dict.vals, List.map_cons, List.mem_cons] at h ⊢
      rcases h with h | h
      · exact Or.inl h
      · exact Or.inr (Or.inr h)
    · simp only [Dict.vals, List.map_cons, List.mem_cons] at h ⊢ ih
      rcases h with h | h
      · exact Or.inr (Or.inl h)
      · rcases ih h with h | h
        · exact Or.inl h
        · exact Or.inr (Or.inr h)

/-- helper (well-formedness is what the public builders maintain): setting an AWG setting -/
theorem seqwf_setSpec (s : Sequence) (h : SeqWF s) (k : String) (v : Spec) : SeqWF (s.setSpec k v) :=
  ⟨h.data, Dict.wf_upsert h.specs _ _, h.sequencing, h.entries⟩

/-- helper (well-formedness is what the public builders maintain): a `setSequencing…` call -/
theorem seqwf_setSequencing (s : Sequence) (h : SeqWF s) (pos : Int) (f : SeqSet → SeqSet) :
    SeqWF (s.setSequencing pos f).st := by
  unfold SeqCore.setSequencing
  split
  · exact h
  · exact ⟨h.data, h.specs, Dict.wf_upsert h.sequencing _ _, h.entries⟩

/-- helper (well-formedness is what the public builders maintain): `addElement` of a well-formed element -/
theorem seqwf_addElement (s : Sequence) (h : SeqWF s) (pos : Int) (e : Element) (he : Dict.WF e.chans) :
    SeqWF (s.addElement pos e).st := by
  unfold Sequence.addElement
  split
  · exact h
  · refine ⟨Dict.wf_upsert h.data _ _, h.specs, Dict.wf_upsert h.sequencing _ _, ?_⟩
    intro en hen
    rcases mem_vals_upsert _ _ _ _ hen with rfl | hen
    · exact he
    · exact h.entries en hen

/-! ### single public mutations of a blueprint (lifted from the `modifySeg` helper) -/

/-- an accepted `setSegmentMarker(name, specs, markerID)` that stores a marker different from the
    one the addressed segment had makes the blueprint unequal to what it was -/
theorem setSegmentMarker_op_neq (b : BP) (name : String) (m : Mark) (mid : Int) (i : Nat) (s : Seg)
    (hacc : (b.setSegmentMarker name m mid).err = none)
    (hi : b.indexOf? name = some i) (hs : b.segs[i]? = some s)
    (hm : (mid = 1 ∧ s.m1 ≠ m) ∨ (mid ≠ 1 ∧ s.m2 ≠ m)) :
    (b.setSegmentMarker name m mid).st.beq b = false := by
  obtain ⟨hlt, hsi⟩ := List.getElem?_eq_some_iff.mp hs
  unfold setSegmentMarker at *
  split at hacc
  · simp at hacc
  · rename_i hmid
    simp only [hmid, if_false, hi]
    exact setSegmentMarker_neq b i mid m hlt (by rw [hsi]; exact hm)

/-- an accepted `removeSegmentMarker(name, markerID)` that removes a marker that was set -/
theorem removeSegmentMarker_op_neq (b : BP) (name : String) (mid : Int) (i : Nat) (s : Seg)
    (hacc : (b.removeSegmentMarker name mid).err = none)
    (hi : b.indexOf? name = some i) (hs : b.segs[i]? = some s)
    (hm : (mid = 1 ∧ s.m1 ≠ (0, 0)) ∨ (mid ≠ 1 ∧ s.m2 ≠ (0, 0))) :
    (b.removeSegmentMarker name mid).st.beq b = false := by
  obtain ⟨hlt, hsi⟩ := List.getElem?_eq_some_iff.mp hs
  unfold removeSegmentMarker at *
  split at hacc
  · simp at hacc
  · rename_i hmid
    simp only [hmid, if_false, hi]
    exact setSegmentMarker_neq b i mid (0, 0) hlt (by rw [hsi]; exact hm)

/-- what an accepted step of `changeArg`'s loop does -/
theorem changeArgOne_facts (b b' : BP) (nm : String) (arg value : Val)
    (h : b.changeArgOne nm arg value = ⟨b', none⟩) :
    ∃ i seg k, b.indexOf? nm = some i ∧ b.segs[i]? = some seg ∧ argIndex seg arg = .ok k ∧
      k < seg.args.length ∧ b' = b.modifySeg i (setArg k value) := by
  unfold changeArgOne at h
  split at h
  · cases h
  · rename_i i hi
    split at h
    · cases h
    · rename_i seg hseg
      split at h
      · cases h
      · split at h
        · cases h
        · rename_i k hk
          split at h
          · rename_i hlt
            simp only [Res.mk.injEq, and_true] at h
            exact ⟨i, seg, k, hi, hseg, hk, hlt, h.symm⟩
          · cases h

/-- helper for `changeArg_op_neq`: the argument position depends on the pulse function only -/
theorem argIndex_congr (s t : Seg) (h : s.fn = t.fn) (arg : Val) : argIndex s arg = argIndex t arg := by
  unfold argIndex
  rw [h]

/-- helper for `changeArg_op_neq`: storing an argument changes no name -/
theorem modifySeg_setArg_names (b : BP) (i k : Nat) (v : Val) : (b.modifySeg i (setArg k v)).names = b.names := by
  unfold modifySeg names
  exact modify_names _ _ _ (fun _ => rfl)

/-- helper for `changeArg_op_neq`: … so name look-ups are unaffected -/
theorem modifySeg_setArg_indexOf (b : BP) (i k : Nat) (v : Val) (nm : String) :
    (b.modifySeg i (setArg k v)).indexOf? nm = b.indexOf? nm := by
  unfold indexOf?
  rw [modifySeg_setArg_names]
  simp [modifySeg]

/-- helper for `changeArg_op_neq`: what storing an argument does to segment `j` -/
theorem modifySeg_setArg_get (b : BP) (i k : Nat) (v : Val) (j : Nat) (s : Seg) (h : b.segs[j]? = some s) :
    (b.modifySeg i (setArg k v)).segs[j]? = some (if i = j then setArg k v s else s) := by
  simp only [modifySeg, List.getElem?_modify, h]
  split <;> rfl

/-- "segment `i` has function `fn` and holds `value` as its `k`-th argument" -/
def ArgSet (b : BP) (i k : Nat) (fn : Fn) (value : Val) : Prop :=
  ∃ s, b.segs[i]? = some s ∧ s.fn = fn ∧ s.args[k]? = some value

/-- helper for `changeArg_op_neq`: a later step of the loop does not undo an earlier one -/
theorem changeArgOne_keeps (b b' : BP) (nm : String) (arg value : Val) (i k : Nat) (fn : Fn)
    (h : b.changeArgOne nm arg value = ⟨b', none⟩)
    (hk : ∀ seg : Seg, seg.fn = fn → argIndex seg arg = .ok k)
    (hP : ArgSet b i k fn value) : ArgSet b' i k fn value := by
  obtain ⟨i', seg', k', _, hseg', hk', hlt, rfl⟩ := changeArgOne_facts b b' nm arg value h
  obtain ⟨s, hs, hfn, hval⟩ := hP
  refine ⟨_, modifySeg_setArg_get b i' k' value i s hs, ?_, ?_⟩
  · split <;> simp [setArg, hfn]
  · split
    · rename_i he
      subst he
      have hss : s = seg' := by rw [hs] at hseg'; exact Option.some.inj hseg'
      subst hss
      have := hk s hfn
      rw [hk'] at this
      cases this
      simp [setArg, hlt]
    · exact hval

/-- helper for `changeArg_op_neq`: an accepted loop is an accepted step followed by an accepted loop -/
theorem changeArgLoop_cons (b b' : BP) (nm : String) (rest : List String) (arg value : Val)
    (h : b.changeArgLoop (nm :: rest) arg value = ⟨b', none⟩) :
    ∃ b1, b.changeArgOne nm arg value = ⟨b1, none⟩ ∧ b1.changeArgLoop rest arg value = ⟨b', none⟩ := by
  unfold changeArgLoop at h
  split at h
  · rename_i b1 heq
    exact ⟨b1, heq, h⟩
  · rename_i hne
    exact absurd h (hne b')

/-- helper for `changeArg_op_neq`: the rest of the loop does not undo an earlier step -/
theorem changeArgLoop_keeps (l : List String) (arg value : Val) (i k : Nat) (fn : Fn)
    (hk : ∀ seg : Seg, seg.fn = fn → argIndex seg arg = .ok k) :
    ∀ (b b' : BP), b.changeArgLoop l arg value = ⟨b', none⟩ → ArgSet b i k fn value → ArgSet b' i k fn value := by
  induction l with
  | nil =>
    intro b b' h hP
    unfold changeArgLoop at h
    cases h
    exact hP
  | cons nm rest ih =>
    intro b b' h hP
    obtain ⟨b1, h1, h2⟩ := changeArgLoop_cons b b' nm rest arg value h
    exact ih b1 b' h2 (changeArgOne_keeps b b1 nm arg value i k fn h1 hk hP)

/-- after an accepted loop every addressed segment holds the new value in the addressed argument -/
theorem changeArgLoop_sets (l : List String) (arg value : Val) :
    ∀ (b b' : BP), b.changeArgLoop l arg value = ⟨b', none⟩ →
      ∀ nm ∈ l, ∀ i seg k, b.indexOf? nm = some i → b.segs[i]? = some seg → argIndex seg arg = .ok k →
        ArgSet b' i k seg.fn value := by
  induction l with
  | nil => intro b b' _ nm hnm; simp at hnm
  | cons nm0 rest ih =>
    intro b b' h nm hnm i seg k hi hseg hk
    obtain ⟨b1, h1, h2⟩ := changeArgLoop_cons b b' nm0 rest arg value h
    obtain ⟨i0, seg0, k0, hi0, hseg0, hk0, hlt0, hb1⟩ := changeArgOne_facts b b1 nm0 arg value h1
    have hcongr : ∀ t : Seg, t.fn = seg.fn → argIndex t arg = .ok k := fun t ht => by
      rw [argIndex_congr t seg ht, hk]
    rcases List.mem_cons.mp hnm with rfl | hmem
    · rw [hi] at hi0
      cases hi0
      rw [hseg] at hseg0
      cases hseg0
      rw [hk] at hk0
      cases hk0
      apply changeArgLoop_keeps rest arg value i k seg.fn hcongr b1 b' h2
      subst hb1
      refine ⟨_, modifySeg_setArg_get b i k value i seg hseg, ?_, ?_⟩
      · simp [setArg]
      · simp [setArg, hlt0]
    · subst hb1
      have hg := modifySeg_setArg_get b i0 k0 value i seg hseg
      have := ih _ b' h2 nm hmem i _ k (by rw [modifySeg_setArg_indexOf]; exact hi) hg
        (by rw [argIndex_congr _ seg (by split <;> simp [setArg]), hk])
      have hfn : (if i0 = i then setArg k0 value seg else seg).fn = seg.fn := by split <;> simp [setArg]
      rw [hfn] at this
      exact this

/-- **an accepted `changeArg(name, arg, value, replaceeverywhere)`** — for one segment or for all
    segments of the same base name — that stores a value different from what some addressed segment
    held in that argument makes the blueprint unequal to what it was -/
theorem changeArg_op_neq (b : BP) (name : String) (arg value : Val) (all : Bool)
    (hacc : (b.changeArg name arg value all).err = none)
    (hdiff : ∃ nm ∈ (b.targets name all).2, ∃ i seg k, b.indexOf? nm = some i ∧ b.segs[i]? = some seg ∧
      argIndex seg arg = .ok k ∧ seg.args[k]? ≠ some value) :
    (b.changeArg name arg value all).st.beq b = false := by
  obtain ⟨nm, hnm, i, seg, k, hi, hseg, hk, hne⟩ := hdiff
  unfold changeArg at hacc ⊢
  split at hacc
  · simp at hacc
  · rename_i hc
    simp only [hc, if_false]
    have hres : b.changeArgLoop (b.targets name all).2 arg value =
        ⟨(b.changeArgLoop (b.targets name all).2 arg value).st, none⟩ := by
      revert hacc
      generalize b.changeArgLoop (b.targets name all).2 arg value = r
      intro hacc
      obtain ⟨st, err⟩ := r
      simp only at hacc
      rw [hacc]
    obtain ⟨s', hs', _, hval⟩ := changeArgLoop_sets _ arg value b _ hres nm hnm i seg k hi hseg hk
    apply bp_differ_neq
    refine Or.inr (Or.inl ⟨i, s', seg, hs', hseg, Or.inr (Or.inr (Or.inl ?_))⟩)
    intro e
    rw [e] at hval
    exact hne hval

/-! ### single public mutations of an element or a sequence -/

open Element in
/-- channel entries holding the same data but different flags are unequal (also for a channel
    left broken by a refused `addArray`) -/
theorem entEq_flags_same_data (x y : ChEntry) (hd : x.data = y.data) (hf : x.flags ≠ y.flags) : entEq x y = false := by
  obtain ⟨d, f⟩ := x
  obtain ⟨d', f'⟩ := y
  simp only at hd hf
  subst hd
  cases d <;> simp [entEq, hf]

/-- **an accepted `addFlags(channel, flags)`** that stores flags different from the ones the
    channel had makes the element unequal to what it was -/
theorem addFlags_neq (e : Element) (hwf : Dict.WF e.chans) (ch : Chan) (fl : List Val)
    (hacc : (e.addFlags ch fl).err = none)
    (hdiff : ∀ ent, Dict.get? e.chans ch = some ent → ent.flags ≠ fl.mapM flagToken?) :
    (e.addFlags ch fl).st.beq e = false ∧ e.beq (e.addFlags ch fl).st = false := by
  unfold Element.addFlags at *
  split at hacc
  · simp at hacc
  · rename_i hlen
    simp only [hlen, Bool.false_eq_true, if_false] at hdiff ⊢
    split at hacc
    · simp at hacc
    · rename_i fl' hfl'
      split at hacc
      · simp at hacc
      · rename_i ent hent
        have hne := hdiff ent hent
        rw [hfl'] at hne
        constructor
        · rw [Bool.eq_false_iff]
          intro he
          obtain ⟨y, hy, hee⟩ := ((el_eq_iff _ e (Dict.wf_upsert hwf _ _)).mp he).2 ch _ (Dict.get?_upsert_self _ _ _)
          rw [hent] at hy
          cases hy
          rw [entEq_flags_same_data ⟨ent.data, some fl'⟩ ent rfl (fun h => hne h.symm)] at hee
          cases hee
        · rw [Bool.eq_false_iff]
          intro he
          obtain ⟨y, hy, hee⟩ := ((el_eq_iff e _ hwf).mp he).2 ch _ hent
          rw [Dict.get?_upsert_self] at hy
          cases hy
          rw [entEq_flags_same_data ent ⟨ent.data, some fl'⟩ rfl hne] at hee
          cases hee

/-- **an accepted `setSequencingTriggerWait / NumberOfRepetitions / EventInput / EventJumpTarget /
    Goto(pos, v)`** (`f` is the field update) that changes the entry makes the sequence unequal to
    what it was -/
theorem setSequencing_neq (s : Sequence) (hwf : Dict.WF s.sequencing) (pos : Int) (f : SeqSet → SeqSet)
    (hacc : (s.setSequencing pos f).err = none)
    (hdiff : ∀ q, Dict.get? s.sequencing pos = some q → f q ≠ q) :
    Sequence.beq (s.setSequencing pos f).st s = false ∧ s.beq (s.setSequencing pos f).st = false := by
  unfold SeqCore.setSequencing at *
  split at hacc
  · simp at hacc
  · rename_i q hq
    simp only
    constructor
    · exact seq_sequencing_neq _ s (Dict.wf_upsert hwf _ _) pos (f q) (Dict.get?_upsert_self _ _ _)
        (by rw [hq]; intro h; exact hdiff q hq (Option.some.inj h).symm)
    · exact seq_sequencing_neq s _ hwf pos q hq
        (by simp only; rw [Dict.get?_upsert_self]; intro h; exact hdiff q hq (Option.some.inj h))

/-- a changed AWG setting makes the sequence unequal to what it was -/
theorem setSpec_neq (s : Sequence) (hwf : Dict.WF s.awgspecs) (k : String) (v : Spec)
    (hdiff : Dict.get? s.awgspecs k ≠ some v) :
    Sequence.beq (s.setSpec k v) s = false ∧ s.beq (s.setSpec k v) = false := by
  constructor
  · exact seq_awgspec_neq _ s (Dict.wf_upsert hwf _ _) k v (Dict.get?_upsert_self _ _ _) hdiff
  · cases hk : Dict.get? s.awgspecs k with
    | some w =>
      refine seq_awgspec_neq s _ hwf k w hk ?_
      simp only [SeqCore.setSpec]
      rw [Dict.get?_upsert_self]
      intro h; cases h; exact hdiff hk
    | none =>
      -- one setting more: the sizes differ
      rw [Bool.eq_false_iff]
      intro he
      obtain ⟨_, h2, _⟩ := (seq_eq_iff _ _).mp he
      have := (Dict.eqBy_keys _ hwf (Dict.wf_upsert hwf k v) h2 k).mp
        ((Dict.mem_keys_upsert _ _ _ _).mpr (Or.inl rfl))
      rw [Dict.get?_eq_none_iff] at hk
      exact hk this

/-- **`setChannelAmplitude`, `setChannelOffset`, `setChannelDelay`, `setSR`** with a value different
    from the stored one make the sequence unequal to what it was -/
theorem setChannelAmplitude_neq (s : Sequence) (hwf : Dict.WF s.awgspecs) (ch : Chan) (v : Val)
    (hdiff : Dict.get? s.awgspecs (keyOf ch "amplitude") ≠ some (.val v)) :
    Sequence.beq (s.setChannelAmplitude ch v) s = false ∧ s.beq (s.setChannelAmplitude ch v) = false :=
  setSpec_neq s hwf _ _ hdiff

/-- C20 "differ in any AWG setting ⇒ unequal", for `setChannelOffset` with a new value -/
theorem setChannelOffset_neq (s : Sequence) (hwf : Dict.WF s.awgspecs) (ch : Chan) (v : Val)
    (hdiff : Dict.get? s.awgspecs (keyOf ch "offset") ≠ some (.val v)) :
    Sequence.beq (s.setChannelOffset ch v) s = false ∧ s.beq (s.setChannelOffset ch v) = false :=
  setSpec_neq s hwf _ _ hdiff

/-- C20 "differ in any AWG setting ⇒ unequal", for `setChannelDelay` with a new value -/
theorem setChannelDelay_neq (s : Sequence) (hwf : Dict.WF s.awgspecs) (ch : Chan) (v : Val)
    (hdiff : Dict.get? s.awgspecs (keyOf ch "delay") ≠ some (.val v)) :
    Sequence.beq (s.setChannelDelay ch v) s = false ∧ s.beq (s.setChannelDelay ch v) = false :=
  setSpec_neq s hwf _ _ hdiff

/-- C20 "differ in any AWG setting ⇒ unequal", for `Sequence.setSR` with a new value -/
theorem setSR_neq (s : Sequence) (hwf : Dict.WF s.awgspecs) (v : Val)
    (hdiff : Dict.get? s.awgspecs "SR" ≠ some (.val v)) :
    Sequence.beq (s.setSR v) s = false ∧ s.beq (s.setSR v) = false :=
  setSpec_neq s hwf _ _ hdiff

/-- an accepted `setChannelFilterCompensation` that changes the stored filter -/
theorem setChannelFilterCompensation_neq (s : Sequence) (hwf : Dict.WF s.awgspecs) (ch : Chan) (kind : String)
    (order : Int) (isInt : Bool) (fc tau : Val)
    (hacc : (s.setChannelFilterCompensation ch kind order isInt fc tau).err = none)
    (hdiff : Dict.get? s.awgspecs (keyOf ch "filtercompensation") ≠ some (.filt ⟨kind, order, fc, tau⟩)) :
    Sequence.beq (s.setChannelFilterCompensation ch kind order isInt fc tau).st s = false := by
  unfold SeqCore.setChannelFilterCompensation at *
  split at hacc
  · simp at hacc
  · split at hacc
    · simp at hacc
    · split at hacc
      · simp at hacc
      · rename_i h1 h2 h3
        simp only [h1, h2, h3, if_false]
        exact (setSpec_neq s hwf _ _ hdiff).1

/-- replacing the element of a position by an unequal one makes the sequence unequal -/
theorem addElement_neq (s : Sequence) (hwf : Dict.WF s.data) (pos : Int) (e old : Element)
    (hacc : (s.addElement pos e).err = none)
    (hold : Dict.get? s.data pos = some (.el old)) (hne : e.beq old = false) :
    (s.addElement pos e).st.beq s = false := by
  unfold Sequence.addElement at *
  split at hacc
  · simp at hacc
  · rename_i m hm
    simp only
    refine seq_element_neq _ s (Dict.wf_upsert hwf _ _) pos { e with cache := some m } old
      (Dict.get?_upsert_self _ _ _) hold ?_
    exact hne

/-! ### non-vacuity -/

example : (d23_bp 10).beq (d23_bp 10) = true := by decide +kernel
example : ((d23_bp 10).changeDuration "ramp" (.num 2) false).err = none := by decide +kernel
example : ((d23_bp 10).changeDuration "ramp" (.num 2) false).st.beq (d23_bp 10) = false := by decide +kernel

/-! ### equal sequences forge alike (at equal channel sample rates, in equal insertion order) -/

/-- helper for `seq_eq_forge_partial`: same keys in the same order and related values under equal keys -/
theorem rel_of_keys_eq {κ α β : Type} [DecidableEq κ] (R : α → β → Prop) :
    ∀ (a : Dict κ α) (b : Dict κ β), Dict.keys a = Dict.keys b →
      (∀ k x y, (k, x) ∈ a → (k, y) ∈ b → R x y) → Dict.Rel R a b := by
  intro a
  induction a with
  | nil =>
    intro b hk _
    cases b with
    | nil => exact List.Forall₂.nil
    | cons _ _ => simp [Dict.keys] at hk
  | cons p ps ih =>
    intro b hk h
    cases b with
    | nil => simp [Dict.keys] at hk
    | cons q qs =>
      simp only [Dict.keys, List.map_cons, List.cons.injEq] at hk
      refine List.Forall₂.cons ⟨hk.1, ?_⟩ (ih qs hk.2 (fun k x y hx hy => h k x y (by simp [hx]) (by simp [hy])))
      obtain ⟨k, x⟩ := p
      obtain ⟨k', y⟩ := q
      simp only at hk
      obtain ⟨rfl, _⟩ := hk
      exact h k x y (by simp) (by simp)

/-- helper for `seq_eq_forge_partial`: dictionaries related by equality are equal -/
theorem rel_eq_eq {κ α : Type} [DecidableEq κ] {a b : Dict κ α} (h : Dict.Rel (· = ·) a b) : a = b := by
  induction h with
  | nil => rfl
  | @cons x y xs ys hxy _ ih =>
    obtain ⟨k, v⟩ := x
    obtain ⟨k', v'⟩ := y
    simp only at hxy
    rw [hxy.1, hxy.2, ih]

open Element in
/-- equal channel entries with the same sample rate are the same entry -/
theorem entEq_eq_of_sr (x y : ChEntry) (h : entEq x y = true) (hsr : chanSR x = chanSR y) : x = y := by
  obtain ⟨d, f⟩ := x
  obtain ⟨d', f'⟩ := y
  cases d <;> cases d' <;> simp_all [entEq, chanSR]
  rename_i p q
  exact (bp_eq_forge p q h.1 hsr).1

/-- the two channel stores list the same channels in the same order, each at the same sample rate -/
def ElOrdSR (e e' : Element) : Prop :=
  Dict.keys e.chans = Dict.keys e'.chans ∧
  ∀ ch x y, Dict.get? e.chans ch = some x → Dict.get? e'.chans ch = some y → Element.chanSR x = Element.chanSR y

/-- … for the element of an element position, and for every element of a subsequence position
    (whose positions are listed in the same order) -/
def EntOrdSR : Entry → Entry → Prop
  | .el e, .el e' => ElOrdSR e e'
  | .sub s, .sub s' => Dict.keys s.data = Dict.keys s'.data ∧
      ∀ k e e', Dict.get? s.data k = some e → Dict.get? s'.data k = some e' → ElOrdSR e e'
  | _, _ => True

/-- equal elements listing their channels in the same order at the same sample rates have the same
    channel store -/
theorem el_eq_chans (a b : Element) (ha : Dict.WF a.chans) (hb : Dict.WF b.chans) (h : a.beq b = true)
    (ho : ElOrdSR a b) : ElRel a b := by
  apply rel_eq_eq
  apply rel_of_keys_eq _ _ _ ho.1
  intro ch x y hx hy
  have hx' := Dict.get?_eq_some_of_mem ha ch x hx
  have hy' := Dict.get?_eq_some_of_mem hb ch y hy
  obtain ⟨y2, hy2, he⟩ := ((el_eq_iff a b ha).mp h).2 ch x hx'
  rw [hy'] at hy2
  cases hy2
  exact entEq_eq_of_sr x y he (ho.2 ch x y hx' hy')

/-- helper for `seq_eq_forge_partial`: equal stored entries (same channel order and sample rates) agree up to caches -/
theorem entry_eq_rel (x y : Entry) (hx : EntryWF x) (hy : EntryWF y) (h : x.beq y = true) (ho : EntOrdSR x y) :
    EntRel x y := by
  cases x with
  | el a => cases y with
    | el b => exact el_eq_chans a b hx hy h ho
    | sub _ => simp [Entry.beq] at h
  | sub a => cases y with
    | el _ => simp [Entry.beq] at h
    | sub b =>
      obtain ⟨a1, a2, a3, a4⟩ := hx
      obtain ⟨b1, b2, b3, b4⟩ := hy
      simp only [Entry.beq, Bool.and_eq_true] at h
      obtain ⟨⟨h1, h2⟩, h3⟩ := h
      refine ⟨?_, Dict.eqBy_beq_get? a2 b2 h2, Dict.eqBy_beq_get? a3 b3 h3⟩
      apply rel_of_keys_eq _ _ _ ho.1
      intro k e e' he he'
      have hx' := Dict.get?_eq_some_of_mem a1 k e he
      have hy' := Dict.get?_eq_some_of_mem b1 k e' he'
      obtain ⟨y2, hy2, hee⟩ := ((Dict.eqBy_iff _ a1).mp h1).2 k e hx'
      rw [hy'] at hy2
      cases hy2
      exact el_eq_chans e e' (a4 e (Dict.mem_vals_of_get? hx')) (b4 e' (Dict.mem_vals_of_get? hy')) hee
        (ho.2 k e e' hx' hy')

/-- **equal sequences forge identically** — the same arrays for every position and channel, or
    the same exception — for every combination of `apply_delays`, `apply_filters`, `includetime`.

    `…_partial`, two hypotheses beyond `a == b` are needed and cannot be dropped:
    * *equal channel sample rates* (`EntOrdSR`, second half): `BluePrint.__eq__` ignores the sample
      rate — finding D23, witness `seq_eq_not_forge_counterexample` below;
    * *equal insertion order* of the positions and of the channels of every element (`hord`,
      `EntOrdSR` first half): Python's `dict.__eq__` ignores insertion order, but the order decides
      which of several exceptions is raised first, in which order `getArrays` lists the channels,
      and even whether `validateDurations` accepts the element (`numpy.allclose` compares with the
      first channel's duration) — witness `el_eq_order_counterexample` below. -/
theorem seq_eq_forge_partial (a b : Sequence) (ha : SeqWF a) (hb : SeqWF b) (h : a.beq b = true)
    (hord : Dict.keys a.data = Dict.keys b.data)
    (hsr : ∀ pos x y, Dict.get? a.data pos = some x → Dict.get? b.data pos = some y → EntOrdSR x y)
    (d f t : Bool) : a.forge d f t = b.forge d f t := by
  obtain ⟨h1, h2, h3⟩ := (seq_eq_iff a b).mp h
  apply Sequence.forge_congr a b ?_ (Dict.eqBy_beq_get? ha.specs hb.specs h2)
    (Dict.eqBy_beq_get? ha.sequencing hb.sequencing h3)
  apply rel_of_keys_eq _ _ _ hord
  intro k x y hx hy
  have hx' := Dict.get?_eq_some_of_mem ha.data k x hx
  have hy' := Dict.get?_eq_some_of_mem hb.data k y hy
  obtain ⟨y2, hy2, hee⟩ := ((Dict.eqBy_iff _ ha.data).mp h1).2 k x hx'
  rw [hy'] at hy2
  cases hy2
  exact entry_eq_rel x y (ha.entries x (Dict.mem_vals_of_get? hx')) (hb.entries y (Dict.mem_vals_of_get? hy')) hee
    (hsr k x y hx' hy')

/-- equal elements (same channel order, same sample rates) deliver the same arrays -/
theorem el_eq_forge_partial (a b : Element) (ha : Dict.WF a.chans) (hb : Dict.WF b.chans) (h : a.beq b = true)
    (ho : ElOrdSR a b) (t : Bool) :
    a.getArrays t = b.getArrays t ∧ a.validate = b.validate ∧ a.channels = b.channels := by
  have hr := el_eq_chans a b ha hb h ho
  exact ⟨hr.getArrays t, by rw [hr.eq_cache, validate_cache], hr.channels⟩

/-! #### the hypotheses cannot be dropped -/

/-- a one-position sequence holding the D23 blueprint at sample rate `sr` on channel 1 -/
def d23_seq (sr : Rat) : Sequence :=
  { data := [(1, .el ⟨[(Chan.int 1, ⟨.bp (d23_bp sr), none⟩)], none⟩)],
    sequencing := [(1, Sequence.defaultSeqEl)],
    awgspecs := [("SR", .val (.num 10))] }

/-- the number of samples of every channel of every position of a forged sequence -/
def forgedN (r : Except Err (List (Nat × ForgedPos))) : Option (List (List (List (Option Nat)))) :=
  match r with
  | .ok out => some (out.map (fun p => p.2.content.map (fun c => c.2.1.map (fun co => outN (.ok co.2.out)))))
  | .error _ => none

/-- **D23 at sequence level**: two sequences that compare equal (`==` both ways round) and forge
    to a different number of samples — the channel blueprints differ in nothing but the sample
    rate, which no `__eq__` looks at -/
theorem seq_eq_not_forge_counterexample :
    (d23_seq 10).beq (d23_seq 20) = true ∧ (d23_seq 20).beq (d23_seq 10) = true ∧
    forgedN ((d23_seq 10).forge false false false) = some [[[some 10]]] ∧
    forgedN ((d23_seq 20).forge false false false) = some [[[some 20]]] := by
  decide +kernel

/-- two channels holding the same blueprint, stored in either order -/
def order_el (first second : Int) : Element :=
  ⟨[(Chan.int first, ⟨.bp (d23_bp 10), none⟩), (Chan.int second, ⟨.bp (d23_bp 10), none⟩)], none⟩

/-- **insertion order is visible**: two elements that compare equal and agree in every sample
    rate, yet list their channels (and hence the arrays `getArrays` returns) in a different order;
    in Python both results are dicts, which compare equal -/
theorem el_eq_order_counterexample :
    (order_el 1 2).beq (order_el 2 1) = true ∧
    (order_el 1 2).channels = [Chan.int 1, Chan.int 2] ∧ (order_el 2 1).channels = [Chan.int 2, Chan.int 1] ∧
    ((order_el 1 2).getArrays false).toOption ≠ ((order_el 2 1).getArrays false).toOption := by
  decide +kernel

/-! #### non-vacuity of `seq_eq_forge_partial` -/

/-- non-vacuity: the D23 sequences are well-formed -/
theorem d23_seq_wf (sr : Rat) : SeqWF (d23_seq sr) := by
  refine ⟨by simp [Dict.WF, Dict.keys, d23_seq], by simp [Dict.WF, Dict.keys, d23_seq],
    by simp [Dict.WF, Dict.keys, d23_seq], ?_⟩
  intro en hen
  simp only [d23_seq, Dict.vals, List.map_cons, List.map_nil, List.mem_singleton] at hen
  subst hen
  show Dict.WF _
  simp [Dict.WF, Dict.keys]

example : (d23_seq 10).copy.beq (d23_seq 10) = true := (seq_copy_eq _ (d23_seq_wf 10)).1

example : Dict.keys (d23_seq 10).copy.data = Dict.keys (d23_seq 10).data := rfl

example : ∀ pos x y, Dict.get? (d23_seq 10).copy.data pos = some x → Dict.get? (d23_seq 10).data pos = some y →
    EntOrdSR x y := by
  intro pos x y hx hy
  have : x = y := by
    have : (d23_seq 10).copy.data = (d23_seq 10).data := rfl
    rw [this, hy] at hx
    exact (Option.some.inj hx).symm
  subst this
  have hmem := Dict.mem_of_get?_eq_some pos x hx
  simp only [Sequence.copy, d23_seq, List.mem_singleton, Prod.mk.injEq] at hmem
  obtain ⟨_, rfl⟩ := hmem
  refine ⟨rfl, fun ch x y hx hy => ?_⟩
  rw [hx] at hy
  cases hy
  rfl

/-- a one-ramp blueprint of duration `dur` at 0.1 Sa/s -/
def slow_bp (dur : Rat) : BP :=
  { segs := [{ name := "ramp", fn := Fn.rampFn, args := [.num 0, .num 1], dur := .num dur }], SR := .num (1 / 10) }

/-- channel 1 lasts 10 s, channel 2 lasts 10.1001005 s (one sample each at 0.1 Sa/s); stored in
    either order -/
def slow_el (ch1First : Bool) : Element :=
  if ch1First then
    ⟨[(Chan.int 1, ⟨.bp (slow_bp 10), none⟩), (Chan.int 2, ⟨.bp (slow_bp (20200201 / 2000000)), none⟩)], none⟩
  else
    ⟨[(Chan.int 2, ⟨.bp (slow_bp (20200201 / 2000000)), none⟩), (Chan.int 1, ⟨.bp (slow_bp 10), none⟩)], none⟩

/-- **`validateDurations` depends on the insertion order** (suspicious in the code, not only in
    the model): `numpy.allclose(durations, durations[0], atol=min(SRs))` measures every duration
    against the *first* channel's with a tolerance relative to it.  The two elements below hold
    the same two blueprints under the same channel numbers and compare equal both ways round; the
    one that lists channel 1 first is refused (ElementDurationError), the other validates — so one
    of two `==` elements forges and the other raises. -/
theorem el_eq_validate_order_counterexample :
    (slow_el true).beq (slow_el false) = true ∧ (slow_el false).beq (slow_el true) = true ∧
    (match (slow_el true).validate with | .error e => some e | .ok _ => none) = some Err.elemdur ∧
    (slow_el false).validate.toOption = some (.num (1 / 10), 20200201 / 2000000) := by
  decide +kernel

/-! ### equal objects have equal descriptions (as Python compares dicts) -/

open Element in
/-- helper for `el_eq_desc`: a channel description fails with TypeError only -/
theorem chanDesc_err (ent : ChEntry) (er : Err) (h : chanDesc ent = .error er) : er = .type := by
  obtain ⟨d, fl⟩ := ent
  cases d with
  | bp b =>
    simp only [chanDesc] at h
    split at h <;> cases h
  | arr a s =>
    cases fl with
    | none => simp only [chanDesc] at h; cases h
    | some _ => simp only [chanDesc] at h; cases h; rfl
  | broken =>
    cases fl with
    | none => simp only [chanDesc] at h; cases h
    | some _ => simp only [chanDesc] at h; cases h; rfl

open Element in
/-- helper for `el_eq_desc`: a description field fails with TypeError only -/
theorem chanField_err (p : Chan × ChEntry) (er : Err) (h : chanField p = .error er) : er = .type := by
  unfold chanField at h
  cases hd : chanDesc p.2 with
  | error e' => rw [hd] at h; simp only [Except.error.injEq] at h; rw [← h]; exact chanDesc_err _ _ hd
  | ok _ => rw [hd] at h; cases h

/-- every failure of `Element.description` is a TypeError (flags on a raw-array channel) -/
theorem el_toDesc_err (e : Element) (er : Err) (h : e.toDesc = .error er) : er = .type := by
  unfold Element.toDesc at h
  cases hm : e.chans.mapM Element.chanField with
  | error e' =>
    rw [hm] at h
    simp only [Except.error.injEq] at h
    obtain ⟨x, _, hx⟩ := mapM_error_mem _ _ _ hm
    rw [← h]
    exact chanField_err x e' hx
  | ok _ => rw [hm] at h; cases h

/-- **equal elements have equal descriptions**: the description of the one is a reordering of
    the description of the other (channel by channel the very same record), or both raise the
    same exception -/
theorem el_eq_desc (a b : Element) (ha : Dict.WF a.chans) (hb : Dict.WF b.chans) (h : a.beq b = true) :
    ExRel J.DictEq a.toDesc b.toDesc := by
  obtain ⟨g, hperm, hg⟩ := Dict.eqBy_perm Element.entEq ha hb h
  have hmap : (a.chans.map (fun p => (p.1, g p))).mapM Element.chanField = a.chans.mapM Element.chanField :=
    mapM_map_congr Element.chanField Element.chanField (fun p => (p.1, g p)) a.chans (fun p hp => by
      unfold Element.chanField
      simp only
      rw [← entEq_desc p.2 (g p) (hg p hp)])
  cases hA : a.chans.mapM Element.chanField with
  | ok fa =>
    obtain ⟨fb, hfb, hpf⟩ := mapM_perm_ok _ hperm fa (by rw [hmap]; exact hA)
    unfold Element.toDesc
    rw [hA, hfb]
    exact J.DictEq.of_perm hpf
  | error er =>
    have h1 : a.toDesc = .error er := by unfold Element.toDesc; rw [hA]
    cases hB : b.chans.mapM Element.chanField with
    | error er' =>
      have h2 : b.toDesc = .error er' := by unfold Element.toDesc; rw [hB]
      rw [h1, h2]
      simp only [ExRel]
      rw [el_toDesc_err a er h1, el_toDesc_err b er' h2]
    | ok fb =>
      exfalso
      obtain ⟨fb', hfb', _⟩ := mapM_perm_ok _ hperm.symm fb hB
      rw [hmap, hA] at hfb'
      cases hfb'

/-- the same for what sits at a position of a sequence: an element or a subsequence -/
theorem entry_eq_desc (x y : Entry) (hx : EntryWF x) (hy : EntryWF y) (h : x.beq y = true) :
    ExRel J.DictEq (entryDesc x) (entryDesc y) := by
  cases x with
  | el a => cases y with
    | el b => exact el_eq_desc a b hx hy h
    | sub _ => simp [Entry.beq] at h
  | sub a => cases y with
    | el _ => simp [Entry.beq] at h
    | sub b =>
      obtain ⟨a1, a2, a3, a4⟩ := hx
      obtain ⟨b1, b2, b3, b4⟩ := hy
      simp only [Entry.beq, Bool.and_eq_true] at h
      obtain ⟨⟨h1, h2⟩, h3⟩ := h
      simp only [entryDesc]
      rw [Sequence.subToDesc_eq_G, Sequence.subToDesc_eq_G]
      refine toDescG_rel Element.beq Element.toDesc el_toDesc_err a.data b.data a1 b1 h1
        (fun x hx y hy hxy => el_eq_desc x y (a4 x hx) (b4 y hy) hxy) _ _ ?_ _ _ a2 b2 h2
      intro k
      unfold subSeqnJ
      rw [Dict.eqBy_beq_get? a3 b3 h3]

/-- helper for `seq_eq_desc`: the description of a stored entry fails with TypeError only -/
theorem entryDesc_err (x : Entry) (er : Err) (h : entryDesc x = .error er) : er = .type := by
  cases x with
  | el e => exact el_toDesc_err e er h
  | sub s =>
    simp only [entryDesc] at h
    rw [Sequence.subToDesc_eq_G] at h
    exact toDescG_err _ el_toDesc_err _ _ _ _ h

/-- **equal sequences have equal descriptions**: positions, channels inside a position and AWG
    settings may be listed in a different order (which Python's `dict.__eq__` ignores); every
    channel record, sequencing entry and setting is the same.  Or both raise the same exception. -/
theorem seq_eq_desc (a b : Sequence) (ha : SeqWF a) (hb : SeqWF b) (h : a.beq b = true) :
    ExRel J.DictEq a.toDesc b.toDesc := by
  obtain ⟨h1, h2, h3⟩ := (seq_eq_iff a b).mp h
  rw [Sequence.toDesc_eq_G, Sequence.toDesc_eq_G]
  refine toDescG_rel Entry.beq entryDesc entryDesc_err a.data b.data ha.data hb.data h1
    (fun x hx y hy hxy => entry_eq_desc x y (ha.entries x hx) (hb.entries y hy) hxy) _ _ ?_ _ _ ha.specs hb.specs h2
  intro k
  unfold Sequence.seqnJ
  rw [Dict.eqBy_beq_get? ha.sequencing hb.sequencing h3]

/-- … spelled out for the successful case -/
theorem seq_eq_desc_ok (a b : Sequence) (ha : SeqWF a) (hb : SeqWF b) (h : a.beq b = true) (da : J)
    (hda : a.toDesc = .ok da) : ∃ db, b.toDesc = .ok db ∧ J.DictEq da db := by
  have := seq_eq_desc a b ha hb h
  rw [hda] at this
  cases hdb : b.toDesc with
  | error e => rw [hdb] at this; simp [ExRel] at this
  | ok db => rw [hdb] at this; exact ⟨db, rfl, this⟩

/-- C20 "equal elements have equal descriptions", spelled out for the successful case -/
theorem el_eq_desc_ok (a b : Element) (ha : Dict.WF a.chans) (hb : Dict.WF b.chans) (h : a.beq b = true) (da : J)
    (hda : a.toDesc = .ok da) : ∃ db, b.toDesc = .ok db ∧ J.DictEq da db := by
  have := el_eq_desc a b ha hb h
  rw [hda] at this
  cases hdb : b.toDesc with
  | error e => rw [hdb] at this; simp [ExRel] at this
  | ok db => rw [hdb] at this; exact ⟨db, rfl, this⟩

/-- non-vacuity: the two-channel elements above compare equal and both have a description; the
    two descriptions list the channels in different order -/
example : (order_el 1 2).beq (order_el 2 1) = true ∧ (order_el 1 2).toDesc.toOption.isSome = true := by
  decide +kernel

/-! ### … and a successful forge does not even need the positions in the same order -/

/-- helper for `seq_eq_forge_anyorder_partial`: a store and its value-wise image are related -/
theorem rel_map_right {κ α : Type} [DecidableEq κ] (R : α → α → Prop) (g : κ × α → α) (A0 : Dict κ α)
    (hR : ∀ p ∈ A0, R p.2 (g p)) :
    ∀ A : Dict κ α, (∀ p ∈ A, p ∈ A0) → Dict.Rel R A (A.map (fun p => (p.1, g p))) := by
  intro A
  induction A with
  | nil => intro _; exact List.Forall₂.nil
  | cons x xs ih =>
    intro hsub
    exact List.Forall₂.cons ⟨rfl, hR x (hsub x (by simp))⟩ (ih (fun p hp => hsub p (by simp [hp])))

/-- **equal sequences forge to the same arrays whenever one of them forges at all**, whatever the
    order in which their positions were filled.

    `…_partial`: still under the hypothesis that the channels of corresponding elements are listed
    in the same order at the same sample rates (`EntOrdSR`; see `seq_eq_forge_partial` for why
    neither half can be dropped), and only for the successful case — when forging fails, *which*
    exception is raised may depend on the order of the positions (`checkConsistency` walks the
    store in insertion order). -/
theorem seq_eq_forge_anyorder_partial (a b : Sequence) (ha : SeqWF a) (hb : SeqWF b) (h : a.beq b = true)
    (hsr : ∀ pos x y, Dict.get? a.data pos = some x → Dict.get? b.data pos = some y → EntOrdSR x y)
    (d f t : Bool) (out : List (Nat × ForgedPos)) :
    a.forge d f t = .ok out ↔ b.forge d f t = .ok out := by
  obtain ⟨h1, h2, h3⟩ := (seq_eq_iff a b).mp h
  obtain ⟨g, hperm, hg⟩ := Dict.eqBy_perm Entry.beq ha.data hb.data h1
  let c : Sequence := { b with data := a.data.map (fun p => (p.1, g p)) }
  have hcwf : Dict.WF c.data := by
    show Dict.WF (a.data.map (fun p => (p.1, g p)))
    unfold Dict.WF Dict.keys
    rw [List.map_map]
    exact ha.data
  have hrel : Dict.Rel EntRel a.data c.data := by
    apply rel_map_right EntRel g a.data ?_ a.data (fun _ hp => hp)
    intro p hp
    have hq : (p.1, g p) ∈ b.data := hperm.mem_iff.mp (List.mem_map.mpr ⟨p, hp, rfl⟩)
    have hx := Dict.get?_eq_some_of_mem ha.data p.1 p.2 hp
    have hy := Dict.get?_eq_some_of_mem hb.data p.1 (g p) hq
    exact entry_eq_rel p.2 (g p) (ha.entries _ (Dict.mem_vals_of_get? hx)) (hb.entries _ (Dict.mem_vals_of_get? hy))
      (hg p hp) (hsr p.1 p.2 (g p) hx hy)
  have hac : a.forge d f t = c.forge d f t :=
    Sequence.forge_congr a c hrel (Dict.eqBy_beq_get? ha.specs hb.specs h2)
      (Dict.eqBy_beq_get? ha.sequencing hb.sequencing h3) d f t
  rw [hac]
  exact ⟨Sequence.forge_perm_ok c b hperm hcwf rfl rfl d f t out,
    Sequence.forge_perm_ok b c hperm.symm hb.data rfl rfl d f t out⟩

/-- two positions filled in either order -/
def two_pos (firstOne : Bool) : Sequence :=
  { data := if firstOne then [(1, .el (order_el 1 2)), (2, .el (order_el 1 2))]
            else [(2, .el (order_el 1 2)), (1, .el (order_el 1 2))],
    sequencing := [(1, Sequence.defaultSeqEl), (2, Sequence.defaultSeqEl)],
    awgspecs := [("SR", .val (.num 10))] }

/-- non-vacuity: the same two elements stored in either order compare equal, and forging succeeds -/
example : (two_pos true).beq (two_pos false) = true ∧
    Dict.keys (two_pos true).data ≠ Dict.keys (two_pos false).data ∧
    ((two_pos true).forge false false false).toOption.isSome = true := by
  decide +kernel

/-! ### non-vacuity of the mutation theorems: concrete accepted calls that change something -/

-- setSegmentMarker_op_neq / removeSegmentMarker_op_neq
example : ((d23_bp 10).setSegmentMarker "ramp" (0, 1 / 2) 1).err = none ∧ (d23_bp 10).indexOf? "ramp" = some 0 ∧
    ((d23_bp 10).segs[0]?).map (·.m1) = some (0, 0) := by decide +kernel
example : ((d23_bp 10).setSegmentMarker "ramp" (0, 1 / 2) 1).st.beq (d23_bp 10) = false := by decide +kernel

-- changeArg_op_neq: argument "stop" of the ramp is 1, set it to 2
example : ((d23_bp 10).changeArg "ramp" (.str "stop") (.num 2) false).err = none ∧
    ((d23_bp 10).targets "ramp" false).2 = ["ramp"] ∧ (d23_bp 10).indexOf? "ramp" = some 0 := by decide +kernel
example : ((d23_bp 10).changeArg "ramp" (.str "stop") (.num 2) false).st.beq (d23_bp 10) = false := by
  decide +kernel

-- addFlags_neq: channel 1 had no flags
example : ((order_el 1 2).addFlags (.int 1) [.num 1, .num 0, .str "T", .num 0]).err = none ∧
    (Dict.get? (order_el 1 2).chans (.int 1)).map (·.flags) = some none := by decide +kernel

-- setSequencing_neq: five repetitions instead of the default
example : ((d23_seq 10).setSequencing 1 (fun q => { q with nrep := 5 })).err = none ∧
    (Dict.get? (d23_seq 10).sequencing 1).map (·.nrep) = some 1 := by decide +kernel

-- setChannelAmplitude_neq / setSpec_neq: no amplitude was set
example : Dict.get? (d23_seq 10).awgspecs (keyOf (.int 1) "amplitude") ≠ some (.val (.num 1)) := by
  decide +kernel

-- setSR_neq: another sample rate
example : Dict.get? (d23_seq 10).awgspecs "SR" ≠ some (.val (.num 20)) := by decide +kernel

-- entry_eq_symm / seq_eq_symm / seq_eq_desc: the two orders of `two_pos`
/-- non-vacuity: the two-position example sequences are well-formed -/
theorem two_pos_wf (o : Bool) : SeqWF (two_pos o) := by
  cases o
  all_goals
    refine ⟨by simp [Dict.WF, Dict.keys, two_pos], by simp [Dict.WF, Dict.keys, two_pos],
      by simp [Dict.WF, Dict.keys, two_pos], ?_⟩
    intro en hen
    simp only [two_pos, Dict.vals, List.map_cons, List.map_nil, List.mem_cons, List.not_mem_nil, or_false,
      or_self, Bool.false_eq_true, if_false, if_true] at hen
    subst hen
    show Dict.WF _
    simp [Dict.WF, Dict.keys, order_el]

example : (two_pos false).beq (two_pos true) = true :=
  seq_eq_symm _ _ (two_pos_wf true) (two_pos_wf false) (by decide +kernel)

example : ExRel J.DictEq (two_pos true).toDesc (two_pos false).toDesc :=
  seq_eq_desc _ _ (two_pos_wf true) (two_pos_wf false) (by decide +kernel)

example : (two_pos true).toDesc.toOption.isSome = true := by decide +kernel

/-! ### element-level `changeArg` / `changeDuration` -/

/-- **`Element.changeArg` / `Element.changeDuration`** (both are `withBP`): if the call changes the
    channel's blueprint into an unequal one — by `changeArg_op_neq`, `changeDuration_neq` — the
    element becomes unequal to what it was -/
theorem withBP_neq (e : Element) (hwf : Dict.WF e.chans) (ch : Chan) (f : BP → Res BP) (b : BP)
    (fl : Option (List Nat)) (hget : Dict.get? e.chans ch = some ⟨.bp b, fl⟩)
    (hne : (f b).st.beq b = false) : (e.withBP ch f).st.beq e = false := by
  unfold Element.withBP
  rw [hget]
  simp only
  exact el_bp_neq _ e (Dict.wf_upsert hwf _ _) ch (f b).st b fl fl (Dict.get?_upsert_self _ _ _) hget hne

/-- … instantiated: an accepted `Element.changeDuration` that changes a duration -/
theorem el_changeDuration_neq (e : Element) (hwf : Dict.WF e.chans) (ch : Chan) (b : BP) (fl : Option (List Nat))
    (hget : Dict.get? e.chans ch = some ⟨.bp b, fl⟩) (name : String) (d : Rat) (all : Bool)
    (hacc : (b.changeDuration name (.num d) all).err = none)
    (hdiff : ∃ s ∈ b.segs, (b.targets name all).2.contains s.name = true ∧ s.dur ≠ .num d) :
    (e.changeDuration ch name (.num d) all).st.beq e = false :=
  withBP_neq e hwf ch _ b fl hget (changeDuration_neq b name d all hacc hdiff)

/-- … instantiated: an accepted `Element.changeArg` that changes an argument -/
theorem el_changeArg_neq (e : Element) (hwf : Dict.WF e.chans) (ch : Chan) (b : BP) (fl : Option (List Nat))
    (hget : Dict.get? e.chans ch = some ⟨.bp b, fl⟩) (name : String) (arg value : Val) (all : Bool)
    (hacc : (b.changeArg name arg value all).err = none)
    (hdiff : ∃ nm ∈ (b.targets name all).2, ∃ i seg k, b.indexOf? nm = some i ∧ b.segs[i]? = some seg ∧
      argIndex seg arg = .ok k ∧ seg.args[k]? ≠ some value) :
    (e.changeArg ch name arg value all).st.beq e = false :=
  withBP_neq e hwf ch _ b fl hget (changeArg_op_neq b name arg value all hacc hdiff)

-- non-vacuity: channel 1 of `order_el 1 2` holds the one-ramp blueprint
example : Dict.get? (order_el 1 2).chans (.int 1) = some ⟨.bp (d23_bp 10), none⟩ := by decide +kernel
example : ((order_el 1 2).changeDuration (.int 1) "ramp" (.num 2) false).st.beq (order_el 1 2) = false := by
  decide +kernel

/-! ## G13: equal objects forge to the same arrays *up to the order in which the channels are listed*

  `el_eq_forge_partial` / `seq_eq_forge_partial` need the channels of corresponding elements in the
  same insertion order, although Python's `dict.__eq__` (and hence `==` on elements, sequences and
  on the forged results themselves) ignores it.  This section removes the order hypothesis: what
  remains is the D23 hypothesis (equal channel sample rates) and, for everything that runs
  `validateDurations` (`Sequence.forge`: consistency check and `_applyDelays`), the proviso that
  validation gives the same verdict on corresponding elements - which can fail for two `==`
  elements, see `el_eq_validate_order_counterexample` and `seq_eq_forge_verdict_counterexample`. -/

/-- the D23 hypothesis alone: under every channel id that both elements hold, the same sample rate
    (no hypothesis on the order of the channels) -/
def ElSR (e e' : Element) : Prop :=
  ∀ ch x y, Dict.get? e.chans ch = some x → Dict.get? e'.chans ch = some y → Element.chanSR x = Element.chanSR y

/-- ... for the element of an element position, and for the elements stored under the same inner
    position of two subsequences -/
def EntSR : Entry → Entry → Prop
  | .el e, .el e' => ElSR e e'
  | .sub s, .sub s' => ∀ k e e', Dict.get? s.data k = some e → Dict.get? s'.data k = some e' → ElSR e e'
  | _, _ => True

/-- **the proviso, stated precisely**: `validateDurations` accepts both corresponding elements or
    neither (`SameVerdict e e' : (∃ m, e.validate = .ok m) ↔ (∃ m', e'.validate = .ok m')`) - for the
    element of an element position, and for the elements under the same inner position of two
    subsequences -/
def EntVerdict : Entry → Entry → Prop
  | .el e, .el e' => SameVerdict e e'
  | .sub s, .sub s' => ∀ k e e', Dict.get? s.data k = some e → Dict.get? s'.data k = some e' → SameVerdict e e'
  | _, _ => True

/-- **the order-insensitive comparison of two `getArrays` results** (Python's `dict.__eq__` on the
    returned dictionaries): the same (channel, output) pairs, listed in any order -/
def SameArrays (o o' : Dict Chan Element.ChOut) : Prop := o.Perm o'

/-- ... which, for a result that lists no channel twice, is the look-up statement "same channel →
    same output" (and the same number of channels) -/
theorem sameArrays_lookup (o o' : Dict Chan Element.ChOut) (hwf : Dict.WF o) (h : SameArrays o o') :
    o.length = o'.length ∧ ∀ ch, Dict.get? o ch = Dict.get? o' ch :=
  ⟨h.length_eq, fun ch => Dict.get?_perm hwf h ch⟩

/-- conversely, two results without repeated channels that answer every look-up alike are
    `SameArrays` -/
theorem sameArrays_of_lookup (o o' : Dict Chan Element.ChOut) (hwf : Dict.WF o) (hwf' : Dict.WF o')
    (h : ∀ ch, Dict.get? o ch = Dict.get? o' ch) : SameArrays o o' := by
  refine (List.perm_ext_iff_of_nodup (Dict.wf_nodup hwf) (Dict.wf_nodup hwf')).mpr ?_
  rintro ⟨k, v⟩
  constructor
  · intro hm
    have := Dict.get?_eq_some_of_mem hwf k v hm
    rw [h k] at this
    exact Dict.mem_of_get?_eq_some k v this
  · intro hm
    have := Dict.get?_eq_some_of_mem hwf' k v hm
    rw [← h k] at this
    exact Dict.mem_of_get?_eq_some k v this

/-- **equal elements at equal channel sample rates hold the same channel entries** - literally the
    same (id, blueprint / arrays, flags) records, listed in any order.  (`…_partial`: the sample
    rate hypothesis `ElSR` is D23.) -/
theorem el_eq_chans_perm_partial (a b : Element) (ha : Dict.WF a.chans) (hb : Dict.WF b.chans) (h : a.beq b = true)
    (hsr : ElSR a b) : ElPerm a b := by
  have := Dict.eqBy_map_perm Element.entEq ha hb h id (by
    intro k x y hx hy hxy
    have := entEq_eq_of_sr x y hxy
      (hsr k x y (Dict.get?_eq_some_of_mem ha k x hx) (Dict.get?_eq_some_of_mem hb k y hy))
    rw [this])
  show a.chans.Perm b.chans
  simpa using this

/-- helper: `getArrays` lists the element's channels, in the element's order -/
theorem getArrays_keys_light (e : Element) (t : Bool) (arr : Dict Chan Element.ChOut) (h : e.getArrays t = .ok arr) :
    Dict.keys arr = Dict.keys e.chans := by
  apply mapM_keyed_keys (fun p => Element.chanOut t p.2) e.chans arr
  rw [← h]
  unfold Element.getArrays
  congr 1

/-- **equal elements forge to the same arrays whatever the order in which their channels were
    added**: if `a == b` and every common channel has the same sample rate on both sides, then
    `getArrays` succeeds on both or on neither, and the two results hold the same channels with the
    same outputs (`SameArrays`; as look-ups: every channel id gives the same output in both).
    No validation proviso is needed here: `Element.getArrays` does not call `validateDurations`.
    (`…_partial`: `ElSR` is the D23 hypothesis.) -/
theorem el_eq_forge_anyorder_partial (a b : Element) (ha : Dict.WF a.chans) (hb : Dict.WF b.chans)
    (h : a.beq b = true) (hsr : ElSR a b) (t : Bool) :
    (∀ o, a.getArrays t = .ok o → ∃ o', b.getArrays t = .ok o' ∧ SameArrays o o' ∧
      ∀ ch, Dict.get? o ch = Dict.get? o' ch) ∧
    (∀ o', b.getArrays t = .ok o' → ∃ o, a.getArrays t = .ok o ∧ SameArrays o o' ∧
      ∀ ch, Dict.get? o ch = Dict.get? o' ch) := by
  have hp := el_eq_chans_perm_partial a b ha hb h hsr
  constructor
  · intro o ho
    obtain ⟨o', ho', hperm⟩ := hp.getArrays t o ho
    have hwf : Dict.WF o := by unfold Dict.WF; rw [getArrays_keys_light a t o ho]; exact ha
    exact ⟨o', ho', hperm, (sameArrays_lookup o o' hwf hperm).2⟩
  · intro o' ho'
    have hp' : ElPerm b a := List.Perm.symm hp
    obtain ⟨o, ho, hperm⟩ := hp'.getArrays t o' ho'
    have hwf : Dict.WF o := by unfold Dict.WF; rw [getArrays_keys_light a t o ho]; exact ha
    have hperm' : SameArrays o o' := List.Perm.symm hperm
    exact ⟨o, ho, hperm', (sameArrays_lookup o o' hwf hperm').2⟩

/-! The sequence-level statements - `seq_eq_forge_content_anyorder_partial` (equal sequences forge to
    `ForgedSame` results whatever the insertion orders of positions, inner positions and channels),
    its two-directional form and the version for API-built sequences (no validation proviso) - are
    in `BB/Proofs/G13C20.lean` (namespace `BB.C20`): their proofs need the delay / forge lemmas whose
    imports would change the simp set of `Properties/C19.lean`, which imports this file. -/

/-- helper: equal stored entries (equal sample rates, same verdicts) hold the same channel entries, in any order -/
theorem entry_eq_look_partial (x y : Entry) (hx : EntryWF x) (hy : EntryWF y) (h : x.beq y = true)
    (hsr : EntSR x y) (hv : EntVerdict x y) : EntLook ElPV x y := by
  cases x with
  | el a => cases y with
    | el b => exact ⟨el_eq_chans_perm_partial a b hx hy h hsr, hv⟩
    | sub _ => simp [Entry.beq] at h
  | sub a => cases y with
    | el _ => simp [Entry.beq] at h
    | sub b =>
      obtain ⟨a1, a2, a3, a4⟩ := hx
      obtain ⟨b1, b2, b3, b4⟩ := hy
      simp only [Entry.beq, Bool.and_eq_true] at h
      obtain ⟨⟨h1, h2⟩, h3⟩ := h
      refine ⟨⟨a1, b1, ?_, ?_⟩, Dict.eqBy_beq_get? a2 b2 h2, Dict.eqBy_beq_get? a3 b3 h3⟩
      · exact (List.perm_ext_iff_of_nodup a1 b1).mpr (fun k => (Dict.eqBy_keys _ a1 b1 h1 k).symm)
      · intro k e e' he he'
        obtain ⟨y2, hy2, hee⟩ := ((Dict.eqBy_iff _ a1).mp h1).2 k e he
        rw [he'] at hy2
        cases hy2
        exact ⟨el_eq_chans_perm_partial e e' (a4 e (Dict.mem_vals_of_get? he)) (b4 e' (Dict.mem_vals_of_get? he')) hee
          (hsr k e e' he he'), hv k e e' he he'⟩

/-- helper (C20, symmetry of `ForgedSame`): a pointwise relation read the other way round -/
theorem forall2_flip {α β : Type} {R : α → β → Prop} {S : β → α → Prop} (hRS : ∀ x y, R x y → S y x)
    {l : List α} {l' : List β} (h : List.Forall₂ R l l') : List.Forall₂ S l' l := by
  induction h with
  | nil => exact List.Forall₂.nil
  | cons hxy _ ih => exact List.Forall₂.cons (hRS _ _ hxy) ih

/-- `ForgedSame` is symmetric -/
theorem forgedSame_symm {out out' : List (Nat × ForgedPos)} (h : ForgedSame out out') : ForgedSame out' out :=
  forall2_flip (fun _ _ hxy => ⟨hxy.1.symm, hxy.2.1.symm, hxy.2.2.1.symm,
    forall2_flip (fun _ _ huv => ⟨huv.1.symm, huv.2.1.symm, huv.2.2.symm⟩) hxy.2.2.2⟩) h

/-- helper (C20): the sample-rate hypothesis is symmetric -/
theorem entSR_symm {x y : Entry} (h : EntSR x y) : EntSR y x := by
  cases x <;> cases y <;> simp only [EntSR] at h ⊢
  · exact fun ch u v hu hv => (h ch v u hv hu).symm
  · exact fun k e e' he he' ch u v hu hv => (h k e' e he' he ch v u hv hu).symm

/-- helper (C20): the validation proviso is symmetric -/
theorem entVerdict_symm {x y : Entry} (h : EntVerdict x y) : EntVerdict y x := by
  cases x <;> cases y <;> simp only [EntVerdict] at h ⊢
  · exact Iff.symm h
  · exact fun k e e' he he' => Iff.symm (h k e' e he' he)

/-- helper (C20, `forgedSame_lookup`): a pointwise relation, entry by entry -/
theorem forall2_getElem {α β : Type} {R : α → β → Prop} {l : List α} {l' : List β} (h : List.Forall₂ R l l')
    (i : Nat) (h1 : i < l.length) (h2 : i < l'.length) : R l[i] l'[i] := by
  induction h generalizing i with
  | nil => simp at h1
  | cons hxy _ ih =>
    cases i with
    | zero => exact hxy
    | succ i => simpa using ih i (by simpa using h1) (by simpa using h2)

/-- **`ForgedSame` as a look-up statement**: at every position `i` the two results carry the same
    position number, sequencing entry and type and equally many content entries; at every content
    entry `j` the same inner position and inner sequencing, the channel dictionaries are
    permutations of each other, and - when the first lists no channel twice - every channel id
    gives the same output (arrays, flags, time option, filter annotation) in both -/
theorem forgedSame_lookup (out out' : List (Nat × ForgedPos)) (h : ForgedSame out out') :
    out.length = out'.length ∧
    ∀ i (hi : i < out.length) (hi' : i < out'.length),
      (out[i]).1 = (out'[i]).1 ∧ (out[i]).2.sequencing = (out'[i]).2.sequencing ∧
      (out[i]).2.isSub = (out'[i]).2.isSub ∧ (out[i]).2.content.length = (out'[i]).2.content.length ∧
      ∀ j (hj : j < (out[i]).2.content.length) (hj' : j < (out'[i]).2.content.length),
        ((out[i]).2.content[j]).1 = ((out'[i]).2.content[j]).1 ∧
        ((out[i]).2.content[j]).2.2 = ((out'[i]).2.content[j]).2.2 ∧
        (((out[i]).2.content[j]).2.1).Perm (((out'[i]).2.content[j]).2.1) ∧
        (Dict.WF ((out[i]).2.content[j]).2.1 →
          ∀ ch, Dict.get? ((out[i]).2.content[j]).2.1 ch = Dict.get? ((out'[i]).2.content[j]).2.1 ch) := by
  refine ⟨forall2_length h, fun i hi hi' => ?_⟩
  obtain ⟨p1, p2, p3, p4⟩ := forall2_getElem h i hi hi'
  refine ⟨p1, p2, p3, forall2_length p4, fun j hj hj' => ?_⟩
  obtain ⟨c1, c2, c3⟩ := forall2_getElem p4 j hj hj'
  exact ⟨c1, c3, c2, fun hwf ch => Dict.get?_perm hwf c2 ch⟩

/-! #### the proviso cannot be dropped -/

/-- channel 1 lasts 20 s, channel 2 lasts 20.1002005 s (two samples each at 0.1 Sa/s, so both
    forge); stored in either order -/
def slow2_el (ch1First : Bool) : Element :=
  if ch1First then
    ⟨[(Chan.int 1, ⟨.bp (slow_bp 20), none⟩), (Chan.int 2, ⟨.bp (slow_bp (201002005 / 10000000)), none⟩)], none⟩
  else
    ⟨[(Chan.int 2, ⟨.bp (slow_bp (201002005 / 10000000)), none⟩), (Chan.int 1, ⟨.bp (slow_bp 20), none⟩)], none⟩

/-- a one-position sequence at 0.1 Sa/s holding `slow2_el` with its channels in either order -/
def slow_seq (ch1First : Bool) : Sequence :=
  { data := [(1, .el (slow2_el ch1First))], sequencing := [(1, Sequence.defaultSeqEl)],
    awgspecs := [("SR", .val (.num (1 / 10)))] }

/-- **without the proviso the statement is false**: two sequences that compare equal both ways
    round and agree in every sample rate, of which one forges and the other raises
    (ElementDurationError from `validateDurations`, whose `numpy.allclose(durations, durations[0])`
    depends on which channel was added first).  Reproduced against the real library at element
    level (`el(1 first) == el(2 first)`, the former raises in `validateDurations`, the latter
    validates and forges).  Through the public API `addElement` refuses the former, so two sequences
    *built by the API* always satisfy the proviso - see `seq_eq_forge_content_anyorder_built_partial`. -/
theorem seq_eq_forge_verdict_counterexample :
    (slow_seq true).beq (slow_seq false) = true ∧ (slow_seq false).beq (slow_seq true) = true ∧
    ((slow_seq false).forge false false false).toOption.isSome = true ∧
    (match (slow_seq true).forge false false false with | .error e => some e | .ok _ => none) = some Err.elemdur := by
  decide +kernel

/-- ... although the D23 hypothesis holds for the pair -/
theorem slow_seq_sr : ∀ pos x y, Dict.get? (slow_seq true).data pos = some x →
    Dict.get? (slow_seq false).data pos = some y → EntSR x y := by
  intro pos x y hx hy
  have h1 := Dict.mem_of_get?_eq_some pos x hx
  have h2 := Dict.mem_of_get?_eq_some pos y hy
  simp only [slow_seq, List.mem_singleton, Prod.mk.injEq] at h1 h2
  obtain ⟨_, rfl⟩ := h1
  obtain ⟨_, rfl⟩ := h2
  intro ch u v hu hv
  have m1 := Dict.mem_of_get?_eq_some ch u hu
  have m2 := Dict.mem_of_get?_eq_some ch v hv
  simp only [slow2_el, if_true, Bool.false_eq_true, if_false, List.mem_cons, Prod.mk.injEq, List.not_mem_nil, or_false] at m1 m2
  rcases m1 with ⟨_, rfl⟩ | ⟨_, rfl⟩ <;> rcases m2 with ⟨_, rfl⟩ | ⟨_, rfl⟩ <;> rfl

/-! #### non-vacuity: the same channels added in the other order, at an element position and inside
    a subsequence whose positions were filled in the other order -/

/-- position 1: the two-channel element; position 2: a subsequence holding it twice -/
def perm_seq (o : Bool) : Sequence :=
  { data := [(1, .el (if o then order_el 1 2 else order_el 2 1)),
             (2, .sub { data := if o then [(1, order_el 1 2), (2, order_el 2 1)] else [(2, order_el 1 2), (1, order_el 2 1)],
                        sequencing := [(1, Sequence.defaultSeqEl), (2, Sequence.defaultSeqEl)],
                        awgspecs := [("SR", .val (.num 10))] })],
    sequencing := [(1, Sequence.defaultSeqEl), (2, Sequence.defaultSeqSub)],
    awgspecs := [("SR", .val (.num 10)), ("channel1_delay", .val (.num (1 / 5)))] }

/-- non-vacuity (C20 any order): the two-channel example element lists no channel twice -/
theorem order_el_wf (i j : Int) (hij : i ≠ j) : Dict.WF (order_el i j).chans := by
  simp [Dict.WF, Dict.keys, order_el, hij]

/-- non-vacuity (C20 any order): the example sequences are well-formed -/
theorem perm_seq_wf (o : Bool) : SeqWF (perm_seq o) := by
  cases o
  all_goals
    refine ⟨by simp [Dict.WF, Dict.keys, perm_seq], by simp [Dict.WF, Dict.keys, perm_seq],
      by simp [Dict.WF, Dict.keys, perm_seq], ?_⟩
    intro en hen
    simp only [perm_seq, Dict.vals, List.map_cons, List.map_nil, List.mem_cons, List.not_mem_nil, or_false,
      Bool.false_eq_true, if_false, if_true] at hen
    rcases hen with rfl | rfl
    · exact order_el_wf _ _ (by decide)
    · refine ⟨by simp [Dict.WF, Dict.keys], by simp [Dict.WF, Dict.keys], by simp [Dict.WF, Dict.keys], ?_⟩
      intro e he
      simp only [Dict.vals, List.map_cons, List.map_nil, List.mem_cons, List.not_mem_nil, or_false] at he
      rcases he with rfl | rfl <;> exact order_el_wf _ _ (by decide)

/-- every channel entry of `order_el` has sample rate 10 -/
theorem order_el_sr (i j : Int) (ch : Chan) (x : ChEntry) (h : Dict.get? (order_el i j).chans ch = some x) :
    Element.chanSR x = .ok (.num 10) := by
  have := Dict.mem_of_get?_eq_some ch x h
  simp only [order_el, List.mem_cons, Prod.mk.injEq, List.not_mem_nil, or_false] at this
  rcases this with ⟨_, rfl⟩ | ⟨_, rfl⟩ <;> rfl

/-- the hypotheses of `seq_eq_forge_content_anyorder_partial` hold for the pair: equal, equal sample
    rates, same verdicts (all four elements validate) -/
theorem perm_seq_hyps :
    (perm_seq true).beq (perm_seq false) = true ∧
    (∀ pos x y, Dict.get? (perm_seq true).data pos = some x → Dict.get? (perm_seq false).data pos = some y → EntSR x y) ∧
    (∀ pos x y, Dict.get? (perm_seq true).data pos = some x → Dict.get? (perm_seq false).data pos = some y →
      EntVerdict x y) := by
  have hv12 : ∃ m, (order_el 1 2).validate = .ok m := ⟨(.num 10, 1), by decide +kernel⟩
  have hv21 : ∃ m, (order_el 2 1).validate = .ok m := ⟨(.num 10, 1), by decide +kernel⟩
  have hel : ∀ e : Element, e = order_el 1 2 ∨ e = order_el 2 1 → ∃ m, e.validate = .ok m := by
    rintro e (rfl | rfl)
    · exact hv12
    · exact hv21
  have hsrel : ∀ e e' : Element, (e = order_el 1 2 ∨ e = order_el 2 1) → (e' = order_el 1 2 ∨ e' = order_el 2 1) →
      ElSR e e' := by
    intro e e' he he' ch u v hu hv
    have h1 : Element.chanSR u = .ok (.num 10) := by
      rcases he with rfl | rfl <;> exact order_el_sr _ _ ch u hu
    have h2 : Element.chanSR v = .ok (.num 10) := by
      rcases he' with rfl | rfl <;> exact order_el_sr _ _ ch v hv
    rw [h1, h2]
  have hsubmem : ∀ (o : Bool) k e, Dict.get? (if o then [((1 : Int), order_el 1 2), (2, order_el 2 1)]
      else [(2, order_el 1 2), (1, order_el 2 1)]) k = some e → e = order_el 1 2 ∨ e = order_el 2 1 := by
    intro o k e hk
    have := Dict.mem_of_get?_eq_some k e hk
    cases o <;> simp only [Bool.false_eq_true, if_false, if_true, List.mem_cons, Prod.mk.injEq, List.not_mem_nil, or_false] at this
    · rcases this with ⟨_, rfl⟩ | ⟨_, rfl⟩ <;> simp
    · rcases this with ⟨_, rfl⟩ | ⟨_, rfl⟩ <;> simp
  refine ⟨by decide +kernel, ?_, ?_⟩
  · intro pos x y hx hy
    have h1 := Dict.mem_of_get?_eq_some pos x hx
    have h2 := Dict.mem_of_get?_eq_some pos y hy
    simp only [perm_seq, if_true, Bool.false_eq_true, if_false, List.mem_cons, Prod.mk.injEq, List.not_mem_nil,
      or_false] at h1 h2
    rcases h1 with ⟨rfl, rfl⟩ | ⟨rfl, rfl⟩ <;> rcases h2 with ⟨h2, rfl⟩ | ⟨h2, rfl⟩ <;> simp only [EntSR]
    · exact hsrel _ _ (Or.inl rfl) (Or.inr rfl)
    · exact fun k e e' he he' => hsrel _ _ (hsubmem true k e he) (hsubmem false k e' he')
  · intro pos x y hx hy
    have h1 := Dict.mem_of_get?_eq_some pos x hx
    have h2 := Dict.mem_of_get?_eq_some pos y hy
    simp only [perm_seq, if_true, Bool.false_eq_true, if_false, List.mem_cons, Prod.mk.injEq, List.not_mem_nil,
      or_false] at h1 h2
    rcases h1 with ⟨rfl, rfl⟩ | ⟨rfl, rfl⟩ <;> rcases h2 with ⟨h2, rfl⟩ | ⟨h2, rfl⟩ <;> simp only [EntVerdict]
    · exact ⟨fun _ => hv21, fun _ => hv12⟩
    · exact fun k e e' he he' => ⟨fun _ => hel e' (hsubmem false k e' he'), fun _ => hel e (hsubmem true k e he)⟩

/-- both forge (delays on: channel 1 is delayed by two samples), and the results list the
    channels in different orders - which `ForgedSame` identifies -/
example :
    ((perm_seq true).forge true false false).toOption.map (fun out => out.map (fun p => p.2.content.map (fun c =>
      c.2.1.map (fun x => (x.1, outN (.ok x.2.out)))))) =
      some [[[(.int 1, some 12), (.int 2, some 12)]],
            [[(.int 1, some 12), (.int 2, some 12)], [(.int 2, some 12), (.int 1, some 12)]]] ∧
    ((perm_seq false).forge true false false).toOption.map (fun out => out.map (fun p => p.2.content.map (fun c =>
      c.2.1.map (fun x => (x.1, outN (.ok x.2.out)))))) =
      some [[[(.int 2, some 12), (.int 1, some 12)]],
            [[(.int 2, some 12), (.int 1, some 12)], [(.int 1, some 12), (.int 2, some 12)]]] := by
  constructor <;> decide +kernel

/-- non-vacuity of `el_eq_forge_anyorder_partial`: the two-channel elements -/
example : (order_el 1 2).beq (order_el 2 1) = true ∧ ElSR (order_el 1 2) (order_el 2 1) ∧
    ((order_el 1 2).getArrays true).toOption.isSome = true :=
  ⟨by decide +kernel, fun ch u v hu hv => by rw [order_el_sr _ _ ch u hu, order_el_sr _ _ ch v hv], by decide +kernel⟩

end BB.C20
